"""Shared machinery of the TLExport verification checks (see DESIGN.md §2.1).

A check is a Python module `harness/cNN.py` exposing `run(ctx)`.  It uses the stages below:

  ctx.prove([...])        lake-build the property's Lean modules, audit every theorem's axioms
  ctx.driver(lines)       run the executable Lean model behind the line protocol
  ctx.disagree(...)       record a model/implementation disagreement (correspondence broke)
  ctx.fail(...)           record a concrete failure of the *property itself* on the real code
  ctx.finish()            verdict, evidence file, exit status

Exit status: 0 property held on everything explored (KNOWN-FINDING lines allowed),
             1 with `VIOLATION property=<id> replay=<path>[ no-failing-input-found]`,
             2 harness-internal failure (never a VIOLATION line).
"""
import hashlib
import json
import os
import random
import re
import subprocess
import sys
import time
import traceback

ROOT = os.path.dirname(os.path.dirname(os.path.abspath(__file__)))
REPO = os.environ.get("TLX_REPO", "/repo")
LEAN = os.path.join(ROOT, "lean")
DRIVER = os.path.join(LEAN, ".lake", "build", "bin", "tlxdriver")
# runs against a scratch tree (seeded changes, drafts of repairs) must not overwrite the evidence of the real tree
EVID = os.path.join(ROOT, "evidence") if os.path.realpath(REPO) == "/repo" else os.path.join(ROOT, "evidence", "scratch")
REPLAYS = os.path.join(ROOT, "evidence", "replays")
ALLOWED_AXIOMS = {"propext", "Classical.choice", "Quot.sound"}
FORBIDDEN = re.compile(r"\bsorry\b|\badmit\b|^axiom\s|native_decide|bv_decide|implemented_by|\bunsafe\s|maxHeartbeats 0")

TRUSTED_BASE = [
    "Lean 4.33.0 kernel (thorough tier: re-checked by leanchecker)",
    "axioms allowed: propext, Classical.choice, Quot.sound (audited per theorem on every run); no sorry/native_decide/bv_decide/own axioms",
    "statements of the property theorems in lean/TLX/Props and of the independent specs in lean/TLX/Spec",
    "hand-written Lean models of TLExport code, tied to /repo by the correspondence runners of harness/ (differential execution, sampled)",
    "harness: extractor (harness/extract.py), tracing/correspondence runners, independent senders and strict reader",
    "translator tie (checks that prove TLX.Props.Translated.*): harness/py2lean.py + lean/TLX/PyRt.lean (hand-written meaning of the Python subset, compared with CPython by harness/tr_selftest.py) regenerate decision-logic functions from the source on every run; the `_eq_model` theorems prove them equal to the hand-written model functions",
    "not modelled: cryptographic primitives (parameters with law hypotheses / toy instance; real in the oracles), record compression, argparse, re, CPython; dpkt's dissection/reader/writer and scapy's serialiser are modelled as measured from the installed libraries and compared byte for byte on every run",
]


class HarnessError(Exception):
    pass


def sh(cmd, cwd=None, timeout=3600, env=None, input=None):
    e = dict(os.environ)
    if env:
        e.update(env)
    p = subprocess.run(cmd, cwd=cwd, env=e, input=input, stdout=subprocess.PIPE, stderr=subprocess.STDOUT,
                       timeout=timeout, text=True)
    return p.returncode, p.stdout


def lake(args, timeout=3600):
    """Run lake under a lock so concurrent checks do not trample the build directory."""
    lock = os.path.join(LEAN, ".lake-lock")
    return sh(["flock", lock, "lake"] + args, cwd=LEAN, timeout=timeout)


def strip_comments(src):
    """Remove Lean block comments (nested) and line comments, for the forbidden-token grep."""
    out = []
    i, depth, n = 0, 0, len(src)
    while i < n:
        if src.startswith("/-", i):
            depth += 1
            i += 2
        elif depth and src.startswith("-/", i):
            depth -= 1
            i += 2
        elif depth:
            if src[i] == "\n":
                out.append("\n")
            i += 1
        elif src.startswith("--", i):
            while i < n and src[i] != "\n":
                i += 1
        else:
            out.append(src[i])
            i += 1
    return "".join(out)


def lean_imports_closure(modules):
    """All TLX.* modules reachable from `modules` through import lines (for the forbidden-token grep)."""
    seen, todo = set(), list(modules)
    while todo:
        m = todo.pop()
        if m in seen:
            continue
        seen.add(m)
        path = os.path.join(LEAN, *m.split(".")) + ".lean"
        if not os.path.exists(path):
            continue
        for line in open(path):
            mm = re.match(r"\s*(?:public\s+)?import\s+(TLX[\w.]*)", line)
            if mm:
                todo.append(mm.group(1))
    return sorted(seen)


class Ctx:
    def __init__(self, pid, tier, seed):
        self.pid = pid
        self.tier = tier
        self.seed = seed
        self.t0 = time.time()
        self.rng = random.Random((seed << 8) ^ int(pid[1:]))
        self.theorems = {}          # name -> axioms
        self.proof_problems = []    # proof stage broke
        self.disagreements = []     # model vs implementation
        self.failures = []          # the property itself fails on the real code (with input)
        self.known = []             # failures matched by known_findings.json
        self.corr = {}              # correspondence point -> {cases, distinct, disagreements}
        self.oracle = {}            # oracle -> {runs, distinct, violations}
        self.samples = []
        self.distribution = {}
        self.evaluations = 0
        self.distinct = set()
        self.rule = ""
        self.notes = []
        self.extra = {}
        self.checker_cmds = []
        self.gen_tables = {}
        self.exhaustive = None
        kf = os.path.join(ROOT, "known_findings.json")
        self.known_findings = json.load(open(kf)) if os.path.exists(kf) else []

    # ------------------------------------------------------------------ budget
    def thorough(self):
        return self.tier == "thorough"

    def n(self, quick, thorough):
        return thorough if self.thorough() else quick

    # ------------------------------------------------------------------ proof stage
    def prove(self, modules, extra_targets=("tlxdriver",)):
        """Build the property's theorem modules (+ driver) and audit the axioms of every theorem."""
        targets = list(modules) + list(extra_targets) + ["TLX.Audit"]
        rc, out = lake(["build"] + targets)
        self.checker_cmds.append("cd lean && lake build " + " ".join(targets))
        if rc != 0:
            errs = [l for l in out.splitlines() if "error" in l.lower()][:20]
            self.proof_problems.append({"kind": "build", "modules": list(modules), "errors": errs,
                                        "log_tail": out.splitlines()[-40:]})
            # try to get the driver anyway (the correspondence and the search need it)
            lake(["build"] + list(extra_targets))
            return False
        os.makedirs(os.path.join(LEAN, ".audit"), exist_ok=True)
        ok = True
        # one Lean process audits all modules (the import closure is loaded once)
        tagn = hashlib.sha1(" ".join(modules).encode()).hexdigest()[:10]
        f = os.path.join(LEAN, ".audit", f"audit_{self.pid}_{tagn}.lean")
        with open(f, "w") as fh:
            fh.write("import TLX.Audit\n" + "".join(f"import {m}\n" for m in modules) +
                     "".join(f"#audit_module {m}\n" for m in modules))
        rc, out = sh(["lake", "env", "lean", f], cwd=LEAN)
        self.checker_cmds.append(f"cd lean && lake env lean .audit/{os.path.basename(f)}")
        counted = set()
        # Lean wraps messages longer than its line width: match across line breaks
        for mm in re.finditer(r"AUDIT-THEOREM\s+(\S+)\s+AXIOMS\s+\[(.*?)\]", out, re.S):
            axs = [a.strip() for a in mm.group(2).split(",") if a.strip()]
            self.theorems[mm.group(1)] = axs
            bad = [a for a in axs if a not in ALLOWED_AXIOMS]
            if bad:
                ok = False
                self.proof_problems.append({"kind": "axioms", "theorem": mm.group(1), "axioms": bad})
        for mm in re.finditer(r"AUDIT-COUNT\s+(\S+)\s+(\d+)", out):
            counted.add(mm.group(1))
        missing = [m for m in modules if m not in counted]
        if rc != 0 or missing:
            ok = False
            self.proof_problems.append({"kind": "audit", "modules": missing or list(modules), "log_tail": out.splitlines()[-20:]})
        # forbidden tokens outside comments, in every TLX module the theorems depend on
        for m in lean_imports_closure(modules):
            path = os.path.join(LEAN, *m.split(".")) + ".lean"
            if not os.path.exists(path) or m == "TLX.Audit":
                continue
            for ln, line in enumerate(strip_comments(open(path).read()).splitlines(), 1):
                if FORBIDDEN.search(line):
                    ok = False
                    self.proof_problems.append({"kind": "forbidden-token", "file": path, "line": ln, "text": line.strip()})
        if self.thorough() and ok:
            rc, out = sh(["lake", "env", "leanchecker"] + list(modules), cwd=LEAN, timeout=3600)
            self.checker_cmds.append("cd lean && lake env leanchecker " + " ".join(modules))
            if rc != 0:
                ok = False
                self.proof_problems.append({"kind": "leanchecker", "log_tail": out.splitlines()[-20:]})
        return ok

    def require_theorems(self, names):
        """The property theorems that must be present (a deleted theorem is a broken obligation)."""
        for nme in names:
            if nme not in self.theorems and not any(p.get("kind") == "build" for p in self.proof_problems):
                self.proof_problems.append({"kind": "missing-theorem", "theorem": nme})

    # ------------------------------------------------------------------ model execution
    def driver(self, module, lines, timeout=600):
        if not os.path.exists(DRIVER):
            raise HarnessError("tlxdriver not built")
        data = "\n".join(lines) + "\n"
        p = subprocess.run([DRIVER, module], input=data, stdout=subprocess.PIPE, stderr=subprocess.PIPE, text=True,
                           timeout=timeout)
        if p.returncode != 0:
            raise HarnessError(f"tlxdriver exited {p.returncode}: {p.stderr[-500:]}")
        out = p.stdout.split("\n")
        if out and out[-1] == "":
            out.pop()
        if len(out) != len(lines):
            raise HarnessError(f"tlxdriver: {len(lines)} requests, {len(out)} replies")
        return out

    # ------------------------------------------------------------------ bookkeeping
    def count(self, case_key, nontrivial=True):
        self.evaluations += 1
        if nontrivial:
            self.distinct.add(hashlib.sha1(repr(case_key).encode()).digest()[:8])

    def hist(self, name, key):
        d = self.distribution.setdefault(name, {})
        d[str(key)] = d.get(str(key), 0) + 1

    def sample(self, obj, cap=6):
        if len(self.samples) < cap:
            self.samples.append(obj)

    def point(self, name):
        return self.corr.setdefault(name, {"cases": 0, "disagreements": 0})

    def disagree(self, point, case, impl, model):
        p = self.point(point)
        p["disagreements"] += 1
        if len(self.disagreements) < 20:
            self.disagreements.append({"point": point, "case": case, "impl": impl, "model": model})

    def fail(self, signature, what, case, expected=None, actual=None, how=None):
        """A concrete input on which the property itself fails on the real code."""
        for kf in self.known_findings:
            if kf.get("property") == self.pid and kf.get("status") == "open" and kf.get("signature") == signature:
                if not any(k["signature"] == signature for k in self.known):
                    self.known.append({"signature": signature, "what": kf.get("what", what)})
                return
        if len(self.failures) < 20:
            self.failures.append({"signature": signature, "what": what, "case": case, "expected": expected,
                                  "actual": actual, "how_to_replay": how})

    # ------------------------------------------------------------------ verdict
    def write_replay(self, obj):
        os.makedirs(REPLAYS, exist_ok=True)
        blob = json.dumps(obj, sort_keys=True, default=str)
        path = os.path.join(REPLAYS, f"{self.pid}-{hashlib.sha256(blob.encode()).hexdigest()[:12]}.json")
        with open(path, "w") as fh:
            json.dump(obj, fh, indent=1, sort_keys=True, default=str)
        return os.path.relpath(path, ROOT)

    def finish(self, search=None):
        """search: callable(ctx) run when a proof or correspondence broke without a property failure
        at hand; it calls ctx.fail(...) for what it finds."""
        broken = bool(self.proof_problems or self.disagreements)
        if broken and not self.failures and search is not None:
            try:
                search(self)
            except Exception:
                self.notes.append("search raised: " + traceback.format_exc()[-800:])
        violations = 0
        lines = []
        for k in self.known:
            lines.append(f"KNOWN-FINDING: property={self.pid} {k['signature']} — {k['what']}")
        if self.failures:
            f = self.failures[0]
            path = self.write_replay({"property": self.pid, "kind": "failing-input", "found_failing_input": True,
                                      "seed": self.seed, "tier": self.tier, **f,
                                      "other_failures": self.failures[1:5],
                                      "broken": {"proof": self.proof_problems[:5], "correspondence": self.disagreements[:5]}})
            lines.append(f"VIOLATION property={self.pid} replay={path}")
            violations = len(self.failures)
        elif broken:
            path = self.write_replay({"property": self.pid, "kind": "proof-or-correspondence", "found_failing_input": False,
                                      "seed": self.seed, "tier": self.tier,
                                      "broken": {"proof": self.proof_problems[:10],
                                                 "correspondence": self.disagreements[:10]},
                                      "note": "the theorem(s) / correspondence point(s) named here no longer check; "
                                              "the failing-input search on model and implementation found no input on "
                                              "which the property itself fails"})
            lines.append(f"VIOLATION property={self.pid} replay={path} no-failing-input-found")
            violations = 1
        self.write_evidence(violations)
        for l in lines:
            print(l)
        sys.stdout.flush()
        return 1 if violations else 0

    def write_evidence(self, violations):
        os.makedirs(EVID, exist_ok=True)
        obligations = len(self.theorems)
        bad_thms = {p.get("theorem") for p in self.proof_problems if p.get("kind") in ("axioms",)}
        discharged = 0 if any(p["kind"] in ("build", "audit", "forbidden-token", "leanchecker") for p in self.proof_problems) \
            else len([t for t in self.theorems if t not in bad_thms])
        cov = {
            "obligations": obligations,
            "discharged": discharged,
            "checker_cmd": " && ".join("(" + c + ")" for c in dict.fromkeys(self.checker_cmds)) or "(cd lean && lake build)",
            "trusted_base": TRUSTED_BASE,
            "theorems": self.theorems,
            "evaluations": self.evaluations,
            "distinct_nontrivial": len(self.distinct),
            "rule": self.rule,
            "samples": self.samples or ["(no sampled case on this run)"],
            "correspondence": self.corr,
            "oracle": self.oracle,
            "distribution": self.distribution,
            "gen_tables": self.gen_tables,
            "proof_problems": self.proof_problems[:10],
            "known_findings_hit": self.known,
            "notes": self.notes,
        }
        if self.exhaustive is not None:
            cov["exhaustive"] = self.exhaustive
        cov.update(self.extra)
        ev = {
            "property_id": self.pid,
            "tier": self.tier,
            "seed": self.seed,
            # a check whose Lean part is not built yet has no proof obligations: it reports what it is, an exploration
            "level": "proof" if obligations > 0 else "exploration",
            "coverage": cov,
            "assumptions": self.assumptions if hasattr(self, "assumptions") else [],
            "wall_s": round(time.time() - self.t0, 2),
            "violations": violations,
        }
        problems = validate_evidence(ev)
        if problems and not violations:
            raise HarnessError("evidence does not validate: " + "; ".join(problems))
        if problems:
            ev["coverage"]["evidence_problems"] = problems      # the run reports a violation anyway
        tmp = os.path.join(EVID, f".{self.pid}.json.tmp")
        with open(tmp, "w") as fh:
            json.dump(ev, fh, indent=1, default=str)
        os.replace(tmp, os.path.join(EVID, f"{self.pid}.json"))


def validate_evidence(ev):
    """Structural check against /root/.vp/EVIDENCE.schema.json (jsonschema is not in /venv)."""
    probs = []
    for k in ("property_id", "tier", "seed", "level", "coverage", "wall_s"):
        if k not in ev:
            probs.append("missing " + k)
    if ev.get("tier") not in ("quick", "thorough"):
        probs.append("tier")
    if not isinstance(ev.get("seed"), int):
        probs.append("seed")
    c = ev.get("coverage", {})
    if ev.get("level") == "proof":
        for k in ("obligations", "discharged"):
            if not isinstance(c.get(k), int) or c.get(k) < 1:
                # fall back to the generic keys
                if not (isinstance(c.get("evaluations"), int) and c["evaluations"] >= 1
                        and isinstance(c.get("distinct_nontrivial"), int) and c["distinct_nontrivial"] >= 2):
                    probs.append(f"coverage.{k} < 1 and no generic fallback")
        if not (isinstance(c.get("checker_cmd"), str) and c["checker_cmd"].strip()):
            probs.append("checker_cmd")
        if not isinstance(c.get("trusted_base"), list):
            probs.append("trusted_base")
    if "samples" in c and (not isinstance(c["samples"], list) or not c["samples"]):
        probs.append("samples")
    if "exhaustive" in c and not isinstance(c["exhaustive"], bool):
        probs.append("exhaustive must be a boolean")
    for k in ("evaluations", "distinct_nontrivial", "obligations", "discharged", "states", "transitions"):
        if k in c and not (isinstance(c[k], int) and c[k] >= 0):
            probs.append(k + " must be a non-negative integer")
    return probs


class quiet:
    """Silence the implementation's print()s while it is driven in-process."""
    def __enter__(self):
        self._o = sys.stdout
        sys.stdout = open(os.devnull, "w")
    def __exit__(self, *a):
        sys.stdout.close()
        sys.stdout = self._o


def main(run_fn_by_pid):
    import argparse
    import logging
    logging.disable(logging.CRITICAL)
    ap = argparse.ArgumentParser()
    ap.add_argument("pid")
    ap.add_argument("--tier", default=os.environ.get("VERIF_TIER", "quick"))
    ap.add_argument("--replay")
    a = ap.parse_args()
    seed = int(os.environ.get("VERIF_SEED", "0") or 0)
    tier = a.tier if a.tier in ("quick", "thorough") else "quick"
    ctx = Ctx(a.pid, tier, seed)
    try:
        mod = run_fn_by_pid(a.pid)
        if a.replay:
            obj = json.load(open(a.replay))
            rc = mod.replay(ctx, obj)
        else:
            rc = mod.run(ctx)
        sys.exit(rc)
    except HarnessError as e:
        print(f"HARNESS-ERROR {a.pid}: {e}", file=sys.stderr)
        sys.exit(2)
    except subprocess.TimeoutExpired as e:
        print(f"HARNESS-TIMEOUT {a.pid}: {e}", file=sys.stderr)
        sys.exit(2)
    except SystemExit:
        raise
    except BaseException as e:  # noqa  — a bug in the harness is never a verdict about the property
        traceback.print_exc()
        # … but an exception raised INSIDE the tree under test while a probe drove one of its functions on state the harness prepared
        # (bare objects, patched collaborators) means that probe no longer corresponds to the code: a broken correspondence, reported as such
        root = os.path.realpath(os.environ.get("TLX_REPO", "/repo"))
        tb = traceback.extract_tb(e.__traceback__)
        if tb and os.path.realpath(tb[-1].filename).startswith(root + os.sep) and not a.replay:
            try:
                ctx.disagree("probe of a real function on harness-prepared state", {"frames": [f"{os.path.relpath(fr.filename, root) if os.path.realpath(fr.filename).startswith(root) else os.path.basename(fr.filename)}:{fr.lineno} {fr.name}" for fr in tb[-4:]]},
                             f"raises {type(e).__name__}: {str(e)[:200]}", "the probe expects the function to run on the state it prepares")
                sys.exit(ctx.finish(search=None))
            except SystemExit:
                raise
            except BaseException:  # noqa
                traceback.print_exc()
        print(f"HARNESS-ERROR {a.pid}: unexpected exception in the check itself", file=sys.stderr)
        sys.exit(2)
