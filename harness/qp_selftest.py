"""Standalone run of the whole-program QUIC correspondence (qp): [proofs + axiom audit +] real tool vs composed model.
   cd /root/wt/qp && PYTHONPATH=/repo:harness /venv/bin/python -W ignore harness/qp_selftest.py [n [seed [noprove]]]"""
import json
import sys
import time

import fw
import quic_pipeline_corr as Q


def main():
    n = int(sys.argv[1]) if len(sys.argv) > 1 else 80
    seed = int(sys.argv[2]) if len(sys.argv) > 2 else 0
    prove = not (len(sys.argv) > 3 and sys.argv[3] == "noprove")
    ctx = fw.Ctx("C02", "quick", seed)
    t0 = time.time()
    ok = True
    if prove:
        ok = ctx.prove(Q.MODULES)
        ctx.require_theorems(Q.THEOREMS)
    t1 = time.time()
    Q.correspond(ctx, n)
    t2 = time.time()
    print(f"seed={seed} prove ok={ok} ({t1 - t0:.1f}s)  theorems audited={len(ctx.theorems)}  proof problems={len(ctx.proof_problems)}")
    for p in ctx.proof_problems[:10]:
        print("  PROOF-PROBLEM", json.dumps(p)[:600])
    print(f"correspondence ({t2 - t1:.1f}s): evaluations={ctx.evaluations} non-trivial distinct={len(ctx.distinct)}")
    for name, p in ctx.corr.items():
        print(f"  {name}: cases={p['cases']} disagreements={p['disagreements']}")
    for name in sorted(ctx.distribution):
        print(f"  {name}: " + ", ".join(f"{k}={v}" for k, v in sorted(ctx.distribution[name].items())))
    for d in ctx.disagreements[:6]:
        print("  DISAGREE", json.dumps(d["case"]["desc"], default=str)[:700])
        print("     impl :", d["impl"][:400])
        print("     model:", d["model"][:400])
    if ctx.disagreements:
        with open("/tmp/qp_disagree.json", "w") as fh:
            json.dump(ctx.disagreements, fh, default=str)
        print("  (all disagreements with captures: /tmp/qp_disagree.json)")
    bad = (not ok) or ctx.proof_problems or ctx.disagreements
    print("RESULT", "FAIL" if bad else "OK")
    return 1 if bad else 0


if __name__ == "__main__":
    sys.exit(main())
