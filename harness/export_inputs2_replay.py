"""Replays of the file-to-file theorems of lean/TLX/Props/ExportInputs2.lean on the REAL tool (toy world):

 C09  `export_key_delivery_files`, `export_key_delivery_files_tls`: one TLS capture; the secrets as `-s` file only, as one DSB
      in front, as two DSBs cut at a line boundary (CRLF in one), as `-s` file + DSB, as a DSB in the MIDDLE and at the END of the
      packets: the output files must be byte-identical.
 C11  `export_checksum_filter_file`: one segment of the capture gets a wrong TCP checksum; the run with `-c` on that capture
      against the run without `-c` on the capture re-written without that packet block.
 C03  `export_bystander_unaffected_encoded`: the capture with a second conversation and junk mixed in against the capture
      without them: the bystander's frames are the same.

    PYTHONPATH=$TLX_REPO:harness python harness/export_inputs2_replay.py
"""
import random

import e2e
import pipeline_corr
import tool
import wire


def rows(out):
    return [] if not out else [(us, d["sport"], d["dport"], d.get("flags", 0), d["payload"]) for us, d in wire.read_output(out)]


def main(seed=11):
    rng = random.Random(seed)
    res = {}
    with pipeline_corr.toy_world():
        sc = e2e.Scenario(rng, [(0x009C, "tls12", False)], sports=[443])
        pk = list(sc.items)
        lines = list(sc.keylog)
        text = "\n".join(lines) + "\n"
        half = max(1, len(lines) // 2)
        d1 = ("dsb", ("\r\n".join(lines[:half]) + "\r\n").encode())
        d2 = ("dsb", ("\n".join(lines[half:]) + "\n").encode())
        dsb = ("dsb", text.encode())
        mid = len(pk) // 2
        variants = {
            "-s file only": (wire.pcapng(pk), text),
            "one DSB in front": (wire.pcapng([dsb] + pk), None),
            "two DSBs (CRLF / LF)": (wire.pcapng([d1, d2] + pk), None),
            "-s first half + DSB second half": (wire.pcapng([d2] + pk), "\n".join(lines[:half]) + "\n"),
            "DSB in the middle": (wire.pcapng(pk[:mid] + [dsb] + pk[mid:]), None),
            "DSB at the end": (wire.pcapng(pk + [dsb]), None),
        }
        outs = {k: tool.run(cap, kl, []).out for k, (cap, kl) in variants.items()}
        ref = outs["-s file only"]
        for k, o in outs.items():
            print(f"[C09] {k:34s} {len(rows(o)):3d} frames   identical to `-s file only`: {o == ref}")
        res["c09"] = all(o == ref for o in outs.values())

        # C11: corrupt the checksum of one data segment
        idx = [i for i, (_, _, fr) in enumerate(pk) if len(wire.parse_frame(fr)["payload"]) > 0][-2]
        fr = bytearray(pk[idx][2])
        fr[14 + 20 + 16] ^= 0x55
        bad = pk[:idx] + [("pkt", pk[idx][1], bytes(fr))] + pk[idx + 1:]
        with_c = tool.run(wire.pcapng(bad), text, ["-c"]).out
        without = tool.run(wire.pcapng(pk[:idx] + pk[idx + 1:]), text, []).out
        print(f"[C11] -c on the capture with one bad segment: {len(rows(with_c))} frames; without -c on the capture without "
              f"that packet block: {len(rows(without))} frames; identical files: {with_c == without}")
        res["c11"] = with_c == without

        # C03: a second conversation and junk around the bystander
        sc2 = e2e.Scenario(rng, [(0x002F, "tls12", False)], sports=[443])
        t0 = pk[0][1] + 17 - sc2.items[0][1]
        vict = [("pkt", ts + t0, f) for _, ts, f in sc2.items] + \
               [("pkt", pk[1][1] + 3, bytes(12) + b"\x88\xb5"), ("pkt", pk[2][1] + 5, bytes(12) + b"\x08\x06" + bytes(28))]
        merged = sorted(pk + vict, key=lambda it: it[1])
        both = text + "\n".join(sc2.keylog) + "\n"               # the same `-s` file for both runs: the victim brings no keys
        full = rows(tool.run(wire.pcapng(merged), both, []).out)
        alone = rows(tool.run(wire.pcapng(pk), both, []).out)
        ep = {(r[1], r[2]) for r in alone}
        mine = [r for r in full if (r[1], r[2]) in ep]
        print(f"[C03] bystander alone: {len(alone)} frames; merged capture: {len(full)} frames, of which the bystander's: "
              f"{len(mine)}; the same frames in the same order: {mine == alone}")
        res["c03"] = mine == alone
    return res


if __name__ == "__main__":
    main()
