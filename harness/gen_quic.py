"""Independent QUIC v1 *sender* (RFC 9000 / 9001 / 9221): packet protection, header protection, frames, handshake,
Retry, 0-RTT, NEW_CONNECTION_ID, key updates, coalescing. Shares no code with tlexport.

A connection is a `QConn`; every call that emits a datagram records the ground truth
    expect = [(ts_us, from_server, stream bytes carried by that datagram)]   (datagrams with stream data only)
"""
import hashlib
import hmac
import struct

import wire
from cryptography.hazmat.primitives.ciphers import Cipher, algorithms, modes
from cryptography.hazmat.primitives.ciphers.aead import AESGCM, AESCCM, ChaCha20Poly1305

SALT_V1 = bytes.fromhex("38762cf7f55934b34d179ae6a4c80cadccbb7f0a")
SUITES = {0x1301: (16, hashlib.sha256, "gcm"), 0x1302: (32, hashlib.sha384, "gcm"),
          0x1303: (32, hashlib.sha256, "chacha"), 0x1304: (16, hashlib.sha256, "ccm")}
RETRY_KEY = bytes.fromhex("be0c690b9f66575a1d766b54e368c84e")
RETRY_NONCE = bytes.fromhex("461599d35d632bf2239825bb")


def hkdf_extract(salt, ikm, h=hashlib.sha256):
    return hmac.new(salt, ikm, h).digest()


def hkdf_expand(prk, info, n, h=hashlib.sha256):
    out, t, i = b"", b"", 1
    while len(out) < n:
        t = hmac.new(prk, t + info + bytes([i]), h).digest()
        out += t
        i += 1
    return out[:n]


def label(secret, lab, n, h=hashlib.sha256):
    full = b"tls13 " + lab
    return hkdf_expand(secret, struct.pack(">H", n) + bytes([len(full)]) + full + b"\x00", n, h)


def varint(v, w=None):
    if w is None:
        w = 1 if v < 64 else 2 if v < 16384 else 4 if v < 2 ** 30 else 8
    assert v < 1 << (8 * w - 2)
    return (v | ({1: 0, 2: 1, 4: 2, 8: 3}[w] << (8 * w - 2))).to_bytes(w, "big")


class Keys:
    def __init__(self, secret, klen, h, kind, hp=None):
        self.secret, self.klen, self.h, self.kind = secret, klen, h, kind
        self.key = label(secret, b"quic key", klen, h)
        self.iv = label(secret, b"quic iv", 12, h)
        self.hp = hp if hp is not None else label(secret, b"quic hp", klen, h)

    def next(self):
        """RFC 9001 §6: next-generation secret; header-protection key does not change"""
        return Keys(label(self.secret, b"quic ku", self.h().digest_size, self.h), self.klen, self.h, self.kind, hp=self.hp)

    def seal(self, pn, hdr, pt):
        nonce = bytes(a ^ b for a, b in zip(self.iv, pn.to_bytes(12, "big")))
        c = {"gcm": AESGCM, "chacha": ChaCha20Poly1305, "ccm": AESCCM}[self.kind](self.key)
        return c.encrypt(nonce, pt, hdr)

    def mask(self, sample):
        if self.kind == "chacha":
            return Cipher(algorithms.ChaCha20(self.hp, sample), mode=None).encryptor().update(b"\0" * 5)
        return Cipher(algorithms.AES(self.hp), modes.ECB()).encryptor().update(sample)


def protect(keys, hdr_wo_pn, pn, pnlen, payload, long):
    pnb = (pn & ((1 << (8 * pnlen)) - 1)).to_bytes(pnlen, "big")
    hdr = hdr_wo_pn + pnb
    ct = keys.seal(pn, hdr, payload)
    sample = ct[4 - pnlen:4 - pnlen + 16]
    m = keys.mask(sample)
    first = hdr[0] ^ (m[0] & (0x0F if long else 0x1F))
    pnm = bytes(a ^ b for a, b in zip(pnb, m[1:1 + pnlen]))
    return bytes([first]) + hdr[1:len(hdr_wo_pn)] + pnm + ct


def pad_payload(payload, pnlen):
    """RFC 9001 §5.4.2: enough bytes after the packet number for a 16-byte sample"""
    need = 4 - pnlen + 16 - 16       # ciphertext = payload + 16-byte tag; sample starts 4 - pnlen into it
    short = max(0, 4 - pnlen - len(payload))
    return payload + b"\0" * short


def long_pkt(keys, typ, dcid, scid, pn, pnlen, payload, token=b"", len_width=2):
    payload = pad_payload(payload, pnlen)
    first = 0xC0 | (typ << 4) | (pnlen - 1)
    h = bytes([first]) + b"\0\0\0\x01" + bytes([len(dcid)]) + dcid + bytes([len(scid)]) + scid
    if typ == 0:
        h += varint(len(token)) + token
    h += varint(pnlen + len(payload) + 16, len_width)
    return protect(keys, h, pn, pnlen, payload, True)


def short_pkt(keys, dcid, pn, pnlen, payload, phase=0, spin=0):
    payload = pad_payload(payload, pnlen)
    first = 0x40 | (spin << 5) | (phase << 2) | (pnlen - 1)
    return protect(keys, bytes([first]) + dcid, pn, pnlen, payload, False)


def retry_pkt(odcid, dcid, scid, token):
    h = bytes([0xF0]) + b"\0\0\0\x01" + bytes([len(dcid)]) + dcid + bytes([len(scid)]) + scid + token
    pseudo = bytes([len(odcid)]) + odcid + h
    tag = AESGCM(RETRY_KEY).encrypt(RETRY_NONCE, b"", pseudo)
    return h + tag


# ----------------------------------------------------------------------------- frames
def f_crypto(off, data, w=None):
    return b"\x06" + varint(off, w) + varint(len(data), w) + data


def f_stream(sid, off, data, fin=False, explicit_len=True, force_off=False, w=None):
    has_off = bool(off) or force_off
    t = 0x08 | (4 if has_off else 0) | (2 if explicit_len else 0) | (1 if fin else 0)
    return bytes([t]) + varint(sid, w) + (varint(off, w) if has_off else b"") + \
        (varint(len(data), w) if explicit_len else b"") + data


def f_ack(largest, delay=0, first=0, ranges=(), ecn=None):
    b = bytes([3 if ecn else 2]) + varint(largest) + varint(delay) + varint(len(ranges)) + varint(first)
    for gap, ln in ranges:
        b += varint(gap) + varint(ln)
    if ecn:
        b += b"".join(varint(x) for x in ecn)
    return b


def f_new_cid(seq, retire, cid, token):
    return b"\x18" + varint(seq) + varint(retire) + bytes([len(cid)]) + cid + token


def f_datagram(data, with_len=True):
    return (b"\x31" + varint(len(data)) + data) if with_len else (b"\x30" + data)


F_PING, F_HANDSHAKE_DONE = b"\x01", b"\x1e"


def f_padding(n):
    return b"\0" * n


def f_max_data(v):
    return b"\x10" + varint(v)


def f_max_stream_data(sid, v):
    return b"\x11" + varint(sid) + varint(v)


def f_max_streams(v, uni=False):
    return bytes([0x13 if uni else 0x12]) + varint(v)


def f_retire_cid(seq):
    return b"\x19" + varint(seq)


def f_new_token(tok):
    return b"\x07" + varint(len(tok)) + tok


# ----------------------------------------------------------------------------- TLS messages in CRYPTO
def hs(t, b):
    return bytes([t]) + len(b).to_bytes(3, "big") + b


def ext(t, b):
    return struct.pack(">HH", t, len(b)) + b


def client_hello(cr, suites, rng, extra=b""):
    exts = ext(0x2B, b"\x02\x03\x04") + ext(0x10, b"\x00\x03\x02h3") + ext(0x39, b"\x04\x04\x80\x10\x00\x00") + extra
    sid = b""
    b = b"\x03\x03" + cr + bytes([len(sid)]) + sid + struct.pack(">H", len(suites)) + suites + b"\x01\x00" + \
        struct.pack(">H", len(exts)) + exts
    return hs(1, b)


def server_hello(sr, suite, rng):
    exts = ext(0x2B, b"\x03\x04") + ext(0x33, b"\x00\x1d\x00\x20" + rng.randbytes(32))
    return hs(2, b"\x03\x03" + sr + b"\x00" + suite + b"\x00" + struct.pack(">H", len(exts)) + exts)


CMAC, SMAC = b"\x02\x00\x00\x00\x10\x01", b"\x02\x00\x00\x00\x10\x02"


class QConn:
    def __init__(self, rng, suite=0x1301, offer=None, dcid0_len=8, scid_c_len=8, scid_s_len=8, cport=50000, sport=443,
                 cip="10.0.0.1", sip="10.0.0.2", t0=1_700_000_100_000_000, pn_start=None, early=False,
                 cmac=CMAC, smac=SMAC, prefix_cid=False):
        self.rng, self.suite = rng, suite
        self.offer = offer or [0x1301, 0x1302, 0x1303, 0x1304]
        self.dcid0 = rng.randbytes(max(8, dcid0_len))         # RFC 9000 §7.2: at least 8 bytes
        self.scid_c = rng.randbytes(scid_c_len)
        self.scid_s = rng.randbytes(scid_s_len)
        if prefix_cid:
            # RFC 9000 puts no constraint on CID values: the server's CID may extend the client's original DCID
            self.scid_s = self.dcid0 + rng.randbytes(4)
        self.cport, self.sport, self.cip, self.sip = cport, sport, wire.ipb(cip), wire.ipb(sip)
        self.cmac, self.smac = cmac, smac
        self.t = t0
        self.items, self.expect, self.expect_idx, self.dirs = [], [], [], []
        self.early_expect = []
        self.item_gen, self.item_short, self.item_pn = [], [], []
        klen, h, kind = SUITES[suite]
        n = h().digest_size
        self.sec = {k: rng.randbytes(n) for k in ("chs", "shs", "cap", "sap")}
        self.k = {k: Keys(v, klen, h, kind) for k, v in self.sec.items()}
        self.gen = {0: 0, 1: 0}                                  # key generation per direction
        self.sent_gen = {0: 0, 1: 0}                             # highest generation a side has sent with
        self.gens = {0: [self.k["cap"]], 1: [self.k["sap"]]}
        self.early = None
        if early:
            # 0-RTT keys belong to the resumed session's suite, which is the suite the server selects when it accepts the
            # early data (RFC 8446 4.2.11) - wherever that suite stands in the client's offer
            eklen, eh, ekind = SUITES[suite]
            self.early_sec = rng.randbytes(eh().digest_size)
            self.early = Keys(self.early_sec, eklen, eh, ekind)
        self.cr = rng.randbytes(32)
        self.pn = dict(pn_start or {})
        self.set_initial(self.dcid0)
        self.dcid_for_client = self.scid_s                     # what the client puts into short headers
        self.dcid_for_server = self.scid_c
        self.cur = []                                            # packets of the datagram under construction

    def set_initial(self, dcid):
        isec = hkdf_extract(SALT_V1, dcid)
        self.ci = Keys(label(isec, b"client in", 32), 16, hashlib.sha256, "gcm")
        self.si = Keys(label(isec, b"server in", 32), 16, hashlib.sha256, "gcm")

    def keylog_lines(self):
        lab = {"chs": "CLIENT_HANDSHAKE_TRAFFIC_SECRET", "shs": "SERVER_HANDSHAKE_TRAFFIC_SECRET",
               "cap": "CLIENT_TRAFFIC_SECRET_0", "sap": "SERVER_TRAFFIC_SECRET_0"}
        out = [f"{lab[k]} {self.cr.hex()} {v.hex()}" for k, v in self.sec.items()]
        if self.early:
            out.insert(0, f"CLIENT_EARLY_TRAFFIC_SECRET {self.cr.hex()} {self.early_sec.hex()}")
        return out

    def nextpn(self, space, jump=0):
        v = self.pn.get(space, 0) + jump
        self.pn[space] = v + 1
        return v

    # -------- datagram assembly: packets are queued with q_*(), then flush() emits one datagram
    def flush(self, from_server, stream_bytes=b"", dt=None, trailing_zeros=0):
        payload = b"".join(self.cur) + b"\0" * trailing_zeros
        self.cur = []
        # coarse capture clocks: an answer may carry the same timestamp as the datagram it answers (opposite
        # direction only — datagrams of one direction are told apart by their timestamps, as the property says)
        same_tick = (self.items and getattr(self, "_last_dir", None) == (not from_server)
                     and not getattr(self, "_tick_chain", False) and self.rng.random() < 0.08)
        self._tick_chain = bool(same_tick)             # never three datagrams on one tick (two would share a direction)
        burst = self.rng.random() < 0.12                # back-to-back datagrams a few microseconds apart
        self.t += dt if dt is not None else (0 if same_tick else (self.rng.randrange(1, 10) if burst else self.rng.randrange(200, 40_000)))
        self._last_dir = bool(from_server)
        if from_server:
            f = wire.udp_frame(self.smac, self.cmac, self.sip, self.cip, self.sport, self.cport, payload)
        else:
            f = wire.udp_frame(self.cmac, self.smac, self.cip, self.sip, self.cport, self.sport, payload)
        self.items.append(("pkt", self.t, f))
        self.dirs.append(bool(from_server))
        # bookkeeping for `reorder`: key generation of this direction and whether the datagram is a lone 1-RTT packet
        self.item_gen.append(self.gen[1 if from_server else 0])
        self.item_short.append(bool(payload) and not payload[0] & 0x80)
        self.item_pn.append(getattr(self, "last_short", None))
        if stream_bytes:
            self.expect.append((self.t, bool(from_server), stream_bytes))
            self.expect_idx.append(len(self.items) - 1)
            if getattr(self, "_cur_early", False):
                self.early_expect.append(len(self.expect) - 1)       # a datagram whose stream data travelled as 0-RTT
        self._cur_early = False

    def q_initial(self, from_server, frames, pnlen=1, token=b"", pad_to=0, jump=0):
        keys = self.si if from_server else self.ci
        dcid, scid = (self.dcid_for_server, self.scid_s) if from_server else (self.cur_dcid_c, self.scid_c)
        pn = self.nextpn("si" if from_server else "ci", jump)
        frames = frames + b"\0" * max(0, pad_to - len(frames))
        self.cur.append(long_pkt(keys, 0, dcid, scid, pn, pnlen, frames, token=token))

    def q_handshake(self, from_server, frames, pnlen=1, jump=0):
        keys = self.k["shs" if from_server else "chs"]
        dcid, scid = (self.dcid_for_server, self.scid_s) if from_server else (self.dcid_for_client, self.scid_c)
        self.cur.append(long_pkt(keys, 2, dcid, scid, self.nextpn("sh" if from_server else "ch", jump), pnlen, frames))

    def q_0rtt(self, frames, pnlen=1, jump=0):
        self._cur_early = True
        self.cur.append(long_pkt(self.early, 1, self.cur_dcid_c, self.scid_c, self.nextpn("ca", jump), pnlen, frames))

    def q_1rtt(self, from_server, frames, pnlen=1, jump=0):
        d = 1 if from_server else 0
        keys = self.gens[d][self.gen[d]]
        self.sent_gen[d] = self.gen[d]
        dcid = self.dcid_for_server if from_server else self.dcid_for_client
        sp = "sa" if from_server else "ca"
        prev = self.pn.get(sp, 0) - 1                       # largest packet number of this space sent so far (-1: none)
        pn = self.nextpn(sp, jump)
        self.last_short = (pn, pnlen, prev)
        self.cur.append(short_pkt(keys, dcid, pn, pnlen, frames, phase=self.gen[d] & 1, spin=self.rng.randrange(2)))

    def key_update(self, from_server, follow=False):
        """the given side initiates a key update: its next packet uses the next generation (RFC 9001 §6);
        the peer answers with the same generation once it has seen one such packet"""
        d = 1 if from_server else 0
        # RFC 9001 §6.1: no further update before a packet of the current phase was acknowledged, i.e. before
        # the peer has itself sent with the current generation
        if not follow and self.sent_gen[1 - d] < self.gen[d]:
            return False
        self.gen[d] += 1
        while len(self.gens[d]) <= self.gen[d]:
            self.gens[d].append(self.gens[d][-1].next())
        return True

    def follow_key_update(self, from_server):
        d = 1 if from_server else 0
        other = 1 - d
        while self.gen[d] < self.gen[other]:
            self.key_update(from_server, follow=True)

    # -------- handshake
    def handshake(self, ch_split=None, retry=False, zero_rtt=None, coalesce_server=True, ch_extra=b"", ch_multi=None):
        """ch_split(n) → [(start, end), …] fragment order of the ClientHello (one CRYPTO frame each);
        zero_rtt: list of (sid, off, data) sent as 0-RTT STREAM frames in the first flight"""
        rng = self.rng
        offer = b"".join(struct.pack(">H", c) for c in self.offer)
        ch = client_hello(self.cr, offer, rng, extra=ch_extra)
        self.cur_dcid_c = self.dcid0

        def ch_frames():
            if not ch_split:
                return [f_crypto(0, ch)]
            return [f_crypto(a, ch[a:b]) for a, b in ch_split(len(ch))]

        def first_flight(token=b""):
            fr = ch_frames()
            if ch_split and (rng.random() < 0.5 if ch_multi is None else ch_multi) and len(fr) > 1:   # fragments over several packets/datagrams
                for i, f in enumerate(fr):
                    self.q_initial(0, f, token=token, pad_to=1162)
                    self.flush(0)
            else:
                self.q_initial(0, b"".join(fr), token=token, pad_to=1162)
                if zero_rtt and rng.random() < 0.5:
                    data = b"".join(f_stream(s, o, d) for s, o, d in zero_rtt)
                    self.q_0rtt(data)
                    self.flush(0, b"".join(d for _, _, d in zero_rtt))
                    return
                self.flush(0)
            if zero_rtt:
                data = b"".join(f_stream(s, o, d) for s, o, d in zero_rtt)
                self.q_0rtt(data)
                self.flush(0, b"".join(d for _, _, d in zero_rtt))

        if retry:
            self.q_initial(0, b"".join(ch_frames()), pad_to=1162)
            self.flush(0)
            # the Retry SCID is only ever used as the DCID of the client's next Initial (long header). An endpoint keeps
            # the CIDs it expects in SHORT headers at one length (it must parse them itself, RFC 9000 §5.1), so a
            # zero-length-CID server does not also own 1–2 byte CIDs: that combination is undecidable for any passive
            # observer without trial decryption and is excluded (DESIGN §8.2, limitation).
            new_scid = rng.randbytes(len(self.scid_s) if len(self.scid_s) >= 4 else 8)
            # tokens of 64 bytes and more need a two-byte Token Length varint in the client's next Initial
            token = rng.randbytes(rng.choice([rng.randrange(8, 40), 63, 64, 65, rng.randrange(66, 300)]))
            self.cur.append(retry_pkt(self.dcid0, self.scid_c, new_scid, token))
            self.flush(1)
            self.cur_dcid_c = new_scid
            self.set_initial(new_scid)
            self.scid_s = rng.randbytes(len(self.scid_s))
            first_flight(token)
        else:
            first_flight()
        self.dcid_for_client = self.scid_s
        sh = server_hello(rng.randbytes(32), struct.pack(">H", self.suite), rng)
        self.q_initial(1, f_ack(self.pn["ci"] - 1) + f_crypto(0, sh))
        ee = hs(8, b"\0\0") + hs(11, rng.randbytes(300)) + hs(15, rng.randbytes(70)) + hs(20, rng.randbytes(32))
        if not coalesce_server:
            self.flush(1)
        cut = rng.randrange(1, len(ee))
        self.q_handshake(1, f_crypto(0, ee[:cut]))
        if rng.random() < 0.5:
            self.flush(1)
        self.q_handshake(1, f_crypto(cut, ee[cut:]))
        self.flush(1)
        # client: Initial ACK + Handshake Finished (coalesced), padded
        self.q_initial(0, f_ack(self.pn["si"] - 1), pad_to=rng.choice([0, 0, 1100]))
        self.q_handshake(0, f_ack(self.pn["sh"] - 1) + f_crypto(0, hs(20, rng.randbytes(32))))
        self.flush(0)
        self.q_handshake(1, f_ack(self.pn["ch"] - 1))
        self.q_1rtt(1, F_HANDSHAKE_DONE + f_new_token(rng.randbytes(16)))
        self.flush(1)

    # -------- application phase
    def app(self, from_server, chunks, other_before=b"", other_after=b"", pnlen=1, jump=0, packets=1,
            explicit_len=True, trailing_zeros=0, w=None):
        """one datagram carrying `packets` coalesced 1-RTT packets... (only the last short packet may lack a
        length, so several short packets are expressed as several STREAM frames in one packet instead)"""
        self._switch_tick(from_server)
        frames = other_before
        for i, (sid, off, data, fin) in enumerate(chunks):
            last = i == len(chunks) - 1 and not other_after
            wd = w if w is None or max(len(data), off, sid) < (1 << (8 * w - 2)) else None      # forced varint width must fit
            frames += f_stream(sid, off, data, fin=fin, explicit_len=(explicit_len or not last), w=wd)
        frames += other_after
        if len(frames) < 4:
            frames = b"\0" * (4 - len(frames)) + frames        # PADDING goes first: a STREAM frame without length runs to the end
        self.follow_key_update(from_server) if self.rng.random() < 0.7 else None
        self.q_1rtt(from_server, frames, pnlen=pnlen, jump=jump)
        self.flush(from_server, b"".join(c[2] for c in chunks), trailing_zeros=trailing_zeros)

    def reorder(self, rng, p=0.25):
        """network reordering inside a burst: two consecutive 1-RTT datagrams of one direction that both carry stream data
        and use the same key generation are captured in the opposite order (the capture clock keeps increasing).
        RFC 9000 13: packets may be reordered; the receiver's packet-number decoding copes within half the window."""
        k, n = 0, 0
        while k + 1 < len(self.items):
            a, b = self.item_pn[k], self.item_pn[k + 1]
            # both packets must still decode in the new order (RFC 9000 A.3): the overtaken one against the overtaker as
            # largest, the overtaker against what was largest before either — each within half its encoding window
            ok = (a is not None and b is not None and b[0] - a[0] < (1 << (8 * a[1] - 1)) - 1
                  and b[0] - a[2] < (1 << (8 * b[1] - 1)) - 1)
            if (ok and self.dirs[k] == self.dirs[k + 1] and self.item_short[k] and self.item_short[k + 1]
                    and self.item_gen[k] == self.item_gen[k + 1] and k in self.expect_idx and k + 1 in self.expect_idx
                    and rng.random() < p):
                (_, ta, fa), (_, tb, fb) = self.items[k], self.items[k + 1]
                self.items[k], self.items[k + 1] = ("pkt", ta, fb), ("pkt", tb, fa)
                ia, ib = self.expect_idx.index(k), self.expect_idx.index(k + 1)
                (_, da, xa), (_, db, xb) = self.expect[ia], self.expect[ib]
                self.expect[ia], self.expect[ib] = (ta, db, xb), (tb, da, xa)
                n += 1
                k += 2
            else:
                k += 1
        return n

    def new_cid(self, from_server, cid_len=None, retire=0, lazy=0):
        """issue a connection ID (Retire Prior To = `retire`) and have the peer switch to it — at once, or only after it
        has sent `lazy` more datagrams with the old one (packets in flight when the frame arrived, RFC 9000 5.1.2)"""
        cid = self.rng.randbytes(cid_len if cid_len is not None else max(4, len(self.scid_s if from_server else self.scid_c)))
        self.q_1rtt(from_server, f_new_cid(1, retire, cid, self.rng.randbytes(16)))
        self.flush(from_server)
        self.pending_switch = [from_server, cid, lazy]
        self._switch_tick(None)

    def _switch_tick(self, sender_is_server):
        """called before a datagram of `sender_is_server` is built (None: right after the frame was issued)"""
        ps = getattr(self, "pending_switch", None)
        if not ps:
            return
        issuer, cid, left = ps
        if sender_is_server is not None and sender_is_server == issuer:
            return                                  # only the peer's datagrams count
        if left > 0 and sender_is_server is not None:
            ps[2] -= 1
            return
        if left > 0:
            return
        if issuer:
            self.dcid_for_client = cid
        else:
            self.dcid_for_server = cid
        self.pending_switch = None


def random_other_frames(rng, conn, from_server):
    out = b""
    for _ in range(rng.randrange(0, 4)):
        k = rng.randrange(9)
        if k == 0:
            out += F_PING
        elif k == 1:
            out += f_padding(rng.randrange(1, 20))
        elif k == 2:
            sp = "ca" if from_server else "sa"
            out += f_ack(max(0, conn.pn.get(sp, 1) - 1), rng.randrange(1000), rng.randrange(0, 1),
                         ecn=(1, 2, 3) if rng.random() < 0.2 else None)
        elif k == 3:
            out += f_max_data(rng.randrange(1 << 30))
        elif k == 4:
            out += f_max_stream_data(rng.randrange(64), rng.randrange(1 << 20))
        elif k == 5:
            out += f_datagram(rng.randbytes(rng.randrange(1, 30)))
        elif k == 6:
            out += f_max_streams(rng.randrange(1000), rng.random() < 0.5)
        elif k == 7:
            out += f_retire_cid(0)
        else:
            out += f_new_token(rng.randbytes(8)) if from_server else F_PING
    return out


def random_connection(rng, idx=0, v6=None, suite=None, features=None):
    """a random conformant connection; `features` (dict) forces dimensions, returns (conn, feature dict)"""
    f = dict(features or {})
    f.setdefault("suite", suite or rng.choice(list(SUITES)))
    f.setdefault("offer_order", rng.choice(["suite-first", "shuffled", "default"]))
    f.setdefault("scid_c_len", rng.choice([0, 0, 4, 8, 8, 20, rng.randrange(1, 21)]))
    f.setdefault("scid_s_len", rng.choice([0, 4, 8, 8, 8, 20, rng.randrange(1, 21)]))
    f.setdefault("retry", rng.random() < 0.2)
    f.setdefault("zero_rtt", rng.random() < 0.25)
    f.setdefault("ch_split", rng.choice([None, None, "asc", "desc", "shuffle"]))
    f.setdefault("key_updates", rng.choice([0, 0, 1, 2, 3]))
    f.setdefault("new_cid", rng.random() < 0.3)
    f.setdefault("pn_big", rng.random() < 0.3)
    # NEW_CONNECTION_ID: Retire Prior To, and how many more datagrams the peer sends with the old CID before it switches
    f.setdefault("ncid_retire", rng.choice([0, 0, 1]))
    f.setdefault("ncid_lazy", rng.choice([0, 0, 1, 2]))
    f.setdefault("v6", rng.random() < 0.3 if v6 is None else v6)
    f.setdefault("prefix_cid", rng.random() < 0.08 and not f["retry"])
    f.setdefault("long", False)
    f.setdefault("reorder", rng.random() < 0.2)
    # one datagram far above the usual MTU (loopback / GRO captures; max_udp_payload_size allows up to 65527)
    f.setdefault("jumbo", rng.random() < 0.1)
    # a download: 60-90 consecutive server datagrams with ~1.1 kB of stream data each and no client datagram in between
    # (more than 65507 bytes in one direction without a change of direction)
    f.setdefault("download", rng.random() < 0.05)
    # both endpoints happen to choose the same connection-ID bytes (each picks its own, RFC 9000 5.1; 1-byte CIDs collide
    # once in 256 connections); not combined with Retry / NEW_CONNECTION_ID / prefix-related CIDs to keep the case pure
    f.setdefault("same_cid", rng.random() < 0.06 and not f["retry"] and not f["new_cid"] and not f["prefix_cid"])
    if f["same_cid"]:
        f["scid_c_len"] = f["scid_s_len"] = max(1, f["scid_c_len"])
    offer = list(SUITES)
    if f["offer_order"] == "suite-first":
        offer = [f["suite"]] + [c for c in offer if c != f["suite"]]
    elif f["offer_order"] == "shuffled":
        rng.shuffle(offer)
    # 0-RTT with the resumed suite NOT first in the offer is conformant, but the tool derives the early keys with the first
    # offered suite before the ServerHello and never retries: that early data is lost (open known finding of C02). Only C02's
    # own oracle generates it (`early_suite_anywhere`); everywhere else the resumed suite leads the offer.
    # client and server on one host (loopback capture): the two ends differ in the port only
    f.setdefault("loopback", rng.random() < 0.05)
    # a packet number exactly half a window ahead of the expected one in a 1-byte encoding (a gap of 128 packets missing
    # from the capture): the boundary case of RFC 9000 A.3's first test
    f.setdefault("pn_half", rng.random() < 0.1)
    f.setdefault("early_suite_anywhere", False)
    if f["zero_rtt"] and not f["early_suite_anywhere"]:
        offer = [f["suite"]] + [c for c in offer if c != f["suite"]]
    f["early_suite_first"] = offer[0] == f["suite"]
    if f["v6"]:
        cip = bytes([0x20, 0x01, 0x0d, 0xb8]) + rng.randbytes(12)
        sip = bytes([0x20, 0x01, 0x0d, 0xb8]) + rng.randbytes(12)
    else:
        cip, sip = bytes([10, 1, rng.randrange(256), 1 + rng.randrange(250)]), bytes([192, 168, rng.randrange(256), 1 + rng.randrange(250)])
    if f["loopback"]:
        cip = sip = (bytes(15) + b"\x01") if f["v6"] else bytes([127, 0, 0, 1])
    pn_start = {}
    ep = f.get("endpoints") or {}
    cip, sip = ep.get("cip", cip), ep.get("sip", sip)
    c = QConn(rng, suite=f["suite"], offer=offer, scid_c_len=f["scid_c_len"], scid_s_len=f["scid_s_len"],
              cport=ep.get("cport") or wire.client_port(rng, 30000, 60000), sport=ep.get("sport", 443), cip=cip, sip=sip, early=f["zero_rtt"], prefix_cid=f["prefix_cid"],
              t0=1_700_000_100_000_000 + idx * 1000 + rng.randrange(10 ** 6), pn_start=pn_start,
              cmac=bytes([2, 0, 2, rng.randrange(256), rng.randrange(256), idx & 255]),
              smac=bytes([2, 0, 3, rng.randrange(256), rng.randrange(256), idx & 255]))
    if f["same_cid"]:
        c.scid_s = c.scid_c
        c.dcid_for_client = c.scid_s
    split = None
    if f["ch_split"]:
        def split(n, mode=f["ch_split"]):
            k = rng.randrange(2, 5)
            pts = sorted(rng.sample(range(1, n), k - 1))
            if f.get("ch_cuts"):
                pts = [p for p in f["ch_cuts"] if 0 < p < n]      # the same client software cuts at the same offsets
            segs = list(zip([0] + pts, pts + [n]))
            if mode == "desc":
                segs.reverse()
            elif mode == "shuffle":
                rng.shuffle(segs)
            return segs
    zr = [(0, 0, rng.randbytes(rng.randrange(1, 200)))] if f["zero_rtt"] else None
    c.handshake(ch_split=split, retry=f["retry"], zero_rtt=zr, coalesce_server=rng.random() < 0.7,
                ch_multi=f.get("ch_multi"))
    offs = {}
    n = rng.randrange(4, 14) if not f.get("long") else rng.randrange(280, 420)      # long flows cross the 1-byte pn window
    ku_at = sorted(rng.sample(range(1, n), min(f["key_updates"], n - 1)))
    ncid_at = rng.randrange(1, n) if f["new_cid"] else None
    for i in range(n):
        d = rng.randrange(2) if i >= 2 else i
        if i in ku_at:
            c.key_update(d)
        if i == ncid_at:
            issuer = rng.randrange(2)
            # an endpoint that uses zero-length CIDs cannot issue new ones (RFC 9000 §5.1.1)
            if len(c.scid_s if issuer else c.scid_c) > 0:
                c.new_cid(issuer, retire=f["ncid_retire"], lazy=f["ncid_lazy"])
        chunks = []
        for _ in range(rng.choice([0, 1, 1, 1, 2, 3])):
            sid = rng.choice([0, 4, 8, 3, 2]) if not d else rng.choice([0, 4, 1, 3, 7])
            data = rng.randbytes(rng.choice([0, 1, 5, 50, 300, 1100]) if rng.random() < 0.3 else rng.randrange(1, 200))
            if f["jumbo"] and i == n // 2 and not chunks:
                data = rng.randbytes(rng.randrange(20000, 45000))
            off = offs.get((d, sid), 0)
            offs[(d, sid)] = off + len(data)
            chunks.append((sid, off, data, rng.random() < 0.1))
        if f["pn_half"] and i == n // 2 and not f["pn_big"] and not f.get("long"):
            sp = "sa" if d else "ca"
            j1 = (128 - c.pn.get(sp, 0)) % 256          # bring the next expected number to 129 mod 256 …
            for jump, ln in ((j1, 1 if j1 < 128 else 2), (128, 1)):   # … then jump exactly half a 1-byte window
                data = rng.randbytes(rng.randrange(1, 60))
                off = offs.get((d, 0), 0)
                offs[(d, 0)] = off + len(data)
                c.app(d, [(0, off, data, False)], pnlen=ln, jump=jump)
        if f["download"] and i == n // 2:
            for _ in range(rng.randrange(60, 90)):
                data = rng.randbytes(rng.randrange(1000, 1200))
                off = offs.get((1, 0), 0)
                offs[(1, 0)] = off + len(data)
                c.app(1, [(0, off, data, False)], pnlen=2)
        pnlen = rng.choice([1, 1, 2, 3, 4]) if not f.get("long") else 1
        jump = rng.choice([0, 0, 0, 1, 3, 30]) if pnlen == 1 else rng.choice([0, 5, 200, 3000 if pnlen > 2 else 100])
        if f["pn_big"] and i < 8:
            # packet numbers start at 0 (RFC 9000 §12.3); large values are reached through gaps a 4-byte
            # encoding can still express (less than half the window ahead of the largest acknowledged)
            pnlen, jump = 4, rng.randrange(1 << 20, 1 << 30)
        c.app(d, chunks, other_before=random_other_frames(rng, c, d),
              other_after=random_other_frames(rng, c, d) if rng.random() < 0.3 else b"",
              pnlen=pnlen, jump=jump, explicit_len=rng.random() < 0.7,
              trailing_zeros=0, w=rng.choice([None, None, 2, 4, 8]))
    if f["reorder"]:
        f["reordered"] = c.reorder(rng, p=0.6 if (features or {}).get("reorder") else 0.25)
    return c, f
