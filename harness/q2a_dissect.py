"""C02 (dissector part) — `tlexport.quic.quic_dissector.extract_quic_packet` + the coalescing loop of
`QuicSession.handle_packet` against the Lean model `TLX.Quic.Dissect` (`tlxdriver dissect`).

proof:          lean/TLX/Props/C02Dissect.lean over lean/TLX/Quic/Dissect.lean and the independent RFC 9000 §17 / RFC 9001
                §5.4 encoder lean/TLX/Spec/QuicPackets.lean
correspondence: the real `extract_quic_packet` driven in a loop exactly as handle_packet does
                (`while len(packet.tls_data) != 0: pkts, packet = extract_quic_packet(in_packet=packet, isserver=…,
                guessed_dcid=…, keys=…, ciphersuite=…)`, with a turn cap as hang guard) on a stub with `tls_data` and
                `timestamp`, the names `make_hp_mask` / `make_chacha_hp_mask` of the module namespace replaced by the toy
                primitive `toy_mask` (twin of `TLX.Drv.Dissect.toyMask`: same validation as cryptography 50, every
                input matters), versus the model's `dissectTrace`. Compared per turn: number of packets, EVERY
                attribute of every packet object (by Python name; absent/None = `~`; `first_byte` int vs bytes;
                `supported_version`), the remaining `tls_data`, and — when the real code printed its
                "Error in Dissector" line — which exception was caught. The associated data is taken from the real
                `QuicSession.decrypt_packet` (run unbound on a stub session whose decryptors record the AAD).
                points: dissect.twin (toy mask Python = Lean), dissect.valid, dissect.malformed
                Valid inputs come from an independent encoder written here from RFC 9000 §17.2/§17.3 and RFC 9001 §5.4;
                for them the real result is ALSO compared with the encoded field values (`ctx.fail`: that is the
                property itself, not the model).
Entry points:   MODULES, THEOREMS, correspond(ctx)
"""
import contextlib
import io
import signal

MODULES = ["TLX.Props.C02Dissect"]
THEOREMS = ["TLX.Props.C02Dissect." + t for t in (
    "dissect_encode_long", "dissect_encode_short", "dissect_encode_retry", "dissect_encode_version_negotiation",
    "zero_padding_dropped", "scid_len_limit", "dissect_coalesced_loop", "dissect_coalesced", "dissect_progress",
    "dissect_loop_total", "dissect_total", "no_invented_data", "aad_is_header_long", "aad_is_header_short", "aad_is_header")]

KEY_NAMES = ["server_initial_hp", "client_initial_hp", "server_handshake_hp", "client_handshake_hp", "client_early_hp",
             "server_application_hp", "client_application_hp"]
M = 0xFFFFFFFF


def hx(b):
    return bytes(b).hex() if len(b) else "-"


# ----------------------------------------------------------------------------- toy primitive (twin of toyMask)
def _fnv_step(h, b):
    return ((h ^ b) * 16777619) & M


def _fnv_l(h, bs):
    n = len(bs)
    h = _fnv_step(_fnv_step(h, n // 256 % 256), n % 256)
    for b in bs:
        h = ((h ^ b) * 16777619) & M
    return h


def _pad(s, i):
    x = (s + i * 2654435761) & M
    y = ((x ^ (x >> 15)) * 739982445) & M
    return y >> 24


class ToyMaskError(ValueError):
    pass


def toy_mask(chacha, key, sample):
    """make_chacha_hp_mask (chacha) / make_hp_mask with the validation of cryptography 50; raises like they do"""
    if not isinstance(key, (bytes, bytearray)):
        raise TypeError("toy-key: key must be bytes-like")
    if chacha:
        if len(key) != 32:
            raise ToyMaskError("toy-mask: Invalid key size for ChaCha20")
        if len(sample) != 16:
            raise ToyMaskError("toy-mask: nonce must be 128-bits (16 bytes)")
        n = 5
    else:
        if len(key) not in (16, 24, 32):
            raise ToyMaskError("toy-mask: Invalid key size for AES")
        if len(sample) % 16:
            raise ToyMaskError("toy-mask: The length of the provided data is not a multiple of the block length.")
        n = len(sample)
    seed = _fnv_l(_fnv_l(_fnv_step(2166137001, 1 if chacha else 0), key), sample)
    return bytes(_pad(seed, j) for j in range(n))


def toy_conformance(ctx):
    """the toy's validation = the real primitives' (which inputs raise, output lengths)"""
    from tlexport.quic import quic_key_generation as kg
    pt = ctx.point("dissect.twin")
    for chacha, real in ((False, kg.make_hp_mask), (True, kg.make_chacha_hp_mask)):
        for kl in (0, 1, 15, 16, 17, 24, 31, 32, 33, 64):
            for sl in (0, 1, 4, 15, 16):
                pt["cases"] += 1
                try:
                    a = len(real(bytes(kl), bytes(sl)))
                except Exception:  # noqa
                    a = "raise"
                try:
                    b = len(toy_mask(chacha, bytes(kl), bytes(sl)))
                except Exception:  # noqa
                    b = "raise"
                if a != b:
                    ctx.disagree("dissect.twin", {"conformance": [chacha, kl, sl]}, f"real primitive: {a}", f"toy: {b}")


# ----------------------------------------------------------------------------- independent encoder (RFC 9000 §17)
def varint(v, w):
    assert v < 1 << (8 * w - 2)
    return (v | ({1: 0, 2: 1, 4: 2, 8: 3}[w] << (8 * w - 2))).to_bytes(w, "big")


def min_w(v):
    return 1 if v < 64 else 2 if v < 16384 else 4 if v < 2 ** 30 else 8


def apply_hp(first, mid, pn, payload, mask_of, long):
    """RFC 9001 §5.4: sample 16 bytes from pn_offset + 4; first byte low 4 (long) / 5 (short) bits; pn ^= mask[1:]"""
    sample = (pn + payload)[4:20]
    m = mask_of(sample)
    f = first ^ (m[0] & (0x0F if long else 0x1F))
    pnm = bytes(a ^ b for a, b in zip(pn, m[1:1 + len(pn)]))
    return bytes([f]) + mid + pnm + payload


class LongP:
    TYPES = {"INITIAL": 0, "RTT_O": 1, "HANDSHAKE": 2}

    def __init__(self, ty, dcid, scid, pn, payload, version=b"\0\0\0\x01", token=b"", tw=None, lw=None, reserved=0):
        self.ty, self.dcid, self.scid, self.pn, self.payload = ty, dcid, scid, pn, payload
        self.version, self.token, self.reserved = version, token, reserved
        self.tw = tw or min_w(len(token))
        self.lw = lw or min_w(len(pn) + len(payload))

    def first(self):
        return 0xC0 | (self.TYPES[self.ty] << 4) | (self.reserved << 2) | (len(self.pn) - 1)

    def tlb(self):
        return varint(len(self.token), self.tw)

    def lb(self):
        return varint(len(self.pn) + len(self.payload), self.lw)

    def mid(self):
        m = self.version + bytes([len(self.dcid)]) + self.dcid + bytes([len(self.scid)]) + self.scid
        if self.ty == "INITIAL":
            m += self.tlb() + self.token
        return m + self.lb()

    def key_name(self, isserver):
        if self.ty == "INITIAL":
            return "server_initial_hp" if isserver else "client_initial_hp"
        if self.ty == "HANDSHAKE":
            return "server_handshake_hp" if isserver else "client_handshake_hp"
        return "client_early_hp"

    def wire(self, keys, isserver, chacha):
        key = keys[self.key_name(isserver)]
        ch = chacha and self.ty != "INITIAL"          # RFC 9001 §5.2: Initial packets use AES-128
        return apply_hp(self.first(), self.mid(), self.pn, self.payload, lambda s: toy_mask(ch, key, s), True)

    def expect(self, isserver, ts):
        e = {"header_type": "LONG", "packet_type": self.ty, "isserver": "1" if isserver else "0", "ts": str(ts),
             "first_byte": "%02x" % self.first(), "version": hx(self.version), "dcid_len": "%02x" % len(self.dcid),
             "dcid": hx(self.dcid), "scid_len": "%02x" % len(self.scid), "scid": hx(self.scid),
             "packet_len_bytes": hx(self.lb()), "packet_num": hx(self.pn), "payload": hx(self.payload),
             "packet_len": hx((len(self.pn) + len(self.payload)).to_bytes(self.lw, "big")),
             "aad": hx(bytes([self.first()]) + self.mid() + self.pn)}
        if self.ty == "INITIAL":
            e.update({"token_len": str(len(self.token)), "token_len_bytes": hx(self.tlb()), "token": hx(self.token)})
        return e


class ShortP:
    def __init__(self, dcid, pn, payload, spin=0, reserved=0, phase=0):
        self.dcid, self.pn, self.payload, self.spin, self.reserved, self.phase = dcid, pn, payload, spin, reserved, phase

    def first(self):
        return 0x40 | (self.spin << 5) | (self.reserved << 3) | (self.phase << 2) | (len(self.pn) - 1)

    def wire(self, keys, isserver, chacha):
        key = keys["server_application_hp" if isserver else "client_application_hp"]
        return apply_hp(self.first(), self.dcid, self.pn, self.payload, lambda s: toy_mask(chacha, key, s), False)

    def expect(self, isserver, ts):
        return {"header_type": "SHORT", "packet_type": "RTT_1", "isserver": "1" if isserver else "0", "ts": str(ts),
                "first_byte": "%02x" % self.first(), "dcid": hx(self.dcid), "packet_num": hx(self.pn),
                "payload": hx(self.payload), "key_phase": str(self.phase),
                "aad": hx(bytes([self.first()]) + self.dcid + self.pn)}


class RetryP:
    def __init__(self, dcid, scid, token, tag, unused=0, version=b"\0\0\0\x01"):
        self.dcid, self.scid, self.token, self.tag, self.unused, self.version = dcid, scid, token, tag, unused, version

    def wire(self, keys, isserver, chacha):
        return bytes([0xF0 | self.unused]) + self.version + bytes([len(self.dcid)]) + self.dcid + \
            bytes([len(self.scid)]) + self.scid + self.token + self.tag

    def expect(self, isserver, ts):
        return {"header_type": "LONG", "packet_type": "RETRY", "isserver": "1" if isserver else "0", "ts": str(ts),
                "first_byte": "int:%02x" % (0xF0 | self.unused), "version": hx(self.version),
                "dcid_len": "%02x" % len(self.dcid), "dcid": hx(self.dcid), "scid_len": "%02x" % len(self.scid),
                "scid": hx(self.scid), "retry_token": hx(self.token), "retry_integ_tag": hx(self.tag)}


class VerNegP:
    def __init__(self, dcid, scid, versions, unused=0):
        self.dcid, self.scid, self.versions, self.unused = dcid, scid, versions, unused

    def wire(self, keys, isserver, chacha):
        return bytes([0x80 | self.unused]) + b"\0\0\0\0" + bytes([len(self.dcid)]) + self.dcid + \
            bytes([len(self.scid)]) + self.scid + b"".join(self.versions)

    def expect(self, isserver, ts):
        return {"header_type": "LONG", "packet_type": "VERSION_NEG", "isserver": "1" if isserver else "0",
                "ts": str(ts), "first_byte": "int:%02x" % (0x80 | self.unused), "version": "00000000",
                "dcid_len": "%02x" % len(self.dcid), "dcid": hx(self.dcid), "scid_len": "%02x" % len(self.scid),
                "scid": hx(self.scid)}


# ----------------------------------------------------------------------------- the real code
class StubPacket:
    """what extract_quic_packet reads and writes of a tlexport.packet.Packet"""

    def __init__(self, data, ts):
        self.tls_data = data
        self.timestamp = ts


class Hang(BaseException):
    pass


def _alarm(signum, frame):
    raise Hang()


ATTRS = ["header_type", "packet_type", "isserver", "ts", "first_byte", "version", "dcid_len", "dcid", "scid_len", "scid",
         "token_len", "token_len_bytes", "token", "packet_len", "packet_len_bytes", "packet_num", "payload", "key_phase",
         "retry_token", "retry_integ_tag", "supported_version"]
_MISSING = object()


def render_attr(name, v):
    if v is _MISSING or v is None:
        return "~"
    if name in ("header_type", "packet_type"):
        return getattr(v, "name", repr(v))
    if name == "isserver":
        return "1" if v else "0"
    if name in ("ts", "token_len", "key_phase"):
        return str(v) if isinstance(v, int) and not isinstance(v, bool) else "?" + repr(v)
    if name == "supported_version":
        return "()" if v == () else "?" + repr(v)
    if isinstance(v, (bytes, bytearray)):
        return hx(v)
    if name == "first_byte" and isinstance(v, int):
        return "int:%02x" % v
    return "?" + repr(v)


def classify(msg):
    if msg is None:
        return None
    if "unpack_from requires" in msg or "bad char in struct format" in msg or "total struct size too long" in msg:
        return "struct"
    if "index out of range" in msg:
        return "index"
    if "total_packet_len" in msg:
        return "unbound"
    if "toy-mask" in msg:
        return "mask"
    if "toy-key" in msg or "_hp'" in msg or "not subscriptable" in msg:
        return "key"
    return "other:" + msg[:60]


class Impl:
    def __init__(self):
        import tlexport.quic.quic_dissector as qd
        from tlexport.quic.quic_session import QuicSession
        self.qd, self.QuicSession = qd, QuicSession

    @contextlib.contextmanager
    def patched(self):
        qd = self.qd
        old = (qd.make_hp_mask, qd.make_chacha_hp_mask)
        qd.make_hp_mask = lambda key, sample: toy_mask(False, key, sample)
        qd.make_chacha_hp_mask = lambda key, sample: toy_mask(True, key, sample)
        try:
            yield
        finally:
            qd.make_hp_mask, qd.make_chacha_hp_mask = old

    def aad(self, pkt):
        """the associated data the real decrypt_packet hands to the decryptor for this packet (None: it raised
        before reaching the decryptor)"""
        got = []

        class Rec:
            def decrypt(self, payload, pn, ad, isserver):
                got.append(ad)
                raise RuntimeError("recorded")

        class Sess:
            decryptors = {"Initial": Rec(), "Handshake": Rec(), "Early": Rec(), "Application": [Rec()]}
            epoch_server = epoch_client = 0

            def check_key_epoch(self, *a):
                pass

            def get_full_packet_number(self, p):
                return 0

        import logging
        lvl = logging.root.manager.disable
        logging.disable(logging.CRITICAL)
        try:
            with contextlib.redirect_stdout(io.StringIO()):
                try:
                    self.QuicSession.decrypt_packet(Sess(), pkt)
                except Exception:  # noqa
                    pass
        finally:
            logging.disable(lvl)
        return got[0] if got and isinstance(got[0], (bytes, bytearray)) else None

    def render_pkt(self, pkt):
        out = [f"{a}={render_attr(a, getattr(pkt, a, _MISSING))}" for a in ATTRS]
        ad = self.aad(pkt)
        out.append("aad=" + ("~" if ad is None else hx(ad)))
        return " ".join(out)

    def run(self, case):
        """the loop of QuicSession.handle_packet; -> (rendering, [[packet objects per turn]])"""
        keys = case["keys"]
        packet = StubPacket(case["data"], case["ts"])
        turns, objs = [], []
        cap = len(case["data"]) + 2
        old = signal.signal(signal.SIGALRM, _alarm)
        signal.setitimer(signal.ITIMER_REAL, 20.0)
        try:
            with self.patched():
                while len(packet.tls_data) != 0:
                    if len(turns) >= cap:
                        return "hang", objs
                    buf = io.StringIO()
                    with contextlib.redirect_stdout(buf):
                        pkts, packet = self.qd.extract_quic_packet(in_packet=packet, isserver=case["isserver"],
                                                                   guessed_dcid=case["guessed"], keys=keys,
                                                                   ciphersuite=case["suite"])
                    msg = buf.getvalue()
                    kind = classify(msg.split("Error in Dissector: ", 1)[1].strip()) if "Error in Dissector: " in msg else None
                    turns.append((pkts, bytes(packet.tls_data), kind))
                    objs.append(list(pkts))
        except Hang:
            return "hang", objs
        except Exception as e:  # noqa
            return "raise:" + type(e).__name__, objs
        finally:
            signal.setitimer(signal.ITIMER_REAL, 0)
            signal.signal(signal.SIGALRM, old)
        return turns, objs

    def render(self, turns):
        if isinstance(turns, str):
            return turns, []
        parts, kinds = [f"turns={len(turns)}"], []
        for pkts, rest, kind in turns:
            parts.append(f"n={len(pkts)} rest={hx(rest)}" + "".join(" | " + self.render_pkt(p) for p in pkts))
            kinds.append(kind)
        return " || ".join(parts), kinds


def split_model(line):
    """model line -> (line without err=…, [err kinds])"""
    parts = line.split(" || ")
    kinds, out = [], [parts[0]]
    for p in parts[1:]:
        head, sep, tail = p.partition(" | ")
        toks = head.split(" ")
        kinds.append(next((t[4:] for t in toks if t.startswith("err=")), "-"))
        out.append(" ".join(t for t in toks if not t.startswith("err=")) + sep + tail)
    return " || ".join(out), kinds


def case_line(case):
    ks = ",".join("!" if case["keys"] is None or case["keys"].get(n) is None else hx(case["keys"][n]) for n in KEY_NAMES)
    return "all %d %d %s %d %s %s" % (case["isserver"], 1 if case["suite"] == b"\x13\x03" else 0, hx(case["guessed"]),
                                      case["ts"], ks, hx(case["data"]))


# ----------------------------------------------------------------------------- generation
CID_LENS = [0, 1, 4, 8, 16, 20]
PAIRS = [(a, b) for a in CID_LENS for b in CID_LENS] + [(0, 0), (20, 20), (0, 20), (20, 0), (5, 0), (0, 7), (3, 17),
                                                         (19, 2), (12, 12), (21, 21), (63, 63), (255, 63), (100, 0)]


def gen_keys(rng, chacha):
    k = {}
    for n in KEY_NAMES:
        if "initial" in n:
            k[n] = rng.randbytes(rng.choice((16, 16, 24, 32)))
        else:
            k[n] = rng.randbytes(32 if chacha else rng.choice((16, 32, 32, 24)))
    return k


def gen_payload(rng, pnlen, big=False):
    # RFC 9001 §5.4.2: pn + payload ≥ 20 so that the sample exists
    lo = 20 - pnlen
    n = rng.choice((lo, lo, lo + 1, lo + rng.randrange(0, 40), lo + rng.randrange(0, 300)))
    if big:
        n = rng.choice((64 - pnlen, 63 - pnlen, 16384 - pnlen, 16383 - pnlen, 1200, 70000))
    return rng.randbytes(n)


def gen_long(rng, ty, dl, sl, pnlen, tw=None, lw=None, big=False, token=None):
    payload = gen_payload(rng, pnlen, big)
    if token is None:
        token = rng.randbytes(rng.choice((0, 0, 1, 16, 63, 64, 200)))
    n = pnlen + len(payload)
    lw = lw if lw and n < 1 << (8 * lw - 2) else rng.choice([w for w in (1, 2, 4, 8) if n < 1 << (8 * w - 2)])
    tw = tw if tw and len(token) < 1 << (8 * tw - 2) else rng.choice([w for w in (1, 2, 4, 8) if len(token) < 1 << (8 * w - 2)])
    ver = rng.choice((b"\0\0\0\x01", b"\0\0\0\x01", b"\x6b\x33\x43\xcf", rng.randbytes(4)))
    if ver == b"\0\0\0\0":
        ver = b"\0\0\0\x01"
    return LongP(ty, rng.randbytes(dl), rng.randbytes(sl), rng.randbytes(pnlen), payload, version=ver,
                 token=token if ty == "INITIAL" else b"", tw=tw, lw=lw, reserved=rng.choice((0, 0, 0, 1, 2, 3)))


def gen_short(rng, dcid, pnlen):
    return ShortP(dcid, rng.randbytes(pnlen), gen_payload(rng, pnlen), spin=rng.randrange(2),
                  reserved=rng.choice((0, 0, 0, 1, 2, 3)), phase=rng.randrange(2))


def mk_case(rng, pkts, chacha, isserver, guessed, keys=None, pad=0, ts=None, suite=None):
    keys = keys if keys is not None else gen_keys(rng, chacha)
    data = b"".join(p.wire(keys, isserver, chacha) for p in pkts) + b"\0" * pad
    if suite is None:
        suite = b"\x13\x03" if chacha else rng.choice((b"\x13\x01", b"\x13\x02", b"\x13\x04", None))
    return {"isserver": isserver, "suite": suite, "guessed": guessed, "ts": ts if ts is not None else rng.randrange(1, 2 ** 50),
            "keys": keys, "data": data, "pkts": pkts}


def valid_cases(ctx):
    rng = ctx.rng
    out = []
    # (a) every long type × CID length pair × pn length, widths 1/2/4/8 cycling
    i = 0
    for ty in ("INITIAL", "HANDSHAKE", "RTT_O"):
        for dl, sl in PAIRS:
            for pnlen in (1, 2, 3, 4):
                i += 1
                chacha = i % 3 == 0
                isserver = bool(i % 2) if ty != "RTT_O" else (i % 7 == 0)
                p = gen_long(rng, ty, dl, sl, pnlen, tw=(1, 2, 4, 8)[i % 4], lw=(1, 2, 4, 8)[(i // 4) % 4])
                rest = rng.choice((0, 0, 1, 7))
                out.append(("long", mk_case(rng, [p], chacha, isserver, p.dcid, pad=rest)))
    # (b) large Length / token values in every width
    for ty in ("INITIAL", "HANDSHAKE", "RTT_O"):
        for k in range(ctx.n(8, 40)):
            p = gen_long(rng, ty, rng.choice(CID_LENS), rng.choice(CID_LENS), rng.randrange(1, 5), big=True,
                         token=rng.randbytes(rng.choice((0, 63, 64, 16383, 16384))) if ty == "INITIAL" else b"")
            out.append(("long-big", mk_case(rng, [p], k % 2 == 0, k % 3 == 0, p.dcid)))
    # (c) short header: every dcid length 0..20 × pn length
    for dl in range(0, 21):
        for pnlen in (1, 2, 3, 4):
            for chacha in (False, True):
                dcid = rng.randbytes(dl)
                out.append(("short", mk_case(rng, [gen_short(rng, dcid, pnlen)], chacha, bool((dl + pnlen) % 2), dcid)))
    # (d) coalesced datagrams: long packets first, optionally one short packet or zero padding at the end
    for k in range(ctx.n(500, 5000)):
        dl, sl = rng.choice(PAIRS[:40])
        dcid, scid = rng.randbytes(dl), rng.randbytes(sl)
        n = rng.randrange(1, 5)
        pkts = []
        for _ in range(n):
            p = gen_long(rng, rng.choice(("INITIAL", "HANDSHAKE", "RTT_O", "HANDSHAKE")), dl, sl, rng.randrange(1, 5))
            p.dcid, p.scid = dcid, scid
            pkts.append(p)
        tail = rng.choice(("none", "short", "pad", "pad1"))
        if tail == "short":
            pkts.append(gen_short(rng, dcid, rng.randrange(1, 5)))
        pad = {"pad": rng.randrange(1, 1200), "pad1": 1}.get(tail, 0)
        out.append(("coalesced-" + tail, mk_case(rng, pkts, k % 2 == 1, bool(rng.randrange(2)), dcid, pad=pad)))
    # (e) Retry and Version Negotiation
    for dl, sl in PAIRS:
        tok = rng.randbytes(rng.choice((0, 1, 15, 16, 17, 80)))
        p = RetryP(rng.randbytes(dl), rng.randbytes(sl), tok, rng.randbytes(16), unused=rng.randrange(16))
        out.append(("retry", mk_case(rng, [p], False, True, p.dcid)))
        v = VerNegP(rng.randbytes(dl), rng.randbytes(sl), [rng.randbytes(4) for _ in range(rng.randrange(1, 6))],
                    unused=rng.randrange(128))
        out.append(("vneg", mk_case(rng, [v], False, True, v.dcid)))
    return out


def malformed_cases(ctx, valid):
    rng = ctx.rng
    out = []
    base = [c for kind, c in valid if len(c["data"]) < 160]
    # truncation at every byte position of some valid datagrams of each kind
    picked = {}
    for kind, c in valid:
        if len(c["data"]) < 200 and len(picked.setdefault(kind, [])) < ctx.n(3, 12):
            picked[kind].append(c)
    for kind, cs in sorted(picked.items()):
        for c in cs:
            for cut in range(0, len(c["data"])):
                d = dict(c, data=c["data"][:cut])
                d.pop("pkts", None)
                out.append(("trunc", d))
    for k in range(ctx.n(1200, 12000)):
        c = dict(rng.choice(base))
        c.pop("pkts", None)
        data = bytearray(c["data"])
        how = rng.choice(("flip", "flip", "flip-head", "random", "random-long", "nokey", "nonekey", "badkey", "nokeys", "guess",
                          "zeros", "scid64", "extend", "suite"))
        if how == "flip" and data:
            for _ in range(rng.randrange(1, 4)):
                data[rng.randrange(len(data))] ^= 1 << rng.randrange(8)
        elif how == "flip-head" and data:
            data[rng.randrange(min(len(data), 40))] ^= 1 << rng.randrange(8)
        elif how == "random":
            data = bytearray(rng.randbytes(rng.randrange(0, 60)))
        elif how == "random-long":
            n = rng.randrange(1, 80)
            data = bytearray([rng.choice((0x80, 0xC0, 0xD0, 0xE0, 0xF0, 0xC3)) | rng.randrange(16)]) + \
                rng.choice((b"\0\0\0\x01", b"\0\0\0\0", rng.randbytes(4))) + \
                bytearray(rng.choice((0, 1, 8, 20, rng.randrange(256))) for _ in range(1)) + rng.randbytes(n)
        elif how == "nokey":
            c["keys"] = {n: v for n, v in c["keys"].items() if rng.randrange(3)}
        elif how == "nonekey":
            c["keys"] = {n: (v if rng.randrange(3) else None) for n, v in c["keys"].items()}
        elif how == "badkey":
            c["keys"] = {n: (v if rng.randrange(2) else rng.randbytes(rng.choice((0, 1, 15, 17, 31, 33, 16, 32))))
                         for n, v in c["keys"].items()}
        elif how == "nokeys":
            c["keys"] = None
        elif how == "guess":
            c["guessed"] = rng.randbytes(rng.choice((0, 1, 8, 20, 21, 200)))
        elif how == "zeros":
            data = bytearray(rng.randrange(0, 50)) + (data if rng.randrange(2) else b"")
        elif how == "scid64" and len(data) > 7 and data[0] & 0x80:
            pos = 6 + data[5]
            if pos < len(data):
                data[pos] = rng.choice((64, 65, 0x7f, 0x80, 0xc0, 0xff))
        elif how == "extend":
            data += rng.randbytes(rng.randrange(1, 30))
        elif how == "suite":
            c["suite"] = rng.choice((b"\x13\x03", b"\x13\x01", None, b"", b"\x13"))
        c["data"] = bytes(data)
        out.append((how, c))
    # every 1-byte datagram, and all 2-byte headers with a few tails
    for b0 in range(256):
        c = dict(rng.choice(base), data=bytes([b0]))
        c.pop("pkts", None)
        out.append(("1byte", c))
    return out


# ----------------------------------------------------------------------------- runs
def parse_rendered(s):
    return dict(t.split("=", 1) for t in s.split(" ") if "=" in t)


def check_expected(ctx, impl, case, turns, objs):
    """valid datagrams: the real code returns exactly the encoded packets, in order, field by field"""
    pkts = case["pkts"]
    got = [p for t in objs for p in t] if not isinstance(turns, str) else None
    want = [p.expect(case["isserver"], case["ts"]) for p in pkts]
    bad = None
    if got is None or len(got) != len(want):
        bad = f"{None if got is None else len(got)} packets returned, {len(want)} encoded"
    else:
        for i, (g, w) in enumerate(zip(got, want)):
            r = parse_rendered(impl.render_pkt(g))
            for k, v in w.items():
                if r.get(k) != v:
                    bad = f"packet {i}: {k} = {r.get(k)}, encoded {v}"
                    break
            if bad:
                break
    if bad:
        ctx.fail("C02:{dissect}:valid-packet-not-recovered", "a datagram of RFC-conformant packets is not dissected into "
                 "exactly the packets that were encoded: " + bad,
                 {"dissect": {"isserver": case["isserver"], "suite": None if case["suite"] is None else case["suite"].hex(),
                              "guessed": case["guessed"].hex(), "ts": case["ts"], "data": case["data"].hex(),
                              "keys": {k: v.hex() for k, v in case["keys"].items()}}},
                 expected=want, actual=bad, how="harness/q2a_selftest.py")


def run_stream(ctx, impl, point, cases, expected):
    lines = [case_line(c) for _, c in cases]
    model = ctx.driver("dissect", lines)
    pt = ctx.point(point)
    for (kind, c), mline in zip(cases, model):
        pt["cases"] += 1
        turns, objs = impl.run(c)
        iline, ikinds = impl.render(turns)
        mcmp, mkinds = split_model(mline)
        ctx.hist(point + ".kind", kind)
        nturn = len(turns) if not isinstance(turns, str) else -1
        npk = sum(len(t) for t in objs)
        ctx.hist(point + ".packets", npk)
        ctx.count((point, kind, len(c["data"]), nturn, npk, mline[:80]), nontrivial=len(c["data"]) > 0)
        desc = {"kind": kind, "line": case_line(c)}
        if iline != mcmp:
            ctx.disagree(point, desc, iline, mcmp)
            continue
        for k, (a, b) in enumerate(zip(ikinds, mkinds)):
            ctx.hist(point + ".err", b)
            if a is not None and a != b and not (a is None and b == "-"):
                ctx.disagree(point, dict(desc, turn=k, what="exception caught"), a, b)
                break
        if expected:
            check_expected(ctx, impl, c, turns, objs)
            ctx.sample({"kind": kind, "line": case_line(c)[:300]})


def twin(ctx):
    rng = ctx.rng
    pt = ctx.point("dissect.twin")
    reqs = []
    for _ in range(ctx.n(400, 2000)):
        ch = rng.randrange(2)
        key = rng.randbytes(rng.choice((16, 24, 32, 32, 32, 0, 15, 33)))
        s = rng.randbytes(rng.choice((16, 16, 16, 16, 0, 1, 15)))
        reqs.append((ch, key, s))
    out = ctx.driver("dissect", [f"mask {ch} {hx(k)} {hx(s)}" for ch, k, s in reqs])
    for (ch, k, s), m in zip(reqs, out):
        pt["cases"] += 1
        try:
            r = hx(toy_mask(bool(ch), k, s))
        except Exception:  # noqa
            r = "raise"
        if r != m:
            ctx.disagree("dissect.twin", {"chacha": ch, "key": k.hex(), "sample": s.hex()}, r, m)


def correspond(ctx):
    impl = Impl()
    twin(ctx)
    toy_conformance(ctx)
    valid = valid_cases(ctx)
    run_stream(ctx, impl, "dissect.valid", valid, True)
    mal = malformed_cases(ctx, valid)
    run_stream(ctx, impl, "dissect.malformed", mal, False)
    ctx.rule += ("dissect: valid = RFC 9000 §17 packets from an independent encoder (Initial/0-RTT/Handshake × CID length "
                 "pairs from {0,1,4,8,16,20}² + extremes × pn length 1..4 × varint widths 1/2/4/8, short header dcid 0..20, "
                 "coalesced datagrams with short/zero-padding tails, Retry, Version Negotiation) under the toy header "
                 "protection; malformed = truncation at every byte, bit flips, random bytes, missing/None/bad keys, wrong "
                 "guessed dcid, zero runs, SCID length ≥ 64; a case is non-trivial when the datagram is non-empty. ")
