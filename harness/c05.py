"""C05 — the export is independent of TCP segmentation, retransmission and reordering.

proof:          lean/TLX/Props/C05.lean (reassembly_exact_partial under NoEarlyDelivery, …_first_in_place, …_inorder,
                counterexample to the full statement, legacy witnesses, two_pass_eq_fused, metadata_is_overlap)
correspondence: Lean `Reassembly.ingest` (one machine per direction, `tlxdriver reasm`) vs a real
                `tlexport.session.Session` fed real `Packet` objects, `handle_tls_record` wrapped to log
                the records handed on (direction, raw bytes, carrier packets of `metadata`)
oracle (L2):    records handed on per direction == own framing (c05_gen.frame) of the byte stream the
                generator cut, for every schedule the property quantifies over
oracle (e2e):   the real tool (`tlexport.main.run()` in-process) on one TLS 1.2 / 1.3 connection from the
                independent sender, re-segmented / duplicated / displaced within flights / ISN near 2^32:
                exported per-direction streams == baseline (one record per segment) == sender's plaintext

Scope of the oracles = the property's quantifier: cuts, exact duplicates, displacement *within a flight*
(maximal run of same-direction segments), any ISN.  One residue is inherent to a reassembler that never
sees the SYN (main.py drops packets without payload): when the *first* data segment of a direction is
overtaken by later segments that are whole records on their own, nothing tells that data is missing.
Those schedules are generated separately and reported under the signature
`C05:{overtakers-whole-records,reorder-first-segment}:stream-mismatch` (known_findings.json); every other
schedule with an overtaken first segment is held to the property like the rest.
"""
import os
import sys
import tempfile

import fw
import c05_gen as g

THEOREMS = ["TLX.Props.C05.reassembly_exact_partial", "TLX.Props.C05.reassembly_exact_first_in_place",
            "TLX.Props.C05.reassembly_exact_inorder", "TLX.Props.C05.swapped_early_delivery",
            "TLX.Props.C05.reassembly_exact_counterexample", "TLX.Props.C05.metadata_is_overlap",
            "TLX.Props.C05.legacy_reorder_witness", "TLX.Props.C05.legacy_wrap_witness",
            "TLX.Props.C05.two_pass_eq_fused"]
MODEL = os.environ.get("C05_MODEL", "reasm")      # `reasm-legacy` = the machine before the repair (debug aid)
RESIDUE = "C05:{overtakers-whole-records,reorder-first-segment}:stream-mismatch"
W = g.W


# ----------------------------------------------------------------------------- the real code, L2
class Impl:
    def __init__(self):
        from tlexport.session import Session
        from tlexport.packet import Packet
        self.Session, self.Packet = Session, Packet

    def run(self, sched):
        """Feed the segments (capture order) to a real Session the way main.handle_packet does and
        return the records handed to handle_tls_record: [(dir, raw, [carrier ids])], crash or None."""
        log = []
        try:
            pkts = []
            for k, (d, pid, _off, seq, data) in enumerate(sched):
                p = self.Packet(g.eth_frame(d == "s", seq, 0, data), 1700000000.0 + k * 0.001)
                p.c05_id = pid
                pkts.append(p)
            sess = self.Session(pkts[0], [443], [], {}, True, False)
            for p in pkts[1:]:
                if sess.matches_session(p):
                    sess.handle_packet(p)
            sess.handle_tls_record = lambda record, isserver: log.append(
                ("s" if isserver else "c", bytes(record.raw), [m.c05_id for m in record.metadata]))
            with fw.quiet():
                sess.get_tls_records()
            return log, None
        except Exception as e:  # noqa
            tb = e.__traceback__
            while tb.tb_next:
                tb = tb.tb_next
            return log, f"crash:{type(e).__name__}@{tb.tb_frame.f_code.co_name}"


def canon(log, crash):
    out = [f"{d} rec {raw.hex() or '-'} carriers=[{','.join(map(str, ids))}]" for d, raw, ids in log]
    if crash:
        out.append(crash)
    return out


def model_lines(sched):
    return ["reset"] + [f"seg {d} {pid} {seq} {data.hex() or '-'}" for d, pid, _o, seq, data in sched]


def model_canon(sched, replies):
    out = []
    for (d, *_), r in zip(sched, replies[1:]):
        if r != "-":
            out += [f"{d} {x}" for x in r.split(" ; ")]
    return out


# ----------------------------------------------------------------------------- L2 oracle
def l2_fails(impl, case, drop=()):
    """None if the property holds on this schedule, else (kind, expected, actual)."""
    sched = g.build(case, drop)
    log, crash = impl.run(sched)
    if crash:
        return crash, None, canon(log, crash)[-6:]
    st = g.streams(case)
    for d in "cs":
        want = g.frame(st[d])[0]
        got = [raw for dd, raw, _ in log if dd == d]
        if got != want:
            return ("stream-mismatch", {"dir": d, "records": [r.hex() for r in want][:12]},
                    {"dir": d, "records": [r.hex() for r in got][:12]})
    return None


def overtakers_are_whole_records(case):
    """The residue: before the first data segment (offset 0) of a direction arrives, the segments that
    overtook it are, at some moment, contiguous and frame exactly — a reassembler without the SYN
    cannot know that anything precedes them."""
    sched = g.build(case)
    for d in "cs":
        early = []
        for s in sched:
            if s[0] != d:
                continue
            if s[2] == 0:
                break
            if any(e[2] == s[2] for e in early):
                continue
            early.append(s)
            ss = sorted(early, key=lambda x: x[2])
            if all(a[2] + len(a[4]) == b[2] for a, b in zip(ss, ss[1:])) and \
                    g.frame(b"".join(x[4] for x in ss))[1] == b"":
                return True
    return False


def classify(case, fails):
    """Feature-wise shrinking: switch every generator dimension off in turn; it stays in the signature
    only if the failure disappears without it."""
    feats = g.features(case)
    drop = set()
    res = fails(case, ())
    for f in sorted(feats):
        r = fails(case, tuple(drop | {f}))
        if r is not None:
            drop.add(f)
            res = r
    left = sorted(feats - drop)
    if g.moves_first_segment(case) and "reorder" in left:
        left[left.index("reorder")] = "reorder-first-segment"
    return left, tuple(sorted(drop)), res


def check_case(ctx, impl, case, label, oracle=True):
    """Run one L2 case on the real code; returns (schedule, canonical impl output)."""
    sched = g.build(case)
    log, crash = impl.run(sched)
    feats = g.features(case)
    ctx.count((label, [(s[0], s[3], s[4]) for s in sched]), nontrivial=bool(feats))
    ctx.hist("features", "+".join(sorted(feats)) or "plain")
    ctx.hist("segments", min(len(sched) // 5 * 5, 60))
    if oracle:
        o = ctx.oracle.setdefault("l2:" + label, {"runs": 0, "violations": 0})
        o["runs"] += 1
        if l2_verdict(log, crash, case) is not None:
            o["violations"] += 1
            key = (tuple(sorted(feats)), g.moves_first_segment(case))
            seen = ctx.__dict__.setdefault("_c05_seen", {})
            seen[key] = seen.get(key, 0) + 1
            if seen[key] > 2 or len(ctx.failures) >= 18:       # enough replays of this kind; keep counting
                return sched, canon(log, crash)
            residue = g.moves_first_segment(case) and overtakers_are_whole_records(case)
            left, drop, res = classify(case, lambda c, d: l2_fails(impl, c, d))
            sig = RESIDUE if residue else "C05:{" + ",".join(left) + "}:" + res[0]
            sigs = ctx.__dict__.setdefault("_c05_sigs", {})
            sigs[sig] = sigs.get(sig, 0) + 1
            if sigs[sig] > 2:
                return sched, canon(log, crash)
            ctx.fail(sig, "records handed on by Session differ from the framing of the byte stream the endpoint sent",
                     {"kind": "l2", "case": case, "drop": list(drop), "label": label},
                     expected=res[1], actual=res[2], how="bin/check C05 --replay <this file>")
    return sched, canon(log, crash)


def l2_verdict(log, crash, case):
    if crash:
        return crash
    st = g.streams(case)
    for d in "cs":
        if [raw for dd, raw, _ in log if dd == d] != g.frame(st[d])[0]:
            return "stream-mismatch"
    return None


# ----------------------------------------------------------------------------- case streams
def exhaustive_cases(ctx):
    """Every set of cut points of short streams (one direction each, with and without wrap)."""
    shapes = ctx.n([("c", (0, 0), 1000), ("s", (1, 0), W - 7)],
                   [("c", (1, 3), 1000), ("s", (0, 1, 0), W - 9), ("c", (3, 1), W - 5), ("s", (2, 2), 0),
                    ("c", (0, 0, 0), W - 15)])
    for d, bodies, isn in shapes:
        recs = [g.rec(22 + k % 2, b"\x03\x03", bytes(range(1, n + 1))) for k, n in enumerate(bodies)]
        total = sum(len(r) for r in recs)
        for mask in range(1 << (total - 1)):
            cuts = [i + 1 for i in range(total - 1) if mask >> i & 1]
            yield {"flights": [{"dir": d, "recs": [r.hex() for r in recs], "cuts": cuts}],
                   "isn": {"c": isn if d == "c" else 5000, "s": isn if d == "s" else 5000}, "moves": [], "dups": []}


def single_displacements(ctx, maxdisp=3):
    """Every displacement of one segment by ≤ maxdisp inside its flight (first data segments stay put)."""
    rng = ctx.rng
    for wrap in (False, True):
        base = g.rand_case(rng, wrap=wrap, dups=False, moves=False, nflights=ctx.n(3, 5))
        for n, fl in enumerate(base["flights"]):
            total = len(g.flight_bytes(fl))
            if n % 2 == 0:
                fl["recs"] = [g.rand_record(rng).hex() for _ in range(ctx.n(5, 7))]      # one record per segment
                fl["cuts"] = g.record_bounds(fl)
            else:
                fl["cuts"] = sorted(rng.sample(range(1, total), min(total - 1, ctx.n(5, 8))))
        ff = g.first_flights(base)
        for f, fl in enumerate(base["flights"]):
            n = len(fl["cuts"]) + 1
            lo = 1 if f in ff else 0
            for i in range(lo, n):
                for j in range(max(lo, i - maxdisp), min(n, i + maxdisp + 1)):
                    if i != j:
                        c = dict(base)
                        c["moves"] = [[f, i, j]]
                        yield c


def malformed_cases(ctx, k):
    """Garbage streams, overlapping retransmissions with other boundaries, loss, wild sequence numbers.
    Correspondence only (no oracle claim)."""
    rng = ctx.rng
    for n in range(k):
        r = rng.random()
        if r < 0.35:        # garbage bytes instead of records
            case = g.rand_case(rng, first_move=rng.random() < 0.3)
            for fl in case["flights"]:
                if rng.random() < 0.7:
                    blob = rng.randbytes(rng.randrange(1, 80))
                    if rng.random() < 0.5:      # small lengths so that garbage sometimes frames
                        blob = bytes(b if i % 5 not in (3, 4) else (0 if i % 5 == 3 else b % 7) for i, b in enumerate(blob))
                    fl["recs"] = [blob.hex()]
                    fl["cuts"] = g.rand_cuts(rng, len(blob), rng.choice(("dense", "mid", "one")))
        else:
            case = g.rand_case(rng, first_move=rng.random() < 0.2)
        st = g.streams(case)
        sched_len = sum(len(fl["cuts"]) + 1 for fl in case["flights"])
        case["extra"] = []
        for _ in range(rng.choice((0, 1, 1, 2, 3))):
            d = rng.choice("cs")
            n_d = len(st[d])
            kind = rng.random()
            if n_d >= 2 and kind < 0.5:       # retransmission with other boundaries (consistent bytes)
                a = rng.randrange(0, n_d - 1)
                b = rng.randrange(a + 1, n_d + 1)
                seq, data = case["isn"][d] + a, st[d][a:b]
            elif kind < 0.7:                  # stale / keep-alive style: just before the stream
                seq, data = case["isn"][d] - rng.randrange(1, 4), rng.randbytes(rng.randrange(1, 4))
            elif kind < 0.85:                 # far away in sequence space
                seq, data = case["isn"][d] + rng.choice((1 << 31, (1 << 31) - 1, (1 << 31) + 1, 1 << 30, W - 100)), \
                    rng.randbytes(rng.randrange(1, 12))
            else:                             # same seq as a real segment, other bytes
                seq, data = case["isn"][d] + rng.randrange(0, max(1, n_d)), rng.randbytes(rng.randrange(1, 9))
            case["extra"].append([rng.randrange(0, sched_len + 1), d, seq % W, data.hex()])
        if rng.random() < 0.3:
            case["lose"] = [rng.randrange(0, sched_len)]
        yield case


def build_malformed(case):
    sched = g.build({k: v for k, v in case.items() if k != "extra"})
    for i in sorted(case.get("lose", []), reverse=True):
        if i < len(sched) and len(sched) > 1:
            del sched[i]
    for k, (pos, d, seq, hexdata) in enumerate(case.get("extra", [])):
        sched.insert(min(len(sched), pos), [d, 200000 + k, None, seq % W, bytes.fromhex(hexdata)])
    return sched


# ----------------------------------------------------------------------------- end to end
class Tool:
    """`tlexport.main.run()` in-process with its module-level state reset (≈ 20 ms per run)."""

    def __init__(self):
        import tlexport.main as m
        self.m = m
        self.dir = tempfile.mkdtemp(prefix="c05_")

    def export(self, frames, keylog, extra=()):
        import dpkt
        m = self.m
        cap, log, out = (os.path.join(self.dir, x) for x in ("in.pcapng", "keys.log", "out.pcapng"))
        g.write_pcapng(cap, frames)
        open(log, "w").write(keylog)
        if os.path.exists(out):
            os.remove(out)
        m.server_ports[:] = [443, 44330]
        m.keylog.clear()
        m.sessions.clear()
        m.quic_sessions.clear()
        argv = sys.argv
        sys.argv = ["tlexport", "-i", cap, "-s", log, "-o", out] + list(extra)
        try:
            with fw.quiet():
                m.run()
        except BaseException as e:  # noqa  (SystemExit included: the tool must not abort)
            tb = e.__traceback__
            while tb.tb_next:
                tb = tb.tb_next
            return None, f"crash:{type(e).__name__}@{tb.tb_frame.f_code.co_name}"
        finally:
            sys.argv = argv
        got = {"c": b"", "s": b""}
        with open(out, "rb") as f:
            for _ts, buf in dpkt.pcapng.Reader(f):
                ip = dpkt.ethernet.Ethernet(buf).data
                if isinstance(ip, dpkt.ip.IP) and isinstance(ip.data, dpkt.tcp.TCP):
                    got["s" if ip.data.sport == g.SPORT else "c"] += bytes(ip.data.data)
        return got, None


def e2e_frames(case, drop=()):
    """Capture for a case: data segments in schedule order, a pure ACK (no payload) from the peer after
    each flight (main.py must skip those)."""
    sched = g.build(case, drop)
    isn = {"c": 1000, "s": 5000} if "wrap" in drop else case["isn"]
    sent = {"c": 0, "s": 0}
    frames, t = [], 1700000000.0
    for k, (d, _pid, off, seq, data) in enumerate(sched):
        o = "s" if d == "c" else "c"
        t += 0.000731
        frames.append((t, g.eth_frame(d == "s", seq, isn[o] + sent[o], data)))
        sent[d] = max(sent[d], off + len(data))
        if k + 1 == len(sched) or sched[k + 1][0] != d:
            t += 0.000211
            frames.append((t, g.eth_frame(o == "s", isn[o] + sent[o], isn[d] + sent[d], b"", flags=0x10)))
    return frames


def e2e_fails(tool, conn, drop=(), extra=()):
    got, crash = tool.export(e2e_frames(conn["case"], drop), conn["keylog"], extra)
    if crash:
        return crash, None, crash
    for d in "cs":
        if got[d] != conn["plain"][d]:
            return ("stream-mismatch", {"dir": d, "len": len(conn["plain"][d])},
                    {"dir": d, "len": len(got[d]), "common_prefix": os.path.commonprefix([got[d], conn["plain"][d]]).__len__()})
    return None


def e2e(ctx, tool, nconn, nvar):
    rng = ctx.rng
    o = ctx.oracle.setdefault("e2e", {"runs": 0, "violations": 0, "baseline_bad": 0})
    for n in range(nconn):
        ver = ("tls12", "tls13")[n % 2]
        app = g.rand_app(rng)
        msgs, kl = (g.tls12_gcm if ver == "tls12" else g.tls13_gcm)(rng, app)
        plain = {"c": b"".join(p for d, p in app if d == 0), "s": b"".join(p for d, p in app if d == 1)}
        base = {"flights": g.msgs_to_flights(msgs), "isn": {"c": 1000, "s": 5000}, "moves": [], "dups": []}
        conn = {"case": base, "keylog": kl, "plain": plain, "version": ver}
        o["runs"] += 1
        r = e2e_fails(tool, conn)
        if r is not None:
            # the baseline itself does not export the sender's plaintext: not a C05 matter (C01/C03);
            # without a good baseline the metamorphic relation says nothing
            o["baseline_bad"] += 1
            ctx.notes.append(f"e2e baseline ({ver}) does not export the ground truth: {r[0]} — skipped")
            continue
        st = g.streams(base)
        sizes_ok = all(len(st[d]) >= 2 for d in "cs")
        for v in range(nvar):
            case = {"flights": [dict(fl) for fl in base["flights"]], "isn": dict(base["isn"]), "moves": [], "dups": []}
            want = set(rng.sample(["cut", "dup", "reorder", "wrap"], rng.randrange(1, 5)))
            if v == 0:
                want = {"cut", "dup", "reorder", "wrap"}
            if "reorder" in want:
                want.add("cut")
            if "cut" in want:
                for fl in case["flights"]:
                    total = len(g.flight_bytes(fl))
                    fl["cuts"] = g.rand_cuts(rng, total, rng.choice(("sparse", "mid", "one", "records", "records", "recsubset", "recplus",
                                                                      "bytes" if total < 120 else "sparse")), g.record_bounds(fl))
            sizes = [len(fl["cuts"]) + 1 for fl in case["flights"]]
            ff = g.first_flights(case)
            if "reorder" in want:
                for _ in range(rng.randrange(1, 5)):
                    f = rng.randrange(len(sizes))
                    lo = 1 if f in ff else 0
                    if sizes[f] - lo >= 2:
                        i = rng.randrange(lo, sizes[f])
                        j = max(lo, min(sizes[f] - 1, i + rng.choice((-1, 1)) * rng.randrange(1, 4)))
                        if i != j:
                            case["moves"].append([f, i, j])
            if "dup" in want:
                for _ in range(rng.randrange(1, 4)):
                    case["dups"].append([rng.randrange(sum(sizes)), rng.randrange(0, 5)])
            if "wrap" in want and sizes_ok:
                case["isn"] = {d: W - rng.randrange(1, len(st[d])) for d in "cs"}
            vconn = dict(conn, case=case)
            feats = g.features(case)
            o["runs"] += 1
            ctx.count(("e2e", n, v, sorted(feats), case["isn"], case["moves"], case["dups"]), nontrivial=bool(feats))
            ctx.hist("e2e_features", ver + ":" + ("+".join(sorted(feats)) or "plain"))
            # every third schedule also runs with the checksum test on (all checksums are valid; the capture holds the
            # peers' pure ACKs, whose sequence numbers equal those of the next data segments)
            extra = ("-c",) if v % 3 == 1 else ()
            ctx.hist("e2e_options", " ".join(extra) or "(none)")
            r = e2e_fails(tool, vconn, extra=extra)
            if r is not None and extra and e2e_fails(tool, vconn) is not None:
                extra = ()                # fails without -c as well: classify it as a matter of the schedule alone
            if r is not None:
                o["violations"] += 1
                if len(ctx.failures) >= 16:
                    continue
                left, drop, res = classify(case, lambda c, d: e2e_fails(tool, dict(conn, case=c), d, extra))
                left = list(left) + (["-c"] if extra else [])
                ctx.fail("C05:{" + ",".join(left) + "}:" + res[0],
                         f"the tool exports different plaintext streams for the same {ver} connection delivered with another TCP schedule",
                         {"kind": "e2e", "case": case, "keylog": kl, "plain": {d: plain[d].hex() for d in "cs"},
                          "version": ver, "drop": list(drop)},
                         expected=res[1], actual=res[2], how="bin/check C05 --replay <this file>")
        ctx.sample({"e2e": ver, "segments_baseline": sum(len(fl["recs"]) for fl in base["flights"]),
                    "plaintext_bytes": {d: len(plain[d]) for d in "cs"}})


# ----------------------------------------------------------------------------- driver
def reasm_corr(ctx, scale=1, frac=1.0, oracle=True):
    """L2: the real Session (handle_packet + get_tls_records on real Packet objects) against TLX.Reassembly.
    `frac` < 1 runs a proportionally smaller sample (used by the checks of C07 and C08, whose theorems rest on the
    same model)."""
    impl = Impl()
    rng = ctx.rng
    oracle_on = oracle
    batches = []        # (point, case, schedule, impl canonical)

    def add(point, case, label, oracle=True, malformed=False):
        if malformed:
            sched = build_malformed(case)
            log, crash = impl.run(sched)
            ctx.count((label, [(s[0], s[3], s[4]) for s in sched]))
            ctx.hist("features", "malformed")
            out = canon(log, crash)
        else:
            sched, out = check_case(ctx, impl, case, label, oracle and oracle_on)
        batches.append((point, case, sched, out))

    sz = lambda q, t: max(1, int(ctx.n(q, t) * scale * frac))
    if frac >= 1.0:
        for case in exhaustive_cases(ctx):
            add("reasm.exhaustive-cuts", case, "exhaustive")
        for case in single_displacements(ctx):
            add("reasm.single-displacements", case, "displace1")
    for _ in range(sz(2500, 40000)):
        add("reasm.random", g.rand_case(rng), "random")
    for _ in range(sz(600, 8000)):       # sequence space wraps inside the stream, both directions
        add("reasm.wrap", g.rand_case(rng, wrap=True), "wrap")
    for _ in range(sz(600, 8000)):       # first data segment overtaken
        add("reasm.first-segment", g.rand_case(rng, first_move=True, dups=rng.random() < 0.3), "first")
    for _ in range(sz(60, 800)):         # duplicates captured ≥ 64 segments after the original
        add("reasm.late-duplicates", g.late_dup_case(rng), "latedup")
    for case in malformed_cases(ctx, sz(1500, 20000)):
        add("reasm.malformed", case, "malformed", malformed=True)
    for _ in range(sz(12, 200)):         # duplicates captured > 300 segments after the original
        add("reasm.late-duplicates", g.far_dup_case(rng), "fardup")

    lines, spans = [], []
    for _p, _c, sched, _o in batches:
        ls = model_lines(sched)
        spans.append((len(lines), len(ls)))
        lines += ls
    replies = ctx.driver(MODEL, lines)
    for (point, case, sched, out), (a, n) in zip(batches, spans):
        p = ctx.point(point)
        p["cases"] += 1
        mo = model_canon(sched, replies[a:a + n])
        io = [x for x in out if not x.startswith("crash:")]
        if mo != io or len(io) != len(out):
            ctx.disagree(point, {"case": case, "schedule": [[s[0], s[1], s[3], s[4].hex()] for s in sched]}, out[:30], mo[:30])
    if batches:
        _p, c, sched, out = batches[len(batches) // 3]
        ctx.sample({"schedule": [[s[0], s[1], s[3], s[4].hex()] for s in sched][:8], "impl": out[:3]})


def explore(ctx, scale=1):
    reasm_corr(ctx, scale)
    e2e(ctx, Tool(), ctx.n(4, 40) * scale, ctx.n(7, 24))


def run(ctx):
    ctx.rule = ("L2 case = conversation of 1–5 flights (alternating direction, 1–4 random records each) × cut set per "
                "flight (dense/sparse/single bytes/one segment) × ≤ 3 displacements of ≤ 3 positions inside a flight × "
                "≤ 3 exact duplicates inserted later × ISN per direction (0, small, random, ending at 2^32, wrapping inside "
                "the stream); exhaustive: every cut set of 10–15-byte streams, every single displacement ≤ 3 of a cut "
                "conversation; separate streams: first data segment overtaken (residue probe), malformed (garbage, "
                "overlapping retransmissions, loss, wild seq; model tie only). e2e case = one TLS 1.2/1.3 AES-GCM "
                "connection from the independent sender × the same dimensions + pure ACKs. Non-trivial iff the schedule "
                "differs from one-record-per-segment in-order delivery (≥ 1 of cut/dup/reorder/wrap); distinct = "
                "distinct (direction, seq, payload) sequences.")
    ctx.assumptions = ["L2 drives Session with real Packet objects parsed from generated Ethernet/IPv4/TCP frames, the way "
                       "main.handle_packet does (matches_session, handle_packet), then get_tls_records()",
                       "streams are shorter than 2^31 bytes (theorem hypothesis); displacement never crosses packets of the "
                       "other direction (causally impossible captures are outside the property)",
                       "e2e runs tlexport.main.run() in-process with the four module-level lists reset"]
    ctx.exhaustive = False
    ctx.extra["exhaustive_subspaces"] = ("every set of cut points of the short streams of exhaustive_cases (2^(n-1) schedules each); "
                                         "every displacement of one segment by <= 3 positions inside its flight for two cut conversations")
    import translate                 # decision-logic functions re-translated from the source and proved equal to the model
    _tm, _tt = translate.wire(ctx, "C05")
    import oncode_thms               # the property theorems stated on the regenerated definitions themselves (Props/OnCode)
    _om, _ot = oncode_thms.wire("C05")
    _tm, _tt = _tm + _om, _tt + _ot
    import export_seg_thms, file_corr          # whole-program form (Props/ExportSeg) about connOut / framesFrom
    ctx.prove(["TLX.Props.C05"] + _tm + export_seg_thms.MODULES)
    ctx.require_theorems(export_seg_thms.THEOREMS_C05)
    file_corr.correspond(ctx, ctx.n(12, 200))     # ties the whole-program model (the theorems' subject) file to file
    ctx.require_theorems(_tt)
    ctx.require_theorems(THEOREMS)
    explore(ctx)
    return ctx.finish(search=lambda c: explore(c, scale=3))


def replay(ctx, obj):
    c = obj["case"]
    if c["kind"] == "l2":
        r = l2_fails(Impl(), c["case"], tuple(c.get("drop", ())))
    else:
        conn = {"case": c["case"], "keylog": c["keylog"], "plain": {d: bytes.fromhex(c["plain"][d]) for d in "cs"}}
        r = e2e_fails(Tool(), conn, tuple(c.get("drop", ())))
    if r is not None:
        print("REPLAY-FAIL", r[0], "expected", r[1], "actual", r[2])
    print("REPLAY", "fails" if r is not None else "passes")
    return 1 if r is not None else 0
