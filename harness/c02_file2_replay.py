"""Replay of the capture shape of `Props.C02File2.Ex.quic_file2_instance` on the REAL tool, plus a genuine second QUIC
connection interleaved with it.

Connection A (independent sender gen_quic), as ONE interleaved history:
    client Initial (ClientHello) |
    server datagram: Initial (ServerHello) + Handshake (flight) + 1-RTT STREAM "HI"        (0.5-RTT data, coalesced) |
    client datagram: Handshake (Finished) + 1-RTT STREAM "GET"                              (coalesced) |
    server 1-RTT "OK" after a key update | client 1-RTT "MORE" (follows the update)
Between its datagrams: an ARP request, a DNS query, a truncated long-header datagram of another flow, and ALL datagrams of a
second, unrelated QUIC connection B (other client address, own connection IDs, own key-log lines) carrying "B-REQ"/"B-RSP".

Checked on the tool's output file (strict reader / frame parser of harness/wire.py), with REAL cryptography and again in the
toy world against the model (`runfile`, byte equality):
  * A's block is exactly HI, GET, OK, MORE — one frame per datagram with STREAM data, right addresses / ports / times;
  * B's block is exactly B-REQ, B-RSP; the two blocks are what each connection yields when captured ALONE.

Standalone:  PYTHONPATH=/repo:harness python harness/c02_file2_replay.py
"""
import random
import struct

import fw
import gen_quic as G
import quic_pipeline_corr as qp
import tool
import wire


def conn_a(rng):
    c = G.QConn(rng, suite=0x1301, scid_c_len=1, scid_s_len=2, cport=50000, sport=443)
    ch = G.client_hello(c.cr, b"".join(struct.pack(">H", s) for s in (0x1303, 0x1301, 0x1302)), rng)
    c.cur_dcid_c = c.dcid0
    c.q_initial(0, G.f_crypto(0, ch), pad_to=1162)
    c.flush(0)
    c.dcid_for_client = c.scid_s
    sh = G.server_hello(rng.randbytes(32), struct.pack(">H", c.suite), rng)
    c.q_initial(1, G.f_crypto(0, sh), pnlen=2)
    ee = G.hs(8, b"\0\0") + G.hs(11, rng.randbytes(30)) + G.hs(15, rng.randbytes(20)) + G.hs(20, rng.randbytes(32))
    c.q_handshake(1, G.f_crypto(0, ee))
    c.q_1rtt(1, G.f_stream(3, 0, b"HI") + b"\0\0\0")                     # 0.5-RTT data behind the Handshake packet
    c.flush(1, b"HI")
    c.q_handshake(0, G.f_crypto(0, G.hs(20, rng.randbytes(32))))
    c.q_1rtt(0, G.f_stream(0, 0, b"GET", fin=True) + b"\0\0\0")           # request behind the client's Finished
    c.flush(0, b"GET")
    c.key_update(1)
    c.q_1rtt(1, b"\x01" + G.f_stream(3, 2, b"OK", explicit_len=False), pnlen=2)
    c.flush(1, b"OK")
    c.follow_key_update(0)
    c.q_1rtt(0, G.f_stream(4, 0, b"MORE") + b"\0\0\0")
    c.flush(0, b"MORE")
    return c


def conn_b(rng, t0):
    c = G.QConn(rng, suite=0x1303, offer=[0x1303], cport=40000, sport=443, cip="10.0.0.9", t0=t0)
    c.handshake(coalesce_server=True)
    c.app(0, [(0, 0, b"B-REQ", True)])
    c.app(1, [(0, 0, b"B-RSP", True)])
    return c


def merged(a, b, extra):
    items = [(ts, 0, k, fr) for k, (_, ts, fr) in enumerate(a.items)] + [(ts, 1, k, fr) for k, (_, ts, fr) in enumerate(b.items)]
    items += [(ts, 2, k, fr) for k, (ts, fr) in enumerate(extra)]
    items.sort(key=lambda m: (m[0], m[1], m[2]))
    return [("pkt", ts, fr) for ts, _, _, fr in items]


def blocks(out):
    by = {}
    for us, p in wire.read_output(out):
        key = tuple(sorted([(p["src"], p["sport"]), (p["dst"], p["dport"])]))
        by.setdefault(key, []).append((us, p["sport"] == 443, p["payload"]))
    return by


def run(ctx=None):
    rng = random.Random(3)
    a = conn_a(rng)
    b = conn_b(rng, a.items[0][1] + 50)
    arp = b"\xff" * 6 + a.cmac + b"\x08\x06" + bytes([0, 1, 8, 0, 6, 4, 0, 1]) + a.cmac + a.cip + b"\0" * 6 + a.sip
    dns = wire.udp_frame(a.cmac, a.smac, a.cip, wire.ipb("10.0.0.53"), 50001, 53, bytes([0x12, 0x34, 1, 0, 0, 1]) + b"\0" * 6)
    cut = wire.udp_frame(a.cmac, a.smac, wire.ipb("10.0.0.7"), a.sip, 41000, 443, bytes([0xc3, 0, 0]))
    t = [x[1] for x in a.items]
    items = merged(a, b, [(t[0] - 5, arp), (t[1] + 1, cut), (t[2] + 1, dns)])
    keylog = a.keylog_lines() + b.keylog_lines()
    rng.shuffle(keylog)
    kl = "\n".join(keylog) + "\n"
    cap = wire.pcapng(items)
    r = tool.run(cap, kl, [])
    assert not r.crashed, (r.exc, r.where)
    by = blocks(r.out)
    ka = tuple(sorted([(a.cip, 50000), (a.sip, 443)]))
    kb = tuple(sorted([(b.cip, 40000), (b.sip, 443)]))
    assert set(by) == {ka, kb}, list(by)
    assert by[ka] == [(ts, srv, d) for ts, srv, d in a.expect], (by[ka], a.expect)
    assert [d for _, _, d in by[ka]] == [b"HI", b"GET", b"OK", b"MORE"]
    assert by[kb] == [(ts, srv, d) for ts, srv, d in b.expect], (by[kb], b.expect)
    # each connection alone gives the same block
    for c, k in ((a, ka), (b, kb)):
        solo = tool.run(wire.pcapng(c.items), "\n".join(c.keylog_lines()) + "\n", [])
        assert blocks(solo.out)[k] == by[k]
    same = None
    if ctx is not None:
        m = ctx.driver("pipeline", ["reset", "opt 0 0 0 - -", f"runfile 0 {kl.encode().hex()} {cap.hex()}"], timeout=600)
        same = m[2] == "file:" + r.out.hex()
        assert same
    return len(items), [d for _, _, d in by[ka]], [d for _, _, d in by[kb]], same


def main():
    n, blk_a, blk_b, _ = run()
    print(f"real crypto: {n} packets in; connection A exports {blk_a}, connection B exports {blk_b}; blocks = solo blocks")
    ctx = fw.Ctx("C02", "quick", 0)
    with qp.both_worlds():
        n, blk_a, blk_b, same = run(ctx)
    print(f"toy world:   connection A exports {blk_a}, connection B exports {blk_b}; model bytes = tool bytes: {same}")


if __name__ == "__main__":
    main()
