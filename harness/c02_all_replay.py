"""Replay of the non-vacuity capture of lean/TLX/Props/C02All.lean (`Ex.quic_all_instance`) on the REAL tool.

The capture SHAPE of the Lean instance, built by the independent sender gen_quic (REAL key schedule):

    ARP | client Initial (ClientHello) | TLS-over-TCP segment of another flow | server RETRY | truncated long-header datagram
    of another QUIC flow | client Initial #2 (Retry token, DCID = Retry SCID) + 0-RTT `EARLY`, coalesced |
    server Initial (ServerHello) + Handshake (flight) + 1-RTT `HI` (0.5-RTT), coalesced | DNS |
    client Handshake (Finished) + 1-RTT `GET`, coalesced | server 1-RTT `OK` under UPDATED keys | TLS segment |
    client 1-RTT `MORE` under updated keys | client Initial of a SECOND QUIC connection (other flow, other CIDs)

key-log file: the connection's five lines (CLIENT_EARLY_TRAFFIC_SECRET included) in another order + a line of another
connection. The resumed suite is the first of the client's offer and the selected one (the tool's Early keys fit).
Checked: (1) real cryptography, tool unmodified: the export has exactly EARLY, HI, GET, OK, MORE for the connection, with
the datagrams' capture microseconds and directions; (2) toy world (toy AEAD / toy hp mask): the same, and the model's
`exportFile` bytes = the tool's bytes (driver `runfile`).

Standalone:  PYTHONPATH=/repo:harness python harness/c02_all_replay.py
"""
import random
import struct

import fw
import gen_quic as G
import quic_pipeline_corr as qp
import tool
import wire


def build(seed=11):
    rng = random.Random(seed)
    c = G.QConn(rng, suite=0x1301, offer=[0x1301, 0x1303, 0x1302], scid_c_len=4, scid_s_len=4, early=True)
    ch = G.client_hello(c.cr, b"".join(struct.pack(">H", s) for s in c.offer), rng, extra=G.ext(0x2A, b""))
    c.cur_dcid_c = c.dcid0
    arp = b"\xff" * 6 + c.cmac + b"\x08\x06" + bytes([0, 1, 8, 0, 6, 4, 0, 1]) + c.cmac + c.cip + b"\0" * 6 + c.sip
    dns = wire.udp_frame(c.cmac, c.smac, c.cip, wire.ipb("10.0.0.53"), 50001, 53,
                         bytes([0x12, 0x34, 1, 0, 0, 1, 0, 0, 0, 0, 0, 0, 1, 0x61, 0, 0, 1, 0, 1]))
    tls = wire.tcp_frame(c.cmac, c.smac, c.cip, c.sip, 5555, 443, 1000, 0, 0x18, bytes([0x16, 3, 1, 0, 5, 1, 0, 0, 1, 0]))
    junk = wire.udp_frame(c.cmac, c.smac, wire.ipb("10.0.0.9"), c.sip, 40000, 443, bytes([0xc3, 0, 0]))
    items = [("pkt", c.t - 5, arp)]

    def own(n0):
        """append the connection's datagrams produced since index n0"""
        items.extend(c.items[n0:])
        return len(c.items)

    def noise(frame):
        if frame is not None:
            items.append(("pkt", c.t + 1, frame))
            c.t += 2

    # first attempt
    c.q_initial(0, G.f_crypto(0, ch), pad_to=1162)
    c.flush(0)
    n = own(0)
    noise(tls)
    # Retry
    new_scid, token = rng.randbytes(4), rng.randbytes(12)
    c.cur.append(G.retry_pkt(c.dcid0, c.scid_c, new_scid, token))
    c.flush(1)
    n = own(n)
    noise(junk)
    c.cur_dcid_c = new_scid
    c.set_initial(new_scid)
    # second attempt: Initial + 0-RTT coalesced
    c.q_initial(0, G.f_crypto(0, ch), token=token, pad_to=600)
    c.q_0rtt(G.f_stream(0, 0, b"EARLY"))
    c.flush(0, b"EARLY")
    n = own(n)
    c.dcid_for_client = c.scid_s
    sh = G.server_hello(rng.randbytes(32), struct.pack(">H", c.suite), rng)
    c.q_initial(1, G.f_ack(c.pn["ci"] - 1) + G.f_crypto(0, sh))
    ee = G.hs(8, b"\0\0") + G.hs(11, rng.randbytes(40)) + G.hs(15, rng.randbytes(20)) + G.hs(20, rng.randbytes(32))
    c.q_handshake(1, G.f_crypto(0, ee))
    c.q_1rtt(1, G.f_stream(3, 0, b"HI") + b"\0\0\0")
    c.flush(1, b"HI")
    n = own(n)
    noise(dns)
    c.q_handshake(0, G.f_crypto(0, G.hs(20, rng.randbytes(32))))
    c.q_1rtt(0, G.f_stream(0, 5, b"GET", fin=True) + b"\0\0\0")
    c.flush(0, b"GET")
    n = own(n)
    # 1-RTT-only part with a key update
    assert c.key_update(1)
    c.q_1rtt(1, b"\x01" + G.f_stream(3, 2, b"OK", explicit_len=False), pnlen=2)
    c.flush(1, b"OK")
    n = own(n)
    noise(tls)
    c.follow_key_update(0)
    c.q_1rtt(0, G.f_stream(4, 0, b"MORE") + b"\0\0\0")
    c.flush(0, b"MORE")
    n = own(n)
    # a second QUIC connection on another flow
    c2 = G.QConn(random.Random(seed + 1), suite=0x1301, cport=40000, cip="10.0.0.9", scid_c_len=1, scid_s_len=2,
                 t0=c.t + 5)
    ch2 = G.client_hello(c2.cr, struct.pack(">H", 0x1301), c2.rng)
    c2.cur_dcid_c = c2.dcid0
    c2.q_initial(0, G.f_crypto(0, ch2), pad_to=1162)
    c2.flush(0)
    items.extend(c2.items)
    lines = c.keylog_lines()                                      # early, chs, shs, cap, sap
    other = f"CLIENT_TRAFFIC_SECRET_0 {'09' * 32} 0102"
    keylog = [lines[2], other, lines[1], lines[0], lines[4], lines[3]]
    return c, items, keylog


def check(r, c, label):
    assert not r.crashed, (label, r.exc, r.where)
    got = wire.read_output(r.out)
    mine = [(us, p) for us, p in got if p["proto"] == 17 and 50000 in (p["sport"], p["dport"])]
    assert [p["payload"] for _, p in mine] == [b"EARLY", b"HI", b"GET", b"OK", b"MORE"], (label, [p["payload"] for _, p in mine])
    assert [(us, p["sport"] == 443) for us, p in mine] == [(t, srv) for t, srv, _ in c.expect], label
    assert len(got) == len(mine), (label, "something else was exported", len(got))
    return len(r.out)


def main():
    c, items, keylog = build()
    cap = wire.pcapng(items)
    kl = "\n".join(keylog) + "\n"
    n_real = check(tool.run(cap, kl, []), c, "real crypto")
    ctx = fw.Ctx("C02", "quick", 0)
    with qp.both_worlds():
        c, items, keylog = build()
        cap = wire.pcapng(items)
        kl = "\n".join(keylog) + "\n"
        r = tool.run(cap, kl, [])
        n_toy = check(r, c, "toy world")
        m = ctx.driver("pipeline", ["reset", "opt 0 0 0 - -", f"runfile 0 {kl.encode().hex()} {cap.hex()}"], timeout=600)
        assert m[2] == "file:" + r.out.hex(), (m[2][:80], r.out.hex()[:80])
    print(f"c02_all_replay: {len(items)} packets in (Retry, 0-RTT, 0.5-RTT, coalescing, key update, second QUIC connection, "
          f"TLS / ARP / DNS noise); real tool exports exactly EARLY, HI, GET, OK, MORE with times and directions "
          f"({n_real} bytes, real crypto; {n_toy} bytes, toy world); model bytes = tool bytes")


if __name__ == "__main__":
    main()
