"""Whole-program correspondence for TLS over TCP: the REAL tool (`tlexport.main.run()`, in-process, every module
unmodified) against the composed Lean model `TLX.Pipeline` inside `TLX.MainLoop.run` (driver module `pipeline`).

Both sides run with the same TOY cipher primitives (harness/toy_crypto.py = lean/TLX/Crypto/Toy.lean): the toy classes
are installed for the names AES, TripleDES, Camellia, IDEA, ARC4, ChaCha20Poly1305, AESGCM, AESCCM, Cipher, CBC in the
namespaces of tlexport.decryptor, tlexport.session, tlexport.key_derivator and tlexport.cipher_suite_parser (incl. the class objects stored in
`cipher_suite_parts`), and in the independent sender harness/gen_tls.py so that the generated traffic is VALID toy
traffic. Hashes are real on both sides (hashlib / Lean's own MD5, SHA-1, SHA-2).  What is compared: every frame of the
output file (L4 protocol, time, MACs, IPs, IP version, ports, flags, seq, ack, payload), in file order.
"""
import contextlib
import types

import e2e
import fw
import gen_tls
import tool
import toy_crypto as T
import wire

MODULES = ["TLX.Props.C01Pipeline"]
THEOREMS = []
POINT = "run(): whole TLS export, real tool vs TLX.Pipeline (toy ciphers, real hashes)"


DEFLATE_SEEN = []      # decryptors the tool built with compression_method == 1 (DEFLATE): record compression is not modelled


@contextlib.contextmanager
def toy_world():
    import tlexport.cipher_suite_parser as CSP
    import tlexport.session as S
    saved = []

    class RecordingDecryptor(S.Decryptor):
        def __init__(self, *a, **kw):
            super().__init__(*a, **kw)
            if getattr(self, "compression_method", 0) == 1:
                DEFLATE_SEEN.append(1)

    def put(obj, name, val):
        saved.append((obj, name, getattr(obj, name)))
        setattr(obj, name, val)

    with T.patched():
        put(S, "Decryptor", RecordingDecryptor)
        for n in ("AES", "TripleDES", "IDEA", "Camellia", "AESCCM", "AESGCM"):
            put(S, n, T.TOY[n])
        for n in ("AES", "TripleDES", "IDEA", "Camellia", "ARC4", "ChaCha20Poly1305"):
            if hasattr(CSP, n):
                put(CSP, n, T.TOY[n])
        put(CSP, "aead", types.SimpleNamespace(AESGCM=T.AESGCM, AESCCM=T.AESCCM, ChaCha20Poly1305=T.ChaCha20Poly1305))
        import tlexport.key_derivator as KD
        put(KD, "algorithms", types.SimpleNamespace(AES=T.AES, Camellia=T.Camellia, TripleDES=T.TripleDES, IDEA=T.IDEA,
                                                    ARC4=T.ARC4, ChaCha20=T.ChaCha20))
        put(KD, "ChaCha20Poly1305", T.ChaCha20Poly1305)
        parts = CSP.cipher_suite_parts
        old_algo = dict(parts["CryptoAlgo"])
        for k, v in old_algo.items():
            cls = v[0] if isinstance(v, tuple) else v
            nm = getattr(cls, "__name__", None)
            if nm in T.TOY:
                parts["CryptoAlgo"][k] = (T.TOY[nm], v[1]) if isinstance(v, tuple) else T.TOY[nm]
        # the sender
        put(gen_tls, "Cipher", T.Cipher)
        put(gen_tls, "modes", types.SimpleNamespace(CBC=T.CBC))
        put(gen_tls, "alg", lambda name: {"AES": T.AES, "CAMELLIA": T.Camellia, "3DES": T.TripleDES, "IDEA": T.IDEA,
                                           "RC4": T.ARC4}[name])
        put(gen_tls, "AESGCM", T.AESGCM)
        put(gen_tls, "AESCCM", T.AESCCM)
        put(gen_tls, "ChaCha20Poly1305", T.ChaCha20Poly1305)
        try:
            yield
        finally:
            parts["CryptoAlgo"].clear()
            parts["CryptoAlgo"].update(old_algo)
            for o, n, v in reversed(saved):
                setattr(o, n, v)


def hx(b):
    return bytes(b).hex() if len(b) else "-"


def model_lines(items, keylog_lines, opt):
    """items: [("pkt", ts_us, frame) | ("dsb", text)] ; opt: dict(c,g,a,p,m)"""
    out = ["reset", f"opt {opt['c']} {opt['g']} {opt['a']} {opt['p']} {opt['m']}"]
    if keylog_lines is None:
        out.append("nokeyfile")
    else:
        out += [f"key {l.encode().hex()}" for l in keylog_lines]
    for tag, it in enumerate(items):
        if it[0] == "dsb":
            out.append("dsb " + " ".join(l.encode().hex() for l in it[1]))
            continue
        _, ts, frame = it
        try:
            d = wire.parse_frame(frame)
            ok = 1
        except wire.FrameError:
            d, ok = None, 0
        if d is None:                                  # not IP / damaged: the loop ignores it (L4.other)
            out.append(f"pkt {tag} other - 0 - 0 1 0 {ts} - - 0 -")
            continue
        l4 = "tcp" if d["proto"] == 6 else "udp"
        out.append(f"pkt {tag} {l4} {hx(d['src'])} {d['sport']} {hx(d['dst'])} {d['dport']} {ok} {d.get('seq', 0)} {ts} "
                   f"{hx(d['smac'])} {hx(d['dmac'])} {1 if d['v6'] else 0} {hx(d['payload'])}")
    out.append("run")
    return out


def render_out(out_bytes):
    rows = []
    for us, d in wire.read_output(out_bytes):
        rows.append(f"{'t' if d['proto'] == 6 else 'u' if d['proto'] == 17 else '?'}:{us}:{hx(d['smac'])}:{hx(d['dmac'])}:{hx(d['src'])}:{d['sport']}:{hx(d['dst'])}:{d['dport']}:"
                    f"{1 if d['v6'] else 0}:{d.get('flags', 0)}:{d.get('seq', 0)}:{d.get('ack', 0)}:{hx(d['payload'])}")
    return " ".join(rows) if rows else "empty"


def noise_frames(rng, n):
    out = []
    for _ in range(n):
        a, b = bytes([10, 9, rng.randrange(256), 1]), bytes([10, 9, rng.randrange(256), 2])
        r = rng.random()
        if r < 0.4:
            out.append(wire.tcp_frame(b"\x02" * 6, b"\x04" * 6, a, b, 30000 + rng.randrange(1000), rng.choice([80, 8443, 22]),
                                      rng.randrange(2 ** 32), 0, 0x18, rng.randbytes(rng.randrange(0, 40))))
        elif r < 0.7:
            out.append(wire.tcp_frame(b"\x02" * 6, b"\x04" * 6, a, b, 30000 + rng.randrange(1000), 443,
                                      rng.randrange(2 ** 32), 0, 0x18, b"GET / HTTP/1.1\r\n\r\n"[:rng.randrange(0, 18)]))
        else:
            out.append(wire.udp_frame(b"\x02" * 6, b"\x04" * 6, a, b, 5000, rng.choice([53, 443]), rng.randbytes(rng.randrange(0, 30))))
    return out


def one_case(rng):
    """→ (items, keylog lines, argv, opt dict, description)"""
    n = rng.choice([1, 1, 2, 3])
    combos = [e2e.random_combo(rng) for _ in range(n)]
    sports = [rng.choice([443, 443, 44330, 8443]) for _ in range(n)]
    sc = e2e.Scenario(rng, combos, sports=sports)
    items = list(sc.items)
    for f in noise_frames(rng, rng.randrange(0, 4)):
        k = rng.randrange(0, len(items) + 1)
        ts = items[k - 1][1] + 1 if k else items[0][1] - 1
        items.insert(k, ("pkt", ts, f))
    keylog = list(sc.keylog)
    fault = rng.random()
    what = "none"
    if fault < 0.12 and keylog:
        del keylog[rng.randrange(len(keylog))]
        what = "drop-key-line"
    elif fault < 0.2 and keylog:
        k = rng.randrange(len(keylog))
        lab, cr, val = keylog[k].split(" ")
        keylog[k] = f"{lab} {cr} {rng.randbytes(len(val) // 2).hex()}"
        what = "wrong-secret"
    elif fault < 0.3:
        k = rng.randrange(len(items))
        _, ts, fr = items[k]
        try:
            d = wire.parse_frame(fr)
            if d["proto"] == 6 and len(d["payload"]) > 0:
                pl = bytearray(d["payload"])
                pl[rng.randrange(len(pl))] ^= 1 << rng.randrange(8)
                fr = wire.tcp_frame(d["smac"], d["dmac"], d["src"], d["dst"], d["sport"], d["dport"], d["seq"], d["ack"],
                                    d["flags"], bytes(pl))
                items[k] = ("pkt", ts, fr)
                what = "bit-flip"
        except wire.FrameError:
            pass
    elif fault < 0.36:
        del items[rng.randrange(len(items))]
        what = "drop-packet"
    elif fault < 0.41:
        # a ServerHello whose compression_method byte is not 0 (damage, or a peer that names an unassigned method): the
        # decryptor acts on the value 1 only (DEFLATE, not modelled: such cases are skipped), every other value is "none"
        for k, it in enumerate(items):
            try:
                d = wire.parse_frame(it[2])
            except wire.FrameError:
                continue
            pl = bytes(d["payload"]) if d["proto"] == 6 else b""
            if len(pl) > 48 and pl[0] == 0x16 and pl[5] == 0x02 and 44 + pl[43] + 2 < len(pl):
                pl = bytearray(pl)
                pl[44 + pl[43] + 2] = rng.choice([1, 2, 4, 64, 255])
                items[k] = ("pkt", it[1], wire.tcp_frame(d["smac"], d["dmac"], d["src"], d["dst"], d["sport"], d["dport"],
                                                       d["seq"], d["ack"], d["flags"], bytes(pl)))
                what = "compression-byte"
                break
    rng.shuffle(keylog)
    opt = {"c": 0, "g": 0, "a": int(rng.random() < 0.4), "p": "-", "m": "-"}
    argv = []
    if opt["a"]:
        argv.append("-a")
    if 8443 in sports and rng.random() < 0.7:
        opt["p"] = "8443"
        argv += ["-p", "8443"]
    r = rng.random()
    if r < 0.15:
        opt["m"] = "bare"
        argv += ["-m"]
    elif r < 0.3:
        opt["m"] = "443:9443"
        argv += ["-m", "443:9443"]
    return items, keylog, argv, opt, {"combos": [(hex(c), v, e) for c, v, e in combos], "fault": what, "sports": sports,
                                       "argv": argv}


def correspond(ctx, n=None):
    n = n if n is not None else ctx.n(120, 1500)
    rng = ctx.rng
    pt = ctx.point(POINT)
    with toy_world():
        cases = [one_case(rng) for _ in range(n)]
        lines, spans = [], []
        for items, keylog, argv, opt, desc in cases:
            ml = model_lines(items, keylog, opt)
            spans.append((len(lines), len(ml)))
            lines += ml
        model = ctx.driver("pipeline", lines, timeout=1800)
        for (items, keylog, argv, opt, desc), (a, k) in zip(cases, spans):
            want = model[a + k - 1]
            del DEFLATE_SEEN[:]
            r = tool.run(wire.pcapng(items), "\n".join(keylog) + "\n", argv)
            if DEFLATE_SEEN:
                # a damaged ServerHello negotiated DEFLATE (compression byte 1): record compression is not modelled
                ctx.hist("pipeline-skipped", "DEFLATE negotiated by a damaged ServerHello")
                continue
            if r.crashed:
                got = "crash:" + r.signature()
            else:
                try:
                    got = render_out(r.out)
                except wire.FrameError as e:
                    got = f"bad-frame:{e}"
            pt["cases"] += 1
            nz = got != "empty"
            ctx.count(("pipeline", str(desc), len(items)), nontrivial=nz)
            ctx.hist("pipeline-fault", desc["fault"])
            ctx.hist("pipeline-result", "exports" if nz else "empty")
            for c in desc["combos"]:
                ctx.hist("pipeline-version", c[1])
            if got != want:
                gi, wi = got.split(" "), want.split(" ")
                k0 = next((i for i, (x, y) in enumerate(zip(gi, wi)) if x != y), min(len(gi), len(wi)))
                ctx.disagree(POINT, {"desc": desc, "capture_hex": wire.pcapng(items).hex(), "keylog": keylog, "argv": argv,
                                     "toy_world": True},
                             f"{len(gi)} frames; first difference at #{k0}: {gi[k0][:160] if k0 < len(gi) else '<end>'}",
                             f"{len(wi)} frames; first difference at #{k0}: {wi[k0][:160] if k0 < len(wi) else '<end>'}")
    return pt
