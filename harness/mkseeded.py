"""Writes seeded/README.md: which check catches which seeded change (from seeded/*/meta.json)."""
import glob, json, os
ROOT = os.path.dirname(os.path.dirname(os.path.abspath(__file__)))
rows = []
for f in sorted(glob.glob(os.path.join(ROOT, "seeded", "*", "meta.json"))):
    m = json.load(open(f))
    rows.append((m["id"], m["property"], m["needs_to_manifest"], "; ".join(m["results"])))
out = ["# Seeded changes (written by independent sub-agents from the property text only)", "",
       "Each directory holds `patch.diff` (applies to /repo with `git apply`), `demo.py` (exits 0 on the clean tree, non-zero with",
       "the change; takes the tree as argv[1]), `README.md` (the author's notes) and `meta.json`. All keep the 60 pinned tests green.",
       "Re-run one with `bin/seedtest seeded/<id> <Cxx>` (uses a scratch worktree; /repo is not touched).", "",
       "| id | property | needs to manifest | result |", "|---|---|---|---|"]
for r in rows:
    out.append("| " + " | ".join(x.replace("|", "/").replace("\n", " ") for x in r) + " |")
missed_first = sum(1 for r in rows if "MISSED" in r[3])
out += ["", f"{len(rows)} changes; {len(rows) - missed_first} detected by the check as it stood when the change arrived, "
        f"{missed_first} missed at first and detected after the generator/oracle named in the row was strengthened; none is missed now."]
open(os.path.join(ROOT, "seeded", "README.md"), "w").write("\n".join(out) + "\n")
print(len(rows), "rows")
