"""Replay of `Props.ExportPropsQuic.Ex.cut_not_prefix_witness` on the REAL tool: C08 for QUIC is "prefix" only when the last
exported datagram before the cut and the first one after it differ in (capture time, direction) (`SplitOk`).

One QUIC connection (independent sender gen_quic, real cryptography): handshake, then two client datagrams `GET` and `MORE`
stamped with the SAME capture time (a coarse capture clock; nothing forbids it). The tool's output builder concatenates the
STREAM data of consecutive frames with equal (time, direction):
    whole capture  ->  … one frame `GETMORE`
    capture cut before the `MORE` datagram  ->  … one frame `GET`
so the cut export is not a frame-by-frame prefix of the full export; it is related by `CutRel` (all frames but the last
unchanged, the last one with a payload prefix). With distinct times (control) it is a plain prefix.

Standalone:  PYTHONPATH=/repo:harness python harness/export_props_quic_replay.py
"""
import random

import gen_quic as G
import tool
import wire


def build(same_time):
    rng = random.Random(11)
    c = G.QConn(rng, suite=0x1301)
    c.handshake()
    c.app(0, [(0, 0, b"GET", False)])
    c.q_1rtt(0, G.f_stream(0, 3, b"MORE") + b"\0\0\0")
    c.flush(0, b"MORE", dt=0 if same_time else 500)
    return c


def export(c, n):
    r = tool.run(wire.pcapng(c.items[:n]), "\n".join(c.keylog_lines()) + "\n", [])
    assert not r.crashed, (r.exc, r.where)
    return [(us, p["sport"] == 443, p["payload"]) for us, p in wire.read_output(r.out)] if r.out else []


def main():
    for same in (True, False):
        c = build(same)
        full, cut = export(c, len(c.items)), export(c, len(c.items) - 1)
        prefix = full[:len(cut)] == cut
        cutrel = full[:len(cut) - 1] == cut[:-1] and full[len(cut) - 1][:2] == cut[-1][:2] and \
            full[len(cut) - 1][2].startswith(cut[-1][2])
        print(f"same capture time: {same}:  cut ends with {cut[-1][2]!r}, full has {full[len(cut) - 1][2]!r} there;"
              f" prefix: {prefix}; CutRel: {cutrel}")
        assert cutrel and prefix == (not same)
        if same:
            assert cut[-1][2] == b"GET" and full[len(cut) - 1][2] == b"GETMORE"


if __name__ == "__main__":
    main()
