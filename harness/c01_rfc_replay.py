"""Replay of the witness behind the hypothesis `OnlySecret` of `TLX.Props.C01Rfc.tls12/13_capture_exact_rfc` on the REAL
tool (toy world of pipeline_corr): a key-log file that CONTAINS the connection's secret lines, and also a line with the
same label and client random but a different secret. `generate_keys` takes the FIRST `CLIENT_RANDOM` line for
SSL 3.0 - TLS 1.2 (`secret_list[0]`) and `dev_tls_13_keys` the LAST line per label for TLS 1.3 (the loop overwrites), so
with the wrong line in front TLS 1.2 is not decrypted, with the wrong line behind TLS 1.3 is not.

    PYTHONPATH=$TLX_REPO:harness python harness/c01_rfc_replay.py
"""
import random

import e2e
import pipeline_corr
import tool
import wire


def data(out):
    return [] if not out else [d["payload"] for _us, d in wire.read_output(out) if d.get("flags", 0) == 0x18]


def wrong(line):
    label, cr, sec = line.split(" ")
    return " ".join([label, cr, "ab" * (len(sec) // 2)])


def main(seed=7):
    res = {}
    with pipeline_corr.toy_world():
        for code, version in ((0x009C, "tls12"), (0x1301, "tls13")):
            rng = random.Random(seed)
            sc = e2e.Scenario(rng, [(code, version, False)], sports=[443])
            cap = sc.capture()
            good = list(sc.keylog)
            bad = [wrong(l) for l in good]
            want = len(data(tool.run(cap, "\n".join(good) + "\n").out))
            for name, lines in (("right only", good), ("wrong lines first", bad + good), ("wrong lines last", good + bad)):
                got = len(data(tool.run(cap, "\n".join(lines) + "\n").out))
                res[(version, name)] = (got, want)
                print(f"{version} {code:04X} key log = {name}: {got} data frames exported (right key log alone: {want})")
    return res


if __name__ == "__main__":
    main()
