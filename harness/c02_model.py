"""Aggregator for the QUIC component models (each: Lean model + theorems + driver + correspondence runner).
A component is a module exposing MODULES, THEOREMS and correspond(ctx)."""
import importlib

COMPONENTS = ["q1_udpout", "q1_crypto", "q1_tlsmsgs", "q2a_dissect", "q2b_session", "quic_pipeline_corr"]


def load(names=COMPONENTS):
    out = []
    for n in names:
        try:
            out.append(importlib.import_module(n))
        except ModuleNotFoundError as e:
            if e.name != n:
                raise
    return out


def modules(names=COMPONENTS):
    return [m for c in load(names) for m in c.MODULES]


def theorems(names=COMPONENTS):
    return [t for c in load(names) for t in c.THEOREMS]


def run_model(ctx, names=COMPONENTS):
    for c in load(names):
        c.correspond(ctx)
