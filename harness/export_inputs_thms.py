"""Theorems of lean/TLX/Props/ExportInputs.lean: whole-program forms of C12, C09, C11 (and C03, TLS) — statements about
`TLX.Export.exportFile` / `framesFrom`, lifted through the read loop `TLX.Ingest`. To be required by c12 / c09 / c11 / c03."""
MODULES = ["TLX.Props.ExportInputs"]
_NS = "TLX.Props.ExportInputs."
THEOREMS_C12 = [_NS + n for n in ["go_congr", "exportFile_congr_ingest", "export_container_independent",
                                  "export_layout_independent", "floatResidue_refl", "Ex.layout_instance"]]
THEOREMS_C09 = [_NS + n for n in ["connOut_congr", "dsb_position_irrelevant_tls", "dsb_moved_tls", "framesFrom_explicit",
                                  "dsb_position_irrelevant_partial", "dsb_position_matters_to_the_quic_loop",
                                  "quic_feed_congr", "export_key_delivery_independent", "sameView_of_perm_across",
                                  "delivery_keys", "delivery_same_keys_of_text", "foreign_line_adds_nothing",
                                  "export_key_delivery_independent_file", "export_dsb_only_without_s", "keysOf_without_s",
                                  "Ex.delivery_instance", "Ex.delivery_instance_frames"]]
THEOREMS_C11 = [_NS + n for n in ["runItems_filter_ignored", "runItems_opts_congr", "checksum_filter_loop",
                                  "export_checksum_filter_frames", "dissect_l4_facts", "ingest_verdict_rfc1071",
                                  "exportFile_stages", "export_checksum_filter", "framePkt_noC_congr",
                                  "export_ignores_checksums_without_c", "checksum_fields_not_dissected",
                                  "Ex.rejected_instance"]]
THEOREMS_C03 = [_NS + n for n in ["export_bystander_unaffected", "bystander_frames_same", "bystander_in_output",
                                  "Ex.bystander_instance"]]
THEOREMS = THEOREMS_C12 + THEOREMS_C09 + THEOREMS_C11 + THEOREMS_C03
