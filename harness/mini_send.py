"""Small independent senders for the end-to-end oracles of C09/C10 (harness code, not a model).

TLS 1.2 and TLS 1.3 connections with AES-128-GCM over TCP, a QUIC v1 connection (AES-128-GCM),
each returning its frames, its NSS key-log lines and the application data it carried; a pcapng
writer that can interleave decryption-secrets blocks. Everything random comes from the `rng`
passed in, so a capture is a function of the seed.

Written against RFC 5246 / 8446 / 9000 / 9001 with `cryptography` and `hmac` only — nothing from
TLExport is used here.
"""
import hashlib
import hmac
import socket
import struct

from cryptography.hazmat.primitives.ciphers.aead import AESGCM
from cryptography.hazmat.primitives.ciphers import Cipher, algorithms, modes

CMAC = b"\x02\x00\x00\x00\x00\x01"
SMAC = b"\x02\x00\x00\x00\x00\x02"


def rb(rng, n):
    return bytes(rng.getrandbits(8) for _ in range(n))


# ------------------------------------------------------------------ frames
def csum(b):
    if len(b) % 2:
        b += b"\0"
    s = sum(struct.unpack(">%dH" % (len(b) // 2), b))
    while s >> 16:
        s = (s & 0xffff) + (s >> 16)
    return (~s) & 0xffff


def ipv4(src, dst, proto, seg):
    h = struct.pack(">BBHHHBBH", 0x45, 0, 20 + len(seg), 1, 0, 64, proto, 0) + src + dst
    return h[:10] + struct.pack(">H", csum(h)) + h[12:] + seg


def tcp_frame(sip, dip, sp, dp, seq, ack, data, smac, dmac):
    src, dst = socket.inet_aton(sip), socket.inet_aton(dip)
    h = struct.pack(">HHIIBBHHH", sp, dp, seq & 0xffffffff, ack & 0xffffffff, 5 << 4, 0x18, 8192, 0, 0)
    ph = src + dst + b"\0\x06" + struct.pack(">H", len(h) + len(data))
    c = csum(ph + h + data)
    seg = h[:16] + struct.pack(">H", c) + h[18:] + data
    return dmac + smac + b"\x08\x00" + ipv4(src, dst, 6, seg)


def udp_frame(sip, dip, sp, dp, data, smac, dmac):
    src, dst = socket.inet_aton(sip), socket.inet_aton(dip)
    h = struct.pack(">HHHH", sp, dp, 8 + len(data), 0)
    ph = src + dst + b"\0\x11" + struct.pack(">H", len(h) + len(data))
    c = csum(ph + h + data) or 0xffff
    return dmac + smac + b"\x08\x00" + ipv4(src, dst, 17, h[:6] + struct.pack(">H", c) + data)


# ------------------------------------------------------------------ pcapng
def _block(typ, body):
    body += b"\0" * ((-len(body)) % 4)
    n = 12 + len(body)
    return struct.pack("<II", typ, n) + body + struct.pack("<I", n)


def pcapng(items, pre_idb=()):
    """items: ('pkt', ts_us, frame) | ('dsb', key-log bytes); little endian, microseconds.
    pre_idb: key-log byte strings written as decryption-secrets blocks BETWEEN the section header and the interface
    description (where `editcap --inject-secrets` puts them)."""
    out = _block(0x0A0D0D0A, struct.pack("<IHHq", 0x1A2B3C4D, 1, 0, -1))
    for d in pre_idb:
        out += _block(0xA, struct.pack("<II", 0x544c534b, len(d)) + d)
    out += _block(1, struct.pack("<HHI", 1, 0, 65535))
    for it in items:
        if it[0] == "dsb":
            out += _block(0xA, struct.pack("<II", 0x544c534b, len(it[1])) + it[1])
        else:
            _, us, b = it
            out += _block(6, struct.pack("<IIIII", 0, us >> 32, us & 0xffffffff, len(b), len(b)) + b)
    return out


# ------------------------------------------------------------------ TLS over TCP
def prf12(secret, label, seed, n):
    seed = label + seed
    a, out = seed, b""
    while len(out) < n:
        a = hmac.new(secret, a, hashlib.sha256).digest()
        out += hmac.new(secret, a + seed, hashlib.sha256).digest()
    return out[:n]


def hkdf_expand(prk, info, n, h=hashlib.sha256):
    out, t, i = b"", b"", 1
    while len(out) < n:
        t = hmac.new(prk, t + info + bytes([i]), h).digest()
        out += t
        i += 1
    return out[:n]


def hkdf_label(secret, label, n):
    info = struct.pack(">H", n) + bytes([6 + len(label)]) + b"tls13 " + label + b"\x00"
    return hkdf_expand(secret, info, n)


def rec(t, ver, body):
    return bytes([t]) + ver + struct.pack(">H", len(body)) + body


def hs(t, body):
    return bytes([t]) + len(body).to_bytes(3, "big") + body


def client_hello(cr, suites, ext=b""):
    return hs(1, b"\x03\x03" + cr + b"\x00" + struct.pack(">H", len(suites)) + suites + b"\x01\x00" +
              struct.pack(">H", len(ext)) + ext)


def server_hello(sr, suite, sid=b"", ext=b""):
    return hs(2, b"\x03\x03" + sr + bytes([len(sid)]) + sid + suite + b"\x00" + struct.pack(">H", len(ext)) + ext)


class TcpConn:
    def __init__(self, rng, cip="10.0.0.1", sip="10.0.0.2", cport=40000, sport=443, t0=1700000000_000000):
        self.rng = rng
        self.cip, self.sip, self.cport, self.sport = cip, sip, cport, sport
        self.t = t0
        self.cseq, self.sseq = rng.randrange(1, 1 << 31), rng.randrange(1, 1 << 31)
        self.pkts = []      # (ts_us, frame)
        self.app = []       # (from_server, plaintext)
        self.keylog = []    # NSS lines without line end
        self.cr = None

    def seg(self, from_server, data):
        self.t += 1234
        if from_server:
            f = tcp_frame(self.sip, self.cip, self.sport, self.cport, self.sseq, self.cseq, data, SMAC, CMAC)
            self.sseq += len(data)
        else:
            f = tcp_frame(self.cip, self.sip, self.cport, self.sport, self.cseq, self.sseq, data, CMAC, SMAC)
            self.cseq += len(data)
        self.pkts.append((self.t, f))


def tls12(conn, app):
    """RFC 5246, TLS_RSA_WITH_AES_128_GCM_SHA256 (0x009c); app = [(from_server, bytes)]."""
    rng = conn.rng
    cr, sr, ms = rb(rng, 32), rb(rng, 32), rb(rng, 48)
    kb = prf12(ms, b"key expansion", sr + cr, 40)
    ck, sk, civ, siv = kb[:16], kb[16:32], kb[32:36], kb[36:40]
    seq = {0: 0, 1: 0}

    def enc(from_server, t, pt):
        k, iv = (sk, siv) if from_server else (ck, civ)
        n = seq[from_server]
        seq[from_server] += 1
        exp = rb(rng, 8)
        aad = struct.pack(">Q", n) + bytes([t]) + b"\x03\x03" + struct.pack(">H", len(pt))
        return rec(t, b"\x03\x03", exp + AESGCM(k).encrypt(iv + exp, pt, aad))
    conn.seg(0, rec(22, b"\x03\x01", client_hello(cr, b"\x00\x9c")))
    conn.seg(1, rec(22, b"\x03\x03", server_hello(sr, b"\x00\x9c") + hs(11, rb(rng, 100)) + hs(14, b"")))
    conn.seg(0, rec(22, b"\x03\x03", hs(16, rb(rng, 64))) + rec(20, b"\x03\x03", b"\x01") + enc(0, 22, hs(20, rb(rng, 12))))
    conn.seg(1, rec(20, b"\x03\x03", b"\x01") + enc(1, 22, hs(20, rb(rng, 12))))
    for d, pt in app:
        conn.seg(d, enc(d, 23, pt))
        conn.app.append((d, pt))
    conn.cr = cr
    conn.keylog = [f"CLIENT_RANDOM {cr.hex()} {ms.hex()}"]
    return conn


def tls13(conn, app):
    """RFC 8446, TLS_AES_128_GCM_SHA256; app = [(from_server, bytes)]."""
    rng = conn.rng
    cr, sr = rb(rng, 32), rb(rng, 32)
    sec = {k: rb(rng, 32) for k in ("chs", "shs", "cap", "sap")}
    keys = {k: (hkdf_label(v, b"key", 16), hkdf_label(v, b"iv", 12)) for k, v in sec.items()}
    seq = {}

    def enc(from_server, epoch, inner_type, pt):
        name = ("s" if from_server else "c") + epoch
        k, iv = keys[name]
        n = seq.get(name, 0)
        seq[name] = n + 1
        inner = pt + bytes([inner_type])
        nonce = bytes(a ^ b for a, b in zip(iv, b"\0\0\0\0" + struct.pack(">Q", n)))
        hdr = b"\x17\x03\x03" + struct.pack(">H", len(inner) + 16)
        return hdr + AESGCM(k).encrypt(nonce, inner, hdr)
    ext13 = b"\x00\x2b\x00\x02\x03\x04"
    conn.seg(0, rec(22, b"\x03\x01", client_hello(cr, b"\x13\x01")))
    conn.seg(1, rec(22, b"\x03\x03", server_hello(sr, b"\x13\x01", sid=rb(rng, 32), ext=ext13)) + rec(20, b"\x03\x03", b"\x01")
             + enc(1, "hs", 22, hs(8, b"\0\0") + hs(11, rb(rng, 80)) + hs(15, rb(rng, 70)) + hs(20, rb(rng, 32))))
    conn.seg(0, rec(20, b"\x03\x03", b"\x01") + enc(0, "hs", 22, hs(20, rb(rng, 32))))
    for d, pt in app:
        conn.seg(d, enc(d, "ap", 23, pt))
        conn.app.append((d, pt))
    conn.cr = cr
    h = cr.hex()
    conn.keylog = [f"CLIENT_HANDSHAKE_TRAFFIC_SECRET {h} {sec['chs'].hex()}",
                   f"SERVER_HANDSHAKE_TRAFFIC_SECRET {h} {sec['shs'].hex()}",
                   f"CLIENT_TRAFFIC_SECRET_0 {h} {sec['cap'].hex()}",
                   f"SERVER_TRAFFIC_SECRET_0 {h} {sec['sap'].hex()}"]
    return conn


# ------------------------------------------------------------------ QUIC v1 (RFC 9000/9001)
SALT_V1 = bytes.fromhex("38762cf7f55934b34d179ae6a4c80cadccbb7f0a")


def varint(v, w=None):
    if w is None:
        w = 1 if v < 64 else 2 if v < 16384 else 4 if v < 2 ** 30 else 8
    return (v | ({1: 0, 2: 1, 4: 2, 8: 3}[w] << (8 * w - 2))).to_bytes(w, "big")


def qlabel(secret, lab, n):
    return hkdf_expand(secret, struct.pack(">H", n) + bytes([6 + len(lab)]) + b"tls13 " + lab + b"\x00", n)


class QKeys:
    def __init__(self, secret):
        self.key, self.iv, self.hp = qlabel(secret, b"quic key", 16), qlabel(secret, b"quic iv", 12), qlabel(secret, b"quic hp", 16)

    def seal(self, pn, hdr, pt):
        nonce = bytes(a ^ b for a, b in zip(self.iv, pn.to_bytes(12, "big")))
        return AESGCM(self.key).encrypt(nonce, pt, hdr)

    def mask(self, sample):
        return Cipher(algorithms.AES(self.hp), modes.ECB()).encryptor().update(sample)


def protect(keys, hdr_wo_pn, pn, pnlen, payload, long):
    if len(payload) < 4:
        payload += b"\0" * (4 - len(payload))
    pnb = (pn & ((1 << (8 * pnlen)) - 1)).to_bytes(pnlen, "big")
    hdr = hdr_wo_pn + pnb
    ct = keys.seal(pn, hdr, payload)
    m = keys.mask(ct[4 - pnlen:4 - pnlen + 16])
    first = hdr[0] ^ (m[0] & (0x0f if long else 0x1f))
    return bytes([first]) + hdr[1:len(hdr_wo_pn)] + bytes(a ^ b for a, b in zip(pnb, m[1:1 + pnlen])) + ct


def long_pkt(keys, typ, dcid, scid, pn, pnlen, payload):
    h = bytes([0xC0 | (typ << 4) | (pnlen - 1)]) + b"\0\0\0\x01" + bytes([len(dcid)]) + dcid + bytes([len(scid)]) + scid
    if typ == 0:
        h += varint(0)
    h += varint(pnlen + max(len(payload), 4) + 16, 2)
    return protect(keys, h, pn, pnlen, payload, True)


def short_pkt(keys, dcid, pn, pnlen, payload):
    return protect(keys, bytes([0x40 | (pnlen - 1)]) + dcid, pn, pnlen, payload, False)


def crypto_frame(off, data):
    return b"\x06" + varint(off) + varint(len(data)) + data


def stream_frame(sid, off, data):
    t = 0x08 | (4 if off else 0) | 2
    return bytes([t]) + varint(sid) + (varint(off) if off else b"") + varint(len(data)) + data


def _ext(t, b):
    return struct.pack(">HH", t, len(b)) + b


class QuicConn:
    """One QUIC v1 connection, TLS_AES_128_GCM_SHA256, 8-byte connection ids on both sides; server
    1-RTT packet numbers start at 1000 (2-byte encoding) so that they never equal a client number."""

    def __init__(self, rng, cip="10.0.0.1", sip="10.0.0.2", cport=50000, sport=443, t0=1700000100_000000):
        self.rng = rng
        self.cip, self.sip, self.cport, self.sport = cip, sip, cport, sport
        self.t = t0
        self.pkts, self.app, self.pn = [], [], {}
        self.dcid0, self.scid_c, self.scid_s = rb(rng, 8), rb(rng, 8), rb(rng, 8)
        isec = hmac.new(SALT_V1, self.dcid0, hashlib.sha256).digest()
        self.ci, self.si = QKeys(qlabel(isec, b"client in", 32)), QKeys(qlabel(isec, b"server in", 32))
        self.sec = {k: rb(rng, 32) for k in ("chs", "shs", "cap", "sap")}
        self.k = {k: QKeys(v) for k, v in self.sec.items()}
        self.cr = rb(rng, 32)
        names = {"chs": "CLIENT_HANDSHAKE_TRAFFIC_SECRET", "shs": "SERVER_HANDSHAKE_TRAFFIC_SECRET",
                 "cap": "CLIENT_TRAFFIC_SECRET_0", "sap": "SERVER_TRAFFIC_SECRET_0"}
        self.keylog = [f"{names[k]} {self.cr.hex()} {v.hex()}" for k, v in self.sec.items()]

    def nextpn(self, space, start=0):
        v = self.pn.get(space, start)
        self.pn[space] = v + 1
        return v

    def dgram(self, from_server, payload):
        self.t += 1000
        if from_server:
            f = udp_frame(self.sip, self.cip, self.sport, self.cport, payload, SMAC, CMAC)
        else:
            f = udp_frame(self.cip, self.sip, self.cport, self.sport, payload, CMAC, SMAC)
        self.pkts.append((self.t, f))

    def handshake(self):
        rng = self.rng
        exts = _ext(0x2b, b"\x02\x03\x04") + _ext(0x10, b"\x00\x03\x02h3") + _ext(0x39, b"\x04\x04\x80\x10\x00\x00")
        ch = client_hello(self.cr, b"\x13\x01\x13\x02", exts)
        fr = crypto_frame(0, ch)
        self.dgram(0, long_pkt(self.ci, 0, self.dcid0, self.scid_c, self.nextpn("ci"), 1, fr + b"\0" * (1150 - len(fr))))
        sexts = _ext(0x2b, b"\x03\x04") + _ext(0x33, b"\x00\x1d\x00\x20" + rb(rng, 32))
        sh = server_hello(rb(rng, 32), b"\x13\x01", ext=sexts)
        p1 = long_pkt(self.si, 0, self.scid_c, self.scid_s, self.nextpn("si"), 1, crypto_frame(0, sh))
        p2 = long_pkt(self.k["shs"], 2, self.scid_c, self.scid_s, self.nextpn("sh"), 1,
                      crypto_frame(0, hs(8, b"\0\0") + hs(20, rb(rng, 32))))
        self.dgram(1, p1 + p2)
        self.dgram(0, long_pkt(self.k["chs"], 2, self.scid_s, self.scid_c, self.nextpn("ch"), 1,
                               crypto_frame(0, hs(20, rb(rng, 32)))))
        return self

    def send(self, from_server, sid, off, data):
        if from_server:
            p = short_pkt(self.k["sap"], self.scid_c, self.nextpn("sa", 1000), 2, stream_frame(sid, off, data))
        else:
            p = short_pkt(self.k["cap"], self.scid_s, self.nextpn("ca"), 1, stream_frame(sid, off, data))
        self.dgram(from_server, p)
        self.app.append((from_server, data))


def quic(conn, app):
    conn.handshake()
    offs = {}
    for d, pt in app:
        sid = 0
        conn.send(d, sid, offs.get((d, sid), 0), pt)
        offs[(d, sid)] = offs.get((d, sid), 0) + len(pt)
    return conn


# ------------------------------------------------------------------ reading an export back
def read_export_ip(path):
    """[(ts_us, proto, src ip, dst ip, sport, dport, payload)] of a pcapng written by the tool (Ethernet/IPv4 only);
    frames that are not Ethernet/IPv4/TCP|UDP come back as (ts_us, 'raw', None, None, None, None, frame)."""
    data = open(path, "rb").read()
    out, i = [], 0
    while i + 12 <= len(data):
        typ, ln = struct.unpack_from("<II", data, i)
        if ln < 12 or i + ln > len(data):
            break
        body = data[i + 8:i + ln - 4]
        if typ == 6:
            _, hi, lo, cap, _ = struct.unpack_from("<IIIII", body, 0)
            f = body[20:20 + cap]
            ts = (hi << 32) | lo
            rec = (ts, "raw", None, None, None, None, f)
            if len(f) >= 34 and f[12:14] == b"\x08\x00" and f[14] >> 4 == 4:
                ihl = (f[14] & 15) * 4
                proto = f[23]
                sip, dip = socket.inet_ntoa(f[26:30]), socket.inet_ntoa(f[30:34])
                l4 = f[14 + ihl:14 + struct.unpack_from(">H", f, 16)[0]]
                if proto == 6 and len(l4) >= 20:
                    sp, dp = struct.unpack_from(">HH", l4, 0)
                    rec = (ts, "tcp", sip, dip, sp, dp, l4[(l4[12] >> 4) * 4:])
                elif proto == 17 and len(l4) >= 8:
                    sp, dp = struct.unpack_from(">HH", l4, 0)
                    rec = (ts, "udp", sip, dip, sp, dp, l4[8:])
            out.append(rec)
        i += ln
    return out


def read_export(path):
    """[(ts_us, proto, sport, dport, payload)] — `read_export_ip` without the addresses."""
    return [(ts, pr, sp, dp, pl) for (ts, pr, _, _, sp, dp, pl) in read_export_ip(path)]
