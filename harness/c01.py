"""C01 — TLS-over-TCP application data is exported exactly (all versions, all suites).

proof:          lean/TLX/Props/C01.lean (record layer: unprotect∘protect per cipher class, stream_exact by induction)
correspondence: record-layer model vs real Decryptor with toy primitives (harness/c01_reclayer.py)
oracle:         independent RFC sender (harness/gen_tls.py) → real tool → strict reader; per-direction streams must
                equal the sender's plaintext
"""
import importlib

import e2e
import spec_suites
import fw
import tool

THEOREMS = []


def one(job):
    """worker: (seed, combos[, 'long']) → (problems, description, replay blob or None)"""
    import random
    import logging
    logging.disable(logging.CRITICAL)
    seed, combos = job[:2]
    rng = random.Random(seed)
    if len(job) > 2 and job[2] == "rsa":
        # the key log holds `RSA <client_random> <pre-master secret>` lines instead of CLIENT_RANDOM lines (up to TLS 1.2)
        shapes = [dict(e2e.random_shape(rng, v), rsa_line=True) for _, v, _ in combos]
        sc = e2e.Scenario(rng, combos, shapes=shapes)
    elif len(job) > 2 and job[2] == "wrap":
        # TCP sequence numbers that pass 2^32 inside the connection, records cut into small segments
        sc = e2e.Scenario(rng, combos, isn="wrap", cut=gen_tls_cut(rng))
    elif len(job) > 2:      # a long history of tiny records: sequence numbers, RC4 position and CBC residue far from zero
        app = [[(rng.randrange(2), rng.randbytes(rng.randrange(0, 4))) for _ in range(rng.randrange(270, 400))]]
        sc = e2e.Scenario(rng, combos, app=app)
    else:
        sc = e2e.Scenario(rng, combos)
    r = tool.run(sc.capture(), sc.keylog_text())
    if r.crashed:
        return [(-1, r.signature())], sc.describe(), sc.replay_blob()
    probs = e2e.compare_export([c for _, c, _ in sc.parts], sc.truths, r.out)
    return probs, sc.describe(), (sc.replay_blob() if probs else None)


def gen_tls_cut(rng):
    """small segments (every record spans several), sizes drawn per connection"""
    import gen_tls
    return gen_tls.cut_mss(rng.choice((23, 61, 100, 160)))


def jobs_for(ctx, scale=1):
    rng = ctx.rng
    jobs = []
    combos = e2e.all_combos()
    reps = e2e.class_representatives(rng)
    if ctx.thorough():
        for c in combos:                         # every table suite × valid version × MtE/EtM
            jobs.append((rng.getrandbits(48), [c]))
        for _ in range(2000 * scale):
            jobs.append((rng.getrandbits(48), [e2e.random_combo(rng)]))
        for _ in range(60 * scale):
            jobs.append((rng.getrandbits(48), [e2e.random_combo(rng)], "long"))
    else:
        for c in reps:                           # every cipher class × version once
            jobs.append((rng.getrandbits(48), [c]))
        for _ in range(60 * scale):
            jobs.append((rng.getrandbits(48), [e2e.random_combo(rng)]))
        for _ in range(3 * scale):
            jobs.append((rng.getrandbits(48), [e2e.random_combo(rng)], "long"))
    for _ in range((4 if not ctx.thorough() else 60) * scale):
        jobs.append((rng.getrandbits(48), [e2e.random_combo(rng)], "wrap"))
    legacy = [c for c in combos if c[1] != "tls13"]
    for v, sha384 in (("ssl3", 0), ("tls10", 0), ("tls11", 0), ("tls12", 0), ("tls12", 1)):      # pre-master lines: every version up to TLS 1.2
        pool = [c for c in legacy if c[1] == v]
        if sha384:
            pool = [c for c in pool if spec_suites.info(spec_suites.R[c[0]])["mac"] == "SHA384"] or pool
        for _ in range((1 if not ctx.thorough() else 12) * scale):
            jobs.append((rng.getrandbits(48), [rng.choice(pool)], "rsa"))
    return jobs


def explore(ctx, scale=1):
    jobs = jobs_for(ctx, scale)
    results = tool.pmap(one, jobs) if len(jobs) > 200 else [one(j) for j in jobs]
    o = ctx.oracle.setdefault("tls-export", {"runs": 0, "violations": 0})
    for job, (probs, desc, blob) in zip(jobs, results):
        seed, combos = job[:2]
        o["runs"] += 1
        d = desc[0]
        cls = e2e.suite_class(int(d["suite"], 16), d["version"], d["etm"])
        napp = {0: sum(1 for x, _ in d["records"] if x == 0), 1: sum(1 for x, _ in d["records"] if x == 1)}
        ctx.count((seed, tuple(combos)), nontrivial=(max(napp.values()) >= 2 and min(napp.values()) >= 1 and not probs))
        ctx.hist("version", d["version"])
        ctx.hist("class", "/".join(str(x) for x in cls[1:]))
        ctx.hist("cut", d["cut"])
        ctx.hist("ip", "v6" if d["v6"] else "v4")
        for k in ("abbreviated", "hs_secrets", "group", "rsa_line"):
            if k in d["shape"]:
                ctx.hist("shape." + k, d["shape"][k])
        ctx.hist("pad13", "pad13" in d["shape"])
        if probs:
            o["violations"] += 1
            kind = probs[0][1].split(":")[0] + (":" + probs[0][1].split(":")[1].split(" ")[0] if probs[0][1].startswith("crash") else "")
            feats = sorted({d["version"], cls[1]} | ({"pad13"} if "pad13" in d["shape"] else set()))
            ctx.fail(f"C01:{{{','.join(feats)}}}:{kind}",
                     "exported TCP streams differ from the application data the endpoints sent",
                     {"seed": seed, "combos": combos, "connection": d, **(blob or {})},
                     expected="per-direction streams == sender plaintext", actual=[p for _, p in probs],
                     how="bin/check C01 --replay <this file>")
        else:
            ctx.sample({"connection": d, "result": "exported exactly"}, cap=3)


def run(ctx):
    ctx.rule = ("one TLS connection per capture from the independent sender: (version, table suite, MtE/EtM) × random "
                "handshake shape (full/abbreviated, message grouping, session-id length, extensions, TLS 1.3 with/without "
                "handshake secrets, record padding, tickets) × 3–10 application records (and a few histories of 270–400 tiny records) in random direction order with "
                "lengths from {0,1,…,16384} × segmentation (flight / record / MSS / random cuts) × IPv4/IPv6. quick: every "
                "cipher class × version once + 60 random; thorough: every table suite × version × MtE/EtM + 2000 random. "
                "non-trivial iff ≥ 2 application records in one direction and ≥ 1 in the other were exported exactly; "
                "distinct = distinct (seed, combo).")
    ctx.assumptions = ["ground truth comes from harness/gen_tls.py (independent RFC sender); output decoded by the strict "
                       "reader in harness/wire.py"]
    mods = []
    try:
        rl = importlib.import_module("c01_reclayer")
        mods = ["TLX.Props.C01"]
    except ModuleNotFoundError:
        rl = None
        ctx.notes.append("record-layer model not present in this tree")
    if mods:
        import extract
        ctx.gen_tables = extract.all_tables()      # C01Suites is proved over the table regenerated from the source
        import c01_pipeline_thms, export_thms, c01_rfc_thms, c01_full_thms, c01_all_thms     # export_thms: C01 from capture-file bytes to output-file bytes
        import translate                 # decision-logic functions re-translated from the source and proved equal to the model
        _tm, _tt = translate.wire(ctx, "C01")
        import oncode_thms               # the property theorems stated on the regenerated definitions themselves (Props/OnCode)
        _om, _ot = oncode_thms.wire("C01")
        _tm, _tt = _tm + _om, _tt + _ot
        ctx.prove(list(dict.fromkeys(mods + ["TLX.Props.C01Suites"] + list(getattr(rl, "PROVE_MODULES", []))
                                     + c01_pipeline_thms.MODULES + export_thms.MODULES + c01_rfc_thms.MODULES + c01_full_thms.MODULES + c01_all_thms.MODULES + _tm)))
        ctx.require_theorems(_tt)
        ctx.require_theorems(list(getattr(rl, "THEOREMS", THEOREMS)) + c01_pipeline_thms.THEOREMS
                             + export_thms.THEOREMS + c01_rfc_thms.THEOREMS + c01_full_thms.THEOREMS + c01_all_thms.THEOREMS + [
            "TLX.Props.C01Suites.table_covered", "TLX.Props.C01Suites.every_table_suite_has_proved_class",
            "TLX.Props.C01Suites.table_suite_cipher_type_known"])
        rl.run_reclayer(ctx)
    # whole-program tie: the real tool against the composed model TLX.Pipeline (main loop + reassembly + session +
    # suite table + key log + key schedule + record layer + builder), toy ciphers and real hashes on both sides
    import pipeline_corr
    pipeline_corr.correspond(ctx)
    import file_corr
    file_corr.correspond(ctx, ctx.n(30, 600))     # capture FILE + key-log file → output FILE, byte for byte
    explore(ctx)
    return ctx.finish(search=lambda c: explore(c, scale=3))


def replay(ctx, obj):
    c = obj["case"]
    r = e2e.replay_run(c)
    print("REPLAY tool:", r.signature())
    bad = r.crashed
    if not bad:
        class EP:
            pass
        eps, truths = [], {}
        for i, e in enumerate(c["endpoints"]):
            ep = EP()
            ep.cip, ep.cport, ep.sip, ep.sport = bytes.fromhex(e["cip"]), e["cport"], bytes.fromhex(e["sip"]), e["sport"]
            eps.append(ep)
            t = c["truth"][str(i)]
            truths[i] = {0: bytes.fromhex(t["c2s"]), 1: bytes.fromhex(t["s2c"])}
        probs = e2e.compare_export(eps, truths, r.out)
        for p in probs:
            print("REPLAY-FAIL", p)
        bad = bool(probs)
    print("REPLAY", "fails" if bad else "passes")
    return 1 if bad else 0
