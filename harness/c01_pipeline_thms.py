"""Theorems of lean/TLX/Props/C01Pipeline.lean that the C01 / C03 / C08 / C13 checks require (composed TLS model)."""
MODULES = ["TLX.Props.C01Pipeline", "TLX.Props.C01Capstone", "TLX.Props.C01Capstone2"]
_NS = "TLX.Props.C01Pipeline."
THEOREMS = [_NS + n for n in [
    # A. Session ∘ RecordLayer
    "session_exact",
    "app_phase_exact",
    "app_phase_exact_legacy",
    "app_phase_exact_13",
    "handshake13_exports_nothing",
    "tls13_after_finished_exact",
    "legacy_finished_record",
    "legacy_after_hello_exact",
    "app_export_exact",
    # B. connection level
    "connOut_eq",
    "connOut_never_raises",
    "connOut_none_iff_build_none",
    "connOut_meta_only_adds",
    "connOut_take_prefix",
    # C. handshake
    "server_hello_installs",
    "genKeys_installs_rel_legacy",
    "genKeys_installs_rel_13",
]] + ["TLX.Props.C01Capstone." + n for n in [
    # capstone: one theorem per protocol family at the level of Pipeline.connOut
    "export_of_dirPlain",
    "tls12_connection_exact",
    "tls13_connection_exact",
    "Ex.tls12_connection_exact_counterexample",
    "Ex.tls12_instance",
    "Ex.tls13_instance",
]] + ["TLX.Props.C01Capstone." + n for n in [
    # capstones, second part (module TLX.Props.C01Capstone2, same namespace)
    "tls12_connection_exact_of_release",
    "tls13_connection_exact_of_release",
    "tls12_connection_exact_displaced",
    "tls13_connection_exact_displaced",
    "causal12_of_packet_order",
    "causal13_of_packet_order",
    "tls13_connection_exact_fragmented",
    "hsBuf_invariant",
    "Ex2.legacy_tls13_fragmented_counterexample",
    "Ex2.tls13_fragmented_instance_B",
    "Ex2.tls13_fragmented_instance",
    "Ex2.tls12_displaced_instance",
    "tls12_connection_meta_exact",
    "tls13_connection_meta_exact",
    "Ex2.tls12_meta_instance",
    "Ex2.tls13_meta_instance",
]]
