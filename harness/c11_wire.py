"""Frame builder and independent RFC 1071 receiver for the C11 check (no TLExport code, no Lean model).

* `Spec` / `build(spec)`     Ethernet II / IPv4 (options) / IPv6 (extension headers) / TCP (options) / UDP
                              frames; the transport checksum is computed sender-side as RFC 793 / RFC 768
                              say (or forced / corrupted on request).
* `steer(...)`                payload bytes that make the 32-bit sum over pseudo-header and segment
                              (checksum field zero) hit a requested value exactly.
* `receiver_verdict(frame)`   the oracle: an own parser of the frame and the receiver-side verification of
                              RFC 1071 §1 ("sum including the checksum field is all ones"), RFC 768 (zero =
                              no checksum generated, IPv4 only), RFC 8200 §8.1 (upper-layer protocol in the
                              pseudo-header; zero UDP checksum is invalid over IPv6).
* `pcapng(...)`               minimal pcapng writer for the end-to-end runs.
"""
import struct

MAC_A, MAC_B = b"\x02\x00\x00\x00\x00\x01", b"\x02\x00\x00\x00\x00\x02"
EXT_HDRS = (0, 60, 43, 44)       # hop-by-hop, destination options, routing, fragment


# ------------------------------------------------------------------ sender side
def word_sum(b):
    if len(b) % 2:
        b = b + b"\x00"
    return sum(struct.unpack(">%dH" % (len(b) // 2), b)) if b else 0


def fold(s):
    """RFC 1071 §4.1 reference: add the carries back until the value fits 16 bits."""
    while s >> 16:
        s = (s & 0xFFFF) + (s >> 16)
    return s


def inet_checksum(b):
    return (~fold(word_sum(b))) & 0xFFFF


class Spec:
    """One frame.  `stored`: None = correct checksum; an int forces the field."""

    def __init__(self, v6, proto, src, dst, sport, dport, payload, seq=1, ack=1, flags=0x18, win=8192, urp=0,
                 tcpopts=b"", ip4opts=b"", exthdrs=(), trailer=b"", stored=None, ts=1700000000.0,
                 smac=MAC_A, dmac=MAC_B, ttl=64, ipid=1):
        self.__dict__.update(locals())
        del self.__dict__["self"]

    def copy(self, **kw):
        d = dict(self.__dict__)
        d.update(kw)
        return Spec(**d)


def pseudo_header(v6, src, dst, proto, l4len):
    if v6:
        return src + dst + struct.pack(">I", l4len) + b"\x00\x00\x00" + bytes([proto])
    return src + dst + b"\x00" + bytes([proto]) + struct.pack(">H", l4len)


def l4_header(sp, n, csum):
    """Transport header for a payload of n bytes, checksum field = csum."""
    if sp.proto == 6:
        off = (20 + len(sp.tcpopts)) // 4
        return struct.pack(">HHIIHHHH", sp.sport, sp.dport, sp.seq & 0xFFFFFFFF, sp.ack & 0xFFFFFFFF,
                           (off << 12) | sp.flags, sp.win, csum, sp.urp) + sp.tcpopts
    return struct.pack(">HHHH", sp.sport, sp.dport, (8 + n) & 0xFFFF, csum)


def base_sum(sp, n):
    """32-bit sum over pseudo-header and transport header (checksum zero) for a payload of n bytes."""
    h = l4_header(sp, n, 0)
    return word_sum(pseudo_header(sp.v6, sp.src, sp.dst, sp.proto, len(h) + n)) + word_sum(h)


def correct_checksum(sp):
    h = l4_header(sp, len(sp.payload), 0)
    seg = h + sp.payload
    c = inet_checksum(pseudo_header(sp.v6, sp.src, sp.dst, sp.proto, len(seg)) + seg)
    if sp.proto == 17 and c == 0:
        c = 0xFFFF                      # RFC 768: computed zero is transmitted as all ones
    return c


def segment(sp):
    c = correct_checksum(sp) if sp.stored is None else sp.stored
    return l4_header(sp, len(sp.payload), c) + sp.payload


def ext_header(kind, nxt, rng=None):
    if kind == 44:                      # atomic fragment: offset 0, M = 0
        return struct.pack(">BBHI", nxt, 0, 0, 0x1234)
    # hop-by-hop / destination options: one PadN option filling 6 or 14 bytes
    n = 6 if rng is None or rng.random() < 0.7 else 14
    return bytes([nxt, (n + 2) // 8 - 1, 1, n - 2]) + b"\x00" * (n - 2)


def build(sp):
    seg = segment(sp)
    if sp.v6:
        chain = b""
        nxt = sp.proto
        for kind in reversed(sp.exthdrs):
            chain = ext_header(kind, nxt) + chain
            nxt = kind
        ip = struct.pack(">IHBB", 6 << 28, len(chain) + len(seg), nxt, sp.ttl) + sp.src + sp.dst + chain + seg
        et = b"\x86\xdd"
    else:
        hl = 20 + len(sp.ip4opts)
        h = struct.pack(">BBHHHBBH", 0x40 | (hl // 4), 0, hl + len(seg), sp.ipid, 0, sp.ttl, sp.proto, 0) \
            + sp.src + sp.dst + sp.ip4opts
        ip = h[:10] + struct.pack(">H", inet_checksum(h)) + h[12:] + seg
        et = b"\x08\x00"
    return sp.dmac + sp.smac + et + ip + sp.trailer


def steer(rng, n, delta):
    """n payload bytes (starting on a 16-bit boundary) whose word sum is exactly delta, or None."""
    full, odd = divmod(n, 2)
    if delta < 0 or delta > 0xFFFF * full + 0xFF00 * odd:
        return None
    last = b""
    if odd:
        lo = max(0, -(-(delta - 0xFFFF * full) // 256))
        hi = min(0xFF, delta // 256)
        if lo > hi:
            return None
        b = rng.randint(lo, hi)
        delta -= b * 256
        last = bytes([b])
    ws = []
    for i in range(full):
        left = full - i - 1
        lo = max(0, delta - 0xFFFF * left)
        hi = min(0xFFFF, delta)
        w = rng.randint(lo, hi) if rng.random() < 0.5 else rng.choice((lo, hi))
        ws.append(w)
        delta -= w
    if delta != 0:
        return None
    rng.shuffle(ws)
    return struct.pack(">%dH" % full, *ws) + last if full else last


# ------------------------------------------------------------------ receiver side (the oracle)
def parse(frame):
    """Own dissection: dict(v6, proto, src, dst, seg, off = offset of seg in the frame) of an unfragmented
    IP packet, else None."""
    if len(frame) < 14:
        return None
    et = frame[12:14]
    if et == b"\x08\x00":
        ip = frame[14:]
        if len(ip) < 20 or ip[0] >> 4 != 4:
            return None
        hl = (ip[0] & 0xF) * 4
        total = struct.unpack(">H", ip[2:4])[0]
        frag = struct.unpack(">H", ip[6:8])[0]
        if hl < 20 or total < hl or total > len(ip) or frag & 0x3FFF:
            return None
        return dict(v6=False, proto=ip[9], src=ip[12:16], dst=ip[16:20], seg=ip[hl:total], off=14 + hl)
    if et == b"\x86\xdd":
        ip = frame[14:]
        if len(ip) < 40 or ip[0] >> 4 != 6:
            return None
        plen = struct.unpack(">H", ip[4:6])[0]
        if 40 + plen > len(ip):
            return None
        nxt, body, off = ip[6], ip[40:40 + plen], 14 + 40
        while nxt in EXT_HDRS:
            if len(body) < 8:
                return None
            if nxt == 44:
                if struct.unpack(">H", body[2:4])[0] & 0xFFF9:
                    return None        # a real fragment
                n = 8
            elif nxt == 43:
                return None            # routing header: final destination not in the fixed header
            else:
                n = (body[1] + 1) * 8
            nxt, body, off = body[0], body[n:], off + n
        return dict(v6=True, proto=nxt, src=ip[8:24], dst=ip[24:40], seg=body, off=off)
    return None


def ones_add(a, b):
    """16-bit one's-complement addition (end-around carry)."""
    s = a + b
    return s - 0xFFFF if s > 0xFFFF else s


def receiver_verdict(frame):
    """'valid' | 'invalid' | 'nochecksum' | None (not a verifiable TCP/UDP packet)."""
    p = parse(frame)
    if p is None or p["proto"] not in (6, 17):
        return None
    seg = p["seg"]
    if len(seg) < (20 if p["proto"] == 6 else 8):
        return None
    if p["proto"] == 17:
        if struct.unpack(">H", seg[4:6])[0] != len(seg):
            return None                 # UDP length field and IP payload length differ: malformed, not C11's matter
        stored = seg[6:8]
        if stored == b"\x00\x00":
            return "invalid" if p["v6"] else "nochecksum"
    data = pseudo_header(p["v6"], p["src"], p["dst"], p["proto"], len(seg)) + seg
    if len(data) % 2:
        data += b"\x00"
    acc = 0
    for i in range(0, len(data), 2):
        acc = ones_add(acc, (data[i] << 8) | data[i + 1])
    return "valid" if acc == 0xFFFF else "invalid"


# ------------------------------------------------------------------ container
def _block(typ, body):
    body += b"\x00" * ((-len(body)) % 4)
    n = 12 + len(body)
    return struct.pack("<II", typ, n) + body + struct.pack("<I", n)


def pcapng(pkts):
    """pkts: [(ts_seconds_float_or_int_us, frame)] — little-endian, one interface, microsecond resolution."""
    out = _block(0x0A0D0D0A, struct.pack("<IHHq", 0x1A2B3C4D, 1, 0, -1))
    out += _block(1, struct.pack("<HHI", 1, 0, 65535))
    for ts, b in pkts:
        us = ts if isinstance(ts, int) else int(round(ts * 1e6))
        out += _block(6, struct.pack("<IIIII", 0, us >> 32, us & 0xFFFFFFFF, len(b), len(b)) + b)
    return out
