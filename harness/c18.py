"""C18 — the export is a deterministic function of capture, secrets and options.

oracle: the same (capture, key log, options) run as separate CLI processes under different PYTHONHASHSEED values, working
directories and environments must give byte-identical output files; and in one process, run() called repeatedly
(also after a run on a different capture) must give the same file as a fresh process.
"""
import hashlib
import os
import subprocess
import sys
import tempfile

import e2e
import fw
import tool
import wire

THEOREMS = []

INPROC = r'''
import sys, os, io, contextlib, logging
logging.disable(logging.CRITICAL)
import tlexport.main as m
runs = eval(sys.argv[1])
for argv in runs:
    sys.argv = ["tlexport"] + argv
    try:
        with contextlib.redirect_stdout(io.StringIO()):
            m.run()
        print("RUN ok")
    except BaseException as e:
        print("RUN", type(e).__name__)
'''


def sha(path):
    return hashlib.sha256(open(path, "rb").read()).hexdigest() if os.path.exists(path) else None


def one(job):
    import random
    import logging
    logging.disable(logging.CRITICAL)
    seed, ntls, nquic, args = job[:4]
    rng = random.Random(seed)
    feats = [{"scid_c_len": rng.choice([0, 0, 8]), "scid_s_len": rng.choice([0, 8, 8, 3]), "retry": False,
              "prefix_cid": (q == 0 and seed % 2 == 0)} for q in range(nquic)]
    if nquic:
        # one connection issues a new CID with Retire Prior To = 1 while the peer still has datagrams with the old CID in
        # flight: which CIDs the session knows must not depend on set iteration order
        feats[-1].update({"new_cid": True, "ncid_retire": 1, "ncid_lazy": 2, "scid_c_len": 8, "scid_s_len": 8, "same_cid": False})
    mx = e2e.Mixed(rng, [e2e.random_combo(rng) for _ in range(ntls)], n_quic=nquic, quic_features=feats)
    other = e2e.Mixed(rng, [e2e.random_combo(rng)], n_quic=1)
    d = tempfile.mkdtemp(prefix="tlx18_", dir=tool.TMPBASE)
    fails = []
    try:
        cap, kl = os.path.join(d, "in.pcapng"), os.path.join(d, "k.log")
        open(cap, "wb").write(mx.capture())
        # a key log as endpoints really write them when a client random is logged twice (resumption, restarted capture):
        # stale lines with the same label and client random but another value. Which line wins is fixed by the code
        # (TLS <= 1.2: the first CLIENT_RANDOM/RSA line; TLS 1.3 and QUIC: the last line per label), so stale lines are put
        # where they lose - the export stays non-trivial and must not depend on anything but the file.
        lines = []
        for l in mx.keylog:
            lab, cr, val = l.split(" ")
            stale = f"{lab} {cr} {rng.randbytes(len(val) // 2).hex()}"
            if rng.random() < 0.5:
                lines += [l, stale] if lab in ("CLIENT_RANDOM", "RSA") else [stale, l]
            else:
                lines.append(l)
        keylog_text = "\n".join(lines) + "\n"
        open(kl, "w").write(keylog_text)
        cap2, kl2 = os.path.join(d, "in2.pcapng"), os.path.join(d, "k2.log")
        open(cap2, "wb").write(other.capture())
        open(kl2, "w").write(other.keylog_text())
        base_env = {k: v for k, v in os.environ.items() if k not in ("PYTHONHASHSEED",)}
        base_env["PYTHONPATH"] = tool.REPO
        outs = {}

        def cli(tag, env_extra, cwd, keys=True):
            out = os.path.join(d, f"out_{tag}.pcapng")
            env = dict(base_env)
            env.update(env_extra)
            p = subprocess.run([sys.executable, "-W", "ignore", "-m", "tlexport.main", "-i", cap] + (["-s", kl if keys is True else keys] if keys else []) + ["-o", out] + list(args),
                               cwd=cwd, env=env, stdout=subprocess.PIPE, stderr=subprocess.PIPE, text=True, timeout=300)
            outs[tag] = (p.returncode, sha(out))
        sub = os.path.join(d, "elsewhere")
        os.mkdir(sub)
        variants = [("hs0", {"PYTHONHASHSEED": "0"}, tool.REPO)]
        for hs in job[4]:
            variants.append((f"hs{hs}", {"PYTHONHASHSEED": str(hs)}, tool.REPO))
        variants.append(("cwd_tmp", {"PYTHONHASHSEED": "random"}, sub))
        variants.append(("cwd_root", {"PYTHONHASHSEED": "random"}, "/"))
        variants.append(("env", {"PYTHONHASHSEED": "random", "LANG": "tr_TR.UTF-8", "TZ": "Pacific/Kiritimati", "HOME": sub,
                                 "SSLKEYLOGFILE": "/nonexistent", "COLUMNS": "7"}, sub))
        for v in variants:
            cli(*v)
        ref = outs["hs0"]
        if ref[0] != 0 or ref[1] is None:
            fails.append(f"reference-run-failed rc={ref[0]}")
        for tag, res in outs.items():
            if res != ref:
                fails.append(f"nondeterministic:{tag}: {res} vs reference {ref}")
        # the same command WITHOUT -s: the environment (SSLKEYLOGFILE of the shell that happens to run the tool) is no option
        base_env.pop("SSLKEYLOGFILE", None)
        cli("nos", {"PYTHONHASHSEED": "0"}, tool.REPO, keys=False)
        cli("nos_envkeys", {"PYTHONHASHSEED": "0", "SSLKEYLOGFILE": kl}, tool.REPO, keys=False)
        cli("nos_envmissing", {"PYTHONHASHSEED": "0", "SSLKEYLOGFILE": os.path.join(d, "nope.log")}, sub, keys=False)
        ref_nos = outs["nos"]
        for tag in ("nos_envkeys", "nos_envmissing"):
            if outs[tag] != ref_nos:
                fails.append(f"nondeterministic:{tag}: {outs[tag]} vs the run without -s in a clean environment {ref_nos}")
        # … and with -s naming a file that does not exist: the run ends the same way whatever SSLKEYLOGFILE says
        absent = os.path.join(d, "absent.log")
        cli("absent", {"PYTHONHASHSEED": "0"}, tool.REPO, keys=absent)
        cli("absent_envkeys", {"PYTHONHASHSEED": "0", "SSLKEYLOGFILE": kl}, sub, keys=absent)
        if outs["absent_envkeys"] != outs["absent"]:
            fails.append(f"nondeterministic:absent_envkeys: {outs['absent_envkeys']} vs the run with the same missing -s file in a clean environment {outs['absent']}")
        # in-process repetition: A, A  and  B, A
        o1, o2, o3, o4 = (os.path.join(d, f"rep{i}.pcapng") for i in range(4))
        a = lambda o: ["-i", cap, "-s", kl, "-o", o] + list(args)
        # the earlier run uses OTHER options as well (its port map, extra server ports, -a must not leak into the next run)
        # … among them, as an extra server port, a port that run A's capture uses as a CLIENT port: if it leaked, A's roles flip
        leak_port = [str(mx.tls[0]["conn"].cport)] if mx.tls else []
        b = lambda o: ["-i", cap2, "-s", kl2, "-o", o, "-m", "443:9000", "8443:9001", "-p", "8443", "4433"] + leak_port + ["-a"]
        o5, o6 = os.path.join(d, "rep5.pcapng"), os.path.join(d, "rep6.pcapng")
        bad_out = b(os.path.join(d, "no-such-dir", "x.pcapng"))                    # run B dies when opening its output file
        bad_keys = ["-i", cap2, "-s", os.path.join(d, "missing.log"), "-o", o6, "-p", "5555"]   # run dies on a missing key log
        o7, o8 = os.path.join(d, "rep7.pcapng"), os.path.join(d, "rep8.pcapng")
        a_nos = ["-i", cap, "-o", o8] + list(args)          # the same capture WITHOUT -s after a run that loaded its secrets
        for tag, runs, files in (("A,A", [a(o1), a(o2)], [o1, o2]), ("B,A", [b(o3), a(o4)], [o4]),
                                 ("B-aborted,A", [bad_out, bad_keys, a(o5)], [o5]), ("A,A-without-s", [a(o7), a_nos], [])):
            p = subprocess.run([sys.executable, "-W", "ignore", "-c", INPROC, repr(runs)], cwd=tool.REPO, env=base_env,
                               stdout=subprocess.PIPE, stderr=subprocess.PIPE, text=True, timeout=300)
            status = [l for l in p.stdout.splitlines() if l.startswith("RUN")]
            if tag == "B-aborted,A":
                status = status[-1:]
                runs = runs[-1:]
            if status != ["RUN ok"] * len(runs):
                fails.append(f"in-process-repetition:{tag}: {status} {p.stderr[-200:]}")
            for f in files:
                if sha(f) != ref[1]:
                    fails.append(f"in-process-repetition:{tag}: output of run {os.path.basename(f)} differs from a fresh process")
            if tag == "A,A-without-s" and sha(o8) != ref_nos[1]:
                fails.append(f"in-process-repetition:{tag}: the run without -s differs from a fresh process without -s (secrets of the earlier run leaked)")
        nonempty = ref[1] is not None and len(wire.read_pcapng_strict(open(os.path.join(d, "out_hs0.pcapng"), "rb").read())) > 0
    finally:
        import shutil
        blob = {"capture_hex": mx.capture().hex(), "keylog": keylog_text if "keylog_text" in dir() else mx.keylog_text(), "argv": list(args), "job": [seed, ntls, nquic, list(args), list(job[4])]}
        shutil.rmtree(d, ignore_errors=True)
    return fails[:4], mx.describe(), blob, nonempty


def explore(ctx, scale=1):
    rng = ctx.rng
    n = ctx.n(6, 60) * scale
    jobs = []
    for i in range(n):
        nt, nq = [(1, 1), (0, 2), (2, 0), (1, 2)][i % 4]
        seeds = tuple(range(1, 8)) if (ctx.thorough() or i == 0) else tuple(rng.sample(range(1, 1000), 2))
        jobs.append((rng.getrandbits(48), nt, nq, [(), ("-a",), ("-m",), ("-m", "8443:8444")][i % 4], seeds))
    results = tool.pmap(one, jobs, procs=16 if ctx.thorough() else 6)
    o = ctx.oracle.setdefault("repeated-runs", {"runs": 0, "violations": 0})
    for job, (fails, desc, blob, nonempty) in zip(jobs, results):
        o["runs"] += 4 + len(job[4]) + 4
        ctx.evaluations += 4 + len(job[4]) + 4
        if nonempty and not fails and (job[2] >= 2 or job[1] + job[2] >= 2):
            for k in range(4 + len(job[4]) + 4):
                ctx.distinct.add(hash((job[0], k)).to_bytes(8, "big", signed=True))
        ctx.hist("kind", f"tls={job[1]} quic={job[2]}")
        ctx.hist("hashseeds", len(job[4]) + 1)
        if fails:
            o["violations"] += 1
            kind = fails[0].split(":")[0]
            ctx.fail(f"C18:{{{fails[0].split(':')[1] if ':' in fails[0] else ''}}}:{kind}", "repeated runs on the same input give different output files",
                     {"seed": job[0], "scenario": desc, **blob}, expected="byte-identical output files", actual=fails,
                     how="bin/check C18 --replay <this file>")
        else:
            ctx.sample({"scenario": desc, "hash_seeds": [0] + list(job[4]), "cwds": 3, "in_process": ["A,A", "B,A", "B-aborted,A"], "result": "identical"}, cap=3)


def run(ctx):
    ctx.rule = ("captures with ≥ 2 sessions (TLS + QUIC, QUIC CIDs of length 0/3/8 so that CID sets hold several entries) run as "
                "CLI processes under PYTHONHASHSEED ∈ {0, 1..7 (first capture; all in thorough), 2 random}, three working "
                "directories, a polluted environment, and in one interpreter as run();run() on (A, A), (B, A) and (B aborted by an unwritable output path, B aborted by a missing key log, A) and (A, A without -s: the secrets of the earlier run must not leak); the command without -s under SSLKEYLOGFILE pointing to the matching key log / to a missing file must equal the one in a clean environment; one QUIC connection per capture issues a new CID with Retire Prior To = 1 while the peer still sends two datagrams with the old one; some QUIC connections use a server CID that extends the client's original DCID. One "
                "evaluation = one run; non-trivial iff the capture has ≥ 2 QUIC CIDs or ≥ 2 sessions and a non-empty output.")
    ctx.assumptions = ["the CLI is started with `python -m tlexport.main` from the tree under test"]
    import m1_mainloop
    ctx.gen_tables.update(m1_mainloop.regen())      # reset statements of run() → lean/TLX/Gen/MainLoopConsts.lean
    import export_thms
    import ob_outbytes
    ctx.gen_tables.update(ob_outbytes.regen())      # Props/Export depends on the snaplen literal of run()
    import translate                 # decision-logic functions re-translated from the source and proved equal to the model
    _tm, _tt = translate.wire(ctx, "C18")
    ctx.prove(["TLX.Props.C18"] + export_thms.MODULES + _tm)
    ctx.require_theorems(_tt)
    ctx.require_theorems([t for t in m1_mainloop.THEOREMS if t.startswith("TLX.Props.C18.")] + [
        "TLX.Props.Export.export_ignores_prior_state", "TLX.Props.Export.export_is_function"])
    import file_corr
    file_corr.correspond(ctx, ctx.n(25, 400))     # the model's exportFile (a function of the file bytes) vs the real run
    m1_mainloop.correspond(ctx)       # ties TLX.MainLoop to the real handle_packet / handle_quic_packet / run()
    explore(ctx)
    return ctx.finish(search=lambda c: explore(c, scale=2))


def replay(ctx, obj):
    j = obj["case"]["job"]
    fails = one((j[0], j[1], j[2], tuple(j[3]), tuple(j[4])))[0]
    for f in fails:
        print("REPLAY-FAIL", f)
    print("REPLAY", "fails" if fails else "passes")
    return 1 if fails else 0
