"""C13 — metadata export (-a) only adds packets; application data is unchanged.

oracle (metamorphic): the same capture with and without -a.
 TLS:  the payload-carrying packets without -a are a subsequence (same payloads, same order, same direction, same
       timestamps) of those with -a; ClientHello and ServerHello records appear verbatim as packets of their own.
 QUIC: per direction every STREAM chunk exported without -a still appears, in the same order, inside the datagrams
       exported with -a.
"""
import e2e
import fw
import tool
import wire

THEOREMS = ["TLX.Props.C13.meta_only_adds_tls", "TLX.Props.C13.meta_record_verbatim"]


def tls_segments(out, conn):
    pkts = wire.read_output(out)
    return [(us, (p["src"], p["sport"]) == (conn.cip, conn.cport), bytes(p["payload"])) for us, p in pkts
            if p["proto"] == 6 and p["payload"] and {(p["src"], p["sport"]), (p["dst"], p["dport"])} >= {(conn.cip, conn.cport)}
            and conn.sip in (p["src"], p["dst"])]


def quic_datagrams(out, conn):
    pkts = wire.read_output(out)
    d = {0: [], 1: []}
    for us, p in pkts:
        if p["proto"] == 17 and p["payload"]:
            if (p["src"], p["sport"]) == (conn.cip, conn.cport) and p["dst"] == conn.sip:
                d[0].append(bytes(p["payload"]))
            elif (p["dst"], p["dport"]) == (conn.cip, conn.cport) and p["src"] == conn.sip:
                d[1].append(bytes(p["payload"]))
    return d


def is_subsequence(small, big):
    it = iter(big)
    return all(any(x == y for y in it) for x in small)


def chunks_in_order(chunks, dgrams):
    """every chunk appears as a substring, in order, in the datagram sequence"""
    di, pos = 0, 0
    for ch in chunks:
        while di < len(dgrams):
            k = dgrams[di].find(ch, pos)
            if k >= 0:
                pos = k + len(ch)
                break
            di, pos = di + 1, 0
        else:
            return False
    return True


def hello_records(conn, script=None):
    """raw ClientHello / ServerHello records as sent (first handshake record of each direction's stream), taken from
    the sender's own record log (the packet list may hold duplicates and repacketised retransmissions)"""
    out = []
    for d in (0, 1):
        first = script.rec_log[d][0] if script is not None and script.rec_log[d] else None
        if first is not None and first[0] == "clear" and first[1][:1] == b"\x16":
            # the ServerHello record may group further handshake messages: it is still exported as that record
            out.append((d, first[1]))
    return out


def one(job):
    import random
    import logging
    logging.disable(logging.CRITICAL)
    seed, ntls, nquic = job[:3]
    rng = random.Random(seed)
    def hook(r, version):
        # an encrypted alert in mid-connection (TLS <= 1.2), the peer's data in flight follows
        return {"mid_alert": (r.randrange(1, 3), r.randrange(2))} if version != "tls13" and r.random() < 0.35 else {}
    if len(job) > 3 and job[3] == "deflate":
        # connections up to TLS 1.2 that negotiated record compression (RFC 3749): the compression history of a direction starts in
        # its encrypted Finished record, so that record must go through the decryptor whether or not it is exported
        combos = []
        while len(combos) < ntls:
            cb = e2e.random_combo(rng)
            if cb[1] != "tls13" and (cb[1] in ("tls11", "tls12") or rng.random() < 0.3):
                combos.append(cb)
        mx = e2e.Mixed(rng, combos, n_quic=nquic, noise=False, shape_hook=lambda r, version: {"deflate": True})
    else:
        mx = e2e.Mixed(rng, [e2e.random_combo(rng) for _ in range(ntls)], n_quic=nquic, noise=False, shape_hook=hook)
    kl = mx.keylog_text()
    cap = mx.capture()
    off, on = tool.run(cap, kl), tool.run(cap, kl, ["-a"])
    fails, added = [], 0
    blob = {"capture_hex": cap.hex(), "keylog": kl, "job": list(job)}
    for name, r in (("without -a", off), ("with -a", on)):
        if r.crashed:
            fails.append(f"{name}: {r.signature()}")
    if fails:
        return fails, mx.describe(), blob, 0
    try:
        for c in mx.tls:
            conn = c["conn"]
            a, b = tls_segments(off.out, conn), tls_segments(on.out, conn)
            added += len(b) - len(a)
            if not is_subsequence(a, b):
                fails.append(f"tls-appdata-changed: {c['script'].v}: {len(a)} data packets without -a are not a subsequence of the {len(b)} with -a")
            for d, rec in hello_records(conn, c["script"]):
                run_ = b"".join(p for _, dd, p in b if dd == (d == 0))
                # the record must be exported verbatim: some run of consecutive packets of that direction concatenates to it
                segs = [p for _, dd, p in b if dd == (d == 0)]
                ok = any(b"".join(segs[i:j]) == rec for i in range(len(segs)) for j in range(i + 1, min(len(segs), i + 12) + 1))
                if not ok:
                    fails.append(f"hello-not-verbatim: {'ClientHello' if d == 0 else 'ServerHello'} record of {c['script'].v} not exported as packets of its own")
            # ground truth for the run with -a: per direction, in record order, every clear-text handshake / CCS / alert
            # record verbatim, every encrypted handshake record of TLS <= 1.2 as its plaintext followed by the record,
            # encrypted alerts verbatim, and the application plaintexts - exactly those that the run WITHOUT -a exported
            sc = c["script"]
            for d in (0, 1):
                off_stream = b"".join(p for _, dd, p in a if dd == (d == 0))
                on_stream = b"".join(p for _, dd, p in b if dd == (d == 0))
                want, used = b"", 0
                for e in sc.rec_log[d]:
                    if e[0] == "clear" or e[0] == "alert":
                        want += e[1]
                    elif e[0] == "hs":
                        if sc.v != "tls13":
                            want += e[2] + e[1]
                    elif e[0] == "app":
                        if off_stream[used:used + len(e[2])] == e[2] and used + len(e[2]) <= len(off_stream):
                            want += e[2]
                            used += len(e[2])
                if used == len(off_stream) and on_stream != want:
                    k = next((i for i, (x, y) in enumerate(zip(on_stream, want)) if x != y), min(len(on_stream), len(want)))
                    fails.append(f"tls-meta-stream: {sc.v} direction {d}: with -a {len(on_stream)} bytes exported, expected {len(want)} "
                                 f"(handshake/CCS/alert material + the {used} application bytes exported without -a); first difference at byte {k}")
            e2e.decode(on.out)
        for q in mx.quic:
            conn = q["conn"]
            a, b = quic_datagrams(off.out, conn), quic_datagrams(on.out, conn)
            for d in (0, 1):
                added += len(b"".join(b[d])) - len(b"".join(a[d]))
                if not chunks_in_order(a[d], b[d]):
                    fails.append(f"quic-stream-data-changed: direction {d}: stream chunks exported without -a do not appear in order with -a")
    except wire.FrameError as e:
        fails.append(f"bad-frame:{e}")
    return fails, mx.describe(), blob, added


def one_scripted(job):
    """QUIC histories the random generator does not reach: a datagram that carries handshake bytes only (the server's NewSessionTicket in
    1-RTT CRYPTO frames, RFC 9001 4.1.3 — exported with -a only) and, on the SAME capture tick, the peer's datagram with stream data
    (datagrams of opposite directions may share a timestamp; the property tells datagrams of one direction apart by their timestamps)."""
    import random
    import logging
    import gen_quic
    logging.disable(logging.CRITICAL)
    seed = job[0]
    rng = random.Random(seed)
    suite = [0x1301, 0x1302, 0x1303, 0x1304][seed % 4]
    c = gen_quic.QConn(rng, suite=suite, cport=41000 + seed % 20000, scid_c_len=rng.choice([0, 8]), scid_s_len=rng.choice([4, 8, 16]))
    c.handshake()
    offs, coff = {0: 0, 1: 0}, {0: 0, 1: 0}

    def stream(d, dt=None):
        b = rng.randbytes(rng.randrange(1, 200))
        c.q_1rtt(d, gen_quic.f_stream(0, offs[d], b))
        offs[d] += len(b)
        c.flush(d, b, dt=dt)

    def ticket(d, dt=None):
        m = gen_quic.hs(4, rng.randbytes(rng.randrange(20, 120)))
        c.q_1rtt(d, gen_quic.f_crypto(coff[d], m))
        coff[d] += len(m)
        c.flush(d, dt=dt)
    stream(0)
    stream(1)
    for _ in range(rng.randrange(1, 4)):
        ticket(1)
        stream(0, dt=0)                    # the client's request is captured on the tick of the server's ticket
        stream(1)
        if rng.random() < 0.5:
            stream(0)
            ticket(1, dt=0)                # … and the other way round
            stream(1)
    cap = wire.pcapng(c.items)
    kl = "\n".join(c.keylog_lines()) + "\n"
    off, on = tool.run(cap, kl), tool.run(cap, kl, ["-a"])
    fails, added = [], 0
    blob = {"capture_hex": cap.hex(), "keylog": kl, "job": list(job)}
    for name, r in (("without -a", off), ("with -a", on)):
        if r.crashed:
            fails.append(f"{name}: {r.signature()}")
    if not fails:
        try:
            a, b = quic_datagrams(off.out, c), quic_datagrams(on.out, c)
            for d in (0, 1):
                added += len(b"".join(b[d])) - len(b"".join(a[d]))
                if not chunks_in_order(a[d], b[d]):
                    fails.append(f"quic-stream-data-changed: direction {d}: stream chunks exported without -a do not appear in order (and direction) with -a")
        except wire.FrameError as e:
            fails.append(f"bad-frame:{e}")
    return fails, {"quic": "scripted: NewSessionTicket datagrams sharing a tick with the peer's stream data", "suite": f"{suite:04X}"}, blob, added


def explore(ctx, scale=1):
    rng = ctx.rng
    n = ctx.n(30, 1500) * scale
    jobs = [(rng.getrandbits(48), *([(1, 0), (0, 1), (2, 1), (1, 1), (1, 0)][i % 5])) for i in range(n)]
    results = tool.pmap(one, jobs, procs=16 if ctx.thorough() else 8)
    sjobs = [(rng.getrandbits(48), 0, 1, "scripted") for _ in range(ctx.n(6, 60) * scale)]
    results += tool.pmap(one_scripted, sjobs, procs=16 if ctx.thorough() else 8)
    djobs = [(rng.getrandbits(48), 1 + k % 2, 0, "deflate") for k in range(ctx.n(8, 80) * scale)]
    results += tool.pmap(one, djobs, procs=16 if ctx.thorough() else 8)
    jobs = jobs + sjobs + djobs
    o = ctx.oracle.setdefault("with-vs-without-a", {"runs": 0, "violations": 0})
    for job, (fails, desc, blob, added) in zip(jobs, results):
        o["runs"] += 2
        ctx.count(job, nontrivial=(added > 0 and not fails))
        ctx.hist("kind", f"tls={job[1]} quic={job[2]}")
        ctx.hist("added_something", added > 0)
        if fails:
            o["violations"] += 1
            kind = fails[0].split(":")[0] if "crash" not in fails[0] else fails[0].split(": ")[1].split(" ")[0]
            ctx.fail(f"C13:{{{'quic' if job[2] else 'tls'}}}:{kind}", "metadata export changes or loses application data",
                     {"seed": job[0], "scenario": desc, **blob}, expected="-a only adds packets / handshake bytes",
                     actual=fails[:4], how="bin/check C13 --replay <this file>")
        else:
            ctx.sample({"scenario": desc, "bytes_or_packets_added_by_-a": added}, cap=3)


def run(ctx):
    ctx.rule = ("captures with TLS connections (random version/suite/shape/segmentation) and QUIC v1 connections (random "
                "features), each run with and without -a. non-trivial iff -a adds at least one packet/byte and the "
                "application data relation holds.")
    ctx.assumptions = []
    import session_corr
    import export_props_quic_thms, export_props_thms, file_corr     # whole-program form (Props/ExportProps) about TLX.Export.framesFrom, tied file to file
    import translate                 # decision-logic functions re-translated from the source and proved equal to the model
    _tm, _tt = translate.wire(ctx, "C13")
    ctx.prove(["TLX.Props.C13", "TLX.Props.C13Session", "TLX.Props.C02Out", "TLX.Props.C01Pipeline"] + export_props_thms.MODULES + export_props_quic_thms.MODULES + _tm)
    ctx.require_theorems(_tt)
    ctx.require_theorems(THEOREMS + session_corr.THEOREMS_C13 + export_props_thms.THEOREMS_C13 + export_props_quic_thms.THEOREMS_C13 + ["TLX.Props.C02Out." + t for t in ("meta_only_adds_quic", "meta_only_adds_quic_sublist", "meta_regroup", "out_bytes_from_frames")] + ["TLX.Props.C01Pipeline.connOut_meta_only_adds",
                          "TLX.Props.C01Pipeline.handshake13_exports_nothing"])
    import c06_model
    c06_model.run_model(ctx)          # ties TLX.TcpOut to the real OutputBuilder
    import q1_udpout
    q1_udpout.correspond(ctx)         # ties TLX.Quic.UdpOut to the real QUICOutputbuilder
    file_corr.correspond(ctx, ctx.n(12, 200))     # ties the whole-program model (ExportProps' subject) file to file
    session_corr.correspond(ctx)      # ties TLX.Session to the real Session (exp_meta on and off)
    explore(ctx)
    return ctx.finish(search=lambda c: explore(c, scale=2))


def replay(ctx, obj):
    job = tuple(obj["case"]["job"])
    fails = (one_scripted(job) if len(job) > 3 and job[3] == "scripted" else one(job))[0]
    for f in fails:
        print("REPLAY-FAIL", f)
    print("REPLAY", "fails" if fails else "passes")
    return 1 if fails else 0
