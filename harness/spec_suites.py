"""Independent Python specification for C14: IANA registry copy (spec_iana.R) + token-grammar name
parser. Shares no code with tlexport. Renders in the canonical form of the line protocol."""
from spec_iana import R  # code -> name


def info(name):
    """Structured denotation used by the independent senders: algo, klen, mode, tag, mac, aead, block."""
    r = denote(name)
    if r is None:
        return None
    f = dict(x.split("=") for x in r.split(";"))
    cls = f["CryptoAlgo"].split(":")[1]
    algo = {"AES": "AES", "AESGCM": "AES", "AESCCM": "AES", "Camellia": "CAMELLIA", "TripleDES": "3DES",
            "IDEA": "IDEA", "ARC4": "RC4", "ChaCha20Poly1305": "CHACHA20"}[cls]
    mode = {"CBC": "CBC", "GCM": "GCM", "AESCCM": "CCM", "ChaCha20Poly1305": "POLY1305", "None": None}[f["Mode"].split(":")[1]]
    return {"algo": algo, "klen": int(f["KeyLength"].split(":")[1]), "mode": mode,
            "tag": int(f["TagLength"].split(":")[1]), "mac": f["MAC"].split(":")[1],
            "aead": f["CryptoAlgo"].endswith(":1"), "block": {"AES": 16, "CAMELLIA": 16, "3DES": 8, "IDEA": 8}.get(algo, 0)}


def valid_versions(code):
    """Protocol versions a table suite is valid for (RFC 5246 A.5: SHA-256/384 and AEAD suites are TLS 1.2 only;
    0x13xx are TLS 1.3 only; IDEA was removed in TLS 1.2)."""
    d = info(R[code])
    if code >> 8 == 0x13:
        return ["tls13"]
    if d["aead"] or d["mac"] in ("SHA256", "SHA384"):
        return ["tls12"]
    if d["algo"] == "IDEA":
        return ["ssl3", "tls10", "tls11"]
    return ["ssl3", "tls10", "tls11", "tls12"]


def denote(name):
    if not name.startswith("TLS_"):
        return None
    body = name[4:]
    cs = body.split("_WITH_", 1)[1] if "_WITH_" in body else body
    t = cs.split("_")
    tag = 16
    try:
        if t[0] == "AES":
            klen, i, cls, blk = {"128": 16, "256": 32}[t[1]], 2, "AES", True
        elif t[0] == "CAMELLIA":
            klen, i, cls, blk = {"128": 16, "256": 32}[t[1]], 2, "Camellia", True
        elif t[0] == "3DES" and t[1] == "EDE":
            klen, i, cls, blk = 24, 2, "TripleDES", True
        elif t[0] == "IDEA":
            klen, i, cls, blk = 16, 1, "IDEA", True
        elif t[0] == "RC4" and t[1] == "128":
            klen, i, cls, blk = 16, 2, "ARC4", False
            algo, mode = ("ARC4", 0), ("None", 0)
        elif t[0] == "CHACHA20" and t[1] == "POLY1305":
            klen, i, cls, blk = 32, 2, None, False
            algo, mode = ("ChaCha20Poly1305", 1), ("ChaCha20Poly1305", 1)
        else:
            return None
        if blk:
            m = t[i]
            i += 1
            if m == "CBC":
                algo, mode = (cls, 0), ("CBC", 0)
            elif m == "GCM" and cls == "AES":
                algo, mode = ("AESGCM", 1), ("GCM", 1)
            elif m == "CCM" and cls == "AES":
                algo, mode = ("AESCCM", 1), ("AESCCM", 1)
                if i < len(t) and t[i] == "8":
                    tag = 8
                    i += 1
            else:
                return None
        rest = t[i:]
        if rest == []:
            mac = "SHA256"
        elif len(rest) == 1 and rest[0] in ("SHA", "SHA256", "SHA384", "MD5"):
            mac = {"SHA": "SHA1"}.get(rest[0], rest[0])
        else:
            return None
    except (IndexError, KeyError):
        return None
    return (f"CryptoAlgo=tup:{algo[0]}:{algo[1]};Mode=tup:{mode[0]}:{mode[1]};KeyLength=int:{klen};"
            f"MAC=cls:{mac};TagLength=int:{tag}")


def render_impl(d):
    """Canonical rendering of what the real split_cipher_suite returned."""
    if d is None:
        return "none"

    def val(v):
        if isinstance(v, tuple) and len(v) == 2:
            return f"tup:{'None' if v[0] is None else getattr(v[0], '__name__', repr(v[0]))}:{int(v[1])}"
        if isinstance(v, int) and not isinstance(v, bool):
            return f"int:{v}"
        return f"cls:{'None' if v is None else getattr(v, '__name__', repr(v))}"
    return ";".join(f"{k}={val(v)}" for k, v in d.items())
