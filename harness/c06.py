"""C06 — the output is always a well-formed pcapng of well-formed, reassemblable packets.

oracle: the strict reader (harness/wire.py) on the real output for decryptable, partly decryptable and undecryptable
captures with non-TLS TCP and non-QUIC UDP, under option combinations (-a, -m, -p, -c); plus the n × k matrix: a
record of n plaintext bytes carried by k input packets is re-split into at most k segments whose concatenation is
the record.
"""
import e2e
import fw
import gen_tls
import tool
import wire
import c03

THEOREMS = []
OPTS = [(), ("-a",), ("-m",), ("-m", "443:8443"), ("-a", "-m", "443:9000,"), ("-p", "8443"), ("-c",), ("-a", "-c", "-m")]


def check_output(out):
    """strict decode + conversation check; returns (n packets, n tcp conversations, n udp)"""
    pkts, convs, udp = e2e.decode(out)
    return len(pkts), len(convs), sum(len(v) for v in udp.values())


def carrier_clause(mx, out):
    """"a record of n bytes carried by k input packets is re-split into at most k segments whose concatenation is the
    record", on the exported file: for every fully exported TLS connection (no -a) and every application record with
    plaintext, the exported data segments never span two records and at most k of them lie inside the record, k = the
    number of distinct captured segments that carry bytes of the record (ground truth from the independent sender)."""
    _, convs, _ = e2e.decode(out)
    for t in mx.tls:
        conn, sc = t["conn"], t["script"]
        c = e2e.find_conv(convs, conn)
        if c is None:
            continue
        for d, key in ((0, "c2s"), (1, "s2c")):
            if bytes(c[key]) != bytes(t["truth"][d]):
                continue                                   # not (fully) exported: other clauses / other properties
            segs_in = sorted({(conn.offset(k), len(pk[4])) for k, pk in enumerate(conn.pkts) if pk[2] == d and pk[4]})
            bounds, pos = set(), 0
            for dd, _us, pl in c["segments"]:
                if dd == key:
                    bounds.add(pos)
                    pos += len(pl)
            outs = sorted(bounds) + [pos]
            coff = poff = 0
            for ent in sc.rec_log[d]:
                raw = ent[1]
                if ent[0] == "app" and len(ent[2]):
                    k = sum(1 for a, n in segs_in if a < coff + len(raw) and a + n > coff)
                    if poff not in bounds:
                        return f"segment-spans-records: a data segment of direction {key} runs across the start of a record at stream offset {poff}"
                    m = sum(1 for b in outs[:-1] if poff <= b < poff + len(ent[2]))
                    if m > k:
                        return f"too-many-segments: a record carried by {k} captured segments is exported in {m} segments ({key}, offset {poff})"
                    poff += len(ent[2])
                coff += len(raw)
    return None


def one(job):
    import random
    import logging
    logging.disable(logging.CRITICAL)
    seed, ntls, nquic, damage, args = job[:5]
    rng = random.Random(seed)
    # job[5]: forced QUIC features (a one-directional download of more than 65507 bytes: the datagrams must stay apart)
    mx = e2e.Mixed(rng, [e2e.random_combo(rng) for _ in range(ntls)], n_quic=nquic, noise=True,
                   quic_features=[dict(job[5])] * nquic if len(job) > 5 else None)
    items, kl = list(mx.items), list(mx.keylog)
    what = damage
    if damage == "no-keys":
        kl = []
    elif damage == "half-keys":
        kl = [l for l in kl if rng.random() < 0.5]
    elif damage == "wrong-keys":
        kl = [" ".join(l.split(" ")[:2] + [rng.randbytes(len(l.split(" ")[2]) // 2).hex()]) for l in kl]
    elif damage == "drop-packets":
        items = [it for it in items if rng.random() < 0.85]
    elif damage == "truncate":
        items = items[:rng.randrange(1, len(items))]
    elif damage == "noise":
        t_end = items[-1][1]
        items = items + c03.extra_traffic(rng, t_end) + c03.udp_noise(rng, t_end, 20)
    cap = wire.pcapng(items)
    kls = "\n".join(kl) + "\n"
    r = tool.run(cap, kls, list(args))
    blob = {"capture_hex": cap.hex(), "keylog": kls, "argv": list(args)}
    if r.crashed:
        return f"{r.signature()}", mx.describe(), blob, 0
    if r.out is None:
        return "no-output-file", mx.describe(), blob, 0
    try:
        n, nc, nu = check_output(r.out)
    except wire.FrameError as e:
        return f"bad-frame:{e}", mx.describe(), blob, 0
    if damage in ("none", "noise") and "-a" not in args:
        prob = carrier_clause(mx, r.out)
        if prob:
            return prob, mx.describe(), blob, n
    return None, mx.describe(), blob, n


def split_case(job):
    """a record of n plaintext bytes carried by k input packets"""
    import random
    import logging
    logging.disable(logging.CRITICAL)
    seed, n, k = job
    rng = random.Random(seed)
    code, version, etm = rng.choice([(0x009C, "tls12", False), (0x1301, "tls13", False), (0x002F, "tls10", False), (0x0005, "tls11", False)])
    marker = rng.randbytes(n)
    app = [(0, b"Q" * 3), (1, marker), (0, b"E")]

    def cut(d, data, rng_):
        # the flight holding the marker record is cut into exactly k segments (k ≤ len)
        if d == 1 and marker_flight[0] == data and len(data) >= k:
            pts = sorted(rng_.sample(range(1, len(data)), k - 1))
            return [data[a:b] for a, b in zip([0] + pts, pts + [len(data)])]
        return [data]
    sc = gen_tls.Script(version, code, app, rng, coalesce=0.0, tickets=0)
    flights, truth = sc.render()
    marker_flight = [fl[1] for fl in flights if fl[0] == 1][-1:]
    conn = gen_tls.TcpConn()
    for d, data in flights:
        conn.send(d, data, rng, cut)
    cap = wire.pcapng(conn.items())
    kl = "\n".join(sc.keylog_lines()) + "\n"
    r = tool.run(cap, kl)
    blob = {"capture_hex": cap.hex(), "keylog": kl, "argv": [], "n": n, "k": k}
    if r.crashed:
        return r.signature(), blob
    try:
        _, convs, _ = e2e.decode(r.out)
    except wire.FrameError as e:
        return f"bad-frame:{e}", blob
    cv = e2e.find_conv(convs, conn)
    segs = [p for m, _, p in (cv["segments"] if cv else []) if m == "s2c"]
    carriers = len([1 for _, _, d, _, p in conn.pkts if d == 1 and marker_flight and p in marker_flight[0]][-k:]) if n else k
    if b"".join(segs) != marker:
        return f"split-mismatch: concatenation of the {len(segs)} exported segments differs from the record (n={n}, k={k})", blob
    if len(segs) > k or (n > 0 and len(segs) == 0) or (n == 0 and len(segs) != 0):
        return f"split-count: record of {n} bytes carried by {k} packets exported as {len(segs)} segments", blob
    return None, blob


def explore(ctx, scale=1):
    rng = ctx.rng
    damages = ["none", "no-keys", "half-keys", "wrong-keys", "drop-packets", "truncate", "noise"]
    n = ctx.n(42, 2000) * scale
    jobs = []
    for i in range(n):
        nt, nq = [(1, 0), (2, 1), (1, 1), (0, 1), (0, 0)][i % 5]
        jobs.append((rng.getrandbits(48), nt, nq, damages[i % len(damages)], OPTS[(i // len(damages)) % len(OPTS)]))
    for k in range(2 * scale):
        jobs.append((rng.getrandbits(48), k % 2, 1, "none", OPTS[k % len(OPTS)], (("download", True), ("reorder", False))))
    results = tool.pmap(one, jobs, procs=16 if ctx.thorough() else 8)
    o = ctx.oracle.setdefault("strict-reader", {"runs": 0, "violations": 0, "empty_outputs": 0})
    for job, (prob, desc, blob, npk) in zip(jobs, results):
        o["runs"] += 1
        ctx.count(job[0], nontrivial=(npk > 0 and not prob))
        if npk == 0:
            o["empty_outputs"] += 1
        ctx.hist("damage", job[3])
        ctx.hist("options", " ".join(job[4]) or "(none)")
        if prob:
            o["violations"] += 1
            kind = prob.split(":")[0] if not prob.startswith("crash") else prob.split(" ")[0]
            ctx.fail(f"C06:{{{job[3]}}}:{kind}", "the output file is not a well-formed pcapng of well-formed, reassemblable packets",
                     {"seed": job[0], "scenario": desc, "damage": job[3], **blob}, expected="strict reader accepts every block, frame, "
                     "checksum and TCP conversation", actual=prob, how="bin/check C06 --replay <this file>")
        else:
            ctx.sample({"scenario": desc, "damage": job[3], "options": job[4], "output_packets": npk}, cap=3)
    # n × k matrix (exhaustive sub-space)
    nk = [(n_, k_) for n_ in range(0, ctx.n(33, 65)) for k_ in range(1, 9)]
    sj = [(rng.getrandbits(48), n_, k_) for n_, k_ in nk]
    sres = tool.pmap(split_case, sj, procs=16 if ctx.thorough() else 8)
    s = ctx.oracle.setdefault("split-n-k", {"runs": 0, "violations": 0})
    for job, (prob, blob) in zip(sj, sres):
        s["runs"] += 1
        ctx.count(("nk", job[1], job[2]), nontrivial=not prob)
        if prob:
            s["violations"] += 1
            kind = prob.split(":")[0] if not prob.startswith("crash") else prob.split(" ")[0]
            ctx.fail(f"C06:{{split}}:{kind}", "a record carried by k packets is not re-split into ≤ k segments concatenating to the record",
                     {"seed": job[0], **blob}, actual=prob, how="bin/check C06 --replay <this file>")
    ctx.extra["exhaustive_subspace"] = f"record length n in 0..{ctx.n(32, 64)} × carrier count k in 1..8"


def run(ctx):
    ctx.rule = ("mixed captures (0–2 TLS connections of random version/suite, 0–1 QUIC, unrelated TCP/UDP/non-IP frames) under "
                "damage ∈ {none, no keys, half of the key lines, wrong secrets, 15 % packets dropped, truncated capture, "
                "HTTP-on-443 + arbitrary UDP} × options ∈ {∅, -a, -m, -m 443:8443, -a -m 443:9000, , -p 8443, -c, -a -c -m}; the "
                "strict reader must accept the output; for undamaged TLS connections without -a also the per-record clause against the "
                "sender's ground truth (exported segments never span records; a record carried by k captured segments comes out "
                "in at most k); one-directional QUIC downloads of more than 65507 bytes. Plus every (n, k): a record of n bytes carried by k packets. "
                "non-trivial iff the output has ≥ 1 packet (legitimately empty outputs are counted separately).")
    ctx.assumptions = ["TCP sequence space of one exported conversation stays below 2^32 (no > 4 GiB flows generated)"]
    import c06_model
    import ob_outbytes
    import file_corr
    import export_thms
    ctx.gen_tables.update(ob_outbytes.regen())   # snaplen literal of run() → lean/TLX/Gen/WriterConsts.lean, BEFORE the proofs
    import translate                 # decision-logic functions re-translated from the source and proved equal to the model
    _tm, _tt = translate.wire(ctx, "C06")
    ctx.prove(["TLX.Props.C06"] + ob_outbytes.MODULES + export_thms.MODULES + _tm)
    ctx.require_theorems(_tt)
    ctx.require_theorems(c06_model.THEOREMS + ob_outbytes.THEOREMS + export_thms.THEOREMS)
    c06_model.run_model(ctx)
    ob_outbytes.correspond(ctx)       # ties TLX.OutBytes (scapy serialisation, dpkt pcapng writer) to the real libraries
    file_corr.correspond(ctx)         # whole program, capture file → output file, byte for byte
    explore(ctx)
    return ctx.finish(search=lambda c: explore(c, scale=2))


def replay(ctx, obj):
    c = obj["case"]
    r = tool.run(bytes.fromhex(c["capture_hex"]), c["keylog"], c.get("argv", []))
    print("REPLAY tool:", r.signature())
    bad = r.crashed
    if not bad:
        try:
            print("REPLAY output:", check_output(r.out))
        except wire.FrameError as e:
            print("REPLAY-FAIL", e)
            bad = True
    print("REPLAY", "fails" if bad else "passes")
    return 1 if bad else 0
