"""Independent capture-container writers (oracle side of C12; never the model, never dpkt's writers).

pcapng per draft-tuexen-opsawg-pcapng (SHB, IDB with if_tsresol / if_tsoffset, EPB, obsolete PB, SPB, NRB, ISB,
DSB, custom blocks, options, 32-bit padding) and libpcap (µs / ns magic), both byte orders.

An item is ('pkt', instant, frame) with `instant` a fractions.Fraction of seconds since the epoch, or
('dsb', secrets).  A Variant says how the same items are laid down in a file.
"""
import struct
from fractions import Fraction

BT_SHB, BT_IDB, BT_PB, BT_SPB, BT_NRB, BT_ISB, BT_EPB, BT_DSB = 0x0A0D0D0A, 1, 2, 3, 4, 5, 6, 0xA
BT_CUSTOM_COPY, BT_CUSTOM_NOCOPY = 0x00000BAD, 0x40000BAD
TLS_KEYLOG = 0x544c534b


def pad4(b):
    return b + b"\0" * ((-len(b)) % 4)


def opt(e, code, val):
    return struct.pack(e + "HH", code, len(val)) + pad4(val)


def endofopt(e):
    return struct.pack(e + "HH", 0, 0)


def block(e, ty, body):
    body = pad4(body)
    n = 12 + len(body)
    return struct.pack(e + "II", ty, n) + body + struct.pack(e + "I", n)


def shb(e, opts=b""):
    return block(e, BT_SHB, struct.pack(e + "IHHq", 0x1A2B3C4D, 1, 0, -1) + opts)


def idb(e, opts=b"", linktype=1, snaplen=65535):
    return block(e, BT_IDB, struct.pack(e + "HHI", linktype, 0, snaplen) + opts)


def epb(e, ticks, frame, opts=b"", iface=0, orig_len=None):
    return block(e, BT_EPB, struct.pack(e + "IIIII", iface, ticks >> 32, ticks & 0xffffffff, len(frame),
                                        len(frame) if orig_len is None else orig_len) + pad4(frame) + opts)


def pb(e, ticks, frame, opts=b"", iface=0, drops=0):
    return block(e, BT_PB, struct.pack(e + "HHIIII", iface, drops, ticks >> 32, ticks & 0xffffffff, len(frame),
                                       len(frame)) + pad4(frame) + opts)


def spb(e, frame):
    return block(e, BT_SPB, struct.pack(e + "I", len(frame)) + frame)


def dsb(e, secrets, opts=b"", secrets_type=TLS_KEYLOG):
    return block(e, BT_DSB, struct.pack(e + "II", secrets_type, len(secrets)) + pad4(secrets) + opts)


def nrb(e, records=((1, b"\x0a\x00\x00\x01host.example\x00"),), opts=b""):
    body = b""
    for rt, val in records:
        body += struct.pack(e + "HH", rt, len(val)) + pad4(val)
    body += struct.pack(e + "HH", 0, 0)                     # nrb_record_end
    return block(e, BT_NRB, body + opts)


def isb(e, iface=0, ticks=0, opts=b""):
    return block(e, BT_ISB, struct.pack(e + "III", iface, ticks >> 32, ticks & 0xffffffff) + opts)


def custom(e, pen=32473, data=b"custom data", copyable=True, opts=b""):
    return block(e, BT_CUSTOM_COPY if copyable else BT_CUSTOM_NOCOPY, struct.pack(e + "I", pen) + pad4(data) + opts)


class Variant:
    """fmt: 'pcapng' | 'pcap';  be: big-endian;  tsresol: None (option absent, µs) | ('dec', k) | ('bin', k);
    tsoffset: None | int seconds;  nano: ns magic (pcap);  extras: '' | subset string of
      'p' (NRB+custom between SHB and IDB), 'h' (after the IDB), 'b' (before every item), 'e' (at the end);
    opts: options on SHB/IDB/EPB/DSB (comments, if_name, epb_flags);  pb: obsolete Packet Blocks instead of EPBs;
    idb2: a second IDB (same resolution) after the first packet."""

    def __init__(self, fmt="pcapng", be=False, tsresol=None, tsoffset=None, nano=False, extras="", opts=False,
                 pb=False, idb2=False):
        self.fmt, self.be, self.tsresol, self.tsoffset, self.nano = fmt, be, tsresol, tsoffset, nano
        self.extras, self.opts, self.pb, self.idb2 = extras, opts, pb, idb2

    @property
    def legacy(self):
        return self.fmt == "pcap"

    def divisor(self):
        if self.legacy:
            return 10 ** 9 if self.nano else 10 ** 6
        if self.tsresol is None:
            return 10 ** 6
        kind, k = self.tsresol
        return (10 if kind == "dec" else 2) ** k

    def offset(self):
        return 0 if self.legacy or self.tsoffset is None else self.tsoffset

    def ticks(self, instant):
        """Ticks of `instant` in this variant, or None if it is not representable."""
        t = (Fraction(instant) - self.offset()) * self.divisor()
        if t.denominator != 1 or t < 0:
            return None
        t = int(t)
        if self.legacy:
            return t if t // self.divisor() < 2 ** 32 else None
        return t if t < 2 ** 64 else None

    def can(self, items):
        return all(it[0] != "pkt" or self.ticks(it[1]) is not None for it in items)

    def key(self):
        return (self.fmt, "be" if self.be else "le", self.tsresol, self.tsoffset, self.nano, self.extras, self.opts,
                self.pb, self.idb2)

    def __repr__(self):
        return "V" + repr(self.key())

    def to_json(self):
        return {"fmt": self.fmt, "be": self.be, "tsresol": list(self.tsresol) if self.tsresol else None,
                "tsoffset": self.tsoffset, "nano": self.nano, "extras": self.extras, "opts": self.opts, "pb": self.pb,
                "idb2": self.idb2}

    @staticmethod
    def from_json(d):
        return Variant(d["fmt"], d["be"], tuple(d["tsresol"]) if d["tsresol"] else None, d["tsoffset"], d["nano"],
                       d["extras"], d["opts"], d["pb"], d.get("idb2", False))


def tsresol_byte(tsresol):
    kind, k = tsresol
    return k if kind == "dec" else 0x80 | k


BIG_UNRELATED = False      # set by the end-to-end oracle of C12: the third unrelated block of a file is then longer than any announced snaplen + 4 KiB


def unrelated(e, i):
    """The i-th unrelated block (cycles through NRB, ISB, custom copy/no-copy, an unknown type, SPB-free)."""
    if BIG_UNRELATED and i == 2:
        return custom(e, data=b"\xab" * 300000)      # an unrelated block may have any length (its own length field is all that counts)
    kinds = [lambda: nrb(e), lambda: isb(e, ticks=12345 + i), lambda: custom(e, data=b"x" * (i % 7)),
             lambda: custom(e, copyable=False, opts=opt(e, 1, b"note") + endofopt(e)),
             lambda: block(e, 0x80000001 + (i % 3), b"local use " + bytes([i % 256])),
             lambda: nrb(e, records=(), opts=opt(e, 2, b"ns.example") + endofopt(e))]
    return kinds[i % len(kinds)]()


def write_pcapng(v, items):
    e = ">" if v.be else "<"
    out = shb(e, (opt(e, 2, b"x86") + opt(e, 1, "café capture".encode()) + opt(e, 4, b"c12") + endofopt(e))
              if v.opts else b"")
    if "p" in v.extras:
        out += nrb(e) + custom(e)
    io = b""
    if v.opts:
        io += opt(e, 2, b"eth0") + opt(e, 1, b"first interface")
    if v.tsresol is not None:
        io += opt(e, 9, bytes([tsresol_byte(v.tsresol)]))
    if v.tsoffset is not None:
        io += opt(e, 14, struct.pack(e + "q", v.tsoffset))
    if v.opts:
        io += opt(e, 12, b"Linux")
    if io:
        io += endofopt(e)
    # the snapshot length a capture tool announces is a property of the container, not of the packets: it varies with the
    # variant (0 = no limit) and must not show in the export
    the_idb = idb(e, io, snaplen=(0 if v.be else 262144) if v.opts else (65535 if v.tsresol is None else 131072))
    out += the_idb
    if "h" in v.extras:
        out += isb(e) + nrb(e)
    n = 0
    for idx, it in enumerate(items):
        if "b" in v.extras:
            out += unrelated(e, n)
            n += 1
        if it[0] == "dsb":
            out += dsb(e, it[1], (opt(e, 1, b"keys") + endofopt(e)) if v.opts else b"")
        else:
            t = v.ticks(it[1])
            if t is None:
                raise ValueError("instant not representable in %r" % (v,))
            po = (opt(e, 2, struct.pack(e + "I", 1 + idx % 2)) + opt(e, 1, b"pkt %d" % idx) + endofopt(e)) if v.opts else b""
            out += pb(e, t, it[2], po) if v.pb else epb(e, t, it[2], po)
        if v.idb2 and idx == 0:
            out += the_idb
    if "e" in v.extras:
        out += isb(e, ticks=99) + custom(e, copyable=False)
    return out


def write_pcap(v, items):
    e = ">" if v.be else "<"
    out = struct.pack(e + "IHHiIII", 0xa1b23c4d if v.nano else 0xa1b2c3d4, 2, 4, 0, 0, 262144 if v.nano else 65535, 1)
    d = v.divisor()
    for it in items:
        if it[0] != "pkt":
            continue                                         # libpcap has no place for secrets
        t = v.ticks(it[1])
        if t is None:
            raise ValueError("instant not representable in %r" % (v,))
        out += struct.pack(e + "IIII", t // d, t % d, len(it[2]), len(it[2])) + it[2]
    return out


def write(v, items):
    return write_pcap(v, items) if v.legacy else write_pcapng(v, items)
