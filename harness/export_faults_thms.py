"""Theorems of lean/TLX/Props/ExportFaults.lean (+ ExportFaultsEx.lean): C03 for the whole program — bystanders (TLS and QUIC)
unaffected by an arbitrary victim flow, no payload / key-log text / session can abort the run, the victim of a `cut-after`
fault exports a prefix. To be required by c03."""
MODULES = ["TLX.Lemmas.CarrierMap", "TLX.Props.ExportFaults", "TLX.Props.ExportFaultsEx", "TLX.Props.ExportFaults2"]
_NS = "TLX.Props.ExportFaults."
THEOREMS = [_NS + n for n in [
    "export_bystander_unaffected_quic", "export_bystander_unaffected_quic_file",
    "sessions_never_raise", "payloads_never_abort",
    "tls_prefix_of_view", "cutVictim_bystanders", "export_victim_cut_tls", "export_victim_cut_quic", "dirBytes_prefix",
    "Ex.hBV", "Ex.hVB", "Ex.bystander_quic_instance", "Ex.bystander_quic_view", "Ex.victim_cut_view",
    "Ex.never_abort_instance"]]
_N2 = "TLX.Props.ExportFaults2."
# the victim's own clause for the fault kinds ExportFaults left to the oracle (-> c03 as well)
THEOREMS += [_N2 + n for n in [
    "sub_delivery_releases_prefix", "delete_releases_prefix", "conv_direction_run", "convStreams_spec",
    "erased_prefix_exports_prefix", "export_victim_delete_tls", "tlsConvs_single_flow",
    "headless_run", "no_serverHello_run", "export_victim_headless_tls",
    "quic_loss_subsequence",
    "Ex.delete_instance", "Ex.retransmission_fills_hole", "Ex.headless_instance"]]
THEOREMS += ["TLX.Lemmas.CarrierMap.Sess.run_nat"]
