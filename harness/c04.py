"""C04 — concurrent connections are demultiplexed; each is exported as if it were alone.

oracle (metamorphic + ground truth): N TLS and QUIC connections interleaved packet by packet with unrelated traffic and
a shuffled combined key log; for every connection the packets exported from the merged capture must be identical to
those exported from a capture holding only that connection (same packets, same timestamps), and equal the sender's data.
"""
import itertools

import e2e
import fw
import tool
import wire

THEOREMS = []


def conn_ids(mx):
    out = []
    for k, (kind, j) in enumerate(mx.kinds):
        if kind == "tls":
            c = mx.tls[j]["conn"]
            out.append((k, 6, c.cip, c.cport, c.sip))
        elif kind == "quic":
            c = mx.quic[j]["conn"]
            out.append((k, 17, c.cip, c.cport, c.sip))
    return out


def one(job):
    import random
    import logging
    logging.disable(logging.CRITICAL)
    seed, ntls, nquic, pattern = job
    rng = random.Random(seed)
    combos, hook, mpat = None, None, pattern
    if pattern == "resumed":
        # session resumption (RFC 5246 7.3 abbreviated handshake / RFC 5077 tickets): several connections up to TLS 1.2 share ONE
        # master secret with fresh randoms each; the key log holds one CLIENT_RANDOM line per connection, all with that secret
        want = "tls12" if rng.random() < 0.7 else rng.choice(["ssl3", "tls10", "tls11"])
        combo = e2e.random_combo(rng)
        while combo[1] != want:
            combo = e2e.random_combo(rng)
        master = rng.randbytes(48)
        combos, hook, mpat = [combo] * ntls, (lambda r, v: {"master": master}), "same-hosts"
    elif pattern == "crowd":
        mpat = "random"                  # many connections alive at once (more than any small fixed table of sessions)
    if combos is None:
        combos = [e2e.random_combo(rng) for _ in range(ntls)]
    mx = e2e.Mixed(rng, combos, n_quic=nquic, pattern=mpat, shape_hook=hook)
    kl = mx.keylog_text()
    r = tool.run(mx.capture(), kl)
    fails = []
    blob = {"capture_hex": mx.capture().hex(), "keylog": kl, "argv": []}
    if r.crashed:
        return [("merged-run", r.signature())], mx.describe(), blob, 0
    try:
        merged = wire.read_output(r.out)
    except wire.FrameError as e:
        return [("merged-run", f"bad-frame:{e}")], mx.describe(), blob, 0
    switches = sum(1 for a, b in zip(mx.owners, mx.owners[1:]) if a != b)
    seen = 0
    for k, proto, cip, cport, sip in conn_ids(mx):
        # alone = only this connection's packets AND only its own key-log lines (in the order its endpoint logged them)
        kind, j = mx.kinds[k]
        own = (mx.tls[j] if kind == "tls" else mx.quic[j])["keylog"]
        solo = tool.run(mx.capture(only=k), "\n".join(own) + "\n")
        if solo.crashed:
            fails.append((f"solo-run:{k}", solo.signature()))
            continue
        a = e2e.flow_packets(merged, cip, cport, sip, proto)
        b = e2e.flow_packets(wire.read_output(solo.out), cip, cport, sip, proto)
        seen += len(a)
        if a != b:
            i = next((i for i, (x, y) in enumerate(zip(a, b)) if x != y), min(len(a), len(b)))
            fails.append((f"conn:{k}:{mx.kinds[k][0]}", f"differs-from-solo: merged {len(a)} packets, alone {len(b)}, first difference at #{i}"))
    # nothing may be exported that belongs to no connection
    if len(merged) != seen and not fails:
        same_client = len({(c[2], c[3]) for c in conn_ids(mx)}) < len(conn_ids(mx))
        if not same_client:
            fails.append(("extra", f"extra-packets: {len(merged)} exported, {seen} attributable to the connections"))
    # ground truth
    if not fails:
        _, convs, _ = e2e.decode(r.out)
        for c in mx.tls:
            cv = [v for v in convs.values() if v["client"] == (c["conn"].cip, c["conn"].cport) and v["server"][0] == c["conn"].sip]
            got = (cv[0]["c2s"], cv[0]["s2c"]) if cv else (b"", b"")
            if got != (c["truth"][0], c["truth"][1]):
                fails.append(("truth", f"stream-mismatch for {c['script'].v}"))
        for q in mx.quic:
            conn = q["conn"]
            rows = e2e.flow_packets(merged, conn.cip, conn.cport, conn.sip, 17)
            got = [(row[0], (row[3], row[4]) != (conn.cip, conn.cport), row[10]) for row in rows if row[10]]
            if got != [(t, bool(d), b) for t, d, b in q["expect"]]:
                fails.append(("truth", f"quic-datagram-mismatch suite {q['features']['suite']:04X}: {len(got)} exported, {len(q['expect'])} sent"))
    blob["conns"] = [(k, proto, cip.hex(), cport, sip.hex()) for k, proto, cip, cport, sip in conn_ids(mx)]
    blob["owners"] = mx.owners
    return fails, mx.describe(), blob, switches


def explore(ctx, scale=1):
    rng = ctx.rng
    n = ctx.n(30, 600) * scale
    jobs = []
    for i in range(n):
        pattern = ["random", "same-hosts", "same-cport", "same-server", "mirrored"][i % 5]
        ntls = rng.randrange(1, 5)
        nquic = rng.randrange(0, 3) if pattern == "random" or rng.random() < 0.6 else 0
        if pattern == "mirrored":
            ntls, nquic = (rng.randrange(2, 4), rng.randrange(0, 2)) if i % 10 == 4 else (rng.randrange(0, 2), rng.randrange(2, 4))
        if i % 7 == 6:
            nquic = max(nquic, 2)          # ≥ 2 QUIC connections: their key-log lines are interleaved by the shuffle
        if pattern == "same-server" and i % 8 == 3:
            ntls, nquic = rng.randrange(0, 2), rng.randrange(2, 4)
        if ntls + nquic < 2:
            ntls += 1
        jobs.append((rng.getrandbits(48), ntls, nquic, pattern))
    for k in range(2 * scale if not ctx.thorough() else 12):
        jobs.append((rng.getrandbits(48), 2 + k % 3, k % 2, "resumed"))
    for k in range(1 * scale if not ctx.thorough() else 4):
        jobs.append((rng.getrandbits(48), 66 + 7 * k, 0, "crowd"))
    results = tool.pmap(one, jobs, procs=16 if ctx.thorough() else 8)
    o = ctx.oracle.setdefault("merged-vs-solo", {"runs": 0, "violations": 0})
    for job, (fails, desc, blob, switches) in zip(jobs, results):
        o["runs"] += 1
        ctx.count(job, nontrivial=(switches >= 2 and not fails))
        ctx.hist("pattern", job[3])
        ctx.hist("n_tls", job[1])
        ctx.hist("n_quic", job[2])
        ctx.hist("interleaving_switches", min(switches // 10 * 10, 100))
        if fails:
            o["violations"] += 1
            kind = fails[0][1].split(":")[0] if not fails[0][1].startswith("crash") else fails[0][1].split(" ")[0]
            ctx.fail(f"C04:{{{job[3]}}}:{kind}", "a connection is exported differently when other connections are interleaved with it",
                     {"seed": job[0], "scenario": desc, "pattern": job[3], **blob},
                     expected="per-connection output identical to the run on that connection alone", actual=fails[:4],
                     how="bin/check C04 --replay <this file>")
        else:
            ctx.sample({"scenario": desc, "pattern": job[3], "switches": switches, "result": "each flow as if alone"}, cap=3)


def run(ctx):
    ctx.rule = ("captures with 2–6 connections (TLS of random version/suite and QUIC v1) + unrelated TCP/UDP/non-IP frames, "
                "merged by a random order-preserving interleaving, combined key log shuffled; endpoint patterns: random, "
                "same two hosts with different client ports, same client ip:port towards different servers, two connections mirroring each other between the same two hosts (A:p→B:443 and B:p→A:443), different client hosts with the same client port towards one server (these patterns apply to TLS and QUIC connections alike); IPv4/IPv6. "
                "For every connection the merged export is compared with the export of that connection alone and with the "
                "sender's ground truth. non-trivial iff the merge switches between connections at least twice.")
    ctx.assumptions = ["QUIC connection IDs are globally unique random values (RFC 9000 §5.1); connections have distinct "
                       "(client ip, client port, server ip) triples except in the same-cport pattern where server ips differ"]
    import m1_mainloop
    ctx.gen_tables.update(m1_mainloop.regen())      # reset statements of run() → lean/TLX/Gen/MainLoopConsts.lean
    import translate                 # decision-logic functions re-translated from the source and proved equal to the model
    _tm, _tt = translate.wire(ctx, "C04")
    import export_demux_thms, file_corr      # C04 for the whole program (Props/ExportDemux), tied file to file
    ctx.prove(["TLX.Props.C04"] + _tm + export_demux_thms.LEMMA_MODULES + export_demux_thms.MODULES)
    ctx.require_theorems(_tt)
    ctx.require_theorems(export_demux_thms.THEOREMS + export_demux_thms.THEOREMS_LEMMAS)
    file_corr.correspond(ctx, ctx.n(12, 200))
    ctx.require_theorems([t for t in m1_mainloop.THEOREMS if t.startswith("TLX.Props.C04.")])
    m1_mainloop.correspond(ctx)       # ties TLX.MainLoop to the real handle_packet / handle_quic_packet / run()
    explore(ctx)
    return ctx.finish(search=lambda c: explore(c, scale=2))


def replay(ctx, obj):
    c = obj["case"]
    kl = c["keylog"]
    r = tool.run(bytes.fromhex(c["capture_hex"]), kl)
    print("REPLAY merged run:", r.signature())
    bad = r.crashed
    if not bad:
        merged = wire.read_output(r.out)
        items = wire.read_pcapng_strict(bytes.fromhex(c["capture_hex"]))
        for k, proto, cip, cport, sip in c["conns"]:
            solo_items = [("pkt", us, fr) for (us, fr), o in zip(items, c["owners"]) if o == k]
            s = tool.run(wire.pcapng(solo_items), kl)
            a = e2e.flow_packets(merged, bytes.fromhex(cip), cport, bytes.fromhex(sip), proto)
            b = [] if s.crashed else e2e.flow_packets(wire.read_output(s.out), bytes.fromhex(cip), cport, bytes.fromhex(sip), proto)
            if s.crashed or a != b:
                print("REPLAY-FAIL connection", k, "merged", len(a), "alone", len(b), s.signature())
                bad = True
    print("REPLAY", "fails" if bad else "passes")
    return 1 if bad else 0
