"""Theorems of lean/TLX/Props/C01Rfc.lean (+ C01RfcEx.lean): C01 from file to file with hypotheses in RFC terms only — the
tool-side facts of `C01File2.tls12/13_capture_exact_text` (what the suite table resolves, what the key-log lookup returns,
what the key schedule computes, which decrypt routine is chosen, key-material sizes) are derived from C14, C15, C09."""
MODULES = ["TLX.Lemmas.C01RfcTable", "TLX.Lemmas.C01Rfc", "TLX.Props.C01Rfc", "TLX.Props.C01RfcEx"]
_NS = "TLX.Props.C01Rfc."
THEOREMS = [_NS + n for n in [
    "tls13_capture_exact_rfc",
    "tls12_capture_exact_rfc",
    # the remaining hypotheses about the suite always have a solution for an accepted code point
    "suite_exists",
    "suite13_class",
    "suite12_class",
    # non-vacuity: concrete capture file + key-log file per family
    "Ex.tls12_rfc_instance",
    "Ex.tls13_rfc_instance",
    # why `OnlySecret` is a hypothesis (replayed on the real tool: harness/c01_rfc_replay.py)
    "Ex.first_line_wins_12",
    "Ex.last_line_wins_13",
]] + ["TLX.Lemmas.C01Rfc." + n for n in [
    "table_rfc_ok",        # kernel evaluation over the regenerated table
    "resolve_rfc",         # C14 composed with `Pipeline.suiteArgs`
    "secretsOf13_lines", "lastOf_lines", "legacy_lines",   # C09: file text -> what the key schedule gets
    "records_ivfree",      # RC4 / explicit-IV CBC do not read the key-block IV
]]
