"""Self-test of the input-bytes work package: prove, audit, run the correspondence, print counts and disagreements.
run: cd /root/wt/ib && PYTHONPATH=/repo:harness /venv/bin/python -W ignore harness/ib_selftest.py"""
import json
import os
import sys
import time

import extract
import fw
import ib_ingest as ib


def main():
    t0 = time.time()
    ctx = fw.Ctx("C12", os.environ.get("VERIF_TIER", "quick"), int(os.environ.get("VERIF_SEED", "0") or 0))
    ctx.gen_tables = extract.all_tables()
    ok = ctx.prove(ib.MODULES)
    ctx.require_theorems(ib.THEOREMS)
    t1 = time.time()
    ib.correspond(ctx)
    print(f"repo under test: {fw.REPO}")
    print(f"proof stage: {'ok' if ok and not ctx.proof_problems else 'BROKEN'}  theorems audited: {len(ctx.theorems)}  "
          f"required: {len(ib.THEOREMS)}  ({t1 - t0:.1f} s)")
    for p in ctx.proof_problems[:10]:
        print("  PROOF-PROBLEM", json.dumps(p)[:600])
    for name, pt in ctx.corr.items():
        print(f"  {pt['cases']:7d} cases  {pt['disagreements']:5d} disagreements  {name}")
    print(f"evaluations: {ctx.evaluations}  distinct non-trivial: {len(ctx.distinct)}  c_base: {ctx.extra.get('c_base')}  "
          f"({time.time() - t1:.1f} s)")
    for k in ("frame-structured", "frame-valid", "frame-malformed", "capture-file"):
        print(f"  {k}: {ctx.distribution.get(k)}")
    for d in ctx.disagreements[:6]:
        print("  DISAGREE", json.dumps(d, default=str)[:1800])
    bad = bool(ctx.proof_problems or ctx.disagreements)
    print("RESULT", "FLAGGED" if bad else "agree")
    return 1 if bad else 0


if __name__ == "__main__":
    sys.exit(main())
