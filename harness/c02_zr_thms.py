"""Theorems of lean/TLX/Props/C02Zr.lean, C02Zr2.lean (+ instance in C02Zr2Ex.lean): C02 with 0-RTT, the stronger form —
0-RTT packets that reach the tool while it holds Early keys of another suite are simply missing (skipped without side effect
for ANY header-protection mask, under the hypothesis `Rejected` / `RejectedT` on the AEAD), everything else is exact."""
MODULES = ["TLX.Props.C02Zr", "TLX.Props.C02Zr2", "TLX.Props.C02Zr2Ex"]
_P = "TLX.Props.C02Zr."
THEOREMS = [_P + n for n in [
    "quic_connection_exact_0rtt_any",
    "xorBytes_invol", "nibble", "first_bits", "remask_facts", "extract_any_mask", "zr_step_rejected", "zr_rejected_turn",
    "rejected_of_T", "bad_loop", "y_dg_bad", "y_feed_step", "y_feed_rest", "keys_of_bad", "keys_of_ys",
    "ExRej.remask0", "ExRej.rejected0", "ExRej.rejected_turn_instance",
    "ExAny.rejectedZ", "ExAny.badZ", "ExAny.okS", "ExAny.okC", "ExAny.zero_rtt_any_instance",
]]
