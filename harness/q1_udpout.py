"""Correspondence of the Lean model `TLX.Quic.UdpOut.build` with the real
`tlexport.quic.quic_output_builder.QUICOutputbuilder.build(metadata)`.

The real builder is driven in-process with duck-typed frame objects that carry ONLY the attribute the code is
supposed to read for their frame type (`stream_data` for 0x08..0x0f, `crypto` for 0x06, `payload` for 0xfe, nothing
for the others), so that reading a wrong attribute raises. The scapy packets it returns are serialised and parsed
back strictly (`wire.parse_frame`: lengths, checksums) into `<srv>:<ts>:<hex>` and compared with `tlxdriver udpout`.
"""
import types

import fw
import wire

MODULES = ["TLX.Props.C02Out"]
P = "TLX.Props.C02Out."
THEOREMS = [P + n for n in (
    "build_eq_runs", "runs_spec", "build_groups", "build_groups_needs_distinct",
    "build_eq_chunks", "meta_only_adds_quic", "meta_only_adds_quic_of_distinct_keys", "meta_only_adds_quic_sublist",
    "meta_only_adds_quic_dgram", "meta_only_adds_needs_distinct_false", "meta_regroup",
    "build_take_prefix_quic", "build_take_dropLast_prefix", "build_take_prefix_needs_distinct",
    "out_bytes_from_frames", "out_key_from_frames", "out_key_occurs")]

POINT = "udpout.build"
STREAM = list(range(0x08, 0x10))
META = [0x06, 0xfe]
OTHER = [0x00, 0x01, 0x02, 0x03, 0x04, 0x05, 0x07, 0x10, 0x11, 0x12, 0x18, 0x19, 0x1a, 0x1b, 0x1c, 0x1d, 0x1e, 0x30, 0x31, 0xff]
CM, SM = "02:00:00:00:00:01", "02:00:00:00:00:02"
CPORT, SPORT = 40000, 443


def mk_frame(ft, ts, srv, data):
    """duck-typed tlexport.quic.quic_frame.Frame: only the attribute that belongs to the type"""
    f = types.SimpleNamespace(frame_type=ft, src_packet=types.SimpleNamespace(ts=ts, isserver=bool(srv)))
    if ft in STREAM:
        f.stream_data = data
    elif ft == 0x06:
        f.crypto = data
    elif ft == 0xfe:
        f.payload = data
    return f


def real_build(frames, md, v6):
    """frames: [(ftype, ts, srv, data)] → canonical reply string | 'err:<Exc>'"""
    from tlexport.quic.quic_output_builder import QUICOutputbuilder
    cip, sip = ("2001:db8::1", "2001:db8::2") if v6 else ("10.0.0.1", "10.0.0.2")
    try:
        with fw.quiet():
            ob = QUICOutputbuilder([mk_frame(*f) for f in frames], sip, cip, SPORT, CPORT, SM, CM, {}, v6, True)
            out = ob.build(md)
            toks = []
            for pkt, ts in out:
                p = wire.parse_frame(bytes(pkt))   # strict: all lengths and checksums of what scapy produced
                if p["proto"] != 17 or p["v6"] != v6:
                    return f"err:not-udp-or-wrong-ip-version"
                srv = p["src"] == wire.ipb(sip)
                ends = (p["src"], p["dst"], p["sport"], p["dport"])
                want = (wire.ipb(sip), wire.ipb(cip), SPORT, CPORT) if srv else (wire.ipb(cip), wire.ipb(sip), CPORT, SPORT)
                tok = f"{1 if srv else 0}:{ts}:{p['payload'].hex() or '-'}"
                if ends != want:
                    tok += "?endpoints"
                toks.append(tok)
    except Exception as e:  # noqa
        return f"err:{type(e).__name__}"
    return "empty" if not toks else " ".join(toks)


def enc(frames, md):
    return f"udpout {1 if md else 0} " + " ".join(f"{ft}:{ts}:{1 if srv else 0}:{d.hex() or '-'}" for ft, ts, srv, d in frames)


def gen_data(rng):
    r = rng.random()
    if r < 0.15:
        return b""
    if r < 0.8:
        return rng.randbytes(rng.randrange(1, 6))
    return rng.randbytes(rng.randrange(6, 60))


def gen_ftype(rng):
    r = rng.random()
    if r < 0.45:
        return rng.choice(STREAM)
    if r < 0.7:
        return rng.choice(META)
    return rng.choice(OTHER)


def gen_capture(rng, feats):
    """datagram-structured capture: [(ts, srv, [(ftype, data)…])…] with deliberate key collisions"""
    nd = rng.choice([0, 1, 1, 2, 3, 4, 5, 6, 8])
    ts = rng.choice([0, 0, 1, 5, 1_700_000_000, rng.randrange(0, 2 ** 40)])   # ts = 0 is a value, not `None`
    ds = []
    for _ in range(nd):
        srv = rng.random() < 0.5
        r = rng.random()
        if ds and r < 0.12:                       # same time and direction as the previous datagram
            ts, srv = ds[-1][0], ds[-1][1]
            feats.add("equal-key-neighbour")
        elif ds and r < 0.22:                     # same time, opposite direction
            ts, srv = ds[-1][0], not ds[-1][1]
            feats.add("equal-ts-opposite-dir")
        elif len(ds) >= 2 and r < 0.32:           # key of the datagram before the previous one
            ts, srv = ds[-2][0], ds[-2][1]
            feats.add("key-repeats-after-gap")
        elif r < 0.36 and ts > 0:
            ts -= 1                               # capture times are not required to increase
        else:
            ts += rng.choice([1, 1, 2, 1000])
        r = rng.random()
        if r < 0.15:
            items = [(rng.choice(OTHER), gen_data(rng)) for _ in range(rng.randrange(0, 3))]   # nothing exported
            feats.add("dgram-without-exported")
        elif r < 0.25:
            items = [(rng.choice(META), gen_data(rng)) for _ in range(rng.randrange(1, 3))]    # metadata only
            feats.add("dgram-metadata-only")
        else:
            items = [(gen_ftype(rng), gen_data(rng)) for _ in range(rng.randrange(0, 6))]
        ds.append((ts, srv, items))
    return ds


def flatten(ds):
    return [(ft, ts, srv, d) for ts, srv, items in ds for ft, d in items]


def gen_malformed(rng):
    """flat frame list, any type byte, few distinct keys"""
    n = rng.choice([0, 0, 1, 2, 3, 5, 8, 13, 30])
    keys = [(rng.randrange(0, 3), rng.random() < 0.5) for _ in range(rng.randrange(1, 4))]
    out = []
    for _ in range(n):
        ts, srv = rng.choice(keys)
        ft = rng.randrange(0, 256) if rng.random() < 0.6 else rng.choice(STREAM + META)
        out.append((ft, ts, srv, gen_data(rng)))
    return out


def fixed_cases():
    """every frame type byte on its own and next to a STREAM frame, with both metadata values"""
    cs = []
    for ft in range(256):
        cs.append([(ft, 3, False, bytes([ft]))])
        cs.append([(0x08, 3, False, b"\x01"), (ft, 3, False, bytes([ft])), (ft, 4, False, b"\x02"), (0x0f, 4, False, b"\x03")])
    cs.append([])
    return cs


def correspond(ctx, n_struct=None, n_mal=None):
    rng = ctx.rng
    p = ctx.point(POINT)
    n_struct = n_struct or ctx.n(1100, 20000)
    n_mal = n_mal or ctx.n(300, 5000)
    cases = []                                    # (kind, frames, md, v6, feats)
    for i in range(n_struct):
        feats = set()
        fr = flatten(gen_capture(rng, feats))
        v6 = i % 3 == 0
        for md in (False, True):
            cases.append(("structured", fr, md, v6, feats))
    for i in range(n_mal):
        fr = gen_malformed(rng)
        for md in (False, True):
            cases.append(("malformed", fr, md, i % 2 == 0, set()))
    for j, fr in enumerate(fixed_cases()):
        for md in (False, True):
            cases.append(("fixed", fr, md, j % 2 == 0, set()))
    lines, impl = [], []
    for kind, fr, md, v6, feats in cases:
        r = real_build(fr, md, v6)
        impl.append(r)
        lines.append(enc(fr, md))
        ctx.hist("udpout.kind", kind)
        ctx.hist("udpout.metadata", int(md))
        ctx.hist("udpout.ipv6", int(v6))
        ctx.hist("udpout.outcome", "err" if r.startswith("err") else "empty" if r == "empty" else
                 "1 dgram" if " " not in r else "2+ dgrams")
        for ft in feats:
            ctx.hist("udpout.feature", ft)
        for ft, _, _, d in fr:
            ctx.hist("udpout.frametype", "stream" if ft in STREAM else hex(ft) if ft in META else "other")
            if not d and (ft in STREAM or ft in META):
                ctx.hist("udpout.feature", "empty-data-frame")
    replies = ctx.driver("udpout", lines)
    for (kind, fr, md, v6, feats), a, b, line in zip(cases, impl, replies, lines):
        p["cases"] += 1
        ctx.count(("udpout", line, v6), nontrivial=(a != "empty"))
        if a != b:
            ctx.disagree(POINT, {"kind": kind, "op": line, "ipv6": v6}, a, b)
    ctx.sample({"op": lines[5], "impl": impl[5], "model": replies[5]})
    return p
