"""Correspondence of the Lean session state machine (lean/TLX/Session.lean, driver module `session`) with the real
`tlexport.session.Session` under a SCRIPTED decryptor (see lean/TLX/Drv/Session.lean for the script).

The real `handle_tls_record` and everything below it run unmodified; only the leaves are stubs: `Decryptor` (scripted
by record body / suite bytes), `cipher_suite_parser.split_cipher_suite` (suite F0xx or not 2 bytes → None),
`key_derivator.*` (dummy key dicts) and the key log (no line for client randoms starting with F1).  After EVERY
record the observable session state and the entries appended to `application_traffic` are compared with the model.
"""
import types

MODULES = ["TLX.Props.C03", "TLX.Props.C13Session", "TLX.Props.C08Session", "TLX.Props.C07Session"]
THEOREMS_C03 = ["TLX.Props.C03.handleRecord_never_raises", "TLX.Props.C03.run_never_raises",
                "TLX.Props.C03.gate_closed_no_app", "TLX.Props.C03.keyless_exports_no_app",
                "TLX.Props.C03.keyless_exports_nothing", "TLX.Props.C03.failed_decrypt_exports_nothing"]
THEOREMS_C13 = ["TLX.Props.C13.session_meta_only_adds", "TLX.Props.C13.tls_meta_export_sublist",
                "TLX.Props.C13.hello_records_verbatim", "TLX.Props.C13.hello_records_silent"]
THEOREMS_C08 = ["TLX.Props.C08.session_prefix_monotone", "TLX.Props.C08.tls_export_prefix"]
THEOREMS_C07 = ["TLX.Props.C07.entry_origin", "TLX.Props.C07.traffic_by_record"]


class ScriptRaise(Exception):
    pass


class StubDecryptor:
    VER = {"SSL30": 0, "TLS10": 1, "TLS11": 2, "TLS12": 3, "TLS13": 4}

    def __init__(self, bulk_alg, bulk_mode, mac_alg, keys, tls_version, key_length, mac_length, tag_length,
                 block_length, extensions, compression):
        a, b = bulk_alg[1], bulk_alg[2]
        if a == 0xF2:
            raise ScriptRaise("derivation")
        etm = 7 if bytes.fromhex("0016") in extensions.keys() else 0
        self.tag = (self.VER[tls_version.name] + etm + 5 * compression + a) % 256
        self.limit = b
        self.calls = 0
        self.upd = 0

    def decrypt(self, record, isserver):
        body = bytes(record.binary)
        if len(body) == 0 or body[0] == 0xE0:
            raise ScriptRaise("decrypt")
        if body[0] == 0xE1:
            self.calls += 1
            raise ScriptRaise("decrypt-after-mutation")
        if body[0] == 0xE2:
            self.calls += 1
            return None
        if body[0] == 0x01:
            c = self.calls
            self.calls += 1
            return bytes([c % 251, 1 if isserver else 0, self.tag]) + body[1:]
        self.calls += 1
        return body[1:]

    def update_keys(self, isserver):
        if self.upd >= self.limit:
            raise ScriptRaise("update_keys")
        self.upd += 1


class Impl:
    def __init__(self):
        import tlexport.session as S
        from tlexport.tlsrecord import TlsRecord
        from cryptography.hazmat.primitives import hashes
        self.S, self.TlsRecord = S, TlsRecord
        self.pkt = types.SimpleNamespace(sport=40000, dport=443, ip_src=b"\x0a\x00\x00\x01", ip_dst=b"\x0a\x00\x00\x02",
                                         ethernet_src=b"\x02" * 6, ethernet_dst=b"\x04" * 6, ipv6_packet=False, seq=1,
                                         ack=0, tls_data=b"", timestamp=0.0)

        def split(b):
            b = bytes(b)
            if len(b) != 2 or b[0] == 0xF0:
                return None
            return {"KeyLength": 16, "MAC": hashes.SHA256, "CryptoAlgo": (("suite", b[0], b[1]), False),
                    "Mode": (None, False), "TagLength": None}

        kd = types.SimpleNamespace()
        for name in ("dev_tls_13_keys", "dev_tls_12_keys", "dev_tls_10_11_keys", "dev_ssl_30_keys",
                     "gen_master_secret_tls_12", "gen_master_secret_tls_10_11", "gen_master_secret_ssl_30"):
            setattr(kd, name, (lambda *a, **k: {}) if name.startswith("dev") else (lambda *a, **k: b"\x00" * 48))
        self.patches = [(S, "Decryptor", StubDecryptor), (S.cipher_suite_parser, "split_cipher_suite", split),
                        (S, "key_derivator", kd)]

    def __enter__(self):
        self.saved = [(o, n, getattr(o, n)) for o, n, _ in self.patches]
        for o, n, v in self.patches:
            setattr(o, n, v)
        return self

    def __exit__(self, *a):
        for o, n, v in self.saved:
            setattr(o, n, v)

    def keylog_for(self, script):
        """key-log lines for every client random a ClientHello of the script announces, except those starting F1"""
        out = []
        for _srv, raw in script:
            if len(raw) > 5 and raw[0] == 0x16 and raw[5] == 0x01:
                cr = raw[5:][6:38]
                if cr[:1] == b"\xf1":
                    continue
                for lab in ("CLIENT_RANDOM", "CLIENT_HANDSHAKE_TRAFFIC_SECRET", "SERVER_HANDSHAKE_TRAFFIC_SECRET",
                            "CLIENT_TRAFFIC_SECRET_0", "SERVER_TRAFFIC_SECRET_0"):
                    out.append(types.SimpleNamespace(label=lab, client_random=cr.hex(), value="00" * 48))
        return out

    def run(self, meta, script):
        """→ one state line per record (same format as the Lean driver)"""
        import fw
        S = self.S
        sess = S.Session(self.pkt, [443], self.keylog_for(script), {}, True, meta)
        sess.packet_buffer.clear()
        lines = []
        for i, (srv, raw) in enumerate(script):
            old = len(sess.application_traffic)
            rec = self.TlsRecord(bytearray(raw), [i], srv)
            raised = ""
            try:
                with fw.quiet():
                    sess.handle_tls_record(rec, srv)
            except Exception as e:  # noqa
                raised = "raised "
            lines.append(raised + self.show(sess, old))
        return lines

    @staticmethod
    def show(s, old):
        b01 = lambda x: "1" if x else "0"
        d = s.decryptor
        dec = "none" if d is None else f"{d.calls}:{d.upd}:{d.tag}:{d.limit}"
        v = s.tls_version
        ver = "none" if v is None else str(StubDecryptor.VER[v.name])
        cr = getattr(s, "client_random", None)
        crs = "none" if cr is None else (bytes(cr).hex() or "-")
        ents = []
        for data, rec, srv in s.application_traffic[old:]:
            ents.append(f"{'N' if data is None else (bytes(data).hex() or '-')}:{rec.metadata[0]}:{b01(srv)}")
        hb = getattr(s, "handshake_13_buffer", {})          # absent before the TLS 1.3 fragmentation repair
        hbc, hbs = bytes(hb.get(False, b"")).hex() or "-", bytes(hb.get(True, b"")).hex() or "-"
        return (f"cd={b01(s.can_decrypt)} ch={b01(s.client_hello_seen)} ver={ver} scc={b01(s.server_cipher_change)} "
                f"ccc={b01(s.client_cipher_change)} dec={dec} cr={crs} n={len(s.application_traffic)} new=[{';'.join(ents)}] "
                f"hbc={hbc} hbs={hbs}")


# ----------------------------------------------------------------------------- generators
def rb(rng, n):
    return bytes(rng.randrange(256) for _ in range(n))


def rec(typ, ver, body):
    return bytes([typ]) + ver + len(body).to_bytes(2, "big")[-2:] + body


def client_hello(rng, cr=None):
    cr = cr if cr is not None else rb(rng, 32)
    if rng.random() < 0.08:
        cr = b"\xf1" + cr[1:]
    body = b"\x03\x03" + cr + bytes([0]) + b"\x00\x02\x13\x01" + b"\x01\x00" + b"\x00\x00"
    return b"\x01" + len(body).to_bytes(3, "big") + body


def ext_block(rng, want13, etm):
    exts = []
    if want13:
        exts.append((b"\x00\x2b", b"\x03\x04"))
    if etm:
        exts.append((b"\x00\x16", b""))
    for _ in range(rng.choice([0, 0, 1, 2])):
        exts.append((rb(rng, 2), rb(rng, rng.randrange(0, 6))))
    if rng.random() < 0.15 and exts:                       # duplicate key: the later value wins
        k = rng.choice(exts)[0]
        exts.append((k, rng.choice([b"\x03\x04", b"\x03\x03", b""])))
    rng.shuffle(exts)
    blob = b"".join(k + len(v).to_bytes(2, "big") + v for k, v in exts)
    if rng.random() < 0.1 and blob:                        # a length that overruns the block
        blob = blob[:-1]
    return blob


def server_hello(rng, version, suite=None):
    """version ∈ ssl30,tls10,tls11,tls12,tls13 or 'odd' → (record version bytes, handshake body)"""
    rv = {"ssl30": b"\x03\x00", "tls10": b"\x03\x01", "tls11": b"\x03\x02", "tls12": b"\x03\x03", "tls13": b"\x03\x03",
          "odd": rng.choice([b"\x03\x04", b"\x02\x00", b"\x03\x01", b"\xff\xff"])}[version]
    hv = {"ssl30": b"\x03\x00", "tls10": b"\x03\x01", "tls11": b"\x03\x02", "tls12": b"\x03\x03", "tls13": b"\x03\x03",
          "odd": rng.choice([b"\x03\x04", b"\x03\x00", b"\x03\x02", b"\x00\x00", b"\x03\x03"])}[version]
    if suite is None:
        a = rng.choice([0x13, 0xC0, 0x00, 0x13, 0xC0, 0xF0, 0xF1, 0xF2])
        suite = bytes([a, rng.choice([0, 1, 2, 3, 200])])
    sid = rb(rng, rng.choice([0, 0, 32, 5]))
    ex = ext_block(rng, version == "tls13" or (version == "odd" and rng.random() < 0.5), rng.random() < 0.3)
    sidlen = len(sid) if rng.random() < 0.9 else rng.randrange(256)      # a length byte that lies
    body = hv + rb(rng, 32) + bytes([sidlen]) + sid + suite + bytes([rng.choice([0, 0, 0, 1])]) + \
        len(ex).to_bytes(2, "big") + ex
    if sidlen > len(sid) and rng.random() < 0.7:
        body += rb(rng, sidlen)                                            # enough bytes for the parser to go on
    if rng.random() < 0.08:
        body = body[:-1 - rng.randrange(0, 3)] if len(ex) else body   # extensions_length larger than what follows
    return rv, b"\x02" + len(body).to_bytes(3, "big") + body


def app_body(rng, v13):
    kind = rng.random()
    if kind < 0.06:
        return bytes([rng.choice([0xE0, 0xE1, 0xE2])]) + rb(rng, rng.randrange(0, 4))
    if kind < 0.09:
        return b""
    lead = bytes([rng.choice([0x00, 0x01, 0x00, 0x33])])
    if not v13:
        return lead + rb(rng, rng.randrange(0, 12))
    k2 = rng.random()
    pad = b"\x00" * rng.choice([0, 0, 0, 1, 5])
    if k2 < 0.45:
        return lead + rb(rng, rng.randrange(0, 12)) + b"\x17" + pad
    if k2 < 0.85:                                            # inner handshake messages, Finished = 20 switches keys
        msgs = b""
        for _ in range(rng.choice([1, 1, 2, 3])):
            t = rng.choice([20, 20, 8, 11, 15, 4])
            ln = rng.randrange(0, 6)
            msgs += bytes([t]) + ln.to_bytes(3, "big") + rb(rng, ln if rng.random() < 0.9 else max(0, ln - 1))
        if lead == b"\x01":
            msgs = msgs  # the 3-byte prefix of the scripted decryptor then shifts the message boundaries: fine
        return lead + msgs + b"\x16" + pad
    if k2 < 0.92:
        return lead + rb(rng, 2) + b"\x15" + pad
    return lead + pad                                         # all zeros / empty after rstrip


def hs_stream(rng):
    """a TLS 1.3 inner handshake message stream: whole messages, now and then a Finished, a garbage length"""
    msgs = b""
    for _ in range(rng.choice([1, 2, 3, 4])):
        t = rng.choice([20, 20, 8, 11, 15, 4, 13])
        ln = rng.choice([0, 1, 2, 3, 5, 9, 17, 40])
        if rng.random() < 0.06:                                  # a length field that lies (longer than what follows)
            msgs += bytes([t]) + rng.choice([0xFFFFFF, 0x010000, ln + 300]).to_bytes(3, "big") + rb(rng, ln)
        else:
            msgs += bytes([t]) + ln.to_bytes(3, "big") + rb(rng, ln)
    return msgs


def fragmented(rng, srv):
    """the stream cut at arbitrary byte positions into consecutive 0x16-inner records of one direction (a Finished
    straddling two records, 1-3 byte tails, empty fragments)"""
    stream = hs_stream(rng)
    k = rng.choice([2, 2, 3, 4])
    cuts = sorted(rng.randrange(0, len(stream) + 1) for _ in range(k - 1))
    if rng.random() < 0.4 and len(stream) > 4:                   # a cut 1-3 bytes into a message header
        cuts[0] = rng.randrange(1, 4)
        cuts.sort()
    frags = [stream[a:b] for a, b in zip([0] + cuts, cuts + [len(stream)])]
    out = []
    for f in frags:
        pad = b"\x00" * rng.choice([0, 0, 1, 4])
        out.append((srv, rec(0x17, b"\x03\x03", rng.choice([b"\x00", b"\x33"]) + f + b"\x16" + pad)))
    return out


def flow(rng):
    """a plausible connection followed by noise; → [(isserver, raw record)]"""
    version = rng.choice(["ssl30", "tls10", "tls11", "tls12", "tls13", "tls12", "tls13", "odd"])
    v13 = version == "tls13"
    out = []
    rvc = {"ssl30": b"\x03\x00", "tls10": b"\x03\x01", "tls11": b"\x03\x02"}.get(version, b"\x03\x01")
    if rng.random() < 0.9:
        out.append((False, rec(0x16, rvc, client_hello(rng))))
    rv, sh = server_hello(rng, version)
    if rng.random() < 0.92:
        out.append((True, rec(0x16, rv, sh)))
    if v13:
        if rng.random() < 0.7:
            out.append((True, rec(0x14, b"\x03\x03", b"\x01")))
        for _ in range(rng.randrange(1, 4)):
            out.append((True, rec(0x17, b"\x03\x03", app_body(rng, True))))
        if rng.random() < 0.6:                                  # the server's flight fragmented over records
            fr = fragmented(rng, True)
            if rng.random() < 0.3:                               # the other direction in between
                fr.insert(rng.randrange(1, len(fr)), (False, rec(0x17, b"\x03\x03", app_body(rng, True))))
            out += fr
        if rng.random() < 0.7:
            out.append((False, rec(0x14, b"\x03\x03", b"\x01")))
        if rng.random() < 0.4:
            out += fragmented(rng, False)
        out.append((False, rec(0x17, b"\x03\x03", app_body(rng, True))))
    else:
        for _ in range(rng.randrange(0, 3)):                 # Certificate, ServerHelloDone, ClientKeyExchange …
            out.append((rng.random() < 0.6, rec(0x16, rv, bytes([rng.choice([11, 12, 14, 16])]) + rb(rng, 5))))
        for srv in (False, True):
            if rng.random() < 0.9:
                out.append((srv, rec(0x14, rv, b"\x01")))
            if rng.random() < 0.9:
                out.append((srv, rec(0x16, rv, app_body(rng, False))))     # encrypted Finished
    for _ in range(rng.randrange(2, 9)):
        r = rng.random()
        srv = rng.random() < 0.5
        if v13 and r < 0.12:
            out += fragmented(rng, srv)
        elif r < 0.7:
            out.append((srv, rec(0x17, rv, app_body(rng, v13))))
        elif r < 0.8:
            out.append((srv, rec(0x15, rv, rng.choice([b"\x01\x00", b"\x02\x28", b"", b"\x01"]))))
        elif r < 0.86:
            out.append((srv, rec(0x16, rv, rng.choice([b"", b"\x00\x00\x00\x00", rb(rng, 6)]))))
        elif r < 0.9:
            out.append((False, rec(0x16, rvc, client_hello(rng))))           # renegotiation / reuse of the 4-tuple
        elif r < 0.94:
            rv2, sh2 = server_hello(rng, rng.choice(["tls12", "tls13", "odd", "tls10"]))
            out.append((True, rec(0x16, rv2, sh2)))
        elif r < 0.97:
            out.append((srv, rec(rng.choice([0x18, 0x00, 0xFF]), rv, rb(rng, 3))))
        else:
            out.append((srv, rec(0x14, rv, b"\x01")))
    return version, out


def malformed(rng):
    """truncated hellos at every interesting offset, random records"""
    out = []
    base_rv, sh = server_hello(rng, rng.choice(["tls12", "tls13", "tls10"]), suite=b"\x13\x01")
    if rng.random() < 0.7:
        out.append((False, rec(0x16, b"\x03\x01", client_hello(rng)[:rng.choice([0, 1, 5, 6, 20, 37, 38, 39, 60])])))
    cut = rng.randrange(0, len(sh) + 1)
    out.append((True, rec(0x16, base_rv, sh[:cut])))
    for _ in range(rng.randrange(1, 6)):
        out.append((rng.random() < 0.5, rec(rng.choice([0x16, 0x17, 0x15, 0x14, rng.randrange(256)]),
                                            rb(rng, 2), rb(rng, rng.randrange(0, 50)))))
    return "malformed", out


def correspond(ctx, n_valid=None, n_bad=None):
    n_valid = n_valid if n_valid is not None else ctx.n(1500, 12000)
    n_bad = n_bad if n_bad is not None else ctx.n(700, 6000)
    rng = ctx.rng
    cases = []
    for i in range(n_valid + n_bad):
        kind, script = flow(rng) if i < n_valid else malformed(rng)
        cases.append((kind, rng.random() < 0.5, script))
    lines = []
    for kind, meta, script in cases:
        lines.append(f"new {1 if meta else 0}")
        for i, (srv, raw) in enumerate(script):
            lines.append(f"rec {1 if srv else 0} {i} {raw.hex()}")
    model = ctx.driver("session", lines)
    PT = "session.handle_tls_record (real Session, scripted decryptor) vs TLX.Session.handleRecordRaw"
    pt = ctx.point(PT)
    pos = 0
    with Impl() as impl:
        for kind, meta, script in cases:
            pos += 1
            impl_lines = impl.run(meta, script)
            mlines = model[pos:pos + len(script)]
            pos += len(script)
            pt["cases"] += len(script)
            ctx.hist("session-script", kind)
            ctx.count(("session", kind, meta, tuple(r for _, r in script)))
            for i, (a, b) in enumerate(zip(impl_lines, mlines)):
                tag = "raised" if a.startswith("raised") else ("app" if "new=[]" not in a else "quiet")
                ctx.hist("session-step", tag)
                if a != b:
                    ctx.disagree(PT,
                                 {"meta": meta, "records": [[s, r.hex()] for s, r in script[:i + 1]], "step": i},
                                 a, b)
                    break
    return pt


def search(ctx):
    """a model/implementation disagreement on the session machine: look for an escaping exception (C03) on the real
    code with a larger run"""
    rng = ctx.rng
    with Impl() as impl:
        for i in range(4000):
            kind, script = flow(rng) if i % 3 else malformed(rng)
            meta = rng.random() < 0.5
            for j, l in enumerate(impl.run(meta, script)):
                if l.startswith("raised"):
                    ctx.fail("C03:{session}:exception-escapes-handle_tls_record",
                             "an exception escapes Session.handle_tls_record (the run would abort)",
                             {"meta": meta, "records": [[s, r.hex()] for s, r in script[:j + 1]]},
                             expected="no exception", actual=l)
                    return
