"""Replay for lean/TLX/Props/C02Rfc.lean on the REAL tool: the key log as FILE TEXT.

`quic_capture_exact_rfc` states the key log as the text of a file of well-formed lines (`FLine.WF`: what the reader's regular
expression accepts, or inert text), lines of other connections included. Hidden in the tool-side form was
`Keylog.quicSessionKeys` = `set_tls_decryptors`' loop `bytes.fromhex(key.client_random) == client_random` over EVERY key of
the log, which would raise on a key whose client-random field is not hexadecimal. `quicSessionKeys_fileText` proves that no
parsed line can do that (the reader's regex demands exactly 64 hexadecimal digits). Checked here on the real tool with the
capture of c02_file_replay (shape of `Ex.quic_rfc_instance`):

  A  the connection's four lines, upper-case hex, CRLF, comments and blank lines in between     -> GET / OK
  B  + malformed FOREIGN lines: 63- and 65-digit client random, non-hex client random, a lower-case label, a foreign line
     whose secret is not hexadecimal, a foreign line with an empty secret                       -> GET / OK (all inert)
  B2 + lines with the connection's OWN client random, a label the QUIC side does not read (EXPORTER_SECRET, CLIENT_RANDOM)
     and a secret that is not hexadecimal                                                       -> GET / OK (inert)
  C  the one non-well-formed line that is NOT inert: a line with the connection's OWN client random, a QUIC label and a
     secret with non-hex characters behind a hex prefix (accepted by `re.match`, rejected by `bytes.fromhex`)
                                                                                                -> reported, model = tool

and in every case the model's `exportFile` bytes = the tool's bytes (driver `runfile`).

Standalone:  PYTHONPATH=/repo:harness python harness/c02_rfc_replay.py
"""
import fw
import quic_pipeline_corr as qp
import tool
import wire
from c02_file_replay import build


def run(ctx, cap, kl):
    r = tool.run(cap, kl, ["-l"], infile_name="in.pcap")
    model = ctx.driver("pipeline", ["reset", "opt 0 0 0 - -", f"runfile 1 {kl.encode().hex()} {cap.hex()}"], timeout=600)
    return r, model[2]


def main():
    ctx = fw.Ctx("C02", "quick", 0)
    with qp.both_worlds():
        c, items, keylog = build()
        cap = wire.pcap_legacy(items, nano=True)
        cr = c.cr.hex()
        own = [keylog[0], keylog[2], keylog[3], keylog[4]]

        def up(line):
            lab, r, v = line.split(" ")
            return f"{lab} {r.upper()} {v.upper()}"

        # A: any hex case, CRLF, inert text in between
        klA = "# comment\r\n" + up(own[0]) + "\r\n\r\n" + own[1] + "\n" + "some prose 1234\n" + up(own[2]) + "\r\n" + own[3] + "\n"
        # B: malformed foreign lines
        foreign = [
            f"CLIENT_TRAFFIC_SECRET_0 {'09' * 31}0 0102",                 # 63 digits
            f"CLIENT_TRAFFIC_SECRET_0 {'09' * 32}0 0102",                 # 65 digits
            f"SERVER_HANDSHAKE_TRAFFIC_SECRET {'zz' * 32} 0102",          # not hexadecimal
            f"client_traffic_secret_0 {'09' * 32} 0102",                  # lower-case label
            f"CLIENT_TRAFFIC_SECRET_0 {'08' * 32} 01xyz",                 # foreign, secret not hexadecimal: a Key, never used
            f"SERVER_TRAFFIC_SECRET_0 {'07' * 32} ",                      # foreign, empty secret
            f"CLIENT_TRAFFIC_SECRET_0 {cr[:-2]}  0102",                   # own random cut short
        ]
        klB = "\n".join([foreign[0], own[0], foreign[1], foreign[2], own[1], foreign[3], foreign[4], own[2], foreign[5],
                         own[3], foreign[6]]) + "\n"
        out = {}
        for name, kl in (("A", klA), ("B", klB)):
            r, m = run(ctx, cap, kl)
            assert not r.crashed, (name, r.exc, r.where)
            got = wire.read_output(r.out)
            assert [p["payload"] for _, p in got] == [b"GET", b"OK"], (name, got)
            assert [us for us, _ in got] == [t for t, _, _ in c.expect], name
            assert m == "file:" + r.out.hex(), (name, m[:80])
            out[name] = len(r.out)
        # B2: the connection's own client random, a label the QUIC side does not read, garbage secret: inert
        klB2 = "\n".join(own + [f"EXPORTER_SECRET {cr} 01xyz", f"CLIENT_RANDOM {cr} 0"]) + "\n"
        r, m = run(ctx, cap, klB2)
        assert not r.crashed and [p["payload"] for _, p in wire.read_output(r.out)] == [b"GET", b"OK"]
        assert m == "file:" + r.out.hex(), m[:80]
        # C: the connection's own client random, garbage behind a hex prefix of the secret
        klC = "\n".join(own + [f"CLIENT_EARLY_TRAFFIC_SECRET {cr} 01xyz"]) + "\n"
        r, m = run(ctx, cap, klC)
        if r.crashed:
            obs = f"tool raises {type(r.exc).__name__} ({r.where})"
            assert m.startswith("abort") or m.startswith("raise"), m[:80]
        else:
            got = wire.read_output(r.out)
            obs = f"tool exports {[p['payload'] for _, p in got]}"
            assert m == "file:" + r.out.hex(), m[:80]
    print("c02_rfc_replay: A (hex case / CRLF / inert text) and B (7 malformed foreign lines) export exactly GET / OK,",
          f"model bytes = tool bytes ({out['A']} / {out['B']} bytes); C (own random, non-hex secret tail): {obs}; model: {m[:40]}")


if __name__ == "__main__":
    main()
