"""Correspondence runner for the main-loop model (lean/TLX/MainLoop.lean; theorems in Props/C04.lean, Props/C18.lean).

regen()          reads the leading statements of the real `run()` (the reset of the four module-level lists) and writes
                 lean/TLX/Gen/MainLoopConsts.lean — call it BEFORE ctx.prove(MODULES): `C18.reset_is_fresh` is re-checked
                 by the kernel against the tree under test.
correspond(ctx)  (a) routing: the REAL `tlexport.main.handle_packet` / `handle_quic_packet` on real `Packet` objects, with
                 `Session` / `QuicSession` replaced by recording subclasses that keep the real constructors, the real
                 `matches_session`, `set_client_and_server_ports`, `matches_session_dgram`, `set_server_client_address`, and
                 whose CID sets (real Python sets) grow by the same script the model's recording sessions follow; the decision
                 for every packet (which session index was fed / created / nothing, DCID and version handed over, length of
                 the key log at that moment) and the final session lists are compared with `tlxdriver mainloop`.
                 (b) classification: the REAL `run()` in-process on generated captures (DSBs, TCP/UDP over IPv4/IPv6, empty
                 payloads, bad checksums, non-IP, ICMP, DTLS-looking UDP, `-c`, `-g`, `-p`, `-s`), never resetting the module
                 state from outside (each run starts from what the previous one left, plus deliberate pollution); the handlers
                 are wrapped to record their calls; decisions, final session lists and the order of the output file (marker
                 packets returned by the stubs' `decrypt` / `build_output`) are compared with the model's `step`/`exportAll`.
"""
import ast
import inspect
import os
import struct
import textwrap

import extract
import tool
import wire

MODULES = ["TLX.Props.C04", "TLX.Props.C18"]
THEOREMS = ["TLX.Props.C04." + n for n in (
    "merge_keeps_both", "flow_qualifies_as_a_whole", "roles_agree_with_options", "tls_demux_exact", "tls_session_for",
    "tls_alone_is_run", "tls_solo_equals_merged", "tls_sessions_merge", "tls_export_union", "quic_foreign_iff",
    "quic_route_exact", "quic_solo_equals_merged", "quic_export_union", "quicSeparated_of_check", "empty_dcid_falls_to_tuple",
    "empty_cid_never_chosen", "short_with_only_empty_cids_falls_to_tuple", "own_cid_never_misdirects",
    "own_cid_direction_agrees", "Ex.legacy_own_cid_misdirects", "short_choice_is_longest", "short_never_creates",
    "tls_quic_independent", "tcp_leaves_quic_alone", "udp_leaves_tls_alone", "unrelated_ignored", "ignored_iff",
    "run_tls_sessions_merge", "Ex.capC_is_merge", "Ex.capAB_disjoint", "Ex.separated_example", "Ex.quic_cross_routing_by_prefix",
    "Ex.quic_cross_routing_by_tuple", "Ex.quic_route_counterexample")] + ["TLX.Props.C18." + n for n in (
    "reset_is_fresh", "run_ignores_prior_state", "run_twice_same", "export_is_function", "fresh_run_is", "legacy_run_leaks",
    "cid_choice_order_independent", "session_choice_order_independent", "cid_choice_ignores_duplicates",
    "legacy_choice_order_dependent")]

P_ROUTE_TLS = "handle_packet: routing decision per packet (real Session.matches_session / roles)"
P_ROUTE_QUIC = "handle_quic_packet: routing decision per datagram (header parse, CID match, 4-tuple, creation)"
P_ROUTE_FINAL = "handle_packet / handle_quic_packet: final session lists"
P_RUN_CLASS = "run(): per-item classification and handler calls"
P_RUN_FINAL = "run(): final session lists, key log, order of the output file"


# ====================================================================================== constants from the source
def regen():
    """main.py `run()`: which of the reset statements stand before anything else, and the server_ports literal."""
    import tlexport.main as m
    src = textwrap.dedent(inspect.getsource(m.run))
    fn = ast.parse(src).body[0]
    ports, cleared = None, set()
    for st in fn.body:
        if isinstance(st, ast.Expr) and isinstance(st.value, ast.Constant) and isinstance(st.value.value, str):
            continue                                                           # docstring
        if (isinstance(st, ast.Assign) and len(st.targets) == 1 and isinstance(st.targets[0], ast.Subscript)
                and isinstance(st.targets[0].value, ast.Name) and isinstance(st.targets[0].slice, ast.Slice)
                and st.targets[0].slice.lower is None and st.targets[0].slice.upper is None and isinstance(st.value, ast.List)
                and all(isinstance(e, ast.Constant) and isinstance(e.value, int) for e in st.value.elts)):
            name, vals = st.targets[0].value.id, [e.value for e in st.value.elts]
            if name == "server_ports":
                ports = vals
                continue
            if not vals:
                cleared.add(name)
                continue
        if (isinstance(st, ast.Expr) and isinstance(st.value, ast.Call) and isinstance(st.value.func, ast.Attribute)
                and st.value.func.attr == "clear" and isinstance(st.value.func.value, ast.Name) and not st.value.args):
            cleared.add(st.value.func.value.id)
            continue
        break
    b = lambda x: "true" if x else "false"
    lines = ["/- GENERATED by harness/m1_mainloop.py (regen) from tlexport/main.py `run()` — do not edit. -/",
             "namespace TLX.Gen", "",
             "/-- the literal of `server_ports[:] = [...]` among the leading statements of `run()` (`none`: no such statement) -/",
             f"def runResetPorts : Option (List Nat) := {'none' if ports is None else 'some ' + str([int(p) for p in ports])}", "",
             "/-- `keylog.clear()`, `sessions.clear()`, `quic_sessions.clear()` among the leading statements of `run()` -/",
             f"def runClearsKeylog : Bool := {b('keylog' in cleared)}",
             f"def runClearsSessions : Bool := {b('sessions' in cleared)}",
             f"def runClearsQuicSessions : Bool := {b('quic_sessions' in cleared)}", "",
             "end TLX.Gen", ""]
    return {"MainLoopConsts.lean": extract.write_if_changed("MainLoopConsts.lean", "\n".join(lines))}


# ====================================================================================== canonical forms
def hx(b):
    return bytes(b).hex() if len(b) else "-"


def cids_str(cids):
    cids = list(cids)
    if not cids:
        return "-"
    return ",".join(c.hex() if c else "e" for c in sorted(cids, key=lambda c: (-len(c), c)))


def script_str(cids):
    return ",".join(c.hex() if c else "e" for c in cids) if cids else "-"


def pkt_line(p):
    return (f"{p['tag']} {p['l4']} {hx(p['sip'])} {p['sport']} {hx(p['dip'])} {p['dport']} {hx(p['payload'])} "
            f"{1 if p['ck'] else 0} {script_str(p['cc'])} {script_str(p['sc'])}")


MAC_A, MAC_B = b"\x02\x00\x00\x00\x00\x01", b"\x02\x00\x00\x00\x00\x02"


def frame_of(p):
    """independent builders of harness/wire.py"""
    if p["l4"] == "t":
        return wire.tcp_frame(MAC_A, MAC_B, p["sip"], p["dip"], p["sport"], p["dport"], 1000 + p["tag"], 1, 0x18, p["payload"],
                              bad_csum=not p["ck"])
    if p["l4"] == "u":
        return wire.udp_frame(MAC_A, MAC_B, p["sip"], p["dip"], p["sport"], p["dport"], p["payload"], bad_csum=not p["ck"])
    if p.get("nonip"):
        return MAC_B + MAC_A + b"\x08\x06" + b"\x00\x01\x08\x00\x06\x04\x00\x01" + MAC_A + p["sip"][:4] + MAC_B + p["dip"][:4]
    proto = 58 if len(p["sip"]) == 16 else 1
    return wire.ether(MAC_A, MAC_B, wire.ip_packet(p["sip"], p["dip"], proto, b"\x08\x00\xf7\xff\x00\x00\x00\x00" + p["payload"]))


# ====================================================================================== recording stubs
class Recorder:
    """Recording subclasses of the real session classes; everything but `handle_packet` (and the output methods) is real."""

    def __init__(self):
        from tlexport.session import Session
        from tlexport.quic.quic_session import QuicSession
        rec = self
        self.trace = []
        self.script = {}

        class RecSession(Session):
            def handle_packet(self, packet):
                if "rec" not in self.__dict__:
                    self.rec = []
                self.rec.append(rec.tag(packet))
                rec.trace.append(self)

            def decrypt(self):
                return [(struct.pack(">4sII", b"TLSM", t, len(self.keylog)) + b"\0" * 8, float(t)) for t in self.rec]

        class RecQuic(QuicSession):
            def handle_packet(self, packet, dcid, quic_version):
                if "rec" not in self.__dict__:
                    self.rec = []
                t = rec.tag(packet)
                self.rec.append((t, bytes(dcid), quic_version.name.lower(), len(self.keylog)))
                cc, sc = rec.script.get(t, ((), ()))
                for c in cc:
                    self.client_cids.add(c)
                for c in sc:
                    self.server_cids.add(c)
                rec.trace.append(self)

            def build_output(self, metadata):
                return [(struct.pack(">4sII", b"QUIC", t, k) + b"\0" * 8, float(t)) for t, _, _, k in self.__dict__.get("rec", [])]

        self.Session, self.QuicSession = RecSession, RecQuic

    @staticmethod
    def tag(packet):
        return int(round(float(packet.timestamp)))

    @staticmethod
    def index(sessions, s):
        return next(i for i, x in enumerate(sessions) if x is s)

    def decision(self, kind, before, sessions):
        """what the call just made did, in the driver's words"""
        tr, self.trace = self.trace, []
        if len(sessions) > before:
            idx = before
        elif tr:
            idx = self.index(sessions, tr[-1])
        else:
            return f"{kind} none"
        word = "new" if len(sessions) > before else "fed"
        if kind == "tls":
            return f"tls {word} {idx}"
        rec_ = sessions[idx].__dict__.get("rec", [])
        if not rec_:
            return f"quic {word} {idx} ?"
        _, dcid, ver, k = rec_[-1]
        return f"quic {word} {idx} {hx(dcid)} {ver} {k}"

    @staticmethod
    def dump(sessions, quic_sessions):
        def ep(ip, port):
            return f"{bytes(ip).hex()}:{port}"
        t = ";".join(f"{ep(s.server_ip, s.server_port)}>{ep(s.client_ip, s.client_port)}[{'.'.join(str(x) for x in s.__dict__.get('rec', []))}]"
                     for s in sessions)
        q = ";".join(f"{ep(s.server_ip, s.server_port)}>{ep(s.client_ip, s.client_port)}"
                     f"[{'.'.join(f'{a}/{hx(b)}/{c}/{d}' for a, b, c, d in s.__dict__.get('rec', []))}]"
                     f"c={cids_str(s.client_cids)}s={cids_str(s.server_cids)}" for s in quic_sessions)
        return f"tls={t or '-'} quic={q or '-'}"


class Patched:
    """tlexport.main with the recording classes in place of Session / QuicSession"""

    def __init__(self, rec):
        import tlexport.main as m
        self.m, self.rec = m, rec

    def __enter__(self):
        m = self.m
        self.saved = (m.Session, m.QuicSession, list(m.server_ports))
        m.Session, m.QuicSession = self.rec.Session, self.rec.QuicSession
        return m

    def __exit__(self, *a):
        m = self.m
        m.Session, m.QuicSession = self.saved[0], self.saved[1]
        m.server_ports[:] = self.saved[2]


# ====================================================================================== generators
V4 = [bytes([10, 0, 0, x]) for x in (1, 2, 9)]
V6 = [bytes.fromhex("20010db8" + "00" * 11) + bytes([x]) for x in (1, 9)]
SPORTS = [5000, 5000, 5001, 443, 44330, 8443, 40000]
DPORTS = [443, 443, 44330, 8443, 5000, 80]


def gen_flows(rng, n):
    flows = []
    for _ in range(n):
        fam = V6 if rng.random() < 0.3 else V4
        a, b = rng.choice(fam), rng.choice(fam)
        if flows and rng.random() < 0.35:                       # collide with an earlier flow on purpose
            f = rng.choice(flows)
            how = rng.randrange(4)
            if how == 0:
                flows.append((f[0], f[1], f[2], rng.choice(DPORTS)))           # same hosts, same client port, other server port
            elif how == 1:
                flows.append((f[0], rng.choice(SPORTS), f[2], f[3]))           # same hosts, other client port
            elif how == 2:
                flows.append((f[0], f[1], rng.choice([x for x in (V4 if len(f[2]) == 4 else V6)]), f[3]))  # same client port, other server
            else:
                flows.append((f[2], f[3], f[0], f[1]))                         # the same flow, seen from the other side
            continue
        flows.append((a, rng.choice(SPORTS), b, rng.choice(DPORTS)))
    return flows


def gen_cid_pool(rng):
    pool = [b""]
    for _ in range(rng.randrange(2, 5)):
        c = bytes(rng.randrange(256) for _ in range(rng.choice([1, 1, 2, 4, 8, 8, 16, 20])))
        pool.append(c)
        if rng.random() < 0.6:
            pool.append(c + bytes(rng.randrange(256) for _ in range(rng.randrange(1, 4))))     # c is a prefix of this one
        if len(c) > 1 and rng.random() < 0.4:
            pool.append(c[:rng.randrange(1, len(c))])                                          # a prefix of c
        if rng.random() < 0.3:
            pool.append(c[:-1] + bytes([c[-1] ^ 1]))                                           # same length, last byte differs
    return [c[:20] for c in pool]


def gen_udp_payload(rng, pool):
    kind = rng.random()
    tail = bytes(rng.randrange(256) for _ in range(rng.randrange(0, 12)))
    if kind < 0.01:
        return b"", "empty"
    if kind < 0.50:
        b0 = 0x80 | rng.randrange(0x80)
        ver = rng.choice([1, 1, 1, 2, 0, 0xff00001d, rng.randrange(1 << 32)])
        dcid = rng.choice(pool) if rng.random() < 0.85 else bytes(rng.randrange(256) for _ in range(rng.randrange(0, 21)))
        ln = len(dcid) if rng.random() < 0.85 else rng.randrange(256)
        pl = bytes([b0]) + ver.to_bytes(4, "big") + bytes([ln]) + dcid + tail
        if rng.random() < 0.15:
            pl = pl[:rng.randrange(1, len(pl) + 1)]                                            # truncated, also below 6 bytes
        return pl, "long" if len(pl) >= 6 else "long<6"
    b0 = rng.randrange(0x80)
    if kind < 0.55:
        b0 &= ~0x40                                                                            # DTLS-looking
    cid = rng.choice(pool) if rng.random() < 0.85 else bytes(rng.randrange(256) for _ in range(rng.randrange(0, 9)))
    pl = bytes([b0]) + cid + tail
    if rng.random() < 0.15:
        pl = pl[:rng.randrange(1, len(pl) + 1)]                                                # shorter than the CID
    return pl, "short"


def gen_script(rng, pool, hdr_kind):
    p = 0.7 if hdr_kind.startswith("long") else 0.15
    cc = [rng.choice(pool) for _ in range(rng.randrange(0, 3))] if rng.random() < p else []
    sc = [rng.choice(pool) for _ in range(rng.randrange(0, 3))] if rng.random() < p else []
    return cc, sc


def gen_ports(rng):
    return [443, 44330] + rng.sample([443, 8443, 5000, 40000, 5001], rng.randrange(0, 3))


def gen_zcid_ops(rng):
    """One or two connections in which one endpoint uses a zero-length CID and the other a 1–2 byte CID; short-header
    datagrams in BOTH directions whose byte 1.. equals that CID (as the DCID it is in one direction, as the first protected
    bytes by chance in the other), plus near misses."""
    ports = [443, 44330, 443]
    ops = [("opts", ports)]
    conns, tag = [], 0
    for k in range(rng.randrange(1, 3)):
        fam = V6 if rng.random() < 0.3 else V4
        cl, sv = (rng.choice(fam), rng.choice([5000, 5001, 40000])), (rng.choice(fam), rng.choice([443, 44330]))
        c = bytes(rng.randrange(256) for _ in range(rng.choice([1, 1, 2])))
        cc, sc = ([c], [b""]) if rng.random() < 0.5 else ([b""], [c])
        if rng.random() < 0.3:
            (cc if rng.random() < 0.5 else sc).append(c + bytes([rng.randrange(256)]))            # a longer CID with the same start
        conns.append((cl, sv, c, cc, sc))
    for cl, sv, c, cc, sc in conns:
        tag += 1
        d = bytes(rng.randrange(256) for _ in range(8))
        pl = bytes([0xC0 | rng.randrange(0x10)]) + (1).to_bytes(4, "big") + bytes([len(d)]) + d + bytes(rng.randrange(256) for _ in range(6))
        ops.append(("udp", {"tag": tag, "l4": "u", "sip": cl[0], "sport": cl[1], "dip": sv[0], "dport": sv[1], "payload": pl,
                            "ck": True, "cc": cc, "sc": sc + [d]}, "long"))
    for _ in range(rng.randrange(6, 16)):
        tag += 1
        cl, sv, c, cc, sc = rng.choice(conns)
        src, dst = (cl, sv) if rng.random() < 0.5 else (sv, cl)
        r = rng.random()
        head = c if r < 0.6 else (c[:-1] + bytes([c[-1] ^ 1]) if r < 0.75 else bytes(rng.randrange(256) for _ in range(len(c))))
        pl = bytes([0x40 | rng.randrange(0x40)]) + head + bytes(rng.randrange(256) for _ in range(rng.randrange(0, 8)))
        newc = ([bytes(rng.randrange(256) for _ in range(len(c)))], []) if rng.random() < 0.1 else ([], [])
        ops.append(("udp", {"tag": tag, "l4": "u", "sip": src[0], "sport": src[1], "dip": dst[0], "dport": dst[1], "payload": pl,
                            "ck": True, "cc": newc[0], "sc": newc[1]}, "short-zcid"))
    ops.append(("dump",))
    return ops


# ====================================================================================== (a) routing
def corr_routing(ctx, n_seq):
    from tlexport.packet import Packet
    rng = ctx.rng
    pt_t, pt_q, pt_f = ctx.point(P_ROUTE_TLS), ctx.point(P_ROUTE_QUIC), ctx.point(P_ROUTE_FINAL)
    seqs, lines = [], []
    for s in range(n_seq):
        if s % 6 == 5:
            seqs.append(gen_zcid_ops(rng))
            lines.extend(seq_lines(seqs[-1]))
            continue
        ports = gen_ports(rng)
        flows = gen_flows(rng, rng.randrange(2, 7))
        pool = gen_cid_pool(rng)
        ops = [("opts", ports)]
        for tag in range(1, rng.randrange(6, 28)):
            if rng.random() < 0.07:
                ops.append(("keys", rng.randrange(0, 4)))
                continue
            f = rng.choice(flows)
            if rng.random() < 0.5:
                f = (f[2], f[3], f[0], f[1])
            p = {"tag": tag, "sip": f[0], "sport": f[1], "dip": f[2], "dport": f[3], "ck": True, "cc": [], "sc": []}
            if rng.random() < 0.4:
                p.update(l4="t", payload=bytes(rng.randrange(256) for _ in range(rng.randrange(0, 6))))
                kind = "tcp"
            else:
                pl, kind = gen_udp_payload(rng, pool)
                cc, sc = gen_script(rng, pool, kind)
                p.update(l4="u", payload=pl, cc=cc, sc=sc)
            ops.append(("tcp" if p["l4"] == "t" else "udp", p, kind))
        ops.append(("dump",))
        seqs.append(ops)
        for op in ops:
            if op[0] == "opts":
                lines.append(f"opts {','.join(str(x) for x in op[1])} 0 0")
            elif op[0] == "keys":
                lines.append(f"keys {op[1]}")
            elif op[0] == "dump":
                lines.append("dump")
            else:
                lines.append(f"{op[0]} {pkt_line(op[1])}")
    replies = iter(ctx.driver("mainloop", lines))
    rec = Recorder()
    with Patched(rec) as m:
        for si, ops in enumerate(seqs):
            sessions, quic_sessions, keylog = [], [], []
            rec.script, rec.trace = {}, []
            nontrivial = False
            for op in ops:
                model = next(replies)
                if op[0] == "opts":
                    m.server_ports[:] = op[1]
                    continue
                if op[0] == "keys":
                    keylog.extend([object()] * op[1])
                    continue
                if op[0] == "dump":
                    impl = rec.dump(sessions, quic_sessions)
                    pt_f["cases"] += 1
                    if impl != model:
                        ctx.disagree(P_ROUTE_FINAL, {"seq": si, "lines": [l for l in seq_lines(ops)]}, impl, model)
                    continue
                p, kind = op[1], op[2]
                pkt = Packet(frame_of(p), float(p["tag"]))
                if op[0] == "tcp":
                    before = len(sessions)
                    try:
                        m.handle_packet(pkt, None, keylog, sessions, {}, True, False)
                        impl = rec.decision("tls", before, sessions)
                    except Exception as e:  # noqa
                        rec.trace = []
                        impl = f"exc:{type(e).__name__}"
                    pt_t["cases"] += 1
                    ctx.hist("route_tls", impl.split()[1] if " " in impl else impl)
                    point = P_ROUTE_TLS
                else:
                    rec.script[p["tag"]] = (p["cc"], p["sc"])
                    before = len(quic_sessions)
                    try:
                        m.handle_quic_packet(pkt, keylog, quic_sessions, {}, True)
                        impl = rec.decision("quic", before, quic_sessions)
                    except IndexError:
                        rec.trace = []
                        impl = "err:index"
                    except Exception as e:  # noqa
                        rec.trace = []
                        impl = f"exc:{type(e).__name__}"
                    pt_q["cases"] += 1
                    ctx.hist("route_quic", kind + ":" + (impl.split()[1] if " " in impl else impl))
                    point = P_ROUTE_QUIC
                if " fed " in impl or " new " in impl:
                    nontrivial = True
                if impl != model:
                    ctx.disagree(point, {"seq": si, "packet": pkt_line(p), "lines": [l for l in seq_lines(ops)]}, impl, model)
            ctx.count(("route", si, tuple(seq_lines(ops))), nontrivial=nontrivial)
            ctx.hist("route_sessions", f"{min(len(sessions), 4)} tls, {min(len(quic_sessions), 4)} quic")
            if si == 0:
                ctx.sample({"routing_sequence": list(seq_lines(ops)), "final": rec.dump(sessions, quic_sessions)})


def seq_lines(ops):
    for op in ops:
        if op[0] == "opts":
            yield f"opts {','.join(str(x) for x in op[1])} 0 0"
        elif op[0] == "keys":
            yield f"keys {op[1]}"
        elif op[0] == "dump":
            yield "dump"
        else:
            yield f"{op[0]} {pkt_line(op[1])}"


# ====================================================================================== (b) run()
def key_lines(rng, n):
    return "".join(f"CLIENT_RANDOM {bytes(rng.randrange(256) for _ in range(32)).hex()} {bytes(rng.randrange(256) for _ in range(48)).hex()}\n"
                   for _ in range(n))


def gen_capture(rng):
    flows = gen_flows(rng, rng.randrange(2, 6))
    pool = gen_cid_pool(rng)
    items = []
    for tag in range(1, rng.randrange(5, 22)):
        r = rng.random()
        if r < 0.10:
            n = rng.randrange(0, 4)
            junk = "# comment\nnot a key line\n" if rng.random() < 0.3 else ""
            items.append(("dsb", n, (junk + key_lines(rng, n)).encode()))
            continue
        f = rng.choice(flows)
        if rng.random() < 0.5:
            f = (f[2], f[3], f[0], f[1])
        p = {"tag": tag, "sip": f[0], "sport": f[1], "dip": f[2], "dport": f[3], "ck": rng.random() > 0.12, "cc": [], "sc": []}
        if r < 0.18:
            p.update(l4="o", payload=b"\x16\x03\x01", nonip=rng.random() < 0.5, ck=True)
        elif r < 0.55:
            p.update(l4="t", payload=b"" if rng.random() < 0.15 else bytes(rng.randrange(256) for _ in range(rng.randrange(1, 6))))
        else:
            pl, kind = gen_udp_payload(rng, pool)
            if rng.random() < 0.08:
                pl = b""
            cc, sc = gen_script(rng, pool, kind)
            p.update(l4="u", payload=pl, cc=cc, sc=sc)
        items.append(("pkt", p))
    return items


def corr_run(ctx, n_caps):
    rng = ctx.rng
    pt_c, pt_f = ctx.point(P_RUN_CLASS), ctx.point(P_RUN_FINAL)
    caps, lines = [], []
    for _ in range(n_caps):
        items = gen_capture(rng)
        extra = (rng.sample([8443, 5000, 40000, 5001], rng.randrange(1, 3)) if rng.random() < 0.5 else None)
        c, g = rng.random() < 0.5, rng.random() < 0.4
        nfile = rng.randrange(0, 3) if rng.random() < 0.6 else None
        caps.append((items, extra, c, g, nfile))
        ports = [443, 44330] + (extra if extra is not None else [443])
        lines.append(f"opts {','.join(str(x) for x in ports)} {1 if c else 0} {1 if g else 0}")
        if nfile is not None:
            lines.append(f"keys {nfile}")
        for it in items:
            lines.append(f"item dsb {it[1]}" if it[0] == "dsb" else f"item pkt {pkt_line(it[1])}")
        lines += ["dump", "out"]
    replies = iter(ctx.driver("mainloop", lines))
    rec = Recorder()
    from tlexport.packet import Packet
    with Patched(rec) as m:
        real_hp, real_hq = m.handle_packet, m.handle_quic_packet
        decisions = {}

        def hp(packet, args, keylog, sessions, *a, **kw):
            before = len(sessions)
            rec.trace = []
            real_hp(packet, args, keylog, sessions, *a, **kw)
            decisions[rec.tag(packet)] = rec.decision("tls", before, sessions)

        def hq(packet, keylog, quic_sessions, *a, **kw):
            before = len(quic_sessions)
            rec.trace = []
            real_hq(packet, keylog, quic_sessions, *a, **kw)
            decisions[rec.tag(packet)] = rec.decision("quic", before, quic_sessions)
        m.handle_packet, m.handle_quic_packet = hp, hq
        try:
            for ci, (items, extra, c, g, nfile) in enumerate(caps):
                next(replies)                                                          # opts
                if nfile is not None:
                    next(replies)
                decisions.clear()
                rec.script = {it[1]["tag"]: (it[1]["cc"], it[1]["sc"]) for it in items if it[0] == "pkt"}
                cap = wire.pcapng([("dsb", it[2]) if it[0] == "dsb" else ("pkt", it[1]["tag"] * 1000000, frame_of(it[1])) for it in items])
                argv = (["-p"] + [str(x) for x in extra] if extra else []) + (["-c"] if c else []) + (["-g"] if g else [])
                # never reset from outside: the run starts from the previous run's leftovers, sometimes worse
                polluted = rng.random() < 0.5
                if polluted:
                    m.server_ports.extend([5000, 80, 40000])
                    m.keylog.extend([object()] * 3)
                    for it in items:
                        if it[0] == "pkt" and it[1]["l4"] in "tu":
                            pk = Packet(frame_of(dict(it[1], ck=True)), 0.0)
                            if it[1]["l4"] == "t":
                                m.sessions.append(rec.Session(pk, [443], m.keylog, {}, True, False))
                            else:
                                q = rec.QuicSession(pk, [443], m.keylog, {}, True)
                                q.client_cids.update(c_ for c_ in it[1]["cc"])
                                m.quic_sessions.append(q)
                    rec.trace = []
                res = tool.run(cap, key_lines(rng, nfile) if nfile is not None else None, args=argv, reset=False)
                model_items = [next(replies) for _ in items]
                model_dump, model_out = next(replies), next(replies)
                case = {"capture": ci, "argv": argv, "file_keys": nfile, "polluted": polluted,
                        "items": [f"dsb {it[1]}" if it[0] == "dsb" else pkt_line(it[1]) for it in items]}
                if res.crashed:
                    pt_c["cases"] += 1
                    ctx.disagree(P_RUN_CLASS, case, res.signature(), "ok")
                    continue
                nontrivial = False
                for it, model in zip(items, model_items):
                    if it[0] == "dsb":
                        continue
                    impl = decisions.get(it[1]["tag"], "ignore")
                    mod = "ignore" if model.startswith("ignore") else model
                    pt_c["cases"] += 1
                    ctx.hist("run_class", model if model.startswith("ignore") else " ".join(model.split()[:2]))
                    nontrivial = nontrivial or not model.startswith("ignore")
                    if impl != mod:
                        ctx.disagree(P_RUN_CLASS, dict(case, packet=pkt_line(it[1])), impl, model)
                impl_dump = rec.dump(m.sessions, m.quic_sessions) + f" keys={len(m.keylog)} ports={','.join(str(x) for x in m.server_ports)}"
                nkeys = (nfile or 0) + sum(it[1] for it in items if it[0] == "dsb")
                ports = [443, 44330] + (extra if extra is not None else [443])
                model_dump += f" keys={nkeys} ports={','.join(str(x) for x in ports)}"
                try:
                    out = wire.read_pcapng_strict(res.out)
                    impl_out = ",".join("%d/%d" % struct.unpack(">II", fr[4:12]) for _, fr in out) or "-"
                except Exception as e:  # noqa
                    impl_out = f"unreadable:{e}"
                pt_f["cases"] += 1
                if impl_dump != model_dump:
                    ctx.disagree(P_RUN_FINAL, case, impl_dump, model_dump)
                elif impl_out != model_out:
                    ctx.disagree(P_RUN_FINAL, dict(case, what="order of the output file"), impl_out, model_out)
                ctx.count(("run", ci, tuple(case["items"]), tuple(argv)), nontrivial=nontrivial)
                ctx.hist("run_opts", f"c={int(c)} g={int(g)} p={'-' if extra is None else len(extra)} s={'-' if nfile is None else nfile} polluted={int(polluted)}")
                if ci == 0:
                    ctx.sample({"run_capture": case, "dump": impl_dump, "out": impl_out})
        finally:
            m.handle_packet, m.handle_quic_packet = real_hp, real_hq
            tool._reset_module_state(m)


def replay_cross_routing():
    """The witness of `C04.Ex.quic_route_counterexample` on the REAL `handle_quic_packet` (recording sessions, real sets):
    returns the decisions for a1, b1, b2 merged and for b1, b2 alone."""
    from tlexport.packet import Packet
    ip = lambda x: bytes([10, 0, 0, x])
    long = lambda d: bytes([0xC0, 0, 0, 0, 1, len(d)]) + d + bytes([0, 1, 2, 3])
    a1 = dict(tag=1, l4="u", sip=ip(1), sport=5000, dip=ip(9), dport=443, payload=long(b"\xaa"), ck=True, cc=[b"\x02"], sc=[b"\xaa"])
    b1 = dict(tag=2, l4="u", sip=ip(2), sport=6000, dip=ip(9), dport=443, payload=long(b"\xbb"), ck=True, cc=[b"\x02\x07"], sc=[b"\xbb"])
    b2 = dict(tag=3, l4="u", sip=ip(9), sport=443, dip=ip(2), dport=6000, payload=bytes([0x40, 2, 7, 99, 98]), ck=True, cc=[], sc=[])
    res = {}
    rec = Recorder()
    with Patched(rec) as m:
        m.server_ports[:] = [443, 44330, 443]
        for name, seq in (("merged", [a1, b1, b2]), ("alone", [b1, b2])):
            qs, out = [], []
            rec.script = {p["tag"]: (p["cc"], p["sc"]) for p in seq}
            for p in seq:
                before = len(qs)
                m.handle_quic_packet(Packet(frame_of(p), float(p["tag"])), [], qs, {}, True)
                out.append(rec.decision("quic", before, qs))
            res[name] = out
    return res


def correspond(ctx, scale=1):
    import logging
    import fw
    logging.disable(logging.CRITICAL)
    with fw.quiet():
        corr_routing(ctx, ctx.n(3000, 40000) * scale)
        corr_run(ctx, ctx.n(400, 6000) * scale)
