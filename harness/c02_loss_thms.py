"""Theorems of lean/TLX/Props/C02Loss.lean that close the row "delete, cut-before (QUIC, handshake)" of C03's fault table
(Props/ExportFaults2.lean): QUIC losses INSIDE the handshake, on the packet-level session model Quic.Session.
  dead_run / dead_flow                          the invariant: decryptors with keys outside K stay dead; only Initial-type
                                                frames (and VERSION_NEG pseudo frames) reach output_buffer; nothing raises
  client_hello_fragment_lost_exports_nothing    parser never completes a hello => set_tls_decryptors never reached, keyless
  server_hello_lost_exports_nothing             PARTIAL (hypothesis KeysDead): keys exist from the ClientHello on (first
                                                offered suite) but are not the senders'
  Ex.server_hello_lost_first_offered_exports    kernel-checked: without KeysDead the ServerHello-lost statement is false
                                                (first offered suite = suite in use: 1-RTT data is exported)
  Ex.client_hello_fragment_lost, Ex.fragment_hyps   kernel-checked instance / satisfiable parser hypotheses"""
MODULES = ["TLX.Props.C02Loss"]
_A = "TLX.Props.C02Loss."
THEOREMS = [_A + n for n in [
    "dead_run", "dead_flow", "decryptPacket_dead", "selectDecryptor_dead", "handleFrames_dead",
    "client_hello_fragment_lost_exports_nothing", "server_hello_lost_exports_nothing", "installGroups_dead",
    "Ex.client_hello_fragment_lost", "Ex.server_hello_lost_first_offered_exports", "Ex.fragment_hyps",
]]
