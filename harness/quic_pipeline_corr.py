"""Whole-program correspondence for QUIC: the REAL tool (`tlexport.main.run()`, in-process, every module unmodified)
against the composed Lean model `TLX.QuicPipeline` (+ `TLX.Pipeline` for TLS over TCP) inside `TLX.MainLoop.run`
(driver module `pipeline`).

Both sides run in the same TOY world: the toy AEAD classes of harness/toy_crypto.py (= lean/TLX/Crypto/Toy.lean) for
AESGCM / ChaCha20Poly1305 / AESCCM in `tlexport.quic.quic_session`, the toy header-protection mask `toy_mask` of
harness/q2a_dissect.py (= `TLX.Drv.Dissect.toyMask`) for `make_hp_mask` / `make_chacha_hp_mask` in
`tlexport.quic.quic_dissector`, and the same replacements in the independent sender harness/gen_quic.py so that the
generated traffic is VALID toy traffic. Hashes and with them the whole QUIC key schedule (`dev_initial_keys`,
`dev_quic_keys`, `key_update`: HKDF over SHA-256/384) are REAL on both sides (hashlib/cryptography / Lean's own SHA-2).
What is compared: every frame of the output file (L4 protocol, time, MACs, IPs, IP version, ports, flags, seq, ack,
payload), in file order.

Entry points: MODULES, THEOREMS, toy_quic_world(), correspond(ctx, n).   Standalone: harness/qp_selftest.py.
"""
import contextlib

import e2e
import gen_quic
import pipeline_corr
import q2a_dissect
import tool
import toy_crypto as T
import wire

MODULES = ["TLX.Props.C02Pipeline", "TLX.Props.C02Capstone"]
P = "TLX.Props.C02Pipeline."
THEOREMS = [P + t for t in (
    "quic_conn_never_raises", "quic_machine_never_raises", "quic_run_never_raises", "quic_out_bytes_from_frames",
    "quic_out_addressed", "handleRecord_err_indep", "initial_keys_never_raise", "key_update_never_raises",
    "tls_no_raise_rtt1", "tls_quiet_rtt1", "one_rtt_crypto_keeps_keys", "tls_quiet_rtt1_counterexample",
    "after_tls_hp_exact", "after_tls_hp_unchanged", "decryptPacket_keeps", "feedPre_verOk", "handleTurn_verOk")]
THEOREMS += ["TLX.Props.C02Capstone." + t for t in (
    "quic_one_rtt_connection_exact", "quic_connection_exact_partial", "datagram_step", "feedAll_exact", "step_one_rtt_nc",
    "genKeys_eq_rfc", "keysWf_rfc", "devQuic_rfc", "first_initial_rfc", "hello_establishes", "hello_establishes_rfc",
    "crypto_not_exported", "est_keylog_irrelevant",
    "quic_handshake_establishes", "quic_connection_exact", "step_long_eq", "afterTls_hs", "handleCrypto_hs",
    "handleFrames_hs", "hs_packet_step", "hs_turn", "hs_loop", "hs_feed_step", "hs_feed_rest", "est_of_hsSt",
    "feedPre_fresh", "feedPre_hs", "longOf_toPkt", "ExHs.ptrace_ex", "ExHs.fired_ex",
    "ptrace_of_conformant", "ptrace_phase", "tlsUpdate_kstep", "inv_complete", "msgLoop_handshake_cons", "feed_flight",
    "quic_connection_exact_conformant", "keyed_of_handshake", "quic_handshake_establishes_from", "after_retry_pre",
    "retry_feed", "quic_connection_exact_retry", "ExConf.hsx_ok")]
POINT = "run(): whole QUIC export, real tool vs TLX.QuicPipeline (toy AEAD + toy hp mask, real key schedule)"


# ----------------------------------------------------------------------------- the toy world
@contextlib.contextmanager
def toy_quic_world():
    import tlexport.quic.quic_dissector as QD
    import tlexport.quic.quic_session as QS
    saved = []

    def put(obj, name, val):
        saved.append((obj, name, getattr(obj, name)))
        setattr(obj, name, val)

    for n in ("AESGCM", "ChaCha20Poly1305", "AESCCM"):
        put(QS, n, T.TOY[n])
        put(gen_quic, n, T.TOY[n])
    put(QD, "make_hp_mask", lambda hp_key, sample: q2a_dissect.toy_mask(False, hp_key, sample))
    put(QD, "make_chacha_hp_mask", lambda hp_key, sample: q2a_dissect.toy_mask(True, hp_key, sample))
    put(gen_quic.Keys, "mask", lambda self, sample: q2a_dissect.toy_mask(self.kind == "chacha", self.hp, sample))
    try:
        yield
    finally:
        for o, n, v in reversed(saved):
            setattr(o, n, v)


@contextlib.contextmanager
def both_worlds():
    with pipeline_corr.toy_world(), toy_quic_world():
        yield


# ----------------------------------------------------------------------------- model input
def hx(b):
    return bytes(b).hex() if len(b) else "-"


def model_lines(items, keylog_lines, opt):
    """items: [("pkt", ts_us, frame) | ("dsb", text bytes of well-formed key-log lines)]; opt: dict(c,g,a,p,m)"""
    out = ["reset", f"opt {opt['c']} {opt['g']} {opt['a']} {opt['p']} {opt['m']}"]
    if keylog_lines is None:
        out.append("nokeyfile")
    else:
        out += [f"key {l.encode().hex()}" for l in keylog_lines]
    for tag, it in enumerate(items):
        if it[0] == "dsb":
            ls = [l for l in it[1].decode("ascii").replace("\r", "").split("\n") if l]
            out.append("dsb " + " ".join(l.encode().hex() for l in ls) if ls else "dsb")
            continue
        _, ts, frame = it
        try:
            d = wire.parse_frame(frame)
        except wire.FrameError:
            d = None
        if d is None:
            out.append(f"pkt {tag} other - 0 - 0 1 0 {ts} - - 0 -")
            continue
        l4 = "tcp" if d["proto"] == 6 else "udp"
        out.append(f"pkt {tag} {l4} {hx(d['src'])} {d['sport']} {hx(d['dst'])} {d['dport']} 1 {d.get('seq', 0)} {ts} "
                   f"{hx(d['smac'])} {hx(d['dmac'])} {1 if d['v6'] else 0} {hx(d['payload'])}")
    out.append("run")
    return out


# ----------------------------------------------------------------------------- case generation
def rebuild_udp(frame, payload):
    d = wire.parse_frame(frame)
    return wire.udp_frame(d["smac"], d["dmac"], d["src"], d["dst"], d["sport"], d["dport"], payload)


def udp_indices(items):
    out = []
    for k, it in enumerate(items):
        if it[0] != "pkt":
            continue
        try:
            d = wire.parse_frame(it[2])
        except wire.FrameError:
            continue
        if d["proto"] == 17 and len(d["payload"]) > 0:
            out.append(k)
    return out


@contextlib.contextmanager
def same_cid_sender():
    """connections made inside use ONE connection-ID value for both endpoints"""
    orig = gen_quic.QConn

    class SameCid(orig):
        def __init__(self, *a, **k):
            super().__init__(*a, **k)
            self.scid_s = self.scid_c
            self.dcid_for_client = self.scid_s

    gen_quic.QConn = SameCid
    try:
        yield
    finally:
        gen_quic.QConn = orig


def post_handshake(rng, c):
    """more 1-RTT traffic after the generated connection: CRYPTO frames in 1-RTT packets (NewSessionTicket — exported
    with -a, must not disturb the keys; or, from a misbehaving peer, an EncryptedExtensions / ServerHello-typed message,
    which makes the tool run set_tls_decryptors again), then key updates and more STREAM data"""
    kind = rng.choice(["nst", "nst", "nst-split", "ee-1rtt", "sh-1rtt"])
    d = 1 if kind != "ee-1rtt" or rng.random() < 0.7 else 0
    if kind == "nst":
        msg = gen_quic.hs(4, rng.randbytes(rng.randrange(20, 120)))
    elif kind == "nst-split":
        msg = gen_quic.hs(4, rng.randbytes(rng.randrange(40, 200))) + gen_quic.hs(4, rng.randbytes(30))
    elif kind == "ee-1rtt":
        msg = gen_quic.hs(8, b"\0\0")
    else:
        msg = gen_quic.server_hello(rng.randbytes(32), rng.choice([b"\x13\x01", b"\x13\x02", b"\x13\x03"]), rng)
    if kind == "nst-split":
        cut = rng.randrange(1, len(msg))
        parts = [(cut, msg[cut:]), (0, msg[:cut])] if rng.random() < 0.5 else [(0, msg[:cut]), (cut, msg[cut:])]
    else:
        parts = [(0, msg)]
    off = {}
    for o, part in parts:
        data = rng.randbytes(rng.randrange(0, 60))
        chunks = [(3 if d else 2, off.get(d, 0), data, False)] if data else []
        off[d] = off.get(d, 0) + len(data)
        c.app(d, chunks, other_before=gen_quic.f_crypto(o, part))
    for i in range(rng.randrange(2, 7)):
        dd = rng.randrange(2)
        if rng.random() < 0.35:
            c.key_update(dd)
        data = rng.randbytes(rng.randrange(1, 150))
        sid = (7 if dd else 6)
        c.app(dd, [(sid, off.get((dd, sid), 0), data, False)])
        off[(dd, sid)] = off.get((dd, sid), 0) + len(data)
    return kind


def apply_fault(rng, fault, items, owner, keylines, nq):
    """one fault, chosen by `fault` in [0, 1); mutates its arguments; → name of what was done"""
    what = "none"
    uidx = udp_indices(items)
    if fault < 0.08:
        i = rng.randrange(nq)
        if keylines[i]:
            del keylines[i][rng.randrange(len(keylines[i]))]
            what = "drop-key-line"
    elif fault < 0.14:
        i = rng.randrange(nq)
        k = rng.randrange(len(keylines[i]))
        lab, cr, val = keylines[i][k].split(" ")
        keylines[i][k] = f"{lab} {cr} {rng.randbytes(len(val) // 2).hex()}"
        what = "wrong-secret"
    elif fault < 0.24 and uidx:
        k = rng.choice(uidx)
        _, ts, fr = items[k]
        pl = bytearray(wire.parse_frame(fr)["payload"])
        # header bytes are the interesting ones: first byte, version, CID lengths, CIDs, Length, packet number
        pos = rng.randrange(min(len(pl), 40)) if rng.random() < 0.6 else rng.randrange(len(pl))
        pl[pos] ^= 1 << rng.randrange(8)
        items[k] = ("pkt", ts, rebuild_udp(fr, bytes(pl)))
        what = "bit-flip"
    elif fault < 0.32 and uidx:
        k = rng.choice(uidx)
        del items[k]
        del owner[k]
        what = "drop-datagram"
    elif fault < 0.38 and uidx:
        k = rng.choice(uidx)
        _, ts, fr = items[k]
        pl = wire.parse_frame(fr)["payload"]
        items[k] = ("pkt", ts, rebuild_udp(fr, pl[:rng.randrange(1, len(pl) + 1)]))
        what = "truncate"
    elif fault < 0.44 and uidx:
        k = rng.choice(uidx)
        _, ts, fr = items[k]
        j = rng.randrange(k + 1, len(items) + 1)
        items.insert(j, ("pkt", items[j - 1][1] + 1, fr))
        owner.insert(j, owner[k])
        what = "duplicate"
    elif fault < 0.52 and uidx:
        # garbage on a live connection's address pair (either direction), short or long header
        k = rng.choice(uidx)
        _, ts, fr = items[k]
        pl = wire.parse_frame(fr)["payload"]
        first = rng.choice([0x40, 0x44, 0x5f, 0xc0, 0xe0, 0xd0, 0xf0, 0x00, 0x80])
        junk = bytes([first]) + (pl[1:rng.randrange(1, 30)] if rng.random() < 0.7 else b"") + rng.randbytes(rng.randrange(0, 60))
        items.insert(k + 1, ("pkt", ts + 1, rebuild_udp(fr, junk)))
        owner.insert(k + 1, owner[k])
        what = "inject-garbage"
    elif fault < 0.56 and uidx:
        # a version-negotiation-looking / unknown-version long header at the start
        k = uidx[0]
        _, ts, fr = items[k]
        pl = bytearray(wire.parse_frame(fr)["payload"])
        if pl[0] & 0x80 and len(pl) > 5:
            pl[1:5] = rng.choice([b"\0\0\0\0", b"\0\0\0\2", b"\x1a\x2a\x3a\x4a"])
            items.insert(k, ("pkt", ts - 1, rebuild_udp(fr, bytes(pl[:rng.randrange(7, len(pl) + 1)]))))
            owner.insert(k, owner[k])
            what = "other-version-first"
    elif fault < 0.60 and len(uidx) >= 2:
        # two datagrams of the capture glued into one (coalescing the sender never did; second part may be a short header)
        k, j = rng.sample(uidx, 2)
        _, ts, fr = items[k]
        a, b = wire.parse_frame(fr)["payload"], wire.parse_frame(items[j][2])["payload"]
        items[k] = ("pkt", ts, rebuild_udp(fr, (a + b)[:1400]))
        what = "splice"
    elif fault < 0.64 and len(uidx) >= 2:
        # late arrival: a datagram captured several datagrams after its place
        k = rng.choice(uidx[:-1])
        it, ow = items.pop(k), owner.pop(k)
        j = min(len(items), k + rng.randrange(1, 6))
        items.insert(j, ("pkt", items[j - 1][1] + 1, it[2]))
        owner.insert(j, ow)
        what = "late"
    return what


def one_case(rng, force=None):
    """→ (items, keylog lines | None, argv, opt dict, description)"""
    force = dict(force or {})
    nq = force.get("nq", rng.choice([1, 1, 1, 2, 2, 3]))
    sports = [rng.choice([443, 443, 443, 44330, 8443]) for _ in range(nq)]
    conns, feats = [], []
    for i in range(nq):
        feat = {"endpoints": {"sport": sports[i]}, **force.get("features", {})}
        same = rng.random() < force.get("same_cid", 0.05)
        if same:
            # RFC 9000 §5.1: each endpoint picks its own connection IDs; nothing keeps both from picking the same bytes
            n = rng.choice([1, 4, 8])
            feat.update({"scid_c_len": n, "scid_s_len": n, "retry": False, "prefix_cid": False})
            with same_cid_sender():
                c, f = gen_quic.random_connection(rng, i, features=feat)
        else:
            c, f = gen_quic.random_connection(rng, i, features=feat)
        f["same_cid"] = same
        f["post"] = post_handshake(rng, c) if rng.random() < force.get("post", 0.3) else "none"
        conns.append(c)
        feats.append(f)
    merged = []
    for i, c in enumerate(conns):
        merged += [(ts, i, k, fr) for k, (_, ts, fr) in enumerate(c.items)]
    # TLS over TCP next to it (the other half of the program) in some captures
    ntls = force.get("ntls", rng.choice([0, 0, 0, 1, 2]))
    tls_keys, tls_desc = [], []
    if ntls:
        combos = [e2e.random_combo(rng) for _ in range(ntls)]
        sc = e2e.Scenario(rng, combos, sports=[rng.choice([443, 44330]) for _ in range(ntls)])
        # same clock as the QUIC connections: TLS packets keep their order, shifted onto the QUIC time base
        t0 = min(m[0] for m in merged) - sc.items[0][1] + rng.randrange(0, 200_000)
        merged += [(ts + t0, 100, k, fr) for k, (_, ts, fr) in enumerate(sc.items)]
        tls_keys = list(sc.keylog)
        tls_desc = [(hex(c), v, e) for c, v, e in combos]
    merged.sort(key=lambda m: (m[0], m[1], m[2]))
    items = [("pkt", ts, fr) for ts, _, _, fr in merged]
    owner = [m[1] for m in merged]
    # noise: unrelated TCP/UDP, garbage "QUIC" to port 443, garbage on a live connection's 4-tuple
    for f in pipeline_corr.noise_frames(rng, rng.randrange(0, 4)):
        k = rng.randrange(0, len(items) + 1)
        ts = items[k - 1][1] + 1 if k else items[0][1] - 1
        items.insert(k, ("pkt", ts, f))
        owner.insert(k, -1)
    keylines = [c.keylog_lines() for c in conns]
    if force.get("storm", rng.random() < 0.08):
        done = [apply_fault(rng, rng.random() * 0.64, items, owner, keylines, nq) for _ in range(rng.randrange(3, 9))]
        what = "storm(" + ",".join(sorted(set(done))) + ")"
    else:
        what = apply_fault(rng, rng.random() if "fault" not in force else force["fault"], items, owner, keylines, nq)
    # key material: the -s file, or decryption-secrets blocks inside the capture (QUIC reads the key log ONLINE: a block
    # that comes after the handshake is too late for it)
    keylog = [l for ls in keylines for l in ls] + tls_keys
    rng.shuffle(keylog)
    dsb = "none"
    r = rng.random() if "dsb" not in force else force["dsb"]
    if r < 0.12:
        # everything in one block at the start, no -s
        items.insert(0, ("dsb", ("\n".join(keylog) + "\n").encode()))
        keylog, dsb = None, "all-at-start/no-s"
    elif r < 0.24 and nq >= 1:
        # one connection's lines in a block somewhere in the capture, the rest in the -s file
        i = rng.randrange(nq)
        mine = set(keylines[i])
        first = next((k for k, o in enumerate(owner) if o == i), 0)
        pos = first if rng.random() < 0.6 else rng.randrange(0, len(items) + 1)
        items.insert(pos, ("dsb", ("\r\n" if rng.random() < 0.3 else "\n").join(keylines[i]).encode() + b"\n"))
        keylog = [l for l in keylog if l not in mine]
        dsb = "one-conn-before-it" if pos == first else "one-conn-anywhere"
    opt = {"c": int(rng.random() < 0.1), "g": int(rng.random() < 0.2), "a": int(rng.random() < 0.45), "p": "-", "m": "-"}
    argv = []
    if opt["c"]:
        argv.append("-c")
    if opt["g"]:
        argv.append("-g")
    if opt["a"]:
        argv.append("-a")
    if 8443 in sports and rng.random() < 0.75:
        opt["p"] = "8443"
        argv += ["-p", "8443"]
    r = rng.random()
    if r < 0.15:
        opt["m"] = "bare"
        argv += ["-m"]
    elif r < 0.3:
        opt["m"] = "443:9443"
        argv += ["-m", "443:9443"]
    elif r < 0.36:
        opt["m"] = "443:9443,8443:8444"
        argv += ["-m", "443:9443", "8443:8444"]
    desc = {"quic": [{k: (f"{v:04X}" if k == "suite" else v) for k, v in f.items() if k != "endpoints"} for f in feats],
            "sports": sports, "tls": tls_desc, "fault": what, "dsb": dsb, "argv": argv}
    return items, keylog, argv, opt, desc


# ----------------------------------------------------------------------------- the run
def run_real(items, keylog, argv):
    r = tool.run(wire.pcapng(items), None if keylog is None else "\n".join(keylog) + "\n", argv)
    if r.crashed:
        return "crash:" + r.signature()
    try:
        return pipeline_corr.render_out(r.out)
    except wire.FrameError as e:
        return f"bad-frame:{e}"


def correspond(ctx, n=None, force=None):
    n = n if n is not None else ctx.n(60, 1200)
    rng = ctx.rng
    pt = ctx.point(POINT)
    with both_worlds():
        cases = [one_case(rng, force) for _ in range(n)]
        lines, spans = [], []
        for items, keylog, argv, opt, desc in cases:
            ml = model_lines(items, keylog, opt)
            spans.append((len(lines), len(ml)))
            lines += ml
        model = ctx.driver("pipeline", lines, timeout=3600)
        for (items, keylog, argv, opt, desc), (a, k) in zip(cases, spans):
            bad = [x for x in model[a:a + k - 1] if x != "ok"]
            want = model[a + k - 1] if not bad else f"driver:{bad[0]}"
            got = run_real(items, keylog, argv)
            pt["cases"] += 1
            rows = [] if got == "empty" else got.split(" ")
            nudp = sum(1 for x in rows if x.startswith("u:"))
            ntcp = sum(1 for x in rows if x.startswith("t:"))
            ctx.count(("qpipeline", str(desc), len(items)), nontrivial=nudp > 0)
            ctx.hist("qp-fault", desc["fault"].split("(")[0])
            ctx.hist("qp-dsb", desc["dsb"])
            ctx.hist("qp-result", ("udp" if nudp else "") + ("+tcp" if ntcp else "") or "empty")
            ctx.hist("qp-udp-frames", "0" if nudp == 0 else "1-5" if nudp <= 5 else "6-20" if nudp <= 20 else ">20")
            ctx.hist("qp-connections", f"{len(desc['quic'])} quic + {len(desc['tls'])} tls")
            ctx.hist("qp-options", " ".join(desc["argv"]) or "(none)")
            for f in desc["quic"]:
                ctx.hist("qp-suite", f["suite"])
                for kk in ("retry", "zero_rtt", "ch_split", "key_updates", "new_cid", "pn_big", "v6", "offer_order"):
                    ctx.hist("qp-" + kk, f[kk])
                ctx.hist("qp-post-handshake", f["post"])
                ctx.hist("qp-same-cid-both-endpoints", f["same_cid"])
                ctx.hist("qp-cid-lens", f"{min(f['scid_c_len'], 1)}/{min(f['scid_s_len'], 1)} (0=empty)")
            if got != want:
                gi, wi = got.split(" "), want.split(" ")
                k0 = next((i for i, (x, y) in enumerate(zip(gi, wi)) if x != y), min(len(gi), len(wi)))
                ctx.disagree(POINT, {"desc": desc, "capture_hex": wire.pcapng(items).hex(), "keylog": keylog, "argv": argv,
                                     "toy_world": "quic+tls"},
                             f"{len(gi)} frames; first difference at #{k0}: {gi[k0][:200] if k0 < len(gi) else '<end>'}",
                             f"{len(wi)} frames; first difference at #{k0}: {wi[k0][:200] if k0 < len(wi) else '<end>'}")
    return pt


# ----------------------------------------------------------------------------- a finding the composition surfaced
def same_cid_witness(seed=0, n=4):
    """C02 on the REAL code, real crypto: a conformant QUIC v1 connection whose two endpoints chose the same connection-ID
    bytes (RFC 9000 §5.1 lets each endpoint pick its own; 1-byte CIDs collide once in 256 connections). `packet_isserver`
    looks the routing DCID up in `server_cids` first, finds it (it is ALSO the server's own CID) and takes every
    server→client packet for a client packet: nothing of the connection is exported. Returns a replay object in the shape
    harness/c02.py `replay` reads, plus what the tool exported."""
    import random
    import c02
    rng = random.Random(seed)
    with same_cid_sender():
        c = gen_quic.QConn(rng, suite=0x1301, scid_c_len=n, scid_s_len=n)
    c.scid_s = c.scid_c
    c.dcid_for_client = c.scid_s
    c.handshake()
    for i in range(6):
        c.app(i % 2, [(i % 2, i // 2 * 10, rng.randbytes(10), False)])
    cap, kl = wire.pcapng(c.items), "\n".join(c.keylog_lines()) + "\n"
    r = tool.run(cap, kl)
    got = None if r.crashed else c02.exported(r.out, c)
    return {"property": "C02", "signature": "C02:{same-cid}:datagram-mismatch",
            "case": {"capture_hex": cap.hex(), "keylog": kl, "argv": [],
                     "endpoint": {"cip": c.cip.hex(), "cport": c.cport, "sip": c.sip.hex(), "sport": c.sport},
                     "expect": [(t, d, b.hex()) for t, d, b in c.expect]},
            "exported_datagrams": None if got is None else len(got), "expected_datagrams": len(c.expect)}
