"""FILE-TO-FILE correspondence: the bytes of the output file the REAL tool writes against the bytes the composed Lean
model computes from the bytes of the capture file and the key-log file.

  model:  TLX.Ingest (pcapng/pcap reader + DSB key lines + dpkt dissection + checksum verdicts)
          → TLX.MainLoop.runFrom with TLX.Pipeline.tlsMachine and TLX.QuicPipeline.quicMachine
          → TLX.OutBytes.fileOf (scapy serialisation + dpkt pcapng writer)          [driver op `runfile`]
  tool:   `tlexport.main.run()` in-process, unmodified, in the toy world of pipeline_corr / quic_pipeline_corr
          (toy ciphers, toy AEAD, toy header-protection mask on both sides; hashes, key schedules, parsing, framing,
          checksums, serialisation and file formats are the real thing on both sides).

Captures come from the whole-program generators (TLS + QUIC connections, faults, options, DSB placement) and are
written in several container variants (little/big endian pcapng, if_tsresol / if_tsoffset options, unrelated blocks,
legacy pcap µs/ns); foreign frames of odd shapes (VLAN tags, IPv6 extension headers, fragments, non-IP) are mixed in.
"""
import struct

import containers  # noqa: F401  (kept importable for variant ideas; wire.pcapng implements the variants used here)
import fw
import pipeline_corr
import quic_pipeline_corr as qp
import tool
import wire

MODULES = ["TLX.Props.C06Bytes", "TLX.Props.C12Dissect"]
POINT = "run(): output FILE bytes, real tool vs Ingest → MainLoop(Pipeline, QuicPipeline) → OutBytes"


def odd_frames(rng, t):
    """foreign traffic of shapes that exercise the dissector: VLAN-tagged TCP, IPv6 with extension headers, IPv4
    fragments, ARP, a frame of 14 bytes; none of it may show up in the export"""
    out = []
    base = wire.tcp_frame(b"\x02" * 6, b"\x04" * 6, bytes([10, 5, 5, 1]), bytes([10, 5, 5, 2]), 40000, 8080, 1, 1, 0x18,
                          rng.randbytes(rng.randrange(1, 40)))
    r = rng.random()
    if r < 0.25:
        out.append(base[:12] + b"\x81\x00" + struct.pack(">H", rng.randrange(1, 4095)) + base[12:])       # 802.1Q
    elif r < 0.45:
        out.append(b"\xff" * 6 + b"\x02" * 6 + b"\x08\x06" + rng.randbytes(28))                           # ARP
    elif r < 0.6:
        out.append(b"\x02" * 6 + b"\x04" * 6 + b"\x88\xb5")                                              # 14 bytes, local experimental
    elif r < 0.8:
        ip = bytearray(base[14:])
        ip[6:8] = struct.pack(">H", 0x2000 | rng.randrange(1, 100))                                      # a later fragment
        ip[10:12] = b"\0\0"
        ip[10:12] = struct.pack(">H", wire.csum(bytes(ip[:20])))
        out.append(base[:14] + bytes(ip))
    else:
        out.append(base + rng.randbytes(rng.randrange(1, 6)))                                             # Ethernet trailer
    return [("pkt", t + i + 1, f) for i, f in enumerate(out)]


def write_capture(rng, items):
    """→ (file bytes, legacy flag, description)"""
    has_dsb = any(it[0] == "dsb" for it in items)
    r = rng.random()
    if r < 0.45:
        return wire.pcapng(items), False, "pcapng-le"
    if r < 0.6:
        return wire.pcapng(items, be=True), False, "pcapng-be"
    if r < 0.7:
        return wire.pcapng(items, extra_blocks=True, shb_opts=True), False, "pcapng-extra-blocks"
    if r < 0.8:
        return wire.pcapng(items, tsresol=rng.choice([6, 9, 3])), False, "pcapng-tsresol"
    if r < 0.86:
        return wire.pcapng(items, tsoffset=rng.choice([1, 1_000_000, 1_700_000_000])), False, "pcapng-tsoffset"
    if has_dsb:
        return wire.pcapng(items), False, "pcapng-le"
    pk = [it for it in items if it[0] == "pkt"]
    if r < 0.94:
        return wire.pcap_legacy(pk), True, "pcap-us"
    return wire.pcap_legacy(pk, nano=True), True, "pcap-ns"


def correspond(ctx, n=None):
    n = n if n is not None else ctx.n(50, 800)
    rng = ctx.rng
    pt = ctx.point(POINT)
    with qp.both_worlds():
        cases, lines = [], []
        for _ in range(n):
            items, keylog, argv, opt, desc = qp.one_case(rng) if rng.random() < 0.55 else _tls_case(rng)
            if rng.random() < 0.5:
                k = rng.randrange(0, len(items) + 1)
                t = items[k - 1][1] if k and items[k - 1][0] == "pkt" else 1_700_000_000_000_000
                items = items[:k] + odd_frames(rng, t) + items[k:]
            cap, legacy, variant = write_capture(rng, items)
            argv = list(argv) + (["-l"] if legacy else [])
            kl = None if keylog is None else ("\n".join(keylog) + "\n")
            if kl is not None and rng.random() < 0.2:
                kl = kl.replace("\n", "\r\n")                                     # a key log written on Windows
            cases.append((cap, kl, argv, legacy, variant, desc))
            lines += ["reset", f"opt {opt['c']} {opt['g']} {opt['a']} {opt['p']} {opt['m']}",
                      f"runfile {1 if legacy else 0} {kl.encode().hex() if kl is not None else '-'} {cap.hex()}"]
        model = ctx.driver("pipeline", lines, timeout=3600)
        for i, (cap, kl, argv, legacy, variant, desc) in enumerate(cases):
            want = model[3 * i + 2]
            del pipeline_corr.DEFLATE_SEEN[:]
            r = tool.run(cap, kl, argv, infile_name="in.pcap" if legacy else "in.pcapng")
            if pipeline_corr.DEFLATE_SEEN:
                ctx.hist("file-skipped", "DEFLATE negotiated by a damaged ServerHello (record compression is not modelled)")
                continue
            if r.crashed:
                got = "abort:" + (r.exc or "?")
            else:
                got = "file:" + (r.out.hex() if r.out else "-")
            pt["cases"] += 1
            ctx.hist("file-variant", variant)
            ctx.hist("file-outcome", "abort" if got.startswith("abort") else ("export" if len(got) > 200 else "empty-export"))
            ctx.count(("file", variant, len(cap), str(desc)[:200]), nontrivial=len(got) > 400)
            same = got == want or (got.startswith("abort:") and want.startswith("abort:"))
            if not same:
                k0 = next((j for j, (x, y) in enumerate(zip(got, want)) if x != y), min(len(got), len(want)))
                ctx.disagree(POINT, {"variant": variant, "capture_hex": cap.hex(), "keylog": kl, "argv": argv,
                                     "desc": desc, "toy_world": "quic+tls"},
                             f"{len(got)} chars; first difference at char {k0}: …{got[max(0, k0 - 20):k0 + 60]}",
                             f"{len(want)} chars; first difference at char {k0}: …{want[max(0, k0 - 20):k0 + 60]}")
    return pt


def _tls_case(rng):
    items, keylog, argv, opt, desc = pipeline_corr.one_case(rng)
    return items, keylog, argv, opt, {"tls": desc}
