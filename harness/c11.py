"""C11 — with -c exactly the packets with a bad transport checksum are ignored.

proof:          lean/TLX/Props/C11.lean (fold_eq_rfc1071, check_eq_rfc_verify, run_c_eq_run_filter, …)
correspondence: Lean `TLX.Checksum` (tlxdriver csum) vs the real `ones_complement_checksum` and
                `calculate_checksum_tcp/udp` on real `tlexport.packet.Packet` objects
oracle:         (b) the real functions vs an independent RFC 1071 receiver (`c11_wire.receiver_verdict`)
                (c) end to end: `run(-c, capture)` == `run(no -c, capture minus bad packets)` byte for byte
"""
import contextlib
import hashlib
import io
import os
import shutil
import struct
import sys
import tempfile

import fw
import c11_wire as W
import wire
import c11_tls as T
import c11_quic as Q

THEOREMS = ["TLX.Props.C11." + t for t in (
    "fold_eq_rfc1071", "fold_le", "ones_complement_checksum_total", "prefix_loop_counterexample",
    "wordSum_append", "wordSum_pad_field", "ocSum_eq_fold",
    "check_eq_rfc_verify", "check_never_raises", "check_udp4_nochecksum",
    "step_c", "run_c_eq_run_filter", "step_collect", "filterValid_eq_filter")]

# 32-bit sums (pseudo-header + segment, checksum field zero) every fold boundary is made of
TARGETS = sorted(set(
    [k * 0x10000 + d for k in range(1, 9) for d in (-2, -1, 0, 1, 2)] +
    [k * 0xFFFF + d for k in range(1, 9) for d in (-2, -1, 0, 1, 2)] +
    [0x10000 + k * 0xFFFF for k in range(0, 40)] +            # the sums that fold through exactly 0x10000
    [k * 0xFFFF for k in range(1, 40)]))                       # the sums whose checksum is 0x0000
GRID_TARGETS = [t for t in TARGETS if t <= 0x80002] + [0x10000 + 20 * 0xFFFF, 33 * 0xFFFF]


SEVERITY = ("crash", "valid-rejected", "ffff-rejected", "export-differs", "invalid-accepted", "zero-accepted",
            "wrong-value")


def report(ctx, signature, what, case, expected=None, actual=None):
    """ctx.fail, but at most two examples per signature so that every distinct defect gets a replay."""
    seen = ctx.extra.setdefault("failures_by_signature", {})
    seen[signature] = seen.get(signature, 0) + 1
    if seen[signature] <= 2:
        ctx.fail(signature, what, case, expected=expected, actual=actual, how="bin/check C11 --replay <this file>")


def finish(ctx, search):
    """Most severe failure first (it becomes the VIOLATION's replay); one more replay file per signature."""
    def rank(f):
        tail = f["signature"].split(":")[-1]
        return next((i for i, s in enumerate(SEVERITY) if tail.startswith(s)), len(SEVERITY))
    ctx.failures.sort(key=rank)
    first = {}
    for f in ctx.failures:
        first.setdefault(f["signature"], f)
    if len(first) > 1:
        ctx.extra["replays_by_signature"] = {
            sig: ctx.write_replay({"property": ctx.pid, "kind": "failing-input", "found_failing_input": True,
                                   "seed": ctx.seed, "tier": ctx.tier, **f})
            for sig, f in first.items()}
    return ctx.finish(search=search)


def canon(f, *a):
    try:
        r = f(*a)
    except OverflowError:
        return "err:overflow"
    except AttributeError:
        return "err:attr"
    except Exception as e:  # noqa
        return "err:" + type(e).__name__
    if r is True:
        return "ok"
    if r is False:
        return "bad"
    return "ret:" + repr(r)


def hx(b):
    return bytes(b).hex() or "-"


class Impl:
    def __init__(self):
        from tlexport.packet import Packet
        from tlexport import checksums
        self.Packet = Packet
        self.cs = checksums

    def packet(self, frame, ts=1.0):
        try:
            return self.Packet(frame, ts)
        except Exception:  # noqa  (dissection trouble is C03's business)
            return None

    def l4(self, p):
        """6 / 17 / None as the main loop dispatches."""
        if p is None:
            return None
        if p.tcp_packet:
            return 6
        if p.udp_packet:
            return 17
        return None

    def check(self, p):
        return canon(self.cs.calculate_checksum_tcp if p.tcp_packet else self.cs.calculate_checksum_udp, p)

    def csum(self, data):
        try:
            return hx(self.cs.ones_complement_checksum(bytearray(data)))
        except OverflowError:
            return "err:overflow"
        except Exception as e:  # noqa
            return "err:" + type(e).__name__


# ------------------------------------------------------------------ generation
def rand_header(rng, v6, proto, small):
    if small:      # low-valued fields so that small 32-bit sums are reachable
        src = (b"\x00" * 15 + bytes([rng.randrange(1, 4)])) if v6 else bytes([1, 0, 0, rng.randrange(1, 4)])
        dst = (b"\x00" * 15 + bytes([rng.randrange(1, 4)])) if v6 else bytes([1, 0, 0, rng.randrange(4, 8)])
        return dict(v6=v6, proto=proto, src=src, dst=dst, sport=rng.randrange(1, 64), dport=rng.randrange(1, 64),
                    seq=rng.randrange(0, 64), ack=rng.randrange(0, 64), flags=0x18, win=rng.randrange(0, 64), urp=0)
    n = 16 if v6 else 4
    src = bytes(rng.getrandbits(8) for _ in range(n))
    dst = bytes(rng.getrandbits(8) for _ in range(n))
    d = dict(v6=v6, proto=proto, src=src, dst=dst, sport=rng.randrange(1, 65536), dport=rng.randrange(1, 65536),
             seq=rng.getrandbits(32), ack=rng.getrandbits(32), flags=rng.choice((0x18, 0x10, 0x11, 0x02, 0x12)),
             win=rng.getrandbits(16), urp=0)
    if proto == 6 and rng.random() < 0.3:
        d["tcpopts"] = rng.choice((b"\x01\x01\x08\x0a" + bytes(rng.getrandbits(8) for _ in range(8)),
                                   b"\x02\x04\x05\xb4", b"\x01\x01\x01\x00"))
    if not v6 and rng.random() < 0.15:
        d["ip4opts"] = b"\x01\x01\x01\x00"
    if v6 and rng.random() < 0.25:
        d["exthdrs"] = rng.choice(((0,), (60,), (0, 60), (44,), (0, 44, 60)))
    if rng.random() < 0.2:
        d["trailer"] = b"\x00" * rng.randrange(1, 7)
    return d


def steered_spec(rng, v6, proto, odd, target):
    """A frame whose 32-bit sum over pseudo-header and segment (field zero) is exactly `target`, or None."""
    for small in ((True, True) if target < 0x30000 else (False, True)):
        hd = rand_header(rng, v6, proto, small)
        sp = W.Spec(payload=b"", **hd)
        d0 = target - W.base_sum(sp, 0)
        if d0 < 0:
            continue
        need = -(-d0 // 0xFFFF)
        for extra in (rng.randrange(0, 4), 1, 2, 5):
            n = 2 * (need + extra) + (1 if odd else 0)
            pl = W.steer(rng, n, target - W.base_sum(sp, n))
            if pl is not None:
                sp.payload = pl
                return sp
    return None


def stored_variants(rng, sp):
    """(label, stored) pairs to try on a steered packet."""
    good = W.correct_checksum(sp)
    out = [("correct", None)]
    for lab, v in (("zero", 0x0000), ("ones", 0xFFFF), ("plus1", (good + 1) & 0xFFFF), ("minus1", (good - 1) & 0xFFFF),
                   ("bitflip", good ^ (1 << rng.randrange(16))), ("inverted", good ^ 0xFFFF)):
        out.append((lab, v))
    return out


def mutate_l4(rng, frame):
    """Random corruption inside addresses or the transport segment (keeps the frame dissectable)."""
    p = W.parse(frame)
    if p is None or not p["seg"]:
        return frame
    start, n = p["off"], len(p["seg"])
    b = bytearray(frame)
    if rng.random() < 0.15:       # address byte
        i = 14 + (8 if p["v6"] else 12) + rng.randrange(0, 32 if p["v6"] else 8)
        b[i] ^= 1 << rng.randrange(8)
        return bytes(b)
    i = start + rng.randrange(0, n)
    if p["proto"] == 6 and i == start + 12:
        i += 1                    # leave the TCP data offset alone
    j = i - (i - start) % 2
    if rng.random() < 0.2 and j + 4 <= start + n and not (p["proto"] == 6 and j - start in (10, 12)):
        b[j:j + 2], b[j + 2:j + 4] = b[j + 2:j + 4], b[j:j + 2]     # word swap: the sum does not change
    else:
        b[i] ^= 1 << rng.randrange(8)
    return bytes(b)


def grid_frames(ctx):
    """v4/v6 × TCP/UDP × odd/even × every boundary sum × stored-field variants."""
    out = []
    for v6 in (False, True):
        for proto in (6, 17):
            for odd in (False, True):
                for target in GRID_TARGETS:
                    sp = steered_spec(ctx.rng, v6, proto, odd, target)
                    if sp is None:
                        ctx.hist("grid_unreachable", f"{target:#x}")
                        continue
                    for lab, st in stored_variants(ctx.rng, sp):
                        out.append((f"sum={target:#x}/{lab}", W.build(sp.copy(stored=st))))
    return out


def random_frames(ctx, k):
    out = []
    rng = ctx.rng
    for _ in range(k):
        v6, proto, odd = rng.random() < 0.5, rng.choice((6, 17)), rng.random() < 0.5
        r = rng.random()
        if r < 0.5:
            sp = steered_spec(rng, v6, proto, odd, rng.choice(TARGETS))
            lab = "steered"
        else:
            sp = None
        if sp is None:
            hd = rand_header(rng, v6, proto, rng.random() < 0.2)
            n = rng.choice((0, 1, 2, 3, rng.randrange(0, 64), rng.randrange(0, 1460), rng.randrange(0, 9000)))
            fill = rng.random()
            pl = (b"\xff" * n if fill < 0.2 else b"\x00" * n if fill < 0.3 else
                  bytes(rng.getrandbits(8) for _ in range(min(n, 300))) + b"\xff" * max(0, n - 300))
            sp = W.Spec(payload=pl, **hd)
            lab = "random"
        r = rng.random()
        if r < 0.45:
            out.append((lab + "/correct", W.build(sp)))
        elif r < 0.7:
            l2, st = rng.choice(stored_variants(rng, sp)[1:])
            out.append((lab + "/" + l2, W.build(sp.copy(stored=st))))
        else:
            out.append((lab + "/mutated", mutate_l4(rng, W.build(sp))))
    return out


def malformed_frames(ctx, k):
    """Separate malformed stream: arbitrary byte damage, truncation, wrong length fields (correspondence only)."""
    out = []
    rng = ctx.rng
    for proto in (6, 17):       # IPv4 total length 0 (segmentation offload) with more than 65535 bytes behind it:
        hd = rand_header(rng, False, proto, False)      # the 16-bit length of the pseudo-header overflows
        hd.pop("trailer", None)
        b = bytearray(W.build(W.Spec(payload=b"\x5a", stored=0x1234, **hd))) + b"\x5a" * (65536 + rng.randrange(0, 9))
        struct.pack_into(">H", b, 16, 0)
        out.append(("malformed/tso", bytes(b)))
    for _ in range(k):
        hd = rand_header(rng, rng.random() < 0.5, rng.choice((6, 17)), False)
        pl = bytes(rng.getrandbits(8) for _ in range(rng.randrange(0, 80)))
        b = bytearray(W.build(W.Spec(payload=pl, **hd)))
        r = rng.random()
        if r < 0.4:
            for _ in range(rng.randrange(1, 4)):
                b[rng.randrange(12, len(b))] = rng.getrandbits(8)
        elif r < 0.6:
            b = b[:rng.randrange(14, len(b) + 1)]
        elif r < 0.8:       # IP length field smaller / larger than the frame
            if b[12:14] == b"\x08\x00":
                struct.pack_into(">H", b, 16, max(0, struct.unpack_from(">H", b, 16)[0] + rng.randrange(-30, 10)))
            else:
                struct.pack_into(">H", b, 18, max(0, struct.unpack_from(">H", b, 18)[0] + rng.randrange(-30, 10)))
        else:               # UDP length / TCP data offset lies
            p = W.parse(bytes(b))
            if p is not None and p["seg"]:
                off = len(b) - len(hd.get("trailer", b"")) - len(p["seg"])
                if p["proto"] == 17 and len(p["seg"]) >= 8:
                    struct.pack_into(">H", b, off + 4, rng.getrandbits(16))
                elif len(p["seg"]) >= 20:
                    b[off + 12] = (rng.randrange(5, 16) << 4) | (b[off + 12] & 0xF)
        out.append(("malformed", bytes(b)))
    return out


# ------------------------------------------------------------------ (a) + (b) on frames
def sum_class(s0):
    if s0 <= 0xFFFF:
        return "no-carry"
    if s0 % 0xFFFF == 1:
        return "folds-through-0x10000"
    if s0 % 0xFFFF == 0:
        return "checksum-0x0000"
    return "carry" if (s0 >> 16) + (s0 & 0xFFFF) <= 0xFFFF else "two-folds"


def failure_signature(pr, verdict, got, stored, has_ext):
    fam = ("tcp" if pr["proto"] == 6 else "udp") + ("6" if pr["v6"] else "4")
    if got == "err:overflow":
        return "C11:{fold}:crash-overflow"
    if got.startswith("err:"):
        return "C11:{" + fam + "}:crash-" + got[4:]
    if verdict == "valid" and stored == 0xFFFF:
        return "C11:{" + fam[:3] + "}:ffff-rejected"
    if verdict == "valid" and has_ext:
        return "C11:{v6-exthdr}:valid-rejected"
    if verdict == "invalid" and fam == "udp6" and stored == 0:
        return "C11:{udp6}:zero-accepted"
    return "C11:{" + fam + "}:" + ("valid-rejected" if verdict == "valid" else "invalid-accepted")


def run_frames(ctx, impl, frames, point, oracle=True):
    pt = ctx.point(point)
    lines, expected, cases = [], [], []
    orc = ctx.oracle.setdefault("receiver-verdict", {"runs": 0, "violations": 0, "outside-dichotomy": 0})
    for lab, frame in frames:
        p = impl.packet(frame)
        kind = impl.l4(p)
        if kind is None:
            ctx.hist("dissection", "not-tcp-udp")
            continue
        seg = bytes(p.tcp if kind == 6 else p.udp)
        got = impl.check(p)
        lines.append(f"l4check {1 if p.ipv6_packet else 0} {kind} {hx(p.ip_src)} {hx(p.ip_dst)} {hx(seg)}")
        expected.append(got)
        cases.append({"frame": frame.hex(), "label": lab})
        pt["cases"] += 1
        if not oracle:
            ctx.count(frame, nontrivial=False)
            continue
        pr = W.parse(frame)
        verdict = W.receiver_verdict(frame)
        if pr is None or verdict is None or pr["proto"] != kind or pr["seg"] != seg:
            # the tool's dissection and the oracle's disagree on what the segment is: not a C11 matter
            ctx.hist("dissection", "oracle-and-dpkt-differ")
            continue
        off = 16 if kind == 6 else 6
        stored = struct.unpack(">H", seg[off:off + 2])[0]
        s0 = W.word_sum(W.pseudo_header(pr["v6"], pr["src"], pr["dst"], kind, len(seg))) + W.word_sum(seg) - stored
        has_ext = pr["v6"] and frame[14 + 6] != kind
        fam = ("tcp" if kind == 6 else "udp") + ("6" if pr["v6"] else "4")
        ctx.count(frame, nontrivial=s0 > 0xFFFF)
        ctx.hist("family", fam + ("+ext" if has_ext else ""))
        ctx.hist("seg_parity", "odd" if len(seg) % 2 else "even")
        ctx.hist("sum_class", sum_class(s0))
        ctx.hist("stored", "0x0000" if stored == 0 else "0xffff" if stored == 0xFFFF else "other")
        ctx.hist("verdict", verdict)
        ctx.hist("label", lab.split("/")[-1])
        orc["runs"] += 1
        if verdict == "nochecksum":
            orc["outside-dichotomy"] += 1          # UDP/IPv4 without checksum: either outcome acceptable …
            if not got.startswith("err:"):         # … an exception is not
                continue
        want = {"valid": "ok", "invalid": "bad"}.get(verdict)
        if got != want:
            orc["violations"] += 1
            report(ctx, failure_signature(pr, verdict, got, stored, has_ext),
                     f"calculate_checksum_{'tcp' if kind == 6 else 'udp'} on a packet the RFC 1071 receiver calls "
                     f"{verdict}: {got}",
                     {"kind": "frame", "frame": frame.hex(), "label": lab, "family": fam, "sum": f"{s0:#x}",
                      "stored": f"{stored:#06x}"},
                     expected=want or "ok|bad", actual=got)
    if lines:
        replies = ctx.driver("csum", lines)
        for c, e, m in zip(cases, expected, replies):
            if e != m:
                ctx.disagree(point, c, e, m)
        ctx.sample({"point": point, "op": lines[0][:160], "impl": expected[0], "model": replies[0]})


# ------------------------------------------------------------------ ones_complement_checksum
def csum_inputs(ctx, k):
    rng = ctx.rng
    out = [b"", b"\x00", b"\xff", b"\xff\xff", b"\xff\xff\x00\x01", b"\x00\x01\xff\xff", b"\xff\xff\x00\x01\x00"]
    for t in TARGETS:
        for odd in (0, 1):
            n = 2 * (t // 0xFFFF + 1 + rng.randrange(0, 3)) + odd
            b = W.steer(rng, n, t)
            if b is not None:
                out.append(b)
    for _ in range(k):
        n = rng.choice((rng.randrange(0, 8), rng.randrange(0, 200), rng.randrange(0, 3000)))
        f = rng.random()
        out.append(b"\xff" * n if f < 0.2 else bytes(rng.getrandbits(8) for _ in range(n)))
    return out


def run_csum(ctx, impl, inputs, point):
    pt = ctx.point(point)
    orc = ctx.oracle.setdefault("rfc1071-checksum", {"runs": 0, "violations": 0})
    lines, exp = [], []
    for b in inputs:
        got = impl.csum(b)
        want = "%04x" % W.inet_checksum(b)
        s = W.word_sum(b)
        lines.append("csum " + hx(b))
        exp.append(got)
        pt["cases"] += 1
        orc["runs"] += 1
        ctx.count(("csum", b), nontrivial=s > 0xFFFF)
        ctx.hist("csum_sum_class", sum_class(s))
        if got != want:
            orc["violations"] += 1
            report(ctx, "C11:{fold}:crash-overflow" if got == "err:overflow" else "C11:{csum}:wrong-value",
                     "ones_complement_checksum differs from the RFC 1071 checksum",
                     {"kind": "csum", "data": b.hex(), "sum": f"{s:#x}"}, expected=want, actual=got)
    replies = ctx.driver("csum", lines)
    for b, e, m in zip(inputs, exp, replies):
        if e != m:
            ctx.disagree(point, {"data": b.hex()[:400]}, e, m)
    ctx.sample({"point": point, "op": lines[-1][:120], "impl": exp[-1], "model": replies[-1]})


# ------------------------------------------------------------------ (c) end to end
def run_tool(pcap, keylog, out, checksum_test):
    """tlexport.main.run() in-process; returns None or the exception's type name."""
    import tlexport.main as M
    for lst, init in ((M.server_ports, [443, 44330]), (M.keylog, []), (M.sessions, []), (M.quic_sessions, [])):
        lst[:] = init
    argv = sys.argv
    sys.argv = ["tlexport", "-i", pcap, "-s", keylog, "-o", out] + (["-c"] if checksum_test else [])
    try:
        with contextlib.redirect_stdout(io.StringIO()), contextlib.redirect_stderr(io.StringIO()):
            M.run()
        return None
    except BaseException as e:  # noqa  (SystemExit included: the tool must simply finish)
        if isinstance(e, KeyboardInterrupt):
            raise
        return type(e).__name__
    finally:
        sys.argv = argv


def corrupt(rng, sp):
    """A corrupted copy of a frame (as bytes)."""
    r = rng.random()
    good = W.correct_checksum(sp)
    if r < 0.3:
        return mutate_l4(rng, W.build(sp))
    if r < 0.5:
        return W.build(sp.copy(stored=good ^ (1 << rng.randrange(16))))
    if r < 0.6:
        return W.build(sp.copy(stored=(good + rng.choice((1, -1))) & 0xFFFF))
    if r < 0.7:
        return W.build(sp.copy(stored=rng.choice((0, 0xFFFF)) if sp.proto == 6 or sp.v6 else 0xFFFF))
    pl = bytearray(sp.payload)
    if pl:
        pl[rng.randrange(len(pl))] ^= 1 << rng.randrange(8)
    else:
        return W.build(sp.copy(stored=good ^ 0x0100))
    return W.build(sp.copy(payload=bytes(pl), stored=good))


def e2e_case(rng):
    """(keylog text, [(ts, frame)]) — a decryptable TLS connection, corrupted duplicates, UDP bystanders."""
    v6 = rng.random() < 0.5
    ver = rng.choice((12, 13))
    conn = T.Conn(rng, v6=v6, cport=wire.client_port(rng, 30000, 60000),
                  exthdrs=((0,) if v6 and rng.random() < 0.2 else ()),
                  tcpopts=(b"\x01\x01\x08\x0a" + bytes(rng.getrandbits(8) for _ in range(8))) if rng.random() < 0.3 else b"")
    app = []
    for _ in range(rng.randrange(2, 7)):
        n = rng.choice((1, 2, 17, 100, 301, 1200, rng.randrange(1, 1400)))
        app.append((rng.randrange(2), bytes(rng.getrandbits(8) for _ in range(n))))
    keylog, _first_app = (T.tls12_gcm if ver == 12 else T.tls13_gcm)(conn, app)
    frames = []

    def bystander():
        uv6 = v6 if rng.random() < 0.7 else not v6
        n = 16 if uv6 else 4
        pl = bytes([rng.getrandbits(8) & 0xBF]) + bytes(rng.getrandbits(8) for _ in range(rng.randrange(0, 60)))
        sp = W.Spec(uv6, 17, bytes(rng.getrandbits(8) for _ in range(n)), bytes(rng.getrandbits(8) for _ in range(n)),
                    rng.randrange(1024, 65536), rng.choice((443, 53, 4433)), pl)
        return sp

    def corrupt_bad(sp):
        """a damaged copy whose transport checksum is BAD for the independent receiver. Damage that makes the packet
        malformed instead (e.g. a UDP length field that no longer fits the IP payload: verdict None, neither good nor
        bad) is outside the property's dichotomy and is not put into end-to-end captures."""
        for _ in range(20):
            f = corrupt(rng, sp)
            if W.receiver_verdict(f) == "invalid":
                return f
        return W.build(sp)

    flows = list(conn.frames)
    quic = rng.random() < 0.6
    if quic:                                            # a QUIC v1 connection next to it (UDP, IPv4 or IPv6)
        # QUIC sessions are opened by header bits, on ANY port: the server port is often not one of the listed TLS ports
        qc = Q.QConn(rng, v6=(v6 if rng.random() < 0.7 else not v6), cport=wire.client_port(rng, 30000, 60000),
                     sport=rng.choice([443, 4433, 8443, 50001]), t0=conn.frames[0].ts + 0.0005)
        qc.handshake()
        for i in range(rng.randrange(2, 6)):
            d = rng.randrange(2)
            qc.app(d, Q.stream(4 * i, 0, bytes(rng.getrandbits(8) for _ in range(rng.choice((1, 10, 33, 200, 1001))))))
        flows += qc.frames
        keylog += qc.keylog()
        flows.sort(key=lambda sp: sp.ts)
    for sp in flows:
        r = rng.random()
        if r < 0.35:                                   # a corrupted copy arrives first, the retransmission is good
            frames.append((sp.ts - 0.0004, corrupt_bad(sp)))
            frames.append((sp.ts, W.build(sp)))
        elif r < 0.37:                                 # only a corrupted copy exists (rare: leaves a gap)
            frames.append((sp.ts, corrupt_bad(sp)))
        else:
            frames.append((sp.ts, W.build(sp)))
        if rng.random() < 0.3:
            b = bystander()
            frames.append((sp.ts + 0.0002, corrupt_bad(b) if rng.random() < 0.4 else W.build(b)))
    return {"version": ver, "v6": v6, "quic": quic, "keylog": keylog, "frames": frames}


def run_e2e_case(ctx, case, tmp):
    orc = ctx.oracle.setdefault("end-to-end", {"runs": 0, "violations": 0, "reference-crashed": 0})
    frames = case["frames"]
    verdicts = [W.receiver_verdict(f) for _, f in frames]
    if any(v == "nochecksum" or v is None for v in verdicts):
        return                                          # outside the property's dichotomy (no checksum / malformed)
    kept = [(ts, f) for (ts, f), v in zip(frames, verdicts) if v != "invalid"]
    pa, pb, kl = (os.path.join(tmp, n) for n in ("all.pcapng", "good.pcapng", "keys.log"))
    oa, ob = os.path.join(tmp, "out_c.pcapng"), os.path.join(tmp, "out_ref.pcapng")
    for path, data in ((pa, W.pcapng(frames)), (pb, W.pcapng(kept))):
        with open(path, "wb") as fh:
            fh.write(data)
    with open(kl, "w") as fh:
        fh.write(case["keylog"])
    for o in (oa, ob):
        if os.path.exists(o):
            os.remove(o)
    rb = run_tool(pb, kl, ob, False)
    ra = run_tool(pa, kl, oa, True)
    orc["runs"] += 1
    nbad = sum(1 for v in verdicts if v == "invalid")
    out_ref = open(ob, "rb").read() if os.path.exists(ob) else b""
    out_c = open(oa, "rb").read() if os.path.exists(oa) else b""
    ctx.count(("e2e", tuple(f for _, f in frames)), nontrivial=nbad > 0 and len(out_ref) > 400)
    ctx.hist("e2e_flow", f"tls1.{case['version'] - 10}/{'v6' if case['v6'] else 'v4'}" + ("+quic" if case.get("quic") else ""))
    ctx.hist("e2e_bad_packets", min(nbad, 8))
    cobj = {"kind": "e2e", "keylog": case["keylog"], "version": case["version"], "v6": case["v6"],
            "quic": case.get("quic", False),
            "frames": [[repr(ts), f.hex()] for ts, f in frames], "bad": [i for i, v in enumerate(verdicts) if v == "invalid"]}
    if rb is not None:
        orc["reference-crashed"] += 1                   # the run without -c fails by itself: not C11's matter
        if ra == rb:
            return
    if ra is not None and ra != rb:
        orc["violations"] += 1
        report(ctx, "C11:{e2e}:crash-" + ra, f"run with -c raised {ra}; the run without -c on the capture minus the "
                 f"{nbad} bad packets {'finished' if rb is None else 'raised ' + rb}", cobj,
                 expected="finishes, export equals the reference", actual="raised " + ra)
        return
    if out_c != out_ref:
        orc["violations"] += 1
        report(ctx, "C11:{e2e}:export-differs", f"export with -c differs from the export without -c on the capture "
                 f"minus the {nbad} bad packets ({len(out_c)} vs {len(out_ref)} bytes)", cobj,
                 expected=f"{len(out_ref)} bytes, sha1 {hashlib.sha1(out_ref).hexdigest()[:12]}",
                 actual=f"{len(out_c)} bytes, sha1 {hashlib.sha1(out_c).hexdigest()[:12]}")


def run_e2e(ctx, k):
    tmp = tempfile.mkdtemp(prefix="c11_")
    try:
        for i in range(k):
            case = e2e_case(ctx.rng)
            run_e2e_case(ctx, case, tmp)
            if i == 0:
                ctx.sample({"e2e": {"flow": f"tls1.{case['version'] - 10}", "v6": case["v6"],
                                    "packets": len(case["frames"])}})
    finally:
        shutil.rmtree(tmp, ignore_errors=True)


# ------------------------------------------------------------------ driver of the check
def explore(ctx, scale=1):
    impl = Impl()
    run_frames(ctx, impl, grid_frames(ctx), "l4check.boundaries")
    run_frames(ctx, impl, random_frames(ctx, ctx.n(2500, 60000) * scale), "l4check.random")
    run_frames(ctx, impl, malformed_frames(ctx, ctx.n(1500, 30000) * scale), "l4check.malformed", oracle=False)
    run_csum(ctx, impl, csum_inputs(ctx, ctx.n(1500, 40000) * scale), "csum.values")
    run_e2e(ctx, ctx.n(20, 400) * scale)


def run(ctx):
    ctx.rule = ("frames: Ethernet/IPv4(options)/IPv6(hop-by-hop, destination-options, atomic-fragment headers)/"
                "TCP(options)/UDP with Ethernet trailers; grid v4/v6 × TCP/UDP × odd/even segment length × every "
                "32-bit sum k·0x10000±2, k·0xFFFF±2 (k ≤ 8), sums folding through exactly 0x10000 and sums with checksum "
                "0x0000, each with the field correct / 0x0000 / 0xFFFF / ±1 / bit flipped / inverted; random stream with "
                "steered or random payloads (0–9000 bytes), forced fields and random bit/word damage in addresses and "
                "segment; separate malformed stream (byte damage anywhere, truncation, lying length fields) for the "
                "correspondence only. A frame is non-trivial iff its 32-bit sum crosses at least one carry. "
                "End to end: a TLS 1.2/1.3 AES-GCM connection over IPv4/IPv6 and (60 %) a QUIC v1 connection, with "
                "corrupted first copies, rare corrupted-only packets and valid/corrupted non-QUIC UDP bystanders; non-trivial iff ≥ 1 bad packet and the reference export "
                "holds decrypted data. UDP/IPv4 with checksum field zero (no checksum) is outside the property: either "
                "verdict is accepted, an exception is not.")
    ctx.assumptions = ["the real functions are driven on tlexport.packet.Packet objects built from the generated frames; "
                       "the model receives what they read (ipv6_packet, ip_src, ip_dst, bytes(packet.tcp|udp))",
                       "end to end the tool is run in-process (tlexport.main.run with sys.argv), module-level lists reset"]
    import export_inputs_thms, export_inputs2_thms          # whole-program forms (Props/ExportInputs) about exportFile / framesFrom
    import translate                 # decision-logic functions re-translated from the source and proved equal to the model
    _tm, _tt = translate.wire(ctx, "C11")
    import oncode_thms               # the property theorems stated on the regenerated definitions themselves (Props/OnCode)
    _om, _ot = oncode_thms.wire("C11")
    _tm, _tt = _tm + _om, _tt + _ot
    ctx.prove(["TLX.Props.C11"] + export_inputs_thms.MODULES + export_inputs2_thms.MODULES + _tm)
    ctx.require_theorems(_tt)
    ctx.require_theorems(export_inputs_thms.THEOREMS_C11 + export_inputs2_thms.THEOREMS_NAT + export_inputs2_thms.THEOREMS_C11)
    import file_corr
    file_corr.correspond(ctx, ctx.n(12, 200))     # ties the whole-program model (the theorems' subject) file to file
    ctx.require_theorems(THEOREMS)
    explore(ctx)
    return finish(ctx, lambda c: explore(c, scale=3))


def replay(ctx, obj):
    impl = Impl()
    c = obj["case"]
    if c.get("kind") == "csum":
        run_csum(ctx, impl, [bytes.fromhex(c["data"])], "replay")
    elif c.get("kind") == "e2e":
        tmp = tempfile.mkdtemp(prefix="c11r_")
        try:
            run_e2e_case(ctx, {"version": c["version"], "v6": c["v6"], "quic": c.get("quic"), "keylog": c["keylog"],
                               "frames": [(float(ts), bytes.fromhex(f)) for ts, f in c["frames"]]}, tmp)
        finally:
            shutil.rmtree(tmp, ignore_errors=True)
    else:
        run_frames(ctx, impl, [(c.get("label", "replay"), bytes.fromhex(c["frame"]))], "replay")
    for f in ctx.failures:
        print("REPLAY-FAIL", f["signature"], f["what"], "expected", f["expected"], "actual", f["actual"])
    for d in ctx.disagreements:
        print("REPLAY-DISAGREE model", d["model"], "impl", d["impl"])
    print("REPLAY", "fails" if ctx.failures else "passes")
    return 1 if ctx.failures else 0
