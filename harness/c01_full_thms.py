"""Theorems of lean/TLX/Props/C01Full.lean (+ C01FullEx.lean): C01 from file to file for ANY combination of `-a`, `-c`,
`-m`, `-p`, over IPv4 or IPv6 with extension headers, hypotheses in RFC terms."""
MODULES = ["TLX.Lemmas.C01Full", "TLX.Props.C01Full", "TLX.Props.C01FullEx"]
_NS = "TLX.Props.C01Full."
_LM = "TLX.Lemmas.C01Full."
THEOREMS = [_NS + n for n in [
    "tls13_capture_exact_full",
    "tls12_capture_exact_full",
    "tls13_connection_full",
    "tls12_connection_full",
    "capture_exact_glue",
    # non-vacuity
    "Ex.tls13_full_instance",     # TLS 1.3, -a
    "Ex.tls12_full_instance",     # TLS 1.2, -a -c -m, IPv6 with three extension headers per segment, valid checksums
    "Ex.badTcp_ignored",          # a foreign segment with a wrong checksum is ignored under -c
]] + [_LM + n for n in [
    # -c
    "ingest_of_capture_c", "verdict_tcp", "verdict_segX", "csumBit_segX", "flow_filter_c",
    # IPv6 extension headers
    "optsWalk_enc", "extOk_opts", "extOk_all", "dissect_segX",
    # the described capture and the glue
    "described_session_x", "export_of_items_file", "othersFit_of_ignored_c",
]]
