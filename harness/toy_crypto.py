"""Toy cipher primitives — the Python twin of lean/TLX/Crypto/Toy.lean (same functions, byte for byte).

NOT cryptography. A 32-bit FNV-1a hash seeds a random-access pad; every input matters (algorithm, key, nonce/IV, AAD,
keystream offset, previous ciphertext block, slice boundaries), and the validation errors are those of cryptography 50
(`toy_conformance` in c01_reclayer.py compares them with the real classes on every run).

Two layers:
  * pure functions   aead_seal / aead_open / cbc_enc / cbc_dec / rc4 / rc4_init   (what the Lean file defines)
  * drop-in classes  AES, TripleDES, Camellia, IDEA, ARC4, ChaCha20, AESGCM, AESCCM, ChaCha20Poly1305, Cipher, CBC
                     with the call shapes `tlexport.decryptor` uses; `patched()` installs them in that module's
                     namespace (and restores the real ones afterwards). The same class objects are passed to
                     `Decryptor(...)`, so `self.bulk_alg == AESGCM` and `in [AES, …]` keep working.
"""
import contextlib

try:
    from cryptography.exceptions import InvalidTag, UnsupportedAlgorithm
except Exception:  # pragma: no cover
    class InvalidTag(Exception):
        pass

    class UnsupportedAlgorithm(Exception):
        pass

M = 0xFFFFFFFF
ALG_ID = {"aes": 1, "tdes": 2, "camellia": 3, "idea": 4, "aesccm": 5, "aesgcm": 6, "chacha20": 7, "chachapoly": 8,
          "arc4": 9, "none": 10}
BLK = {"aes": 16, "camellia": 16, "tdes": 8, "idea": 8}
KEY_OK = {"aes": (16, 24, 32, 64), "camellia": (16, 24, 32), "tdes": (8, 16, 24), "idea": (16,),
          "aesgcm": (16, 24, 32), "aesccm": (16, 24, 32), "chachapoly": (32,), "chacha20": (32,),
          "arc4": (5, 7, 8, 10, 16, 20, 24, 32), "none": ()}


def fnv_step(h, b):
    return ((h ^ b) * 16777619) & M


def fnv(h, bs):
    for b in bs:
        h = ((h ^ b) * 16777619) & M
    return h


def fnv_l(h, bs):
    n = len(bs)
    return fnv(fnv_step(fnv_step(h, n // 256 % 256), n % 256), bs)


def pad(s, i):
    x = (s + i * 2654435761) & M
    y = ((x ^ (x >> 15)) * 739982445) & M
    return y >> 24


def xor_pad(s, i, data):
    out = bytearray(len(data))
    for j, b in enumerate(data):
        x = (s + (i + j) * 2654435761) & M
        out[j] = b ^ ((((x ^ (x >> 15)) * 739982445) & M) >> 24)
    return bytes(out)


# ----------------------------------------------------------------------------- AEAD
def seed_a(alg, key, nonce):
    return fnv_l(fnv_l(fnv_step(2166136261, ALG_ID[alg]), key), nonce)


def tag_of(alg, key, nonce, aad, tl, body):
    h = fnv_l(fnv_l(fnv_l(fnv_l(fnv_step(2166136000, ALG_ID[alg]), key), nonce), aad), body)
    return bytes(pad(h, j) for j in range(tl))


def nonce_ok(alg, n):
    return {"aesgcm": 8 <= n <= 128, "aesccm": 7 <= n <= 13, "chachapoly": n == 12}.get(alg, False)


def ccm_tag_ok(t):
    return 4 <= t <= 16 and t % 2 == 0


def aead_seal(alg, key, nonce, aad, tl, pt):
    body = xor_pad(seed_a(alg, key, nonce), 0, pt)
    return body + tag_of(alg, key, nonce, aad, tl, body)


def aead_check_key(alg, key, tl):
    if alg not in ("aesgcm", "aesccm", "chachapoly"):
        raise TypeError("not an AEAD")
    if len(key) not in KEY_OK[alg]:
        raise ValueError("key size")
    if alg == "aesccm" and not ccm_tag_ok(tl):
        raise ValueError("Invalid tag_length")


def aead_open(alg, key, nonce, aad, tl, ct):
    aead_check_key(alg, key, tl)
    if not nonce_ok(alg, len(nonce)):
        raise ValueError("nonce size")
    if len(ct) < tl:
        raise InvalidTag()
    body, tg = ct[:len(ct) - tl], ct[len(ct) - tl:]
    if tg != tag_of(alg, key, nonce, aad, tl, body):
        raise InvalidTag()
    return xor_pad(seed_a(alg, key, nonce), 0, body)


# ----------------------------------------------------------------------------- CBC
def seed_k(alg, key):
    return fnv_l(fnv_step(2166136523, ALG_ID[alg]), key)


def cbc_enc(alg, key, iv, pt):
    bs = BLK.get(alg, 0)
    if bs == 0:
        return bytes(pt)
    sk, prev, out = seed_k(alg, key), bytes(iv), b""
    for o in range(0, len(pt), bs):
        c = xor_pad(fnv(sk, prev), 0, pt[o:o + bs])
        out += c
        prev = c
    return out


def cbc_check(alg, key, iv):
    """`alg(key)` followed by `Cipher(…, CBC(iv))`."""
    if alg in ("none", "chacha20"):
        raise TypeError("constructor")
    if len(key) not in KEY_OK[alg]:
        raise ValueError("key size")
    if alg in ("aesgcm", "aesccm", "chachapoly"):
        raise TypeError("Expected interface of CipherAlgorithm.")
    if alg == "arc4":
        raise UnsupportedAlgorithm("CBC requires a block cipher algorithm")
    if len(key) == 64:
        raise ValueError("Only 128, 192, and 256 bit keys are allowed for this AES mode")
    if len(iv) != BLK[alg]:
        raise ValueError("Invalid IV size")


def cbc_dec(alg, key, iv, ct):
    cbc_check(alg, key, iv)
    bs = BLK[alg]
    if len(ct) % bs:
        raise ValueError("The length of the provided data is not a multiple of the block length.")
    sk, prev, out = seed_k(alg, key), bytes(iv), b""
    for o in range(0, len(ct), bs):
        c = bytes(ct[o:o + bs])
        out += xor_pad(fnv(sk, prev), 0, c)
        prev = c
    return out


# ----------------------------------------------------------------------------- RC4
def seed_r(key):
    return fnv_l(2166136777, key)


def rc4_init(key):
    if len(key) not in KEY_OK["arc4"]:
        raise ValueError("key size")


def rc4(key, off, data):
    return xor_pad(seed_r(key), off, data)


# ----------------------------------------------------------------------------- drop-in classes
def _buf(name, x):
    if not isinstance(x, (bytes, bytearray, memoryview)):
        raise TypeError(f"{name} must be bytes-like")
    return bytes(x)


class _CipherAlgorithm:
    tag = None
    block = False

    def __init__(self, key):
        self.key = _buf("key", key)
        if len(self.key) not in KEY_OK[self.tag]:
            raise ValueError(f"Invalid key size ({len(self.key) * 8}) for {self.tag}.")


class AES(_CipherAlgorithm):
    tag, block = "aes", True


class TripleDES(_CipherAlgorithm):
    tag, block = "tdes", True


class Camellia(_CipherAlgorithm):
    tag, block = "camellia", True


class IDEA(_CipherAlgorithm):
    tag, block = "idea", True


class ARC4(_CipherAlgorithm):
    tag = "arc4"


class ChaCha20(_CipherAlgorithm):
    tag = "chacha20"

    def __init__(self, key, nonce):  # `ChaCha20(key)` ⇒ TypeError, as the real class
        super().__init__(key)
        self.nonce = _buf("nonce", nonce)


class CBC:
    name = "CBC"

    def __init__(self, initialization_vector):
        self.initialization_vector = _buf("initialization_vector", initialization_vector)


class _CbcDecryptor:
    def __init__(self, alg, key, iv):
        self.alg, self.key, self.prev, self.buf = alg, key, iv, b""

    def update(self, data):
        data = self.buf + _buf("data", data)
        bs = BLK[self.alg]
        n = len(data) - len(data) % bs
        self.buf = data[n:]
        sk, out = seed_k(self.alg, self.key), b""
        for o in range(0, n, bs):
            c = data[o:o + bs]
            out += xor_pad(fnv(sk, self.prev), 0, c)
            self.prev = c
        return out

    def finalize(self):
        if self.buf:
            raise ValueError("The length of the provided data is not a multiple of the block length.")
        return b""


class _CbcEncryptor:
    def __init__(self, alg, key, iv):
        self.alg, self.key, self.prev = alg, key, iv

    def update(self, data):
        ct = cbc_enc(self.alg, self.key, self.prev, _buf("data", data))
        if ct:
            self.prev = ct[-BLK[self.alg]:]
        return ct

    def finalize(self):
        return b""


class _Rc4Context:
    def __init__(self, key):
        self.key, self.pos = key, 0

    def update(self, data):
        data = _buf("data", data)
        out = rc4(self.key, self.pos, data)
        self.pos += len(data)
        return out

    def finalize(self):
        return b""


class Cipher:
    def __init__(self, algorithm, mode, backend=None):
        if not isinstance(algorithm, _CipherAlgorithm):
            raise TypeError("Expected interface of CipherAlgorithm.")
        if mode is not None:
            if not algorithm.block:
                raise UnsupportedAlgorithm("CBC requires a block cipher algorithm")
            if len(algorithm.key) == 64:
                raise ValueError("Only 128, 192, and 256 bit keys are allowed for this AES mode")
            if len(mode.initialization_vector) != BLK[algorithm.tag]:
                raise ValueError(f"Invalid IV size ({len(mode.initialization_vector)}) for CBC.")
        self.algorithm, self.mode = algorithm, mode

    def decryptor(self):
        if self.mode is None:
            if self.algorithm.tag != "arc4":
                raise UnsupportedAlgorithm("cipher in None mode is not supported")
            return _Rc4Context(self.algorithm.key)
        return _CbcDecryptor(self.algorithm.tag, self.algorithm.key, self.mode.initialization_vector)

    def encryptor(self):
        """sender side (used only by the toy-world generators of harness/pipeline_corr.py)"""
        if self.mode is None:
            return _Rc4Context(self.algorithm.key)                # the RC4 pad is an involution
        return _CbcEncryptor(self.algorithm.tag, self.algorithm.key, self.mode.initialization_vector)


class _Aead:
    tag = None

    def __init__(self, key, tag_length=16):
        self.key = _buf("key", key)
        self.tl = 16 if tag_length is None else tag_length
        aead_check_key(self.tag, self.key, self.tl)

    def decrypt(self, nonce, data, associated_data):
        aad = b"" if associated_data is None else _buf("associated_data", associated_data)
        return aead_open(self.tag, self.key, _buf("nonce", nonce), aad, self.tl, _buf("data", data))

    def encrypt(self, nonce, data, associated_data):
        return aead_seal(self.tag, self.key, bytes(nonce), b"" if associated_data is None else bytes(associated_data),
                         self.tl, bytes(data))


class AESGCM(_Aead):
    tag = "aesgcm"

    def __init__(self, key):
        super().__init__(key, 16)


class AESCCM(_Aead):
    tag = "aesccm"


class ChaCha20Poly1305(_Aead):
    tag = "chachapoly"

    def __init__(self, key):
        super().__init__(key, 16)


NAMES = ["AES", "TripleDES", "Camellia", "IDEA", "AESCCM", "AESGCM", "ChaCha20Poly1305", "ChaCha20", "ARC4", "Cipher",
         "CBC"]
TOY = {n: globals()[n] for n in NAMES}
ALG_CLASS = {"aes": AES, "tdes": TripleDES, "camellia": Camellia, "idea": IDEA, "aesccm": AESCCM, "aesgcm": AESGCM,
             "chacha20": ChaCha20, "chachapoly": ChaCha20Poly1305, "arc4": ARC4, "none": None}


@contextlib.contextmanager
def patched():
    """Install the toy classes in the namespace of `tlexport.decryptor`; restore the real ones on exit."""
    import tlexport.decryptor as D
    saved = {n: getattr(D, n) for n in NAMES}
    for n in NAMES:
        setattr(D, n, TOY[n])
    try:
        yield D
    finally:
        for n in NAMES:
            setattr(D, n, saved[n])
