"""Theorems of lean/TLX/Props/ExportDemux.lean (+ Lemmas/ExportDemux.lean, Lemmas/ExportDemuxCids.lean, instances in
ExportDemuxEx.lean): C04 for the WHOLE PROGRAM — what `TLX.Export.framesFrom` / `exportFile` make of a capture in which any
number of TLS and QUIC connections, DSBs and other traffic are interleaved, with the QUIC separation stated on the capture
(`CaptureSeparated`, `SeparatedByContent`). Replay of the whole-program counterexample on the real tool:
harness/export_demux_replay.py."""
MODULES = ["TLX.Props.ExportDemux", "TLX.Props.ExportDemuxEx"]
_P = "TLX.Props.ExportDemux."
_L = "TLX.Lemmas.ExportDemux."
_C = "TLX.Lemmas.ExportDemuxCids."
THEOREMS_ITEMS = [_P + n for n in [
    "keysOf_only", "tls_frames_by_flow", "tls_conn_alone", "isoN_of_capture", "quic_run_by_conn", "quicSess_only",
    "quic_sessions_by_conn", "quic_frames_by_conn", "export_demux", "everHolds_bounded", "captureSeparated_of_check",
    "captureSeparatedN_of_check", "captureSeparated_of_sepCheck", "captureSeparated_of_content", "export_demux_content"]]
THEOREMS_FILE = [_P + n for n in ["keptOf_only", "export_demux_file", "export_demux_file_run", "export_demux_encoded"]]
THEOREMS_EX = [_P + "Ex." + n for n in [
    "ho", "solo2", "V_labels", "sep1", "sep2", "sepN", "merged_quic_view", "merged_tls_view", "prefix_cross_routing_view",
    "prefix_cross_routing", "demux_file_instance"]]
# helper lemmas the statements rest on (audited when their modules are given to ctx.prove)
LEMMA_MODULES = ["TLX.Lemmas.ExportDemux", "TLX.Lemmas.ExportDemuxCids"]
THEOREMS_LEMMAS = [_L + n for n in [
    "dsbOnly_only", "tcpView_only", "quicView_only", "merge_filter", "flowHeads_spec", "groupByFlow_heads",
    "quicRun_session_flow", "quicSeparated_of_capture", "run_one_class", "Router.run_labelled"]] + [_C + n for n in [
    "handleFrames_le", "decryptPacket_le", "stepPkt_le", "handleQuicPackets_le", "dissectLoop_le", "handleDatagram_le",
    "feed_le", "everHolds_sources"]]
THEOREMS = sorted(set(THEOREMS_ITEMS + THEOREMS_FILE + THEOREMS_EX))
