"""Property theorems stated directly about the definitions the translator regenerates from the tree under test
(lean/TLX/Props/OnCode/*.lean): per property the Lean module and the fully qualified theorem names.
The modules import lean/TLX/Gen/Translated/*.lean, so they have to be proved AFTER translate.wire(ctx, ...)."""

BY_CHECK = {
    "C16": ("TLX.Props.OnCode.C16", [
        "TLX.OnCode.C16.get_full_packet_number_exact",
        "TLX.OnCode.C16.get_full_packet_number_eq_rfc",
        "TLX.OnCode.C16.get_full_packet_number_window",
        "TLX.OnCode.C16.set_largest_packet_number_is_max",
        "TLX.OnCode.C16.decode_then_store_is_max",
        "TLX.OnCode.C16.spaces_on_code",
    ]),
    "C17": ("TLX.Props.OnCode.C17", [
        "TLX.OnCode.C17.varint_roundtrip",
        "TLX.OnCode.C17.parse_frames_roundtrip",
        "TLX.OnCode.C17.bytes_accounted_once",
        "TLX.OnCode.C17.parse_frames_total",
        "TLX.OnCode.C17.parse_frames_progress",
        "TLX.OnCode.C17.every_byte_in_exactly_one_frame",
        "TLX.OnCode.C17.no_invented_data",
        "TLX.OnCode.C17.dispatch_matches_rfc",
    ]),
    "C11": ("TLX.Props.OnCode.C11", [
        "TLX.OnCode.C11.ones_complement_checksum_eq_rfc1071",
        "TLX.OnCode.C11.calculate_checksum_udp_eq_rfc",
        "TLX.OnCode.C11.calculate_checksum_tcp_eq_rfc",
        "TLX.OnCode.C11.calculate_checksum_never_raises",
    ]),
    "C15": ("TLX.Props.OnCode.C15", [
        "TLX.OnCode.C15.prf_tls_12_eq_rfc",
        "TLX.OnCode.C15.gen_master_secret_tls_12_eq_rfc",
        "TLX.OnCode.C15.dev_tls_12_keys_eq_rfc",
        "TLX.OnCode.C15.dev_tls_13_keys_eq_rfc",
        "TLX.OnCode.C15.dev_initial_keys_eq_rfc",
        "TLX.OnCode.C15.key_update_eq_rfc",
        "TLX.OnCode.C15.dev_quic_keys_eq_rfc",
    ]),
    "C09": ("TLX.Props.OnCode.C09", [
        "TLX.OnCode.C09.get_keys_from_string_total",
        "TLX.OnCode.C09.parse_split_at_line_boundary",
        "TLX.OnCode.C09.parse_pieces_eq_parse_joined",
        "TLX.OnCode.C09.crlf_irrelevant",
        "TLX.OnCode.C09.file_text_mode_irrelevant",
        "TLX.OnCode.C09.foreign_lines_ignored",
        "TLX.OnCode.C09.comment_and_blank_ignored",
        "TLX.OnCode.C09.keys_invariant_under_delivery_on_code",
    ]),
    "C10": ("TLX.Props.OnCode.C10", [
        "TLX.OnCode.C10.server_role",
        "TLX.OnCode.C10.server_port_is_server_port",
        "TLX.OnCode.C10.exported_ports",
        "TLX.OnCode.C10.exported_ports_quic",
    ]),
    "C01": ("TLX.Props.OnCode.C01", [
        "TLX.OnCode.C01.decrypt_tls13_aead_unprotect_protect",
        "TLX.OnCode.C01.decrypt_tls13_stream_cipher_unprotect_protect",
        "TLX.OnCode.C01.decrypt_tls12_aead_unprotect_protect",
        "TLX.OnCode.C01.decrypt_tls12_chacha20_unprotect_protect",
    ]),
    "C05": ("TLX.Props.OnCode.C05", [
        "TLX.OnCode.C05.extract_server_frame_whole_records",
        "TLX.OnCode.C05.extract_client_frame_whole_records",
    ]),
    "C03": ("TLX.Props.OnCode.C03", [
        "TLX.OnCode.C03.decrypt_packet_never_raises",
        "TLX.OnCode.C03.decrypt_packet_never_raises_translated_crypto",
    ]),
    "C14": ("TLX.Props.OnCode.C14", [
        "TLX.OnCode.C14.split_cipher_suite_sound_complete",
        "TLX.OnCode.C14.cipher_suites_keys",
    ]),
}


def wire(check):
    """([module], [theorem names]) of a check, ([], []) if it has no OnCode module"""
    if check not in BY_CHECK:
        return [], []
    mod, thms = BY_CHECK[check]
    return [mod], list(thms)
