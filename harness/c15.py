"""C15 — the keys and IVs TLExport derives, as installed for a connection, equal the RFC key schedules.

proof:          lean/TLX/Props/C15.lean (parametric in the hash; model lean/TLX/KeySchedule.lean,
                independent RFC transcription lean/TLX/Spec/KeySchedules.lean)
hashes:         Lean's own MD5/SHA-1/SHA-256/SHA-384/HMAC/HKDF (lean/TLX/Crypto/Hash.lean) vs hashlib/hmac on
                every run (a mismatch is a harness error: no derived value is trusted then)
correspondence: the Lean model run with those hashes vs the real code:
                  * real Session fed a synthetic ClientHello/ServerHello through handle_tls_record, key material
                    read from the real Decryptor object (all table suites x versions);
                  * the key_derivator / quic_key_generation functions called directly with arbitrary
                    (also senseless) arguments - the malformed stream;
                  * real QuicSession: set_initial_decryptor, set_tls_decryptors, check_key_epoch
oracle:         installed values vs harness/spec_keys.py (own hashlib implementation of the RFCs, suite
                parameters from the IANA name through its own grammar)
"""
import hashlib
import hmac as pyhmac
import types

import fw
import spec_keys
from spec_iana import R as IANA

THEOREMS = ["TLX.Props.C15." + t for t in (
    "ssl30_keys_eq_rfc", "ssl30_prf_eq_rfc_partial", "ssl30_prf_eq_rfc_counterexample",
    "quic_key_update_any_length_counterexample", "tls10_prf_eq_rfc_partial", "tls10_prf_eq_rfc_counterexample", "tls10_keys_eq_rfc",
    "tls12_prf_eq_rfc", "tls12_keys_eq_rfc", "master_secret_ssl30_eq_rfc", "master_secret_tls10_eq_rfc",
    "master_secret_tls12_eq_rfc", "hkdf_label_bytes", "tls13_keys_eq_rfc", "tls13_installed_eq_rfc",
    "tls13_installed_without_handshake_secrets", "tls13_update_keys", "quic_initial_eq_rfc",
    "quic_initial_decryptor_eq_rfc", "quic_keys_eq_rfc", "quic_installed_eq_rfc", "quic_key_update_eq_rfc",
    "quic_epoch_generations", "iv_table_eq_rfc", "installed_eq_schedule", "generateKeys_premaster",
    "installed_eq_schedule_premaster")]

ALGS = ["md5", "sha1", "sha256", "sha384"]
VERSIONS = ["ssl30", "tls10", "tls11", "tls12", "tls13"]
LABELS = {"CLIENT_RANDOM": "cr", "RSA": "rsa", "CLIENT_HANDSHAKE_TRAFFIC_SECRET": "chts",
          "SERVER_HANDSHAKE_TRAFFIC_SECRET": "shts", "CLIENT_TRAFFIC_SECRET_0": "cts0",
          "SERVER_TRAFFIC_SECRET_0": "sts0", "CLIENT_EARLY_TRAFFIC_SECRET": "cets",
          "SERVER_EARLY_TRAFFIC_SECRET": "sets"}
CLASS_TAG = {"AES": "aes", "Camellia": "camellia", "TripleDES": "3des", "IDEA": "idea", "ARC4": "rc4",
             "ChaCha20Poly1305": "chacha", "AESGCM": "aesgcm", "AESCCM": "aesccm"}
EXC = {"UnboundLocalError": "err:unbound", "IndexError": "err:index", "OverflowError": "err:overflow"}


def hx(b):
    if b is None:
        return "none"
    b = bytes(b)
    return b.hex() if b else "-"


def rb(rng, n):
    return bytes(rng.randrange(256) for _ in range(n))


def exc_name(e):
    """Exceptions are compared as `raises` (which exception class is raised is not part of C15)."""
    return "raises"


def norm(reply):
    return "raises" if reply.startswith("err:") else reply


# ====================================================================== (a) Lean hashes vs hashlib
BOUNDARY = [0, 1, 2, 3, 31, 32, 33, 47, 48, 49, 54, 55, 56, 57, 62, 63, 64, 65, 66, 110, 111, 112, 113, 118, 119, 120,
            121, 126, 127, 128, 129, 130, 183, 184, 191, 192, 193, 239, 240, 255, 256, 257, 300, 511, 512, 513]


def check_hashes(ctx):
    rng = ctx.rng
    lines, want = [], []
    lens = BOUNDARY + [rng.randrange(0, 700) for _ in range(ctx.n(10, 200))] + [ctx.n(1500, 20000)]
    for alg in ALGS:
        for n in lens:
            m = rb(rng, n)
            lines.append(f"hash {alg} {hx(m)}")
            want.append(hashlib.new(alg, m).digest())
        for kl in (0, 1, 16, 20, 32, 48, 63, 64, 65, 127, 128, 129, 200, rng.randrange(0, 300)):
            for ml in (0, 1, 55, 56, 64, 111, 112, 128, rng.randrange(0, 400)):
                k, m = rb(rng, kl), rb(rng, ml)
                lines.append(f"hmac {alg} {hx(k)} {hx(m)}")
                want.append(pyhmac.new(k, m, alg).digest())
        d = spec_keys.DIGEST[alg]
        for sl in (0, 1, d, 20, 64, 65, 129):
            s, i = rb(rng, sl), rb(rng, rng.randrange(0, 40))
            lines.append(f"hkdf_extract {alg} {hx(s)} {hx(i)}")
            want.append(spec_keys.hkdf_extract(alg, s, i))
        for ln in (0, 1, 12, 16, d - 1, d, d + 1, 2 * d, 3 * d + 5, 255 * d, rng.randrange(0, 255 * d)):
            prk, info = rb(rng, rng.choice((d, d, 1, 70, 130))), rb(rng, rng.randrange(0, 80))
            lines.append(f"hkdf_expand {alg} {hx(prk)} {hx(info)} {ln}")
            want.append(spec_keys.hkdf_expand(alg, prk, info, ln))
    got = ctx.driver("keys", lines)
    bad = [(l, hx(w), g) for l, w, g in zip(lines, want, got) if hx(w) != g]
    ctx.extra["lean_hash_validation"] = {"vectors": len(lines), "mismatches": len(bad)}
    if bad:
        raise fw.HarnessError(f"Lean hash implementation disagrees with hashlib on {len(bad)} vectors, first: "
                              f"{bad[0][0][:120]} want {bad[0][1][:64]} got {bad[0][2][:64]}")
    # the oracle's own HKDF against the library TLExport uses (ties spec_keys to `cryptography`)
    from cryptography.hazmat.primitives import hashes
    from cryptography.hazmat.primitives.kdf.hkdf import HKDFExpand
    for alg, cls in (("sha256", hashes.SHA256), ("sha384", hashes.SHA384)):
        prk, info = rb(rng, 32), rb(rng, 19)
        if HKDFExpand(cls(), 77, info).derive(prk) != spec_keys.hkdf_expand(alg, prk, info, 77):
            raise fw.HarnessError("spec_keys.hkdf_expand disagrees with cryptography's HKDFExpand")


# ====================================================================== TLS over TCP: real Session
def hello_records(version, code, cr, sr, sid_len, exts, rng_sid):
    """Synthetic ClientHello / ServerHello records for one negotiated (version, suite)."""
    rec_v = {"ssl30": b"\x03\x00", "tls10": b"\x03\x01", "tls11": b"\x03\x02", "tls12": b"\x03\x03",
             "tls13": b"\x03\x03"}[version]
    hello_v = rec_v
    suite = code.to_bytes(2, "big")
    ext = b""
    all_exts = list(exts)
    if version == "tls13":
        all_exts.append(("002b", "0304"))
    for t, d in all_exts:
        db = bytes.fromhex(d)
        ext += bytes.fromhex(t) + len(db).to_bytes(2, "big") + db
    ch_body = hello_v + cr + b"\x00" + (4).to_bytes(2, "big") + suite + b"\x00\xff" + b"\x01\x00"
    if version != "ssl30":
        ch_body += (0).to_bytes(2, "big")
    ch = b"\x01" + len(ch_body).to_bytes(3, "big") + ch_body
    sid = rng_sid[:sid_len]
    sh_body = hello_v + sr + bytes([len(sid)]) + sid + suite + b"\x00"
    if version != "ssl30" or ext:
        sh_body += len(ext).to_bytes(2, "big") + ext
    sh = b"\x02" + len(sh_body).to_bytes(3, "big") + sh_body
    crec = b"\x16" + (b"\x03\x01" if version != "ssl30" else rec_v) + len(ch).to_bytes(2, "big") + ch
    srec = b"\x16" + rec_v + len(sh).to_bytes(2, "big") + sh
    return crec, srec


class TlsImpl:
    def __init__(self):
        from tlexport.session import Session
        from tlexport.tlsrecord import TlsRecord
        from tlexport.keylog_reader import Key
        import tlexport.cipher_suite_parser as csp
        import tlexport.key_derivator as kd
        from cryptography.hazmat.primitives import hashes
        from cryptography.hazmat.primitives.ciphers import algorithms
        from cryptography.hazmat.primitives.ciphers import aead
        self.Session, self.TlsRecord, self.Key, self.csp, self.kd, self.hashes = Session, TlsRecord, Key, csp, kd, hashes
        self.cls = {"aes": algorithms.AES, "camellia": algorithms.Camellia, "3des": algorithms.TripleDES,
                    "idea": algorithms.IDEA, "rc4": algorithms.ARC4, "chacha": aead.ChaCha20Poly1305,
                    "aesgcm": aead.AESGCM, "aesccm": aead.AESCCM, "other": None}
        self.hash = {"md5": hashes.MD5, "sha1": hashes.SHA1, "sha256": hashes.SHA256, "sha384": hashes.SHA384}
        self.pkt = types.SimpleNamespace(sport=40000, dport=443, ip_src=b"\x0a\x00\x00\x01", ip_dst=b"\x0a\x00\x00\x02",
                                         ethernet_src=b"\x02" * 6, ethernet_dst=b"\x04" * 6, ipv6_packet=False, seq=1,
                                         ack=0, tls_data=b"", timestamp=0.0)

    def suite_tokens(self, code):
        """the resolved parameters generate_keys will read (C14's output), as model tokens"""
        cs = self.csp.split_cipher_suite(code.to_bytes(2, "big"))
        if cs is None:
            return None
        ca, mo, kl, mac = cs["CryptoAlgo"], cs["Mode"], cs["KeyLength"], cs["MAC"]
        if not isinstance(kl, int) or isinstance(mac, tuple):
            return None
        tag = CLASS_TAG.get(getattr(ca[0], "__name__", None), "other")
        return f"{tag} {int(bool(ca[1]))} {int(bool(mo[1]))} {kl} {mac.__name__.lower()}"

    def keys(self, keylog):
        return [self.Key(f"{l} {c} {v}") for l, c, v in keylog]

    def install(self, case):
        """ClientHello + ServerHello through the real record handler; returns the rendered key material."""
        cr, sr = bytes.fromhex(case["cr"]), bytes.fromhex(case["sr"])
        crec, srec = hello_records(case["version"], case["code"], cr, sr, case["sid_len"], case["ext"],
                                   bytes.fromhex(case["sid"]))
        with fw.quiet():
            s = self.Session(self.pkt, [443], self.keys(case["keylog"]), {}, False, False)
            try:
                s.handle_tls_record(self.TlsRecord(crec, [self.pkt], False), False)
                s.handle_tls_record(self.TlsRecord(srec, [self.pkt], True), True)
            except Exception:  # noqa  (trees without the try/except around handle_tls_server_hello)
                return "none", None, s
        return self.render(s.decryptor), s.decryptor, s

    @staticmethod
    def render(d):
        if d is None:
            return "none"
        if hasattr(d, "client_handshake_key"):
            return "tls13 " + " ".join(hx(x) for x in (
                d.client_key, d.client_iv, d.server_key, d.server_iv, d.client_handshake_key, d.client_handshake_iv,
                d.server_handshake_key, d.server_handshake_iv, d.client_application_key, d.client_application_iv,
                d.server_application_key, d.server_application_iv))
        return "legacy " + " ".join(hx(x) for x in (d.client_mac, d.server_mac, d.client_key, d.server_key,
                                                      d.client_iv, d.server_iv))


def model_secrets(keylog, cr_hex):
    items = [f"{LABELS.get(l, 'other')}:{v if v else '-'}" for l, c, v in keylog if c.lower() == cr_hex.lower()]
    return ",".join(items) if items else "-"


def tls_case(rng, version, code, secrets="normal"):
    cr, sr = rb(rng, 32), rb(rng, 32)
    other = rb(rng, 32).hex()
    keylog = []
    if version == "tls13":
        labs = ["CLIENT_HANDSHAKE_TRAFFIC_SECRET", "SERVER_HANDSHAKE_TRAFFIC_SECRET", "CLIENT_TRAFFIC_SECRET_0",
                "SERVER_TRAFFIC_SECRET_0"]
        if secrets == "no-handshake":
            labs = labs[2:]
        elif secrets == "odd":
            labs = [l for l in labs if rng.random() < 0.7] + [rng.choice(labs) for _ in range(rng.randrange(0, 2))]
        labs = labs + ["EXPORTER_SECRET"]
        rng.shuffle(labs)
        hl = spec_keys.suite_params(IANA.get(code, "")) or {"hash": "sha256"}
        n = spec_keys.DIGEST[hl["hash"]]
        keylog = [[l, cr.hex(), rb(rng, n).hex()] for l in labs]
    elif secrets == "rsa":
        keylog = [["RSA", cr.hex(), rb(rng, 48).hex()]]            # TLExport's `RSA <client_random> <pre-master secret>`
    else:
        ln = 48 if secrets != "odd" else rng.choice((0, 1, 16, 47, 48, 49, 64))
        keylog = [[rng.choice(("CLIENT_RANDOM", "CLIENT_RANDOM", "RSA")) if secrets == "odd" else "CLIENT_RANDOM",
                   cr.hex(), rb(rng, ln).hex()]]
        if secrets == "odd" and rng.random() < 0.3:
            keylog.append(["CLIENT_RANDOM", cr.hex(), rb(rng, 48).hex()])      # a second entry is ignored
    keylog.insert(rng.randrange(0, len(keylog) + 1), ["CLIENT_RANDOM", other, rb(rng, 48).hex()])
    ext = []
    if version != "ssl30":
        if rng.random() < 0.4:
            ext.append(("ff01", "00"))
        if rng.random() < 0.3 and secrets != "rsa":               # RFC 7627 changes the master secret derivation
            ext.append(("0017", ""))
        if rng.random() < 0.2:
            ext.append(("0016", ""))
    return {"kind": "tls", "version": version, "code": code, "cr": cr.hex(), "sr": sr.hex(), "keylog": keylog,
            "sid_len": rng.choice((0, 0, 32, 16)), "sid": rb(rng, 32).hex(), "ext": ext}


def tls_oracle(ctx, impl, case, rendered, dec):
    """The property on the real objects: installed values vs the independent RFC implementation."""
    name = IANA.get(case["code"])
    p = spec_keys.suite_params(name) if name else None
    version = case["version"]
    if p is None or version not in p["versions"]:
        return None                     # suite/version outside what the RFCs define: no claim
    cr, sr = bytes.fromhex(case["cr"]), bytes.fromhex(case["sr"])
    mine = [(l, bytes.fromhex(v)) for l, c, v in case["keylog"] if c == case["cr"]]
    o = ctx.oracle.setdefault("rfc-keys", {"runs": 0, "violations": 0})
    o["runs"] += 1
    sig_base = f"C15:{{{version},{p['bulk']}}}"

    def fail(what, field, exp, act):
        o["violations"] += 1
        ctx.fail(f"{sig_base}:{field}", what, case, expected=hx(exp), actual=hx(act) if not isinstance(act, str) else act,
                 how="bin/check C15 --replay <this file>")

    if version == "tls13":
        last = {}
        for l, v in mine:
            last[l] = v
        need = ("CLIENT_TRAFFIC_SECRET_0", "SERVER_TRAFFIC_SECRET_0")
        if not all(k in last for k in need) or len([l for l, _ in mine if l in LABELS]) != len(set(l for l, _ in mine if l in LABELS)):
            return None                 # incomplete / duplicated key log: nothing the RFC defines
        if dec is None:
            fail("nothing installed although all traffic secrets are in the key log", "nothing-installed", b"", rendered)
            return p
        checks = []
        ck, ci = spec_keys.tls13_traffic_keys(p["hash"], last["CLIENT_TRAFFIC_SECRET_0"], p["enc_key_length"])
        sk, si = spec_keys.tls13_traffic_keys(p["hash"], last["SERVER_TRAFFIC_SECRET_0"], p["enc_key_length"])
        checks += [("client-app-key", ck, dec.client_application_key), ("client-app-iv", ci, dec.client_application_iv),
                   ("server-app-key", sk, dec.server_application_key), ("server-app-iv", si, dec.server_application_iv)]
        if "CLIENT_HANDSHAKE_TRAFFIC_SECRET" in last:
            k, i = spec_keys.tls13_traffic_keys(p["hash"], last["CLIENT_HANDSHAKE_TRAFFIC_SECRET"], p["enc_key_length"])
            checks += [("client-hs-key", k, dec.client_handshake_key), ("client-hs-iv", i, dec.client_handshake_iv),
                       ("client-current-key", k, dec.client_key), ("client-current-iv", i, dec.client_iv)]
        if "SERVER_HANDSHAKE_TRAFFIC_SECRET" in last:
            k, i = spec_keys.tls13_traffic_keys(p["hash"], last["SERVER_HANDSHAKE_TRAFFIC_SECRET"], p["enc_key_length"])
            checks += [("server-hs-key", k, dec.server_handshake_key), ("server-hs-iv", i, dec.server_handshake_iv),
                       ("server-current-key", k, dec.server_key), ("server-current-iv", i, dec.server_iv)]
        for field, exp, act in checks:
            if act is None or bytes(act) != exp:
                fail(f"TLS 1.3 {field} differs from RFC 8446 §7.3", field, exp, act)
                return p
        # after the Finished messages the real code switches with update_keys: the current keys become the RFC's
        with fw.quiet():
            dec.update_keys(True)
            dec.update_keys(False)
        for field, exp, act in (("client-key-after-update", ck, dec.client_key), ("client-iv-after-update", ci, dec.client_iv),
                                ("server-key-after-update", sk, dec.server_key), ("server-iv-after-update", si, dec.server_iv)):
            if act is None or bytes(act) != exp:
                fail(f"TLS 1.3 {field} differs from RFC 8446 §7.3", field, exp, act)
                return p
        return p
    if not mine or mine[0][0] not in ("CLIENT_RANDOM", "RSA") or len(mine[0][1]) != 48:
        return None                     # the RFC's master secret / pre-master secret has 48 bytes
    master = mine[0][1]
    if mine[0][0] == "RSA":
        if any(t == "0017" for t, _ in case["ext"]):
            return None                 # extended master secret: needs the handshake transcript, no claim
        master = spec_keys.master_secret(version, p["prf"], mine[0][1], cr, sr)
        sig_base = f"C15:{{premaster,{version},{p['prf'] if version == 'tls12' else 'md5+sha1'}}}"
        ctx.hist("oracle_premaster", version)
    rfc = spec_keys.connection_keys(version, p, master, cr, sr)
    if dec is None:
        fail("nothing installed although the master secret is in the key log", "nothing-installed", b"", rendered)
        return p
    fields = [("client-mac-key", rfc["client_mac"], dec.client_mac), ("server-mac-key", rfc["server_mac"], dec.server_mac),
              ("client-key", rfc["client_key"], dec.client_key), ("server-key", rfc["server_key"], dec.server_key)]
    if rfc["iv_length"] > 0:            # the RFC takes an IV from the key block only then
        fields += [("client-iv", rfc["client_iv"], dec.client_iv), ("server-iv", rfc["server_iv"], dec.server_iv)]
    for field, exp, act in fields:
        if act is None or bytes(act) != exp:
            fail(f"installed {field} differs from the RFC key block partition ({name}, {version})", field, exp, act)
            break
    return p


def run_tls_cases(ctx, impl, cases, point):
    pt = ctx.point(point)
    lines, rendered = [], []
    for case in cases:
        toks = impl.suite_tokens(case["code"])
        r, dec, _ = impl.install(case)
        p = tls_oracle(ctx, impl, case, r, dec)
        if toks is None:
            continue
        lines.append(f"tlsinstall {case['version']} {toks} {case['cr']} {case['sr']} "
                     f"{model_secrets(case['keylog'], case['cr'])}")
        rendered.append((case, r))
        pt["cases"] += 1
        kl = toks.split()
        ctx.count((case["version"], toks), nontrivial=r.startswith(("legacy", "tls13")))
        ctx.hist("tls_version", case["version"])
        ctx.hist("tls_class", f"{kl[0]}/{kl[4]}")
        ctx.hist("tls_outcome", r.split(" ")[0])
        if p is not None:
            ctx.hist("oracle_version", case["version"])
    if lines:
        replies = ctx.driver("keys", lines)
        for (case, r), m in zip(rendered, replies):
            if r != m:
                ctx.disagree(point, case, r, m)
        ctx.sample({"tls": {k: rendered[0][0][k] for k in ("version", "code")}, "impl": rendered[0][1][:200],
                    "model": replies[0][:200]})


def all_tls_cases(ctx, scale=1):
    """every table suite x every version it is valid for (thorough); one per (cipher, MAC, version) class (quick)."""
    impl = TlsImpl()
    rng = ctx.rng
    cases, classes = [], {}
    table = sorted(int.from_bytes(k, "big") for k in impl.csp.cipher_suites if len(k) == 2)
    for code in table:
        name = IANA.get(code)
        p = spec_keys.suite_params(name) if name else None
        toks = impl.suite_tokens(code)
        if toks is None:
            continue
        versions = p["versions"] if p else []
        for v in versions:
            key = (toks, v)
            classes.setdefault(key, []).append(code)
    if ctx.thorough():
        for (toks, v), codes in classes.items():
            for code in codes:
                for _ in range(2 * scale):
                    cases.append(tls_case(rng, v, code))
    else:
        for (toks, v), codes in classes.items():
            for _ in range(4 * scale):
                cases.append(tls_case(rng, v, rng.choice(codes)))
    # the pre-master-secret path (`RSA` key-log label), one per class and version
    for (toks, v), codes in classes.items():
        if v != "tls13":
            for _ in range(2 * scale if not ctx.thorough() else 6 * scale):
                cases.append(tls_case(rng, v, rng.choice(codes), "rsa"))
    # TLS 1.3 without handshake secrets (fallback of parse_keys)
    t13 = [c for (t, v), cs in classes.items() if v == "tls13" for c in cs]
    for code in t13:
        cases.append(tls_case(rng, "tls13", code, "no-handshake"))
    # a second handshake that repeats the ClientHello random (and so the key-log line) of the one before it, with a fresh ServerHello
    # random: the key block depends on BOTH randoms (own generator: the draws above and below keep their streams)
    import random as _random
    r2 = _random.Random(int(cases[0]["cr"][:12], 16) if cases else 0)
    for (toks, v), codes in classes.items():
        if v != "tls13":
            a = tls_case(r2, v, r2.choice(codes), r2.choice(("normal", "normal", "rsa")))
            cases += [a, dict(a, sr=rb(r2, 32).hex())]
        else:
            # a TLS 1.3 key log that also holds the 0-RTT secret of the connection, AFTER the application secrets (merged logs)
            a = tls_case(r2, v, r2.choice(codes))
            n13 = len(bytes.fromhex(a["keylog"][0][2])) if a["keylog"] else 32
            a["keylog"] = [k for k in a["keylog"]] + [["CLIENT_EARLY_TRAFFIC_SECRET", a["cr"], rb(r2, n13).hex()]]
            cases.append(a)
    run_tls_cases(ctx, impl, cases, "tls.installed")
    # separate stream: invalid suite/version pairs, odd master-secret lengths, missing / duplicated secrets
    odd = []
    for _ in range(ctx.n(600, 6000) * scale):
        code = rng.choice(table)
        odd.append(tls_case(rng, rng.choice(VERSIONS), code, "odd"))
    run_tls_cases(ctx, impl, odd, "tls.installed.odd")
    return impl


# ====================================================================== key_derivator functions called directly
def run_direct(ctx, impl, scale=1):
    rng, kd = ctx.rng, impl.kd
    pt = ctx.point("kd.direct")
    lines, got = [], []

    def call(fn):
        try:
            with fw.quiet():
                return fn()
        except Exception as e:  # noqa
            return e

    def six(r):
        if isinstance(r, Exception):
            return exc_name(r)
        return " ".join(hx(r[k]) for k in ("client_write_MAC_secret", "server_write_MAC_secret", "client_write_key",
                                           "server_write_key", "client_write_IV", "server_write_IV"))

    def bytes_or_exc(r):
        return exc_name(r) if isinstance(r, Exception) else hx(r)

    tags = list(impl.cls)
    for _ in range(ctx.n(2500, 40000) * scale):
        which = rng.choice(("ssl30", "tls10", "tls12", "prfssl30", "prftls10", "prftls12", "genms", "dev13"))
        ms = rb(rng, rng.choice((48, 48, 48, 0, 1, 15, 32, 47, 49, 64, 65, 129)))
        cr, sr = rb(rng, rng.choice((32, 32, 0, 5, 40))), rb(rng, rng.choice((32, 32, 0, 7, 33)))
        kl, ml = rng.choice((16, 24, 32, 0, 1, 7, 40)), rng.choice((16, 20, 32, 48, 0, 5))
        kb = rng.choice((2 * kl + 2 * ml, 2 * kl + 2 * ml, 0, rng.randrange(0, 200)))
        tag, aead, mac = rng.choice(tags), rng.randrange(2), rng.choice(ALGS)
        if which == "ssl30":
            lines.append(f"devssl30 {hx(ms)} {hx(sr)} {hx(cr)} {kl} {ml} {kb} {tag} {aead}")
            got.append(six(call(lambda: kd.dev_ssl_30_keys(ms, sr, cr, kl, ml, kb, impl.cls[tag], aead))))
        elif which == "tls10":
            lines.append(f"devtls10 {hx(ms)} {hx(sr)} {hx(cr)} {kl} {ml} {kb} {tag} {aead}")
            got.append(six(call(lambda: kd.dev_tls_10_11_keys(ms, sr, cr, kl, ml, kb, impl.cls[tag], aead))))
        elif which == "tls12":
            lines.append(f"devtls12 {hx(ms)} {hx(cr)} {hx(sr)} {kl} {ml} {kb} {tag} {aead} {mac}")
            got.append(six(call(lambda: kd.dev_tls_12_keys(ms, cr, sr, kl, ml, kb, impl.cls[tag], aead, impl.hash[mac]))))
        elif which == "prfssl30":
            n, nk = rng.choice((0, 1, 16, 48, 104, 136, 159, 160, 161, 200)), rng.randrange(2)
            lines.append(f"prfssl30 {hx(ms)} {hx(cr)} {hx(sr)} {n} {nk}")
            got.append(bytes_or_exc(call(lambda: kd.prf_ssl_30(ms, cr, sr, n, nk))))
        elif which == "prftls10":
            n, nk, lab = rng.randrange(0, 260), rng.randrange(2), rb(rng, rng.randrange(0, 20))
            lines.append(f"prftls10 {hx(ms)} {hx(cr)} {hx(sr)} {hx(lab)} {n} {nk}")
            got.append(bytes_or_exc(call(lambda: kd.prf_tls_10_11(ms, cr, sr, lab, n, nk))))
        elif which == "prftls12":
            n, lab = rng.randrange(0, 260), rb(rng, rng.randrange(0, 20))
            lines.append(f"prftls12 {hx(ms)} {hx(cr)} {hx(sr)} {hx(lab)} {n} {mac}")
            got.append(bytes_or_exc(call(lambda: kd.prf_tls_12(ms, cr, sr, lab, n, impl.hash[mac]))))
        elif which == "genms":
            v = rng.choice(("ssl30", "tls10", "tls12", "tls12sha384"))
            fn = {"ssl30": kd.gen_master_secret_ssl_30, "tls10": kd.gen_master_secret_tls_10_11,
                  "tls12": kd.gen_master_secret_tls_12,
                  "tls12sha384": lambda a, b, c: kd.gen_master_secret_tls_12(a, b, c, impl.hash["sha384"])}[v]
            lines.append(f"genms {v} {hx(ms)} {hx(cr)} {hx(sr)}")
            got.append(bytes_or_exc(call(lambda: fn(ms, cr, sr))))
        else:
            labs = [rng.choice(list(LABELS) + ["EXPORTER_SECRET"]) for _ in range(rng.randrange(0, 7))]
            if rng.random() < 0.5:
                labs += ["CLIENT_TRAFFIC_SECRET_0", "SERVER_TRAFFIC_SECRET_0"]
            rng.shuffle(labs)
            keylog = [[l, "00" * 32, rb(rng, rng.choice((32, 48, 0, 7))).hex()] for l in labs]
            klen = rng.choice((16, 32, 0, 1, 24, 4080, 65536, 70000))   # HKDFExpand refuses > 255 * digest_size
            lines.append(f"dev13 {mac} {klen} {model_secrets(keylog, '00' * 32)}")
            r = call(lambda: kd.dev_tls_13_keys(impl.keys(keylog), klen, impl.hash[mac]()))
            got.append(exc_name(r) if isinstance(r, Exception) else " ".join(hx(r[k]) for k in (
                "client_handshake_traffic_secret", "server_handshake_traffic_secret",
                "client_application_traffic_secret_0", "server_application_traffic_secret_0", "client_handshake_iv",
                "server_handshake_iv", "client_application_iv", "server_application_iv")))
        ctx.hist("direct_fn", which)
        ctx.count(lines[-1], nontrivial=got[-1] != "raises")
        pt["cases"] += 1
    replies = ctx.driver("keys", lines)
    for l, g, m in zip(lines, got, replies):
        if g != norm(m):
            ctx.disagree("kd.direct", {"op": l}, g, m)


# ====================================================================== QUIC
class QuicImpl:
    def __init__(self):
        from tlexport.quic.quic_session import QuicSession
        from tlexport.quic.quic_decode import QuicVersion
        from tlexport.quic import quic_key_generation as qk
        from tlexport.quic.quic_decryptor import QuicDecryptor
        from tlexport.keylog_reader import Key
        from cryptography.hazmat.primitives import hashes
        from cryptography.hazmat.primitives.ciphers.aead import AESGCM, ChaCha20Poly1305, AESCCM
        self.QuicSession, self.QV, self.qk, self.QuicDecryptor, self.Key = QuicSession, QuicVersion, qk, QuicDecryptor, Key
        self.hash = {"sha256": hashes.SHA256, "sha384": hashes.SHA384}
        self.cipher = {0x1301: AESGCM, 0x1302: AESGCM, 0x1303: ChaCha20Poly1305, 0x1304: AESCCM}
        self.ver = {"v1": QuicVersion.V1, "v2": QuicVersion.V2, "unknown": QuicVersion.UNKNOWN}
        self.pkt = types.SimpleNamespace(sport=40000, dport=443, ip_src=b"\x0a\x00\x00\x01", ip_dst=b"\x0a\x00\x00\x02",
                                         ethernet_src=b"\x02" * 6, ethernet_dst=b"\x04" * 6, ipv6_packet=False,
                                         tls_data=b"", timestamp=0.0)

    def session(self, keylog, ver="v1"):
        s = self.QuicSession(self.pkt, [443], [self.Key(f"{l} {c} {v}") for l, c, v in keylog], {})
        s.quic_version = self.ver[ver]
        return s

    @staticmethod
    def triple(keys, side, lvl):
        return " ".join(hx(keys.get(f"{side}_{lvl}_{f}")) for f in ("key", "iv", "hp"))

    def render_keys(self, k):
        return " ".join([self.triple(k, "client", "handshake"), self.triple(k, "server", "handshake"),
                         self.triple(k, "client", "application"), self.triple(k, "server", "application"),
                         hx(k["client_application_sec"]), hx(k["server_application_sec"]),
                         self.triple(k, "client", "early"), self.triple(k, "server", "early")])

    @staticmethod
    def dec(d):
        return ",".join(hx(x) for x in d.keys)


def quic_secrets_case(rng, code, mode="normal"):
    cr = rb(rng, 32)
    alg, klen = spec_keys.QUIC_SUITES.get(code, ("sha256", 16))
    n = spec_keys.DIGEST[alg]
    labs = ["CLIENT_HANDSHAKE_TRAFFIC_SECRET", "SERVER_HANDSHAKE_TRAFFIC_SECRET", "CLIENT_TRAFFIC_SECRET_0",
            "SERVER_TRAFFIC_SECRET_0"]
    if mode == "odd":
        labs = [l for l in labs if rng.random() < 0.8] + [rng.choice(labs) for _ in range(rng.randrange(0, 2))]
    if rng.random() < 0.5:
        labs.append("CLIENT_EARLY_TRAFFIC_SECRET")
    if rng.random() < 0.15:
        labs.append("SERVER_EARLY_TRAFFIC_SECRET")
    labs.append("EXPORTER_SECRET")
    rng.shuffle(labs)
    keylog = [[l, cr.hex(), rb(rng, n if mode != "odd" else rng.choice((n, n, 7, 0))).hex()] for l in labs]
    keylog.insert(rng.randrange(len(keylog) + 1), ["CLIENT_TRAFFIC_SECRET_0", rb(rng, 32).hex(), rb(rng, n).hex()])
    events = []
    gens = rng.randrange(0, 5)
    ph = {True: 0, False: 0}
    for _ in range(rng.randrange(0, 3) + 2 * gens):
        srv = rng.random() < 0.5
        flips = sum(1 for e in events if e[2])
        flip = rng.random() < 0.6 and flips < gens
        if flip:
            ph[srv] ^= 1
        events.append((srv, ph[srv], flip))
    return {"kind": "quic-tls", "code": code, "cr": cr.hex(), "keylog": keylog,
            "events": [("s" if s else "c") + str(p) for s, p, _ in events]}


def quic_tls_run(ctx, q, case):
    """real QuicSession.set_tls_decryptors + check_key_epoch; returns (impl string, model lines, impl epoch string)"""
    code = case["code"]
    s = q.session(case["keylog"])
    cr = bytes.fromhex(case["cr"])
    try:
        with fw.quiet():
            s.set_tls_decryptors(cr, code.to_bytes(2, "big"))
    except Exception as e:  # noqa
        return exc_name(e), None, s
    if "Handshake" not in s.decryptors:
        return "none", None, s
    r = " ".join([q.render_keys(s.keys), q.dec(s.decryptors["Handshake"]),
                  ";".join(q.dec(d) for d in s.decryptors.get("Application", [])),
                  q.dec(s.decryptors["Early"]) if "Early" in s.decryptors else "none"])
    ep = None
    if "Application" in s.decryptors:
        try:
            with fw.quiet():
                for e in case["events"]:
                    s.check_key_epoch(int(e[1]), e[0] == "s")
            ep = " ".join([str(s.epoch_client), str(s.epoch_server), str(s.last_key_phase_client),
                           str(s.last_key_phase_server), ";".join(q.dec(d) for d in s.decryptors["Application"])])
        except Exception as e:  # noqa
            ep = exc_name(e)
    return r, ep, s


def quic_tls_oracle(ctx, q, case, r, s):
    code = case["code"]
    if code not in spec_keys.QUIC_SUITES:
        return
    alg, klen = spec_keys.QUIC_SUITES[code]
    mine = [(l, bytes.fromhex(v)) for l, c, v in case["keylog"] if c == case["cr"]]
    labs = [l for l, _ in mine if l in LABELS]
    last = dict(mine)
    need = ("CLIENT_HANDSHAKE_TRAFFIC_SECRET", "SERVER_HANDSHAKE_TRAFFIC_SECRET", "CLIENT_TRAFFIC_SECRET_0",
            "SERVER_TRAFFIC_SECRET_0")
    if len(labs) != len(set(labs)) or not all(k in last for k in need) or \
            any(len(last[k]) != spec_keys.DIGEST[alg] for k in last if k in LABELS):
        return
    o = ctx.oracle.setdefault("rfc-quic", {"runs": 0, "violations": 0})
    o["runs"] += 1
    sig = f"C15:{{quic,{code:04x}}}"

    def fail(field, exp, act):
        o["violations"] += 1
        ctx.fail(f"{sig}:{field}", f"QUIC {field} differs from RFC 9001", case, expected=hx(exp),
                 actual=act if isinstance(act, str) else hx(act), how="bin/check C15 --replay <this file>")
        return True

    if "Handshake" not in s.decryptors or "Application" not in s.decryptors:
        return fail("nothing-installed", b"", r[:80])
    k = s.keys
    for side, lvl, lab in (("client", "handshake", need[0]), ("server", "handshake", need[1]),
                           ("client", "application", need[2]), ("server", "application", need[3]),
                           ("client", "early", "CLIENT_EARLY_TRAFFIC_SECRET")):
        if lab not in last:
            continue
        key, iv, hp = spec_keys.quic_packet_keys(alg, last[lab], klen)
        for f, exp in (("key", key), ("iv", iv), ("hp", hp)):
            if k.get(f"{side}_{lvl}_{f}") != exp:
                return fail(f"{side}-{lvl}-{f}", exp, k.get(f"{side}_{lvl}_{f}"))
    hs = s.decryptors["Handshake"]
    exp_hs = [spec_keys.quic_packet_keys(alg, last[need[1]], klen)[0], spec_keys.quic_packet_keys(alg, last[need[1]], klen)[1],
              spec_keys.quic_packet_keys(alg, last[need[0]], klen)[0], spec_keys.quic_packet_keys(alg, last[need[0]], klen)[1]]
    if [hs.server_key, hs.server_iv, hs.client_key, hs.client_iv] != exp_hs:
        return fail("handshake-decryptor", b"".join(exp_hs), b"".join([hs.server_key, hs.server_iv, hs.client_key, hs.client_iv]))
    if "CLIENT_EARLY_TRAFFIC_SECRET" in last:
        if "Early" not in s.decryptors:
            return fail("early-decryptor", b"", "absent")
        e = s.decryptors["Early"]
        ek = spec_keys.quic_packet_keys(alg, last["CLIENT_EARLY_TRAFFIC_SECRET"], klen)
        if (e.client_key, e.client_iv) != (ek[0], ek[1]):
            return fail("early-decryptor", ek[0] + ek[1], e.client_key + e.client_iv)
    # key-update generations: decryptor n of the Application list must hold the RFC's generation n
    ssec, csec = last[need[3]], last[need[2]]
    for n, d in enumerate(s.decryptors["Application"]):
        sk = spec_keys.quic_packet_keys(alg, ssec, klen)
        ck = spec_keys.quic_packet_keys(alg, csec, klen)
        if [d.server_key, d.server_iv, d.client_key, d.client_iv] != [sk[0], sk[1], ck[0], ck[1]]:
            return fail(f"generation-{n}", sk[0] + sk[1] + ck[0] + ck[1],
                        d.server_key + d.server_iv + d.client_key + d.client_iv)
        ssec, csec = spec_keys.quic_next_secret(alg, ssec), spec_keys.quic_next_secret(alg, csec)
    ctx.hist("quic_generations", len(s.decryptors["Application"]))
    # the decryptor a packet of the current epoch is given
    if s.epoch_server >= len(s.decryptors["Application"]) or s.epoch_client >= len(s.decryptors["Application"]):
        return fail("epoch-without-decryptor", b"", f"{s.epoch_client}/{s.epoch_server} of {len(s.decryptors['Application'])}")


def run_quic(ctx, scale=1):
    q = QuicImpl()
    rng = ctx.rng
    lines, got, cases = [], [], []

    def add(line, g, case):
        lines.append(line)
        got.append(g)
        cases.append(case)

    # ---- Initial keys: every DCID length 0..20, real function and real QuicSession.set_initial_decryptor
    o = ctx.oracle.setdefault("rfc-quic-initial", {"runs": 0, "violations": 0})
    for rep in range(ctx.n(6, 60) * scale):
        for ln in range(0, 21):
            dcid = rb(rng, ln)
            case = {"kind": "quic-initial", "dcid": dcid.hex()}
            quic_initial_oracle(ctx, q, case, o)
            ctx.hist("dcid_len", ln)
            for ver in ("v1", "v2", "unknown"):
                for ch in (0, 1):
                    if ver != "v1" and rep > 0:
                        continue
                    try:
                        k = q.qk.dev_initial_keys(dcid, q.ver[ver], bool(ch))
                        g = "none" if k is None else " ".join(hx(k[f"{s}_initial_{f}"]) for s in ("client", "server")
                                                              for f in ("key", "iv", "hp"))
                    except Exception as e:  # noqa
                        g = exc_name(e)
                    add(f"quicinit {hx(dcid)} {ver} {ch}", g, case)
                    s = q.session([], ver)
                    try:
                        s.set_initial_decryptor(dcid, bool(ch))
                        g = "none" if "Initial" not in s.decryptors else \
                            q.dec(s.decryptors["Initial"]) + " " + " ".join(hx(s.keys[f"{sd}_initial_{f}"])
                                                                            for sd in ("client", "server") for f in ("key", "iv", "hp"))
                    except Exception as e:  # noqa
                        g = exc_name(e)
                    add(f"quicinitdec {hx(dcid)} {ver} {ch}", g, case)
                    ctx.count(("init", ln, ver, ch, rep), nontrivial=(ver != "unknown"))
    # ---- make_info
    for _ in range(ctx.n(40, 2000)):
        lab, n = rb(rng, rng.choice((0, 7, 8, 9, 20, 249, 250, 251))), rng.choice((0, 12, 16, 32, 48, 65535, 65536, 1 << 20))
        try:
            g = hx(q.qk.make_info(lab, n))
        except Exception as e:  # noqa
            g = exc_name(e)
        add(f"mkinfo {hx(lab)} {n}", g, {"kind": "mkinfo"})
        o2 = ctx.oracle.setdefault("hkdf-label", {"runs": 0, "violations": 0})
        if n < 65536 and len(lab) + 6 < 256:
            o2["runs"] += 1
            if g != hx(spec_keys.hkdf_label(n, lab)):
                o2["violations"] += 1
                ctx.fail("C15:{make_info}:label-bytes", "make_info differs from the HkdfLabel encoding of RFC 8446 §7.1",
                         {"kind": "mkinfo", "label": lab.hex(), "length": n}, expected=hx(spec_keys.hkdf_label(n, lab)), actual=g)
    # ---- set_tls_decryptors + check_key_epoch through a real QuicSession; dev_quic_keys / key_update directly
    qcases = []
    for code in (0x1301, 0x1302, 0x1303, 0x1304):
        for _ in range(ctx.n(60, 800) * scale):
            qcases.append(quic_secrets_case(rng, code))
    for _ in range(ctx.n(200, 3000) * scale):
        qcases.append(quic_secrets_case(rng, rng.choice((0x1301, 0x1302, 0x1303, 0x1304, 0x1305, 0x002f)), "odd"))
    for case in qcases:
        r, ep, s = quic_tls_run(ctx, q, case)
        quic_tls_oracle(ctx, q, case, r, s)
        sec = model_secrets(case["keylog"], case["cr"])
        add(f"quictls {case['code']} v1 {sec}", r, case)
        ctx.hist("quic_suite", f"{case['code']:04x}")
        ctx.count(("quictls", case["code"], sec), nontrivial=not r.startswith(("raises", "none")))
        if ep is not None and case["code"] in spec_keys.QUIC_SUITES:
            alg, klen = spec_keys.QUIC_SUITES[case["code"]]
            app0 = r.split(" ")[-2].split(";")[0]
            add(f"epoch {alg} {klen} {app0} {','.join(case['events']) or '-'}", ep, case)
        # the derivation function itself, v1 and v2 labels
        if case["code"] in spec_keys.QUIC_SUITES:
            alg, klen = spec_keys.QUIC_SUITES[case["code"]]
            for ver in ("v1", "v2"):
                try:
                    with fw.quiet():
                        k = q.qk.dev_quic_keys(klen, [q.Key(f"{l} {c} {v}") for l, c, v in case["keylog"] if c == case["cr"]],
                                               q.hash[alg](), q.ver[ver])
                    g = q.render_keys(k)
                except Exception as e:  # noqa
                    g = exc_name(e)
                add(f"quickeys {alg} {klen} {ver} {sec}", g, case)
    # ---- key_update called directly, up to 4 generations, also on decryptors with too few keys
    for _ in range(ctx.n(300, 4000) * scale):
        code = rng.choice(list(spec_keys.QUIC_SUITES))
        alg, klen = spec_keys.QUIC_SUITES[code]
        n = spec_keys.DIGEST[alg]
        nkeys = rng.choice((6, 6, 6, 4, 5))
        keys = [rb(rng, klen), rb(rng, 12), rb(rng, klen), rb(rng, 12), rb(rng, rng.choice((n, n, 5))), rb(rng, n)][:nkeys]
        gens = rng.randrange(0, 5)
        try:
            d = q.QuicDecryptor(list(keys), q.cipher[code], early=False)
            for _ in range(gens):
                d = q.qk.key_update(d, q.hash[alg], klen, q.cipher[code], q.QV.V1)
            g = q.dec(d)
        except Exception as e:  # noqa
            g = exc_name(e)
        add(f"quicku {alg} {klen} {','.join(hx(x) for x in keys)} {gens}", g, {"kind": "quicku"})
        ctx.hist("key_update_generations", gens)
        ctx.count(("ku", code, gens, nkeys, keys[0]), nontrivial=(gens > 0 and nkeys == 6))
    pt = ctx.point("quic.keys")
    replies = ctx.driver("keys", lines)
    for l, g, m, case in zip(lines, got, replies, cases):
        pt["cases"] += 1
        if g != norm(m):
            ctx.disagree("quic.keys", {"op": l[:300], **({"case": case} if case.get("kind") in ("quic-tls",) else {})}, g, m)
    ctx.sample({"quic": lines[0], "impl": got[0][:160], "model": replies[0][:160]})
    quic_rederivation_probe(ctx, q)


def quic_initial_oracle(ctx, q, case, o):
    """RFC 9001 §5.2 against the real function and the real session method (chacha20 = False: the call every
    connection starts with)."""
    dcid = bytes.fromhex(case["dcid"])
    (ck, ci, chp), (sk, si, shp) = spec_keys.quic_initial(dcid)
    o["runs"] += 1
    k = q.qk.dev_initial_keys(dcid, q.QV.V1, False)
    exp = {"client_initial_key": ck, "client_initial_iv": ci, "client_initial_hp": chp, "server_initial_key": sk,
           "server_initial_iv": si, "server_initial_hp": shp}
    bad = None
    for f, e in exp.items():
        if k is None or k.get(f) != e:
            bad = (f, e, None if k is None else k.get(f))
            break
    if bad is None:
        s = q.session([], "v1")
        s.set_initial_decryptor(dcid, False)
        d = s.decryptors.get("Initial")
        if d is None or [d.server_key, d.server_iv, d.client_key, d.client_iv] != [sk, si, ck, ci]:
            bad = ("initial-decryptor", sk + si + ck + ci, None if d is None else b"".join(d.keys))
        elif any(s.keys.get(f) != e for f, e in exp.items()):
            bad = ("session-keys", b"", b"")
    if bad:
        o["violations"] += 1
        ctx.fail(f"C15:{{quic-initial}}:{bad[0]}", "QUIC v1 Initial keys differ from RFC 9001 §5.2", case,
                 expected=hx(bad[1]), actual=hx(bad[2]), how="bin/check C15 --replay <this file>")
    return bad is None


def quic_rederivation_probe(ctx, q):
    """DESIGN §9 item 9: handle_packet re-derives the Initial keys with chacha20=True when the first offered suite
    is 0x1303. Driven at the real call site (handle_packet with an empty datagram)."""
    dcid = rb(ctx.rng, 8)
    s = q.session([], "v1")
    pkt = types.SimpleNamespace(**vars(q.pkt))
    try:
        with fw.quiet():
            s.handle_packet(pkt, dcid, q.QV.V1)              # installs the Initial decryptor
            s.tls_session.ciphersuite = b"\x13\x03"          # what update_session stores from the ClientHello
            s.handle_packet(pkt, dcid, q.QV.V1)
    except Exception as e:  # noqa
        ctx.notes.append(f"rederivation probe raised {type(e).__name__}")
        return
    d = s.decryptors.get("Initial")
    (ck, ci, _), (sk, si, _) = spec_keys.quic_initial(dcid)
    o = ctx.oracle.setdefault("rfc-quic-initial-after-clienthello", {"runs": 0, "violations": 0})
    o["runs"] += 1
    if d is None or [d.server_key, d.server_iv, d.client_key, d.client_iv] != [sk, si, ck, ci]:
        o["violations"] += 1
        ctx.fail("C15:{quic-initial}:rederived-after-chacha-clienthello",
                 "after a ClientHello whose first suite is 0x1303 handle_packet re-derives the Initial keys with a "
                 "32-byte key: not RFC 9001 §5.2 (AES-128-GCM for every connection)",
                 {"kind": "quic-rederive", "dcid": dcid.hex()}, expected=hx(sk + si + ck + ci),
                 actual=None if d is None else hx(b"".join(d.keys)))


# ====================================================================== entry points
def quic_connection_probe(ctx, scale=1, fixed=None):
    """Keys as actually installed for a whole QUIC connection: a handshake from the independent sender
    (harness/gen_quic.py; the ClientHello offers the four suites in a random order, the ServerHello picks one) is run
    through the real main.run(); afterwards the session's Handshake / Application decryptors and header-protection keys
    must be the RFC 9001 keys of the NEGOTIATED suite."""
    import random
    import gen_quic
    import tool
    import wire
    import tlexport.main as tmain
    o = ctx.oracle.setdefault("rfc-quic-connection", {"runs": 0, "violations": 0})
    todo = fixed if fixed is not None else [
        (ctx.rng.getrandbits(48), ["shuffled", "default", "suite-first"][i % 3], list(gen_quic.SUITES)[i % 4])
        for i in range(ctx.n(18, 300) * scale)]
    for idx, (seed, order, suite) in enumerate(todo):
        rng = random.Random(seed)
        # every third connection goes through a Retry: the Initial keys must then be those of the NEW destination CID
        feats = {"retry": seed % 3 == 0, "zero_rtt": False, "key_updates": 0, "new_cid": False, "prefix_cid": False,
                 "same_cid": False, "jumbo": False, "reorder": False, "offer_order": order, "suite": suite}
        c, f = gen_quic.random_connection(rng, 0, features=feats)
        r = tool.run(wire.pcapng(c.items), "\n".join(c.keylog_lines()) + "\n")
        o["runs"] += 1
        ctx.count(("quic-conn", seed), nontrivial=f["offer_order"] != "suite-first")
        ctx.hist("quic_conn.offer_order", f["offer_order"])
        case = {"kind": "quic-connection", "seed": seed, "features": {k: v for k, v in f.items() if k != "endpoints"}}
        if r.crashed or not tmain.quic_sessions:
            ctx.fail("C15:{quic-connection}:no-session", "QUIC connection not processed", case, actual=r.signature())
            o["violations"] += 1
            continue
        sess = tmain.quic_sessions[0]
        want = {"Initial": (c.si, c.ci), "Handshake": (c.k["shs"], c.k["chs"]), "Application": (c.k["sap"], c.k["cap"])}
        ctx.hist("quic_conn.retry", f["retry"])
        bad = []
        for lvl, (ks, kc) in want.items():
            d = sess.decryptors.get(lvl)
            d = d[0] if isinstance(d, list) and d else d
            got = tuple(getattr(d, a, None) for a in ("server_key", "server_iv", "client_key", "client_iv"))
            exp = (ks.key, ks.iv, kc.key, kc.iv)
            if got != exp:
                bad.append(f"{lvl}: installed {[x.hex() if isinstance(x, (bytes, bytearray)) else x for x in got]} "
                           f"RFC {[x.hex() for x in exp]}")
        for name, k in (("server_initial_hp", c.si), ("client_initial_hp", c.ci),
                        ("server_handshake_hp", c.k["shs"]), ("client_handshake_hp", c.k["chs"]),
                        ("server_application_hp", c.k["sap"]), ("client_application_hp", c.k["cap"])):
            if sess.keys.get(name) != k.hp:
                bad.append(f"{name}: installed {sess.keys.get(name)!r} RFC {k.hp.hex()}")
        if bad:
            o["violations"] += 1
            ctx.fail(f"C15:{{quic-connection,{f['suite']:04X},{f['offer_order']}}}:installed-keys",
                     "keys installed for a QUIC connection differ from the RFC 9001 schedule of the negotiated suite",
                     case, expected="RFC 9001 keys of the negotiated suite", actual=bad[:3])


def explore(ctx, scale=1):
    quic_connection_probe(ctx, scale)
    impl = all_tls_cases(ctx, scale)
    run_direct(ctx, impl, scale)
    run_quic(ctx, scale)


def run(ctx):
    ctx.rule = (
        "TLS: a real Session is fed a synthetic ClientHello/ServerHello (random randoms, session-id length, extensions) "
        "with the key log holding a random 48-byte master secret (SSL 3.0-TLS 1.2) or random traffic secrets "
        "(TLS 1.3, also without handshake secrets); the installed material is read from the real Decryptor. "
        "quick: one suite per (resolved parameters, valid version) class; thorough: every table suite x every version "
        "it is valid for, twice. Valid versions come from the IANA name (AEAD/SHA-2 suites: TLS 1.2; 0x13xx: TLS 1.3; "
        "legacy suites: TLS 1.0-1.2, SSL 3.0 for RSA/DH key exchange, IDEA not in TLS 1.2). A second stream uses invalid "
        "suite/version pairs, master secrets of odd length and incomplete or duplicated key logs (model-vs-code only). "
        "Direct calls of every key_derivator function with arbitrary lengths, cipher classes and flags. QUIC: "
        "DCIDs of every length 0..20, four suites, key logs with/without 0-RTT secrets, 0-4 key-update generations "
        "through check_key_epoch on a real QuicSession and through key_update. Non-trivial: key material was "
        "installed/derived (not an exception or `none`). IVs are compared with the RFC only where the RFC takes an IV "
        "from the key block (SSL 3.0/TLS 1.0 CBC, TLS 1.2 AEAD).")
    ctx.assumptions = [
        "the resolved cipher-suite parameters are inputs of the model (C14 proves how code points resolve); "
        "the oracle derives its own parameters from the IANA name with its own grammar (harness/spec_keys.py)",
        "Lean's executable hashes are validated against hashlib/hmac on every run (block-boundary lengths included) "
        "before any derived value is compared; the theorems do not depend on them",
        "a key-log value is taken as bytes (bytes.fromhex is not modelled); master secrets are 48 bytes in the oracle",
    ]
    import translate                 # decision-logic functions re-translated from the source and proved equal to the model
    _tm, _tt = translate.wire(ctx, "C15")
    import oncode_thms               # the property theorems stated on the regenerated definitions themselves (Props/OnCode)
    _om, _ot = oncode_thms.wire("C15")
    _tm, _tt = _tm + _om, _tt + _ot
    ctx.prove(["TLX.Props.C15"] + _tm)
    ctx.require_theorems(_tt)
    ctx.require_theorems(THEOREMS)
    check_hashes(ctx)
    explore(ctx)
    return ctx.finish(search=lambda c: explore(c, scale=3))


def replay(ctx, obj):
    case = obj["case"]
    kind = case.get("kind")
    if kind == "tls":
        impl = TlsImpl()
        r, dec, _ = impl.install(case)
        tls_oracle(ctx, impl, case, r, dec)
        print("REPLAY installed", r[:300])
    elif kind == "quic-initial":
        quic_initial_oracle(ctx, QuicImpl(), case, {"runs": 0, "violations": 0})
    elif kind == "quic-tls":
        q = QuicImpl()
        r, ep, s = quic_tls_run(ctx, q, case)
        quic_tls_oracle(ctx, q, case, r, s)
    elif kind == "quic-rederive":
        quic_rederivation_probe(ctx, QuicImpl())
        ctx.failures += [{"what": k["what"], "case": case, "expected": None, "actual": None} for k in ctx.known]
    elif kind == "quic-connection":
        f = case["features"]
        quic_connection_probe(ctx, fixed=[(case["seed"], f["offer_order"], f["suite"])])
    elif kind == "mkinfo":
        from tlexport.quic.quic_key_generation import make_info
        lab, n = bytes.fromhex(case["label"]), case["length"]
        if make_info(lab, n) != spec_keys.hkdf_label(n, lab):
            ctx.failures.append({"what": "make_info", "case": case, "expected": None, "actual": None})
    else:
        print("REPLAY unknown case kind", kind)
        return 2
    for f in ctx.failures:
        print("REPLAY-FAIL", f["what"], "expected", f.get("expected"), "actual", f.get("actual"))
    print("REPLAY", "fails" if ctx.failures else "passes")
    return 1 if ctx.failures else 0
