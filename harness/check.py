import importlib
import sys
import fw

def load(pid):
    if not (len(pid) == 3 and pid[0] == "C" and pid[1:].isdigit()):
        raise fw.HarnessError("unknown property " + pid)
    try:
        return importlib.import_module("c" + pid[1:])
    except ModuleNotFoundError as e:
        raise fw.HarnessError(f"no check for {pid}: {e}")

if __name__ == "__main__":
    fw.main(load)
