"""C12 — the export does not depend on the capture container.

proof:          lean/TLX/Props/C12.lean  (reader_roundtrip, skip_unrelated_blocks, container_independent, …)
correspondence: Lean `Container.readPrefix` vs the real `tlexport.dpkt_dsb.Reader` / `dpkt.pcap.Reader` on generated
                containers (variant matrix, free-form block sequences, opt_comment UTF-8 alphabet, malformed stream);
                the double the real reader yields is compared bit for bit with `offset + ticks / float(divisor)` of
                the model's triple and with the model's own IEEE evaluation (`ts` op); files produced by the Lean
                SPEC encoder (`enc` op) are read by the real readers (the theorem's statement on the real code)
oracles (no model involved):
  * reader level: what the independent writer (harness/containers.py) laid down comes back from the real reader;
  * IEEE residue: whole-microsecond instants × resolution × offset through the real Reader and dpkt's Writer
    give exactly that microsecond (`ts_us_invariant_statement`, sampled, not proved);
  * end to end: the real tool (in-process `tlexport.main.run()`): ONE logical TLS capture
    (harness/c12_sender.py) written in every container variant that can represent its instants must give
    byte-identical output files.
"""
import io
import os
import struct
import sys
import tempfile
from decimal import Decimal
from fractions import Fraction

import fw
import containers as C
import c12_sender

THEOREMS = ["TLX.Props.C12.reader_roundtrip", "TLX.Props.C12.reader_roundtrip_pcapng",
            "TLX.Props.C12.reader_roundtrip_legacy", "TLX.Props.C12.skip_unrelated_blocks",
            "TLX.Props.C12.skip_unrelated_before_idb", "TLX.Props.C12.container_independent",
            "TLX.Props.C12.same_instant_any_two_variants", "TLX.Props.C12.read_blocks"]


# ----------------------------------------------------------------------------------------- real readers
def errkind(e):
    import dpkt
    m = str(e)
    if isinstance(e, UnicodeDecodeError):
        return "err:unicode"
    if isinstance(e, dpkt.NeedData):
        return "err:needdata"
    if isinstance(e, dpkt.UnpackError):
        return "err:len-mismatch" if "length fields" in m else "err:unpack:" + m[:30]
    if isinstance(e, struct.error):
        return "err:struct"
    if isinstance(e, ValueError):
        for pat, k in (("not a SHB", "not-shb"), ("invalid pcapng header", "hdr-short"), ("endianness", "endianness"),
                       ("pcapng version", "version"), ("IDB not found", "no-idb"), ("read length", "read-neg"),
                       ("invalid tcpdump header", "bad-magic")):
            if pat in m:
                return "err:" + k
    return "err:other:" + type(e).__name__


def fbits(x):
    return struct.unpack("<Q", struct.pack("<d", x))[0]


def canon_ts(ts):
    if isinstance(ts, float):
        return "f:%d" % fbits(ts)
    if isinstance(ts, Decimal):
        fr = Fraction(ts)
        return "d:%d/%d" % (fr.numerator, fr.denominator)
    return "?:%r" % (ts,)


def real_read(data, legacy):
    """Canonical list of what the real reader yields (+ how it ended)."""
    import dpkt
    from tlexport.dpkt_dsb import Reader
    f = io.BufferedReader(io.BytesIO(data))
    try:
        r = dpkt.pcap.Reader(f) if legacy else Reader(f)
    except Exception as e:  # noqa
        return [errkind(e)], None
    out = []
    try:
        for ts, buf in r:
            if type(ts) is int and ts == -1:
                out.append("dsb " + (bytes(buf).hex() or "-"))
            else:
                out.append("pkt %s %s" % (canon_ts(ts), bytes(buf).hex() or "-"))
    except Exception as e:  # noqa
        out.append(errkind(e))
    return out, r


def model_canon(reply):
    """Model reply → the same canonical list (the float is computed HERE from the model's integer triple,
    with the expression shape of the source: int + (int / float))."""
    if reply == "-":
        return [], []
    out, triples = [], []
    for part in reply.split(" ; "):
        tok = part.split(" ")
        if tok[0] == "pkt":
            t, d, o = int(tok[1]), int(tok[2]), int(tok[3])
            out.append("pkt f:%d %s" % (fbits(o + (t / float(d))), tok[4]))
            triples.append((t, d, o, 0))
        elif tok[0] == "pktdec":
            t, d, o = int(tok[1]), int(tok[2]), int(tok[3])
            fr = Fraction(o) + Fraction(t, d)
            out.append("pkt d:%d/%d %s" % (fr.numerator, fr.denominator, tok[4]))
            triples.append((t, d, o, 1))
        else:
            out.append(part)
    return out, triples


# ----------------------------------------------------------------------------------------- generators
DEC = [("dec", k) for k in range(0, 10)]
BIN = [("bin", k) for k in (0, 1, 3, 6, 10, 16, 20, 30, 33)]


def rand_ticks(rng):
    mag = rng.choice((0, 1, 8, 20, 31, 32, 33, 40, 50, 53, 54, 60, 63, 64))
    return rng.randrange(0, 1 << mag) if mag else 0


def rand_frame(rng):
    n = rng.choice((0, 1, 2, 3, 4, 5, 7, 8, 13, 14, 15, 16, 31, 60, 61))
    return rng.randbytes(n)


def variant_matrix(full=True):
    vs = []
    for be in (False, True):
        for res in [None] + DEC + BIN + [("dec", 12), ("dec", 127), ("bin", 63), ("bin", 127)]:
            for off in (None, 0, 1, 1600000000, -1000, -(1 << 63), (1 << 63) - 1):
                for extras in ("", "phbe") if not full else ("", "p", "h", "b", "e", "phbe"):
                    for opts in (False, True):
                        for pb in (False, True):
                            vs.append(C.Variant("pcapng", be, res, off, False, extras, opts, pb, idb2=(opts and pb)))
        for nano in (False, True):
            vs.append(C.Variant("pcap", be, None, None, nano))
    return vs


def gen_valid_variant(ctx, v):
    """Random items laid down by the independent writer in variant v (instants derived from random ticks)."""
    rng = ctx.rng
    items = []
    for _ in range(rng.randrange(0, 6)):
        if not v.legacy and rng.random() < 0.25:
            items.append(("dsb", rng.randbytes(rng.choice((0, 1, 3, 4, 30, 77)))))
        else:
            t = rand_ticks(rng)
            if v.legacy:
                t = (t >> 32) % (1 << 32) * v.divisor() + (t & 0xffffffff) % v.divisor()
            items.append(("pkt", Fraction(v.offset()) + Fraction(t, v.divisor()), rand_frame(rng)))
    return C.write(v, items), items


def rand_opts(rng, e, idb=False):
    if rng.random() < 0.4:
        return b""
    o = b""
    for _ in range(rng.randrange(0, 4)):
        r = rng.random()
        if r < 0.25:
            o += C.opt(e, 1, rng.choice((b"plain", "zoë ✓".encode(), b"", b"a\x00\xff", b"abc\x00")))
        elif idb and r < 0.45:
            o += C.opt(e, 9, bytes([rng.choice((0, 3, 6, 9, 0x80, 0x8a, 0x94, 0xff, 0x7f))]))
        elif idb and r < 0.6:
            o += C.opt(e, 14, struct.pack(e + "q", rng.choice((0, 5, -5, 1 << 40, -(1 << 40)))))
        else:
            o += C.opt(e, rng.choice((2, 3, 4, 8, 11, 13, 2988, 19372, 65535)), rng.randbytes(rng.randrange(0, 9)))
    if rng.random() < 0.8:
        o += C.endofopt(e)
        if rng.random() < 0.1:
            o += C.opt(e, 9, b"\x03")         # options after opt_endofopt must be ignored
    return o


def gen_valid_free(ctx):
    """Free-form well-formed pcapng: arbitrary block order (blocks before the IDB, several IDBs, SPBs, DSBs
    anywhere, second SHB of the same byte order), arbitrary options, orig_len ≠ caplen."""
    rng = ctx.rng
    e = rng.choice("<>")
    out = C.shb(e, rand_opts(rng, e))
    for _ in range(rng.randrange(0, 3)):
        out += C.unrelated(e, rng.randrange(100)) if rng.random() < 0.8 else C.epb(e, rand_ticks(rng), rand_frame(rng))
    out += C.idb(e, rand_opts(rng, e, idb=True), linktype=rng.choice((1, 101, 113)), snaplen=rng.choice((0, 96, 65535)))
    for _ in range(rng.randrange(0, 8)):
        r = rng.random()
        fr = rand_frame(rng)
        if r < 0.35:
            out += C.epb(e, rand_ticks(rng), fr, rand_opts(rng, e), iface=rng.randrange(3), orig_len=len(fr) + rng.randrange(3))
        elif r < 0.45:
            out += C.pb(e, rand_ticks(rng), fr, rand_opts(rng, e), drops=rng.randrange(5))
        elif r < 0.6:
            out += C.dsb(e, rng.randbytes(rng.randrange(0, 40)), rand_opts(rng, e))
        elif r < 0.7:
            out += C.spb(e, fr)
        elif r < 0.78:
            out += C.idb(e, rand_opts(rng, e, idb=True))
        elif r < 0.82:
            out += C.shb(e)
        else:
            out += C.unrelated(e, rng.randrange(100))
    return out


SPECIAL_LENS = (0, 1, 3, 4, 6, 7, 8, 9, 11, 12, 13, 16, 19, 20, 24, 27, 28, 31, 32, 33, 36, 0x7fffffff, 0xfffffff0,
                0xffffffff)


def mutate(ctx, data, legacy):
    """One structured corruption of a valid container → (kind, bytes)."""
    rng = ctx.rng
    b = bytearray(data)
    kind = rng.choice(("truncate", "truncate-tail", "flip", "len", "len-trailer", "magic", "bom", "version", "empty",
                       "garbage-tail", "zero-run", "insert", "optlen", "noidb", "swap-endian-len"))
    if kind == "truncate":
        del b[rng.randrange(0, len(b) + 1):]
    elif kind == "truncate-tail":
        del b[max(0, len(b) - rng.randrange(1, 40)):]
    elif kind == "flip" and b:
        for _ in range(rng.randrange(1, 4)):
            b[rng.randrange(len(b))] ^= 1 << rng.randrange(8)
    elif kind in ("len", "len-trailer", "swap-endian-len") and not legacy and len(b) >= 12:
        # walk the blocks, pick one, damage one of its length fields
        e = "<" if b[8:12] == b"\x4d\x3c\x2b\x1a" else ">"
        offs, p = [], 0
        while p + 12 <= len(b):
            n = struct.unpack_from(e + "I", b, p + 4)[0]
            if n < 12 or p + n > len(b):
                break
            offs.append((p, n))
            p += n
        if offs:
            p, n = rng.choice(offs)
            if kind == "swap-endian-len":
                b[p + 4:p + 8] = b[p + 4:p + 8][::-1]
            else:
                new = rng.choice(SPECIAL_LENS + (n - 1, n + 1, n - 4, n + 4, n - 8))
                new = max(0, new) & 0xffffffff
                at = p + 4 if kind == "len" else p + n - 4
                b[at:at + 4] = struct.pack(e + "I", new)
                if kind == "len" and rng.random() < 0.5:
                    b[p + n - 4:p + n] = struct.pack(e + "I", new)       # consistent but wrong
    elif kind == "magic" and len(b) >= 4:
        b[0:4] = rng.choice((b"\x0a\x0d\x0d\x0b", b"\xa1\xb2\xc3\xd4", b"\xd4\xc3\xb2\xa1", b"\x4d\x3c\xb2\xa1", b"\xa1\xb2\x3c\x4d",
                             b"\xa1\xb2\xcd\x34", b"\x34\xcd\xb2\xa1", b"\0\0\0\0", b"\x0a\x0d\x0d\x0a"))
    elif kind == "bom" and len(b) >= 12 and not legacy:
        b[8:12] = rng.choice((b"\x1a\x2b\x3c\x4d", b"\x4d\x3c\x2b\x1a", b"\x1a\x2b\x3c\x4e", b"\0\0\0\0"))
    elif kind == "version" and len(b) >= 14 and not legacy:
        b[12:14] = rng.choice((b"\x00\x02", b"\x02\x00", b"\x00\x00", b"\x01\x01"))
    elif kind == "empty":
        del b[:]
    elif kind == "garbage-tail":
        b += rng.randbytes(rng.randrange(1, 12))
    elif kind == "zero-run" and b:
        p = rng.randrange(len(b))
        b[p:p + 4] = b"\0" * len(b[p:p + 4])
    elif kind == "insert":
        p = rng.randrange(len(b) + 1)
        b[p:p] = rng.randbytes(rng.randrange(1, 9))
    elif kind == "optlen" and len(b) > 60:
        p = rng.randrange(28, len(b) - 2)
        b[p:p + 2] = struct.pack("<H", rng.choice((0, 1, 2, 3, 5, 0xffff)))
    elif kind == "noidb" and not legacy and len(b) >= 28:
        e = "<" if b[8:12] == b"\x4d\x3c\x2b\x1a" else ">"
        n = struct.unpack_from(e + "I", b, 4)[0]
        if n + 4 <= len(b) and b[n:n + 4] in (b"\x01\0\0\0", b"\0\0\0\x01"):
            b[n:n + 4] = struct.pack(e + "I", 0xB)
    return kind, bytes(b)


# ----------------------------------------------------------------------------------------- reader-level oracle
def reader_roundtrip_oracle(ctx, v, items, data):
    """reader_roundtrip on the REAL reader against the writer's own input (no model): what was written in variant v
    must come back — same kinds, order and bytes; every timestamp within double precision of the exact instant and,
    for whole-microsecond instants in [0, 2^31) s, exactly that microsecond after dpkt's rounding."""
    import dpkt
    from tlexport.dpkt_dsb import Reader
    o = ctx.oracle.setdefault("real-reader-returns-what-was-written", {"files": 0, "violations": 0})
    o["files"] += 1
    f = io.BufferedReader(io.BytesIO(data))
    got, err = [], None
    try:
        for ts, buf in (dpkt.pcap.Reader(f) if v.legacy else Reader(f)):
            got.append((ts, bytes(buf)))
    except Exception as ex:  # noqa
        err = "%s: %s" % (type(ex).__name__, str(ex)[:100])
    want = [it for it in items if not (v.legacy and it[0] == "dsb")]
    bad = err
    if bad is None and len(got) != len(want):
        bad = "%d items instead of %d" % (len(got), len(want))
    if bad is None:
        for i, ((ts, buf), it) in enumerate(zip(got, want)):
            if it[0] == "dsb":
                if not (type(ts) is int and ts == -1 and buf == it[1]):
                    bad = "item %d: secrets not delivered as (-1, secrets)" % i
            else:
                exact = Fraction(it[1])
                if buf != it[2] or (type(ts) is int and ts == -1):
                    bad = "item %d: packet bytes differ" % i
                elif abs(Fraction(ts) - exact) > max(Fraction(1, 10 ** 6), max(abs(exact), abs(v.offset()), abs(exact - v.offset())) / (1 << 49)):
                    bad = "item %d: timestamp %r for instant %s" % (i, ts, float(exact))
                elif (exact * 10 ** 6).denominator == 1 and 0 <= exact < (1 << 31) - abs(v.offset()) and abs(v.offset()) < 1 << 31 \
                        and round(float(ts) * 1e6) != exact * 10 ** 6:
                    bad = "item %d: instant %s µs rounds to %d µs" % (i, exact * 10 ** 6, round(float(ts) * 1e6))
            if bad:
                break
    if bad:
        o["violations"] += 1
        ctx.fail("C12:{reader}:roundtrip", "the reader does not return what the container holds", 
                 {"variant": v.to_json(), "file_hex": data.hex(), "legacy": v.legacy, "oracle": "reader"},
                 expected=[(it[0], str(it[1]) if it[0] == "pkt" else it[1].hex()) for it in want][:6], actual=bad)


# ----------------------------------------------------------------------------------------- correspondence
def correspond(ctx, cases, point):
    """cases: list of (label, legacy, bytes)."""
    p = ctx.point(point)
    lines = [("readl " if legacy else "read ") + (data.hex() or "-") for _, legacy, data in cases]
    replies = ctx.driver("container", lines)
    ts_lines, ts_expect = [], []
    for (label, legacy, data), reply in zip(cases, replies):
        impl, reader = real_read(data, legacy)
        if reply.startswith("err:"):
            model, triples = [reply], []
        else:
            model, triples = model_canon(reply)
        p["cases"] += 1
        ctx.hist(point + ".outcome", next((x for x in impl if x.startswith("err:")), "ok"))
        ctx.hist(point + ".items", min(len(impl), 8))
        nontrivial = any(x.startswith("pkt") or x.startswith("dsb") for x in impl) or any(x.startswith("err:") for x in impl)
        ctx.count((point, data), nontrivial=nontrivial)
        if impl != model:
            ctx.disagree(point, {"label": label, "legacy": legacy, "file_hex": data.hex()}, impl, model)
            continue
        # the reader's scaling operands themselves (when the attributes still exist under these names)
        if reader is not None and not legacy and triples:
            d, o = getattr(reader, "_divisor", None), getattr(reader, "_tsoffset", None)
            if d is not None and o is not None and (float(triples[0][1]) != d or triples[0][2] != o):
                ctx.disagree(point + ".operands", {"label": label, "file_hex": data.hex()}, [d, o], list(triples[0][1:3]))
        for (t, d, o, dec), c in zip(triples, [x for x in impl if x.startswith("pkt")]):
            ts_lines.append("ts %d %d %d %d" % (t, d, o, dec))
            if dec:
                x = float(Fraction(o) + Fraction(t, d))          # float(Decimal): one correctly rounded conversion
            else:
                x = struct.unpack("<d", struct.pack("<Q", int(c.split(" ")[1][2:])))[0]
            us = int(round(x * 1e6)) if 0 <= x < 1.8e13 else None
            ts_expect.append((fbits(x), us))
    if ts_lines:
        tp = ctx.point(point + ".ieee")
        for line, rep, (bits, us) in zip(ts_lines, ctx.driver("container", ts_lines), ts_expect):
            tp["cases"] += 1
            mb, mu = rep.split(" ")
            if int(mb) != bits or (us is not None and int(mu) != us):
                ctx.disagree(point + ".ieee", {"op": line}, [bits, us], rep)
    if cases:
        ctx.sample({"point": point, "label": str(cases[0][0])[:200], "legacy": cases[0][1],
                    "file_hex": cases[0][2].hex()[:400], "model": replies[0][:300]})


def run_correspondence(ctx, scale=1):
    rng = ctx.rng
    vs = variant_matrix(full=ctx.thorough())
    # (1) the variant matrix through the independent writer
    cases = []
    reps = ctx.n(1, 3) * scale
    for v in vs:
        for _ in range(reps):
            data, items = gen_valid_variant(ctx, v)
            cases.append((repr(v), v.legacy, data))
            reader_roundtrip_oracle(ctx, v, items, data)
            ctx.hist("variant.fmt", v.fmt + ("-be" if v.be else "-le"))
            ctx.hist("variant.tsresol", str(v.tsresol) if not v.legacy else ("ns" if v.nano else "us"))
    correspond(ctx, cases, "reader.variants")
    # (2) free-form well-formed pcapng
    correspond(ctx, [("free", False, gen_valid_free(ctx)) for _ in range(ctx.n(1500, 20000) * scale)], "reader.freeform")
    # (3) malformed stream (model tie only)
    mal = []
    for _ in range(ctx.n(4000, 60000) * scale):
        r = rng.random()
        if r < 0.5:
            v = rng.choice(vs)
            data, _ = gen_valid_variant(ctx, v)
            legacy = v.legacy
        else:
            data, legacy = gen_valid_free(ctx), False
        for _ in range(rng.choice((1, 1, 1, 2, 3))):
            kind, data = mutate(ctx, data, legacy)
        if rng.random() < 0.1:
            legacy = not legacy                                  # wrong reader for the format
        ctx.hist("malformed.kind", kind)
        mal.append((kind, legacy, data))
    # hand-picked degenerate files
    for d in (b"", b"\x0a\x0d\x0d\x0a", C.shb("<"), C.shb(">"), C.shb("<") + b"\x01\0\0\0", C.shb("<") + C.idb("<"),
              C.shb("<") + C.idb("<") + struct.pack("<II", 6, 7) + b"\0" * 40, C.shb("<") + C.idb("<") + struct.pack("<II", 6, 8),
              C.shb("<") + C.idb("<") + struct.pack("<II", 5, 7) + b"\1" * 13, C.shb("<")[:27], b"\xa1\xb2\xc3\xd4" + b"\0" * 19,
              b"\xa1\xb2\xc3\xd4" + b"\0" * 20, b"\xa1\xb2\xc3\xd4" + b"\0" * 20 + b"\0" * 15,
              b"\xa1\xb2\xcd\x34" + b"\0" * 20 + struct.pack(">IIII", 5, 6, 3, 3) + b"\0" * 8 + b"abc"):
        mal.append(("hand", False, d))
        mal.append(("hand", True, d))
    correspond(ctx, mal, "reader.malformed")
    run_utf8(ctx, ctx.n(3000, 40000) * scale)
    run_spec_tie(ctx, ctx.n(1500, 20000) * scale)


UTF8_ALPHABET = bytes([0x00, 0x41, 0x7f, 0x80, 0x8f, 0x90, 0x9f, 0xa0, 0xbf, 0xc0, 0xc1, 0xc2, 0xdf, 0xe0, 0xe1, 0xec, 0xed, 0xee, 0xef,
                       0xf0, 0xf1, 0xf3, 0xf4, 0xf5, 0xff])


def run_utf8(ctx, n):
    """opt_comment decoding (strict UTF-8, NUL fallback): comments over a boundary alphabet, in every block kind."""
    rng = ctx.rng
    cases = []
    for _ in range(n):
        e = rng.choice("<>")
        c = bytes(rng.choice(UTF8_ALPHABET) for _ in range(rng.randrange(1, 7)))
        if rng.random() < 0.3:
            c = rng.choice(("é", "€", "😀", "\ud7ff", "\ue000", "\U0010ffff")).encode() + c[:rng.randrange(0, 3)]
        o = C.opt(e, 1, c) + C.endofopt(e)
        where = rng.randrange(4)
        data = (C.shb(e, o if where == 0 else b"") + C.idb(e, o if where == 1 else b"")
                + C.epb(e, 5, b"abc", o if where == 2 else b"") + C.dsb(e, b"k", o if where == 3 else b"") + C.epb(e, 6, b"z"))
        cases.append((c.hex(), False, data))
    correspond(ctx, cases, "reader.utf8-comments")


def run_spec_tie(ctx, n):
    """The statement of reader_roundtrip on the REAL readers: files produced by the Lean SPEC encoder (driver op `enc`)
    must be read back by dpkt_dsb.Reader / dpkt.pcap.Reader as exactly the events with the variant's (divisor, offset)."""
    rng = ctx.rng
    p = ctx.point("spec-encoder.real-reader")
    reqs = []
    for _ in range(n):
        fmt = "pcap" if rng.random() < 0.2 else "ng"
        e = rng.choice(("le", "be"))
        flags = "".join(c for c in "oEpabzPxn" if rng.random() < 0.4) or "-"
        res = rng.choice([None] + DEC + BIN + [("dec", 127), ("bin", 127)])
        off = rng.choice((None, 0, 5, -5, 1600000000, -(1 << 63), (1 << 63) - 1))
        evs = []
        for _ in range(rng.randrange(0, 6)):
            if rng.random() < 0.25:
                evs.append(("d", rng.randbytes(rng.randrange(0, 20))))
            else:
                t = rand_ticks(rng)
                if fmt == "pcap":
                    U = 10 ** 9 if "n" in flags else 10 ** 6
                    t = min(t, (1 << 32) * U - 1)
                evs.append(("p", t, rand_frame(rng)))
        line = "enc %s %s %s %s %s %s" % (fmt, e, "-" if res is None else ("d%d" if res[0] == "dec" else "b%d") % res[1],
                                          "-" if off is None else off, flags,
                                          " ".join("p:%d:%s" % (x[1], x[2].hex() or "-") if x[0] == "p" else "d:%s" % (x[1].hex() or "-") for x in evs))
        reqs.append((fmt, e, res, off, flags, evs, line.rstrip()))
    replies = ctx.driver("container", [r[-1] for r in reqs])
    for (fmt, e, res, off, flags, evs, line), rep in zip(reqs, replies):
        p["cases"] += 1
        if rep == "bad-op":
            ctx.disagree("spec-encoder.real-reader", {"op": line}, "accepted", rep)
            continue
        data = bytes.fromhex(rep) if rep != "-" else b""
        impl, _ = real_read(data, fmt == "pcap")
        want = []
        for x in evs:
            if x[0] == "d":
                if fmt == "ng":
                    want.append("dsb " + (x[1].hex() or "-"))
            elif fmt == "ng":
                d = 10 ** 6 if res is None else (10 if res[0] == "dec" else 2) ** res[1]
                want.append("pkt f:%d %s" % (fbits((off or 0) + (x[1] / float(d))), x[2].hex() or "-"))
            elif "n" in flags:
                fr = Fraction(x[1], 10 ** 9)
                want.append("pkt d:%d/%d %s" % (fr.numerator, fr.denominator, x[2].hex() or "-"))
            else:
                want.append("pkt f:%d %s" % (fbits(x[1] // 10 ** 6 + ((x[1] % 10 ** 6) / 1E6)), x[2].hex() or "-"))
        ctx.count(("spec", line), nontrivial=bool(evs))
        if impl != want:
            ctx.disagree("spec-encoder.real-reader", {"op": line, "file_hex": data.hex(), "legacy": fmt == "pcap"}, impl, want)


def run_residue(ctx, n_files):
    """The floating-point residue (`ts_us_invariant_statement`) sampled on the real code: whole-microsecond instants in
    [0, 2^31) s written at resolution 10^-j / 2^-j with an offset; real Reader → dpkt's own Writer → strict decode must
    give exactly that microsecond.  The model's IEEE evaluation is sampled on the same triples."""
    import dpkt
    from math import gcd
    from tlexport.dpkt_dsb import Reader
    rng = ctx.rng
    o = ctx.oracle.setdefault("ieee-residue-whole-microseconds", {"instants": 0, "violations": 0,
                                                                  "outside_domain_not_asserted": 0, "outside_domain_off_by_one": 0})
    tp = ctx.point("ieee.residue-model")
    for _ in range(n_files):
        res = rng.choice([("dec", j) for j in range(0, 10)] + [("bin", j) for j in (0, 1, 5, 6, 10, 20, 30, 33)])
        div = (10 if res[0] == "dec" else 2) ** res[1]
        off = rng.choice((None, 0, 1, 7, 1000, -1000, 1600000000, 12345678, -1, (1 << 31) - 1, -(1 << 31) + 1))
        be = rng.random() < 0.5
        v = C.Variant("pcapng", be, res, off)
        m = div // gcd(div, 10 ** 6)                       # ticks must be a multiple of m for a whole-µs instant
        ks, items = [], []
        for _ in range(400):
            sec = rng.choice((0, 1, 999999999, 1700000000, 2147483646, rng.randrange(0, (1 << 31) - 1), 1 << rng.randrange(1, 31)))
            frac = rng.choice((0, 1, 499999, 500000, 500001, 999999, rng.randrange(10 ** 6), 15625 * rng.randrange(64)))
            k = sec * 10 ** 6 + frac
            ticks = (k - (off or 0) * 10 ** 6) * div // 10 ** 6
            ticks -= ticks % m
            if not 0 <= ticks < 1 << 64:
                continue
            num = (off or 0) * 10 ** 6 * div + ticks * 10 ** 6
            k = num // div
            if num % div or not 0 <= k < (1 << 31) * 10 ** 6:
                continue
            ks.append((k, ticks, ticks < (1 << 31) * div and abs(off or 0) < 1 << 31))
            items.append(("pkt", Fraction(k, 10 ** 6), b""))
        if not ks:
            continue
        data = C.write(v, items)
        out = io.BytesIO()
        try:
            w = dpkt.pcapng.Writer(out, snaplen=20000)
            for ts, buf in Reader(io.BufferedReader(io.BytesIO(data))):
                w.writepkt(bytes(buf), ts)
            got = [us for us, _ in strict_packets(out.getvalue())]
        except Exception as ex:  # noqa
            got = "%s: %s" % (type(ex).__name__, str(ex)[:100])
        if isinstance(got, str) or len(got) != len(ks):
            o["violations"] += 1
            ctx.fail("C12:{ieee}:read-write-failed", "a well-formed single-interface pcapng is not read (or its timestamps "
                     "cannot be written back)", {"tsresol": list(res), "tsoffset": off, "be": be, "ticks_list": [t for _, t, _ in ks[:5]]},
                     expected="%d packets with whole-microsecond timestamps" % len(ks),
                     actual=got if isinstance(got, str) else "%d packets" % len(got))
            continue
        lines = []
        for (k, ticks, in_domain), g in zip(ks, got):
            lines.append("ts %d %d %d 0" % (ticks, div, off or 0))
            if not in_domain:              # a quotient ≥ 2^31 s (instants after 2038 − offset): beyond the stated domain
                o["outside_domain_not_asserted"] += 1
                o["outside_domain_off_by_one"] += (g != k)
                continue
            o["instants"] += 1
            ctx.count(("residue", res, off, k), nontrivial=(res != ("dec", 6) or off))
            if g != k:
                o["violations"] += 1
                ctx.fail("C12:{ieee}:whole-microsecond", "a whole-microsecond instant is exported as another microsecond "
                         "because of the container's timestamp resolution/offset",
                         {"tsresol": list(res), "tsoffset": off, "ticks_list": [ticks], "be": be}, expected=k, actual=g)
        for (k, ticks, in_domain), g, rep in zip(ks, got, ctx.driver("container", lines)):
            tp["cases"] += 1
            if int(rep.split(" ")[1]) != g:                 # the model's IEEE evaluation = the real reader + dpkt writer
                ctx.disagree("ieee.residue-model", {"ticks": ticks, "divisor": div, "offset": off or 0}, g, rep)
        ctx.hist("residue.tsresol", "%s%d" % res)


# ----------------------------------------------------------------------------------------- oracle (real tool)
class Tool:
    """tlexport.main.run() in-process, the four module-level lists reset before every run."""

    def __init__(self):
        import tlexport.main as m
        self.m = m
        self.dir = tempfile.mkdtemp(prefix="c12_", dir="/dev/shm" if os.path.isdir("/dev/shm") else None)
        self.empty = os.path.join(self.dir, "empty.log")
        open(self.empty, "w").close()

    def run(self, data, legacy, keylog_text):
        m = self.m
        inp, out, kl = (os.path.join(self.dir, n) for n in ("in.cap", "out.pcapng", "keys.log"))
        with open(inp, "wb") as fh:
            fh.write(data)
        if os.path.exists(out):
            os.remove(out)
        if keylog_text is None:
            kl = self.empty
        else:
            with open(kl, "w") as fh:
                fh.write(keylog_text)
        m.server_ports[:] = [443, 44330]
        del m.keylog[:], m.sessions[:], m.quic_sessions[:]
        argv = sys.argv
        sys.argv = ["tlexport", "-i", inp, "-s", kl, "-o", out] + (["-l"] if legacy else [])
        status = "ok"
        try:
            with fw.quiet():
                m.run()
        except SystemExit as e:
            status = "exit:%r" % (e.code,)
        except Exception as e:  # noqa
            status = "crash:%s: %s" % (type(e).__name__, str(e)[:120])
        finally:
            sys.argv = argv
            for h in list(__import__("logging").getLogger().handlers):
                pass
        blob = open(out, "rb").read() if os.path.exists(out) else None
        return status, blob

    def close(self):
        import shutil
        shutil.rmtree(self.dir, ignore_errors=True)


def strict_packets(blob):
    """Independent strict decode of the tool's output (LE/BE pcapng, µs): [(µs, frame)] or None."""
    if blob is None or len(blob) < 28 or blob[:4] != b"\x0a\x0d\x0d\x0a":
        return None
    e = "<" if blob[8:12] == b"\x4d\x3c\x2b\x1a" else ">"
    p, out = 0, []
    while p < len(blob):
        if p + 12 > len(blob):
            return None
        ty, n = struct.unpack_from(e + "II", blob, p)
        if n < 12 or n % 4 or p + n > len(blob) or struct.unpack_from(e + "I", blob, p + n - 4)[0] != n:
            return None
        if ty == 6:
            _, hi, lo, cap, _ = struct.unpack_from(e + "IIIII", blob, p + 8)
            out.append(((hi << 32) | lo, blob[p + 28:p + 28 + cap]))
        p += n
    return out


def oracle_variants(thorough):
    """Container variants of the end-to-end matrix (secrets: 'file' = -s key log, 'dsb' = DSB inside the capture)."""
    vs = []
    for be in (False, True):
        for res in [None] + DEC + BIN:
            for off in (None, 1600000000, -1000):
                vs.append((C.Variant("pcapng", be, res, off, False, "", False, False), "file"))
        for res in (None, ("dec", 9), ("bin", 20)):
            for extras in ("p", "h", "b", "e", "phbe"):
                for opts in (False, True):
                    for pb in (False, True):
                        vs.append((C.Variant("pcapng", be, res, 1 if opts else None, False, extras, opts, pb,
                                             idb2=(pb and opts)), "dsb" if (opts != pb) else "file"))
        vs.append((C.Variant("pcapng", be, None, None, False, "", True, False), "dsb"))
        for nano in (False, True):
            vs.append((C.Variant("pcap", be, None, None, nano), "file"))
    return vs


def safe_us(instant):
    """µs value every correct evaluation must produce, or None when it is not decidable in doubles.
    Whole-microsecond instants (in [0, 2^31) s): exactly that microsecond (the sampled, unproved
    `ts_us_invariant_statement`).  Other instants: round-to-nearest unless the instant is within the four-rounding
    error budget (float(ticks), the division, the offset sum, ts*1e6: each ≤ 2^-53 relative) of the half-way point —
    those are the declared floating-point residue and are not asserted (at epoch 1.7e9 the budget exceeds 0.5 µs,
    so sub-µs instants are asserted at small epochs only)."""
    x = Fraction(instant) * 1000000
    lo = x.numerator // x.denominator
    frac = x - lo
    if frac == 0:
        return lo
    budget = Fraction(4, 1 << 53) * max(x, 1000000)
    if abs(frac - Fraction(1, 2)) <= budget:
        return None
    return lo + (1 if frac > Fraction(1, 2) else 0)


def instants_for(rng, n, cls):
    """n increasing instants of a resolution class (so that the same instants are exact in several variants)."""
    # every instant stays below 2^31 − 1000 s, so that no quotient ticks/divisor reaches 2^31 even with tsoffset −1000
    base = {"epoch": 1700000000, "small": 1000, "y2038": 2147000000, "zero": 0}[
        "small" if cls in ("ns", "ns-half") else rng.choice(("epoch", "epoch", "small", "y2038", "zero"))]
    t = Fraction(base) + (rng.randrange(0, 100) if base else 0)
    out = []
    for _ in range(n):
        if cls == "sec":
            t += rng.randrange(1, 4)
        elif cls == "eighth":
            t += Fraction(rng.randrange(1, 40), 8)
        elif cls == "dyadic6":
            t += Fraction(rng.randrange(1, 200), 64)
        elif cls == "us":
            t += Fraction(rng.randrange(1, 3000000), 10 ** 6)
        elif cls == "us-edge":            # µs instants whose decimal expansion sits next to a binary rounding edge
            t += Fraction(rng.choice((1, 499999, 500000, 500001, 999999, 1000001, 2 ** 19, 2 ** 19 + 1, 123457)), 10 ** 6)
        elif cls == "ns":                 # sub-µs part in the safe zone [0, 40] ∪ [960, 999] ns
            t = Fraction(int(t * 10 ** 6) + rng.randrange(1, 2000000), 10 ** 6) + Fraction(rng.choice((0, 1, 7, 40, 960, 993, 999)), 10 ** 9)
        elif cls == "ns-epoch":           # ns-granular instants at a large epoch: NOT decidable in doubles — residue statistics only
            t = Fraction(1700000000 * 10 ** 6 + int(t * 10 ** 6) % 10 ** 9 + rng.randrange(1, 2000000), 10 ** 6) + Fraction(rng.randrange(1, 1000), 10 ** 9)
        elif cls == "ns-half":            # small epoch: k + 0.5 µs ± a few ns is decidable in a double
            t = Fraction(int(t * 10 ** 6) + rng.randrange(1, 2000000), 10 ** 6) + Fraction(rng.choice((499, 501, 490, 510, 495, 505)), 10 ** 9)
        out.append(t)
    return out


def run_capture(ctx, tool, frames, keylog, plaintexts, cls, variants, label):
    """One logical capture (frames + instants of class cls) through every variant that can represent it."""
    rng = ctx.rng
    o = ctx.oracle.setdefault("export-identical-across-containers", {"runs": 0, "captures": 0, "violations": 0,
                                                                     "residue_not_asserted": 0})
    inst = instants_for(rng, len(frames), cls)
    pkts = [("pkt", t, f) for t, f in zip(inst, frames)]
    base_out, base_v = None, None
    o["captures"] += 1
    usable = [(v, sec) for v, sec in variants if v.can(pkts)]
    ctx.hist("oracle.class", cls)
    for v, sec in usable:
        items = ([("dsb", keylog.encode())] if sec == "dsb" else []) + pkts
        C.BIG_UNRELATED = True          # variants with blocks before every item: one of them is a 300 kB custom block between packets
        try:
            data = C.write(v, items)
        finally:
            C.BIG_UNRELATED = False
        status, blob = tool.run(data, v.legacy, None if sec == "dsb" else keylog)
        o["runs"] += 1
        dec = strict_packets(blob)
        case = {"class": cls, "variant": v.to_json(), "secrets": sec, "label": label, "keylog": keylog,
                "instants": [[t.numerator, t.denominator] for t in inst], "frames_hex": [f.hex() for f in frames]}
        ctx.hist("oracle.variant", "%s-%s-%s" % (v.fmt, "be" if v.be else "le", ("ns" if v.nano else "us") if v.legacy else v.tsresol))
        if base_out is None:
            # the first usable variant is the reference; it must itself be a real export
            base_out, base_v, base_dec = blob, v, dec
            if status != "ok" or dec is None or not any(plaintexts[0] in fr for _, fr in dec):
                ctx.fail("C12:{reference}:no-export", "reference container gives no decrypted export",
                         case, expected="decrypted application data in the output", actual=status)
                o["violations"] += 1
                return
            # the exported timestamps must be capture instants (µs), where the double can decide them
            allowed = {safe_us(t) for t in inst}
            if None not in allowed:
                bad = [us for us, _ in dec if us not in allowed]
                if bad:
                    ctx.fail("C12:{reference}:timestamp", "exported timestamp is not a capture instant", case,
                             expected=sorted(allowed), actual=bad[:5])
                    o["violations"] += 1
                    return
            ctx.count((label, cls, "ref"), nontrivial=False)
            continue
        nontrivial = v.key() != base_v.key()
        ctx.count((label, cls, v.key(), sec), nontrivial=nontrivial)
        if status != "ok":
            sig = "C12:{legacy-ns}:crash" if (v.legacy and v.nano) else "C12:{variant}:crash"
            ctx.fail(sig, "the tool fails on a container variant of a capture it exports from another container",
                     case, expected="same export as from " + repr(base_v), actual=status)
            o["violations"] += 1
            continue
        if blob != base_out:
            # float residue: only instants the double cannot decide may differ, and then by one µs at most
            undecidable = any(safe_us(t) is None for t in inst)
            if undecidable and dec is not None and len(dec) == len(base_dec) and all(
                    f1 == f2 and abs(u1 - u2) <= 1 for (u1, f1), (u2, f2) in zip(dec, base_dec)):
                o["residue_not_asserted"] += 1
                continue
            what = "export differs between container variants"
            sig = "C12:{variant}:export-differs"
            if dec is not None and len(dec) == len(base_dec) and all(f1 == f2 for (_, f1), (_, f2) in zip(dec, base_dec)):
                what = "exported timestamps differ between container variants"
                sig = "C12:{variant}:timestamps-differ"
            ctx.fail(sig, what, case, expected={"reference": base_v.to_json(), "packets": [(u, f.hex()[:40]) for u, f in (base_dec or [])][:6]},
                     actual=[(u, f.hex()[:40]) for u, f in (dec or [])][:6] if dec is not None else "unreadable output")
            o["violations"] += 1


CLASSES_Q = ("sec", "eighth", "dyadic6", "us", "us-edge", "ns", "ns-half", "ns-epoch")


def run_oracle(ctx, scale=1):
    tool = Tool()
    try:
        variants = oracle_variants(ctx.thorough())
        # quick: ONE logical capture, every timestamp class, the full variant matrix
        frames, keylog, pts, ver = c12_sender.connection(ctx.rng, version="1.3")
        ctx.sample({"oracle_capture": {"tls": ver, "frames": len(frames), "variants": len(variants)}})
        for cls in CLASSES_Q:
            run_capture(ctx, tool, frames, keylog, pts, cls, variants, "quick-1.3")
        frames, keylog, pts, ver = c12_sender.connection(ctx.rng, version="1.2")
        run_capture(ctx, tool, frames, keylog, pts, "us", variants, "quick-1.2")
        # thorough / search: random captures × random variant subsets
        for i in range(ctx.n(0, 150) * scale + (scale - 1) * 10):
            frames, keylog, pts, ver = c12_sender.connection(ctx.rng)
            cls = ctx.rng.choice(CLASSES_Q)
            sub = ctx.rng.sample(variants, min(len(variants), 40))
            sub.sort(key=lambda x: (x[0].key() != C.Variant().key()))
            run_capture(ctx, tool, frames, keylog, pts, cls, sub, "rand-%d-%s" % (i, ver))
    finally:
        tool.close()


def run(ctx):
    ctx.rule = ("correspondence: containers written by the independent writer over the variant matrix (format × byte "
                "order × if_tsresol 10^-k/2^-k × if_tsoffset × unrelated-block placement × options × EPB/PB) with random "
                "items, free-form well-formed block sequences, opt_comment byte strings over a UTF-8 boundary alphabet, "
                "files from the Lean spec encoder, and a malformed stream (15 structured corruptions + hand-picked "
                "degenerate files); a case is non-trivial iff the real reader yields at least one item or raises. "
                "Residue oracle: whole-microsecond instants around second/half-second boundaries and powers of two, "
                "epochs up to 2^31 s, 18 resolutions × 11 offsets. End-to-end oracle: one logical TLS "
                "connection with instants of 8 resolution classes written in every variant able to represent them; "
                "a case is non-trivial iff its variant differs from the reference variant. Distinct = distinct files / "
                "(capture, class, variant) triples.")
    ctx.assumptions = [
        "single section and single interface per capture (only the first IDB's if_tsresol/if_tsoffset is used by the code)",
        "instants ≥ 0 and representable in every compared variant (multiples of the coarser tick)",
        "IEEE-754 residue: the double `offset + ticks/divisor` and dpkt's `round(ts*1e6)` are not proved in the kernel; "
        "they are executed (Lean Float vs CPython, bit-compared) and the oracle asserts equal µs only where the exact "
        "instant is farther from a rounding boundary than the four-rounding error budget",
        "file objects are BufferedReader (open(path,'rb')); MemoryError for absurd block lengths is not modelled",
    ]
    ctx.notes += [
        "observed, outside the property: a DSB shorter than 14 bytes (e.g. empty) crashes main.py:215 (Packet(buf, ts) is "
        "built before the `ts == -1` test; dpkt NeedData) — robustness (C03), not container independence",
        "observed, outside the property: a packet whose double timestamp is exactly -1.0 (if_tsoffset -1, ticks 0) is taken "
        "for a DSB by main.py (`ts == -1` sentinel); instants >= 0 are assumed",
        "observed, outside the property: with two interfaces of different if_tsresol the packets of the second are "
        "scaled with the first IDB's resolution (timestamps wrong by the resolution ratio); Simple Packet Blocks are skipped",
        "observed float residue outside [0, 2^31) s: e.g. if_tsresol 10^-7, if_tsoffset -1000, instant 2147483646.083479 s "
        "is exported as ...480 µs (quotient > 2^31 s, double resolves 0.48 µs); counted under outside_domain_off_by_one",
    ]
    ctx.extra["tree_under_test"] = fw.REPO
    import ib_ingest
    import file_corr
    import export_inputs_thms          # whole-program forms (Props/ExportInputs) about exportFile / framesFrom
    import translate                 # DecryptionSecretBlock.unpack re-translated from the source and proved equal to the model
    _tm, _tt = translate.wire(ctx, "C12")
    ctx.prove(["TLX.Props.C12"] + ib_ingest.MODULES + export_inputs_thms.MODULES + _tm)
    ctx.require_theorems(_tt)
    ctx.require_theorems(export_inputs_thms.THEOREMS_C12)
    ctx.require_theorems(THEOREMS + ib_ingest.THEOREMS)
    run_correspondence(ctx)
    ib_ingest.correspond(ctx)         # ties TLX.Dissect / TLX.Ingest (what Packet() gets from dpkt; run()'s glue) to the real code
    file_corr.correspond(ctx)         # whole program over the container variants, capture file → output file, byte for byte
    run_residue(ctx, ctx.n(150, 3000))
    run_oracle(ctx)
    return ctx.finish(search=lambda c: run_oracle(c, scale=3))


def replay_residue(c):
    """One pcapng with the given if_tsresol/if_tsoffset and ticks through the real Reader and dpkt's Writer."""
    import dpkt
    from tlexport.dpkt_dsb import Reader
    res, off = tuple(c["tsresol"]), c["tsoffset"]
    v = C.Variant("pcapng", c["be"], res, off)
    ks = [Fraction(off or 0) + Fraction(t, v.divisor()) for t in c["ticks_list"]]
    data = C.write(v, [("pkt", k, b"") for k in ks])
    out = io.BytesIO()
    try:
        w = dpkt.pcapng.Writer(out, snaplen=20000)
        for ts, buf in Reader(io.BufferedReader(io.BytesIO(data))):
            w.writepkt(bytes(buf), ts)
        got = [us for us, _ in strict_packets(out.getvalue())]
    except Exception as ex:  # noqa
        got = "%s: %s" % (type(ex).__name__, ex)
    want = [int(k * 10 ** 6) for k in ks]
    print("REPLAY-RESIDUE want", want, "got", got)
    print("REPLAY", "passes" if got == want else "fails")
    return 0 if got == want else 1


def replay(ctx, obj):
    c = obj["case"]
    if "ticks_list" in c:
        return replay_residue(c)
    if c.get("oracle") == "reader":
        v = C.Variant.from_json(c["variant"])
        impl, _ = real_read(bytes.fromhex(c["file_hex"]), v.legacy)
        print("REPLAY-READER expected", obj.get("expected"), "real reader yields", impl)
        bad = any(x.startswith("err:") for x in impl) or len(impl) != len(obj.get("expected") or [])
        print("REPLAY", "fails" if bad else "see items above")
        return 1 if bad else 0
    if "file_hex" in c:
        correspond(ctx, [(c.get("label", "replay"), bool(c.get("legacy")), bytes.fromhex(c["file_hex"]))], "replay")
        for d in ctx.disagreements:
            print("REPLAY-DISAGREE", d["point"], "impl", d["impl"], "model", d["model"])
        print("REPLAY", "disagrees" if ctx.disagreements else "agrees")
        return 1 if ctx.disagreements else 0
    tool = Tool()
    try:
        v = C.Variant.from_json(c["variant"])
        ref = C.Variant.from_json(obj["expected"]["reference"]) if isinstance(obj.get("expected"), dict) and "reference" in obj["expected"] else C.Variant()
        inst = [Fraction(a, b) for a, b in c["instants"]]
        frames = [bytes.fromhex(h) for h in c["frames_hex"]]
        pkts = [("pkt", t, f) for t, f in zip(inst, frames)]
        outs = []
        for vv, sec in ((ref, "file"), (v, c["secrets"])):
            if not vv.can(pkts):
                vv = C.Variant("pcapng", False, ("dec", 9))
            items = ([("dsb", c["keylog"].encode())] if sec == "dsb" else []) + pkts
            status, blob = tool.run(C.write(vv, items), vv.legacy, None if sec == "dsb" else c["keylog"])
            print("REPLAY-RUN", vv, status, None if blob is None else len(blob))
            outs.append((status, blob))
        bad = outs[1][0] != "ok" or outs[0][1] != outs[1][1]
        print("REPLAY", "fails" if bad else "passes")
        return 1 if bad else 0
    finally:
        tool.close()
