# T2: ACK ranges stored as (length, gap) instead of (gap, length)
from edit_lib import *
sub(QF, "self.ack_ranges.append((gap, ack_range_length))", "self.ack_ranges.append((ack_range_length, gap))")
