# T9: loop condition "> 1": a trailing one-byte frame (PING, HANDSHAKE_DONE, single PADDING) is dropped
from edit_lib import *
sub(QF, "    while len(payload) != 0:\n", "    while len(payload) > 1:\n")
