#!/bin/bash
# usage: run_mut.sh <name> <python-edit-script>   (applies an edit to /tmp/c17_mut, runs tests + check)
name=$1; edit=$2
cd /tmp/c17_mut && git checkout -q . 
/venv/bin/python "$edit" || { echo "EDIT FAILED $name"; exit 9; }
git diff --stat | tail -1
t=$(ulimit -v 6000000; timeout 120 /venv/bin/python -m pytest -q -p no:cacheprovider test --deselect test/test_all.py 2>&1 | tail -1)
echo "[$name] pinned tests: $t"
cd /tmp/ws_c17/verif
out=$(TLX_REPO=/tmp/c17_mut timeout 900 bin/check C17 --tier quick 2>&1); rc=$?
echo "[$name] check exit=$rc"; echo "$out" | grep -E "VIOLATION|KNOWN|HARNESS" | head -3
f=$(echo "$out" | grep -o 'replay=[^ ]*' | head -1 | cut -d= -f2)
if [ -n "$f" ]; then /venv/bin/python - "$f" <<'PY'
import json,sys
o=json.load(open(sys.argv[1]))
print("   all signatures:", sorted({o.get("signature")} | {f.get("signature") for f in o.get("other_failures", [])}, key=str))
print("   kind:",o.get("kind"),"| signature:",o.get("signature"),"| what:",o.get("what"))
c=o.get("case") or {}
print("   payload:",str(c.get("payload"))[:80])
print("   expected:",str(o.get("expected"))[:160]); print("   actual:  ",str(o.get("actual"))[:160])
b=o.get("broken",{})
print("   broken proof:",[ (p.get("kind"), (p.get("errors") or [""])[0][:100]) for p in b.get("proof",[])][:2], "| corr disagreements:",len(b.get("correspondence",[])))
PY
fi
cd /tmp/c17_mut && git checkout -q .
