# T4: ACK_ECN: ECT(1) count not consumed
from edit_lib import *
sub(QF, """            self.length += get_variable_length_int_length(payload[index:index + 1])
            self.ect_1_count = decode_variable_length_int(payload[index:self.length])
            index = self.length

""", """            self.ect_1_count = 0

""")
