# M2: NEW_CONNECTION_ID forgets to step over the length byte
from edit_lib import *
sub(QF, "        self.connection_id_length = payload[self.length]\n        self.length += 1\n", "        self.connection_id_length = payload[self.length]\n")
