# B2 (behaviour preserving): PADDING length via lstrip; varint decode via int.from_bytes
from edit_lib import *
sub(QF, """        self.length = 1
        for i, byte in enumerate(payload):
            if byte != 0:
                self.length = i
                return

        self.length = len(payload)
""", """        self.length = len(payload) - len(payload.lstrip(b"\\x00"))
""")
sub(QD, """    v = v & 0x3f
    for i in range(1, length):
        v = (v << 8) + variable_integer[i]

    return v
""", """    if len(variable_integer) < length:
        raise IndexError("index out of range")
    return int.from_bytes(variable_integer[:length], "big") & ((1 << (8 * length - 2)) - 1)
""")
