# T1: STREAM without LEN: remaining length computed before the optional offset is consumed (stale index)
from edit_lib import *
sub(QF, """        if self.off:
            self.length += get_variable_length_int_length(payload[index:index + 1])
            self.offset = decode_variable_length_int(payload[index:self.length])
            index = self.length
        else:
            self.offset = 0
""", """        remaining = len(payload) - index
        if self.off:
            self.length += get_variable_length_int_length(payload[index:index + 1])
            self.offset = decode_variable_length_int(payload[index:self.length])
            index = self.length
        else:
            self.offset = 0
""")
sub(QF, "            self.data_length = len(payload) - index\n", "            self.data_length = remaining\n")
