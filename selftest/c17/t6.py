# T6: GenericFrame pads its data to the announced length (invents bytes on truncated unknown frames)
from edit_lib import *
sub(QF, "        self.data = payload[1 + self.length: 1 + self.length + self.frame_length]\n",
        "        self.data = payload[1 + self.length: 1 + self.length + self.frame_length].ljust(min(self.frame_length, 64), b\"\\x00\")\n")
