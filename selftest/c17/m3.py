# M3: NEW_TOKEN length assigned instead of accumulated ("=" for "+="): a zero-length token gives a frame of length 0 -> endless loop
from edit_lib import *
sub(QF, "        self.length += self.token_length\n", "        self.length = self.token_length\n")
