# T8: DATAGRAM without length keeps the type byte in its payload
from edit_lib import *
sub(QF, "            self.payload = payload[1:]\n", "            self.payload = payload\n")
