# B1 (behaviour preserving): key loop replaced by a reversed search with break
from edit_lib import *
sub(QF, """        key = 0xff
        for k in keys:
            if payload[0] in k:
                key = k
""", """        key = 0xff
        for k in reversed(list(keys)):
            if payload[0] in k:
                key = k
                break
""")
