# M1: STREAM LEN/OFF flag bits swapped
from edit_lib import *
sub(QF, "self.len = bool((self.frame_type >> 1) & 1)\n        self.off = bool((self.frame_type >> 2) & 1)",
        "self.len = bool((self.frame_type >> 2) & 1)\n        self.off = bool((self.frame_type >> 1) & 1)")
