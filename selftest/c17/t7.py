# T7: dispatch table: PATH_CHALLENGE / PATH_RESPONSE classes swapped
from edit_lib import *
sub(QF, "(0x1a,): PathChallengeFrame,\n    (0x1b,): PathResponseFrame,", "(0x1a,): PathResponseFrame,\n    (0x1b,): PathChallengeFrame,")
