# T5: varint decoded via int.from_bytes with a 30-bit mask (8-byte integers lose their upper bits)
from edit_lib import *
sub(QD, """    v = v & 0x3f
    for i in range(1, length):
        v = (v << 8) + variable_integer[i]

    return v
""", """    if len(variable_integer) < length:
        raise IndexError("index out of range")
    return int.from_bytes(variable_integer[:length], "big") & ((1 << min(8 * length - 2, 30)) - 1)
""")
