import sys
def sub(path, old, new, count=1):
    s = open(path).read()
    assert old in s, ("pattern not found", old)
    s = s.replace(old, new, count)
    open(path, "w").write(s)
QF = "/tmp/c17_mut/tlexport/quic/quic_frame.py"
QD = "/tmp/c17_mut/tlexport/quic/quic_decode.py"
