# T3: CONNECTION_CLOSE: "=" for "+=" -> empty reason phrase gives a frame of length 0 -> endless loop
from edit_lib import *
sub(QF, "        self.length += self.reason_phrase_length\n", "        self.length = self.reason_phrase_length\n")
