import TLX.Gen.Translated.QuicTls
import TLX.Props.Translated.Varint
import TLX.Quic.TlsMsgs
namespace TLX.Props.Translated.QTlsP
open TLX TLX.PyRt TLX.Quic.TlsMsgs TLX.Quic.Varint TLX.Gen.Py

theorem parseTP_eq (eb : Bytes) : parseTP eb =
    if eb.length < 1 then some []
    else match readVarint eb 0 with
      | none => none
      | some (pty, index) =>
        match readVarint eb index with
        | none => none
        | some (plen, index2) => (parseTP (eb.drop (index2 + plen))).map fun ps => (pty, plen, Bytes.slice eb index2 (index2 + plen)) :: ps := by
  rw [parseTP]
  by_cases h0 : eb.length < 1
  · simp [h0]
  · simp only [h0, if_false]
    split
    · rename_i h1; simp [h1]
    · rename_i pty index h1
      simp only [h1]
      split
      · rename_i h2; simp [h2]
      · rename_i plen index2 h2
        simp only [h2]
        cases parseTP (eb.drop (index2 + plen)) <;> rfl

end TLX.Props.Translated.QTlsP
