
abbrev T20 := Option Bytes × Option Bytes × Option Bytes × Option Bytes × Option Bytes × Option Bytes × Option Bytes × Option Bytes × Option Bytes × Option Bytes × Option Bytes × Option Bytes × Option Bytes × Option Bytes × Option Bytes × Option Bytes × Option Bytes × Option Bytes × Option Bytes × Option Bytes

def qTuple (a : QuicAcc) : T20 :=
  (a.clientHs.map (·.key), a.clientHs.map (·.iv), a.clientHs.map (·.hp), a.serverHs.map (·.key), a.serverHs.map (·.iv), a.serverHs.map (·.hp),
   a.clientApp.map (·.1.key), a.clientApp.map (·.1.iv), a.clientApp.map (·.1.hp), a.clientApp.map (·.2),
   a.serverApp.map (·.1.key), a.serverApp.map (·.1.iv), a.serverApp.map (·.1.hp), a.serverApp.map (·.2),
   a.clientEarly.map (·.key), a.clientEarly.map (·.iv), a.clientEarly.map (·.hp), a.serverEarly.map (·.key), a.serverEarly.map (·.iv), a.serverEarly.map (·.hp))

/-- the loop of `dev_quic_keys`: any step function that does what the six label tests say is the model's `quicStep` -/
theorem foldQ (hs : HashSuite) (kl : Nat) (ki ii hi : Bytes) (g : T20 → (List Nat × Bytes) → T20)
    (ss : List (List Nat × Bytes)) (r : T20)
    (hr : List.foldl g (none, none, none, none, none, none, none, none, none, none, none, none, none, none, none, none, none, none, none, none) ss = r)
    (hg : ∀ (t : T20) (s : List Nat × Bytes), g t s =
      if s.1 = [67, 76, 73, 69, 78, 84, 95, 72, 65, 78, 68, 83, 72, 65, 75, 69, 95, 84, 82, 65, 70, 70, 73, 67, 95, 83, 69, 67, 82, 69, 84] then (some (hs.hkdfExpand s.2 ki kl), some (hs.hkdfExpand s.2 ii 12), some (hs.hkdfExpand s.2 hi kl), t.2.2.2.1, t.2.2.2.2.1, t.2.2.2.2.2.1, t.2.2.2.2.2.2.1, t.2.2.2.2.2.2.2.1, t.2.2.2.2.2.2.2.2.1, t.2.2.2.2.2.2.2.2.2.1, t.2.2.2.2.2.2.2.2.2.2.1, t.2.2.2.2.2.2.2.2.2.2.2.1, t.2.2.2.2.2.2.2.2.2.2.2.2.1, t.2.2.2.2.2.2.2.2.2.2.2.2.2.1, t.2.2.2.2.2.2.2.2.2.2.2.2.2.2.1, t.2.2.2.2.2.2.2.2.2.2.2.2.2.2.2.1, t.2.2.2.2.2.2.2.2.2.2.2.2.2.2.2.2.1, t.2.2.2.2.2.2.2.2.2.2.2.2.2.2.2.2.2.1, t.2.2.2.2.2.2.2.2.2.2.2.2.2.2.2.2.2.2.1, t.2.2.2.2.2.2.2.2.2.2.2.2.2.2.2.2.2.2.2)
      else       if s.1 = [83, 69, 82, 86, 69, 82, 95, 72, 65, 78, 68, 83, 72, 65, 75, 69, 95, 84, 82, 65, 70, 70, 73, 67, 95, 83, 69, 67, 82, 69, 84] then (t.1, t.2.1, t.2.2.1, some (hs.hkdfExpand s.2 ki kl), some (hs.hkdfExpand s.2 ii 12), some (hs.hkdfExpand s.2 hi kl), t.2.2.2.2.2.2.1, t.2.2.2.2.2.2.2.1, t.2.2.2.2.2.2.2.2.1, t.2.2.2.2.2.2.2.2.2.1, t.2.2.2.2.2.2.2.2.2.2.1, t.2.2.2.2.2.2.2.2.2.2.2.1, t.2.2.2.2.2.2.2.2.2.2.2.2.1, t.2.2.2.2.2.2.2.2.2.2.2.2.2.1, t.2.2.2.2.2.2.2.2.2.2.2.2.2.2.1, t.2.2.2.2.2.2.2.2.2.2.2.2.2.2.2.1, t.2.2.2.2.2.2.2.2.2.2.2.2.2.2.2.2.1, t.2.2.2.2.2.2.2.2.2.2.2.2.2.2.2.2.2.1, t.2.2.2.2.2.2.2.2.2.2.2.2.2.2.2.2.2.2.1, t.2.2.2.2.2.2.2.2.2.2.2.2.2.2.2.2.2.2.2)
      else       if s.1 = [67, 76, 73, 69, 78, 84, 95, 84, 82, 65, 70, 70, 73, 67, 95, 83, 69, 67, 82, 69, 84, 95, 48] then (t.1, t.2.1, t.2.2.1, t.2.2.2.1, t.2.2.2.2.1, t.2.2.2.2.2.1, some (hs.hkdfExpand s.2 ki kl), some (hs.hkdfExpand s.2 ii 12), some (hs.hkdfExpand s.2 hi kl), some s.2, t.2.2.2.2.2.2.2.2.2.2.1, t.2.2.2.2.2.2.2.2.2.2.2.1, t.2.2.2.2.2.2.2.2.2.2.2.2.1, t.2.2.2.2.2.2.2.2.2.2.2.2.2.1, t.2.2.2.2.2.2.2.2.2.2.2.2.2.2.1, t.2.2.2.2.2.2.2.2.2.2.2.2.2.2.2.1, t.2.2.2.2.2.2.2.2.2.2.2.2.2.2.2.2.1, t.2.2.2.2.2.2.2.2.2.2.2.2.2.2.2.2.2.1, t.2.2.2.2.2.2.2.2.2.2.2.2.2.2.2.2.2.2.1, t.2.2.2.2.2.2.2.2.2.2.2.2.2.2.2.2.2.2.2)
      else       if s.1 = [83, 69, 82, 86, 69, 82, 95, 84, 82, 65, 70, 70, 73, 67, 95, 83, 69, 67, 82, 69, 84, 95, 48] then (t.1, t.2.1, t.2.2.1, t.2.2.2.1, t.2.2.2.2.1, t.2.2.2.2.2.1, t.2.2.2.2.2.2.1, t.2.2.2.2.2.2.2.1, t.2.2.2.2.2.2.2.2.1, t.2.2.2.2.2.2.2.2.2.1, some (hs.hkdfExpand s.2 ki kl), some (hs.hkdfExpand s.2 ii 12), some (hs.hkdfExpand s.2 hi kl), some s.2, t.2.2.2.2.2.2.2.2.2.2.2.2.2.2.1, t.2.2.2.2.2.2.2.2.2.2.2.2.2.2.2.1, t.2.2.2.2.2.2.2.2.2.2.2.2.2.2.2.2.1, t.2.2.2.2.2.2.2.2.2.2.2.2.2.2.2.2.2.1, t.2.2.2.2.2.2.2.2.2.2.2.2.2.2.2.2.2.2.1, t.2.2.2.2.2.2.2.2.2.2.2.2.2.2.2.2.2.2.2)
      else       if s.1 = [67, 76, 73, 69, 78, 84, 95, 69, 65, 82, 76, 89, 95, 84, 82, 65, 70, 70, 73, 67, 95, 83, 69, 67, 82, 69, 84] then (t.1, t.2.1, t.2.2.1, t.2.2.2.1, t.2.2.2.2.1, t.2.2.2.2.2.1, t.2.2.2.2.2.2.1, t.2.2.2.2.2.2.2.1, t.2.2.2.2.2.2.2.2.1, t.2.2.2.2.2.2.2.2.2.1, t.2.2.2.2.2.2.2.2.2.2.1, t.2.2.2.2.2.2.2.2.2.2.2.1, t.2.2.2.2.2.2.2.2.2.2.2.2.1, t.2.2.2.2.2.2.2.2.2.2.2.2.2.1, some (hs.hkdfExpand s.2 ki kl), some (hs.hkdfExpand s.2 ii 12), some (hs.hkdfExpand s.2 hi kl), t.2.2.2.2.2.2.2.2.2.2.2.2.2.2.2.2.2.1, t.2.2.2.2.2.2.2.2.2.2.2.2.2.2.2.2.2.2.1, t.2.2.2.2.2.2.2.2.2.2.2.2.2.2.2.2.2.2.2)
      else       if s.1 = [83, 69, 82, 86, 69, 82, 95, 69, 65, 82, 76, 89, 95, 84, 82, 65, 70, 70, 73, 67, 95, 83, 69, 67, 82, 69, 84] then (t.1, t.2.1, t.2.2.1, t.2.2.2.1, t.2.2.2.2.1, t.2.2.2.2.2.1, t.2.2.2.2.2.2.1, t.2.2.2.2.2.2.2.1, t.2.2.2.2.2.2.2.2.1, t.2.2.2.2.2.2.2.2.2.1, t.2.2.2.2.2.2.2.2.2.2.1, t.2.2.2.2.2.2.2.2.2.2.2.1, t.2.2.2.2.2.2.2.2.2.2.2.2.1, t.2.2.2.2.2.2.2.2.2.2.2.2.2.1, t.2.2.2.2.2.2.2.2.2.2.2.2.2.2.1, t.2.2.2.2.2.2.2.2.2.2.2.2.2.2.2.1, t.2.2.2.2.2.2.2.2.2.2.2.2.2.2.2.2.1, some (hs.hkdfExpand s.2 ki kl), some (hs.hkdfExpand s.2 ii 12), some (hs.hkdfExpand s.2 hi kl))
      else t) :
    r = qTuple (List.foldl (quicStep hs kl ki ii hi) {} (ss.map secOf)) := by
  rw [← hr]
  have gen : ∀ (ss : List (List Nat × Bytes)) (a : QuicAcc), List.foldl g (qTuple a) ss = qTuple (List.foldl (quicStep hs kl ki ii hi) a (ss.map secOf)) := by
    intro ss
    induction ss with
    | nil => intro a; rfl
    | cons s rest ih =>
      intro a
      simp only [List.foldl_cons, List.map_cons]
      rw [← ih]
      congr 1
      rw [hg]
      unfold quicStep secOf labelOf
      by_cases h1 : s.1 = [67, 76, 73, 69, 78, 84, 95, 72, 65, 78, 68, 83, 72, 65, 75, 69, 95, 84, 82, 65, 70, 70, 73, 67, 95, 83, 69, 67, 82, 69, 84]
      · simp [h1, qTuple]
      ·       by_cases h2 : s.1 = [83, 69, 82, 86, 69, 82, 95, 72, 65, 78, 68, 83, 72, 65, 75, 69, 95, 84, 82, 65, 70, 70, 73, 67, 95, 83, 69, 67, 82, 69, 84]
        · simp [h2, qTuple]
        ·         by_cases h3 : s.1 = [67, 76, 73, 69, 78, 84, 95, 84, 82, 65, 70, 70, 73, 67, 95, 83, 69, 67, 82, 69, 84, 95, 48]
          · simp [h3, qTuple]
          ·           by_cases h4 : s.1 = [83, 69, 82, 86, 69, 82, 95, 84, 82, 65, 70, 70, 73, 67, 95, 83, 69, 67, 82, 69, 84, 95, 48]
            · simp [h4, qTuple]
            ·             by_cases h5 : s.1 = [67, 76, 73, 69, 78, 84, 95, 69, 65, 82, 76, 89, 95, 84, 82, 65, 70, 70, 73, 67, 95, 83, 69, 67, 82, 69, 84]
              · simp [h5, qTuple]
              ·               by_cases h6 : s.1 = [83, 69, 82, 86, 69, 82, 95, 69, 65, 82, 76, 89, 95, 84, 82, 65, 70, 70, 73, 67, 95, 83, 69, 67, 82, 69, 84]
                · simp [h6, qTuple]
                · by_cases h7 : s.1 = [67, 76, 73, 69, 78, 84, 95, 82, 65, 78, 68, 79, 77]
                  · simp [h1, h2, h3, h4, h5, h6, h7, qTuple]
                  · by_cases h8 : s.1 = [82, 83, 65]
                    · simp [h1, h2, h3, h4, h5, h6, h7, h8, qTuple]
                    · simp [h1, h2, h3, h4, h5, h6, h7, h8, qTuple]

  exact gen ss {}

/-- the dict `dev_quic_keys` returns, in display order -/
def quicTable (k : QuicKeys) : List (List Nat × Option Bytes) :=
  [(([99, 108, 105, 101, 110, 116, 95, 104, 97, 110, 100, 115, 104, 97, 107, 101, 95, 107, 101, 121] : List Nat), some k.clientHs.key),
   (([115, 101, 114, 118, 101, 114, 95, 104, 97, 110, 100, 115, 104, 97, 107, 101, 95, 107, 101, 121] : List Nat), some k.serverHs.key),
   (([99, 108, 105, 101, 110, 116, 95, 104, 97, 110, 100, 115, 104, 97, 107, 101, 95, 105, 118] : List Nat), some k.clientHs.iv),
   (([115, 101, 114, 118, 101, 114, 95, 104, 97, 110, 100, 115, 104, 97, 107, 101, 95, 105, 118] : List Nat), some k.serverHs.iv),
   (([99, 108, 105, 101, 110, 116, 95, 104, 97, 110, 100, 115, 104, 97, 107, 101, 95, 104, 112] : List Nat), some k.clientHs.hp),
   (([115, 101, 114, 118, 101, 114, 95, 104, 97, 110, 100, 115, 104, 97, 107, 101, 95, 104, 112] : List Nat), some k.serverHs.hp),
   (([99, 108, 105, 101, 110, 116, 95, 97, 112, 112, 108, 105, 99, 97, 116, 105, 111, 110, 95, 107, 101, 121] : List Nat), some k.clientApp.key),
   (([115, 101, 114, 118, 101, 114, 95, 97, 112, 112, 108, 105, 99, 97, 116, 105, 111, 110, 95, 107, 101, 121] : List Nat), some k.serverApp.key),
   (([99, 108, 105, 101, 110, 116, 95, 97, 112, 112, 108, 105, 99, 97, 116, 105, 111, 110, 95, 105, 118] : List Nat), some k.clientApp.iv),
   (([115, 101, 114, 118, 101, 114, 95, 97, 112, 112, 108, 105, 99, 97, 116, 105, 111, 110, 95, 105, 118] : List Nat), some k.serverApp.iv),
   (([99, 108, 105, 101, 110, 116, 95, 97, 112, 112, 108, 105, 99, 97, 116, 105, 111, 110, 95, 104, 112] : List Nat), some k.clientApp.hp),
   (([115, 101, 114, 118, 101, 114, 95, 97, 112, 112, 108, 105, 99, 97, 116, 105, 111, 110, 95, 104, 112] : List Nat), some k.serverApp.hp),
   (([99, 108, 105, 101, 110, 116, 95, 97, 112, 112, 108, 105, 99, 97, 116, 105, 111, 110, 95, 115, 101, 99] : List Nat), some k.clientAppSec),
   (([115, 101, 114, 118, 101, 114, 95, 97, 112, 112, 108, 105, 99, 97, 116, 105, 111, 110, 95, 115, 101, 99] : List Nat), some k.serverAppSec),
   (([99, 108, 105, 101, 110, 116, 95, 101, 97, 114, 108, 121, 95, 107, 101, 121] : List Nat), k.clientEarly.map (·.key)),
   (([99, 108, 105, 101, 110, 116, 95, 101, 97, 114, 108, 121, 95, 105, 118] : List Nat), k.clientEarly.map (·.iv)),
   (([115, 101, 114, 118, 101, 114, 95, 101, 97, 114, 108, 121, 95, 107, 101, 121] : List Nat), k.serverEarly.map (·.key)),
   (([115, 101, 114, 118, 101, 114, 95, 101, 97, 114, 108, 121, 95, 105, 118] : List Nat), k.serverEarly.map (·.iv)),
   (([99, 108, 105, 101, 110, 116, 95, 101, 97, 114, 108, 121, 95, 104, 112] : List Nat), k.clientEarly.map (·.hp)),
   (([115, 101, 114, 118, 101, 114, 95, 101, 97, 114, 108, 121, 95, 104, 112] : List Nat), k.serverEarly.map (·.hp))]
