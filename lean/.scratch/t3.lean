import TLX.Props.Translated.TlsSess2
open TLX TLX.PyRt TLX.Session TLX.Props.Translated.Sess
namespace TLX.Props.Translated.Sess
variable {δ : Type}

/-- a `Matches` result under `try: … except Exception: self.can_decrypt = False` with nothing after it -/
theorem matches_caught_cd (g : Res (G δ) Unit) (mo : Out (St δ)) (h : Matches g mo) :
    Matches (tryR g (fun e st' => if decide (e ≠ Err.fuel) then Res.ok () { st' with can_decrypt := false } else Res.raised e st')
               (fun _ st' => Res.ok () st'))
      (tryExcept mo fun s' => { s' with canDecrypt := false }) := by
  cases mo with
  | ok s1 =>
    obtain ⟨x1, rfl⟩ := h
    exact ⟨x1, rfl⟩
  | raised s1 =>
    obtain ⟨x1, e, he, rfl⟩ := h
    simp only [tryR_raised, dne he, if_true]
    exact ⟨x1, rfl⟩

theorem u8_eq (t : UInt8) (n : Nat) (h : n < 256) : (t.toNat = n) = (t = UInt8.ofNat n) := by
  rw [← UInt8.toNat_inj, UInt8.toNat_ofNat']
  rw [Nat.mod_eq_of_lt h]

theorem handle_tls_handshake_record_eq_model (O : Ops δ) (hO : ReadsExtsAsDict O) (K : Kinds δ) (s : St δ) (x : Extra) (r : Rec) (srv m : Bool) :
    Matches (Gen.Py.Sess.handle_tls_handshake_record (decE O K) (gkE O K) r srv m (enc s x)) (handshakeRecord O m s r srv) := by
  unfold Gen.Py.Sess.handle_tls_handshake_record handshakeRecord
  simp only [enc_srvcc, enc_clicc]
  by_cases hcc : (s.srvCC || s.cliCC) = true
  · simp only [hcc, if_true]
    exact matches_caught _ _ (handle_handshake_finished_eq_model O K s x r srv m)
  · simp only [hcc, if_false]
    cases hb : r.body with
    | nil => exact ⟨x, rfl⟩
    | cons t tail =>
      have h1 : (t.toNat = 1) = (t = 1) := u8_eq t 1 (by decide)
      have h2 : (t.toNat = 2) = (t = 2) := u8_eq t 2 (by decide)
      simp only [List.length_cons, Nat.add_one_ne_zero, decide_false, Bool.false_eq_true, if_false, getItem_cons_zero, tryE_ok, h1, h2]
      by_cases t1 : t = 1
      · simp only [t1, decide_true, if_true, handle_tls_client_hello_eq_model, tryR_ok]
        exact ⟨x, rfl⟩
      · simp only [t1, decide_false, Bool.false_eq_true, if_false]
        by_cases t2 : t = 2
        · simp only [t2, decide_true, if_true]
          exact matches_caught_cd _ _ (handle_tls_server_hello_eq_model O hO K s x r m)
        · simp only [t2, decide_false, Bool.false_eq_true, if_false]
          exact matches_caught _ _ (handle_handshake_finished_eq_model O K s x r srv m)

theorem pushMeta_enc (m : Bool) (s1 : St δ) (x : Extra) (r : Rec) (srv : Bool) :
    (if m = true then { enc s1 x with application_traffic := (enc s1 x).application_traffic ++ [(some r.raw, r, srv)] } else enc s1 x)
      = enc (pushMeta m s1 r srv) x := by
  cases m <;> simp [enc, pushMeta, St.push, ofEntry]

theorem tryR_id {σ : Type} (g : Res σ Unit) : tryR g (fun e s => Res.raised e s) (fun _ s => Res.ok () s) = g := by
  cases g <;> rfl

/-- a `Matches` result followed by the meta-data export of `handle_tls_record` -/
theorem matches_then_meta (g : Res (G δ) Unit) (mo : Out (St δ)) (m : Bool) (r : Rec) (srv : Bool) :
    Matches g mo → Matches (tryR g (fun e st' => Res.raised e st')
               (fun _ st' => Res.ok () (if m = true then { st' with application_traffic := st'.application_traffic ++ [(some r.raw, r, srv)] } else st')))
      (match mo with | .ok s1 => .ok (pushMeta m s1 r srv) | .raised s1 => .raised s1) := by
  intro h
  cases mo with
  | ok s1 =>
    obtain ⟨x1, rfl⟩ := h
    simp only [tryR_ok, pushMeta_enc]
    exact ⟨x1, rfl⟩
  | raised s1 =>
    obtain ⟨x1, e, he, rfl⟩ := h
    exact ⟨x1, e, he, rfl⟩

theorem handle_tls_record_eq_model (O : Ops δ) (hO : ReadsExtsAsDict O) (K : Kinds δ) (s : St δ) (x : Extra) (r : Rec) (srv m : Bool) :
    Matches (Gen.Py.Sess.handle_tls_record (decE O K) (updE O K) (gkE O K) r srv m (enc s x)) (handleRecordRaw O m s r srv) := by
  unfold Gen.Py.Sess.handle_tls_record handleRecordRaw Gen.Py.Sess.recType Rec.typ
  rcases hraw : r.raw with _ | ⟨t, rest⟩
  · have h0 : r.raw.headD 0 = 0 := by rw [hraw]; rfl
    have h1 : r.raw.head? = none := by rw [hraw]; rfl
    simp only [h0, h1]
    exact ⟨x, rfl⟩
  · have h0 : r.raw.headD 0 = t := by rw [hraw]; rfl
    have h1 : r.raw.head? = some t := by rw [hraw]; rfl
    rw [← hraw]
    have e (n : UInt8) : (t.toNat = n.toNat) = (t = n) := by rw [← UInt8.toNat_inj]
    have e22 := e 22
    have e23 := e 23
    have e21 := e 21
    have e20 := e 20
    simp only [UInt8.reduceToNat] at e22 e23 e21 e20
    simp only [h0, h1, e22, e23, e21, e20]
    by_cases t22 : t = 22
    · have d22 : decide (t = 22) = true := by simp [t22]
      simp only [d22, if_true]
      rw [if_pos t22]
      exact matches_then_meta _ _ m r srv (handle_tls_handshake_record_eq_model O hO K s x r srv m)
    · have d22 : decide (t = 22) = false := by simp [t22]
      simp only [d22, Bool.false_eq_true, if_false]
      rw [if_neg t22]
      by_cases t23 : t = 23
      · have d23 : decide (t = 23) = true := by simp [t23]
        simp only [d23, if_true, enc_can_decrypt, enc_dec, enc_ver, tryR_id]
        rw [if_pos t23]
        obtain ⟨cd, chs, ver, scc, ccc, dec, cr, tr, hc, hs⟩ := s
        simp only
        cases dec with
        | none => cases cd <;> exact ⟨x, rfl⟩
        | some d =>
          cases cd with
          | false => exact ⟨x, rfl⟩
          | true =>
            cases ver with
            | none => exact ⟨x, rfl⟩
            | some v =>
              cases v
              all_goals simp only [Option.isNone_some, Bool.not_false, Bool.and_true, if_true, Option.some.injEq, reduceCtorEq, decide_false,
                decide_true, Bool.false_eq_true, if_false, Bool.or_false, Bool.or_true, Bool.false_or]
              case tls13 => exact handle_tls_13_application_record_eq_model O K _ x r srv m
              all_goals exact handle_tls_application_record_eq_model O K _ x r srv m
      · have d23 : decide (t = 23) = false := by simp [t23]
        simp only [d23, Bool.false_eq_true, if_false]
        rw [if_neg t23]
        by_cases t21 : t = 21
        · have d21 : decide (t = 21) = true := by simp [t21]
          simp only [d21, if_true]
          rw [if_pos t21]
          cases hb : r.body with
          | nil =>
            simp only [List.length_nil, gt_iff_lt, Nat.lt_irrefl, decide_false, Bool.false_eq_true, if_false, pushMeta_enc]
            exact ⟨x, rfl⟩
          | cons lvl tail =>
            simp only [List.length_cons, gt_iff_lt, Nat.zero_lt_succ, decide_true, if_true, getItem_cons_zero, tryE_ok,
              handle_alert_eq_model, tryR_ok, pushMeta_enc]
            exact ⟨x, rfl⟩
        · have d21 : decide (t = 21) = false := by simp [t21]
          simp only [d21, Bool.false_eq_true, if_false]
          rw [if_neg t21]
          by_cases t20 : t = 20
          · have d20 : decide (t = 20) = true := by simp [t20]
            simp only [d20, if_true]
            rw [if_pos t20]
            cases srv <;> cases m <;> exact ⟨x, by simp [enc, pushMeta, St.push, ofEntry]⟩
          · have d20 : decide (t = 20) = false := by simp [t20]
            simp only [d20, Bool.false_eq_true, if_false]
            rw [if_neg t20]
            exact ⟨x, rfl⟩

end TLX.Props.Translated.Sess
