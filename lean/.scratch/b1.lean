import TLX.Gen.Translated.Builders
import TLX.Props.Translated.Enc
import TLX.Quic.UdpOut
namespace TLX.Props.Translated.Bld
open TLX TLX.PyRt TLX.Quic.UdpOut TLX.Gen.Py

/-- the addresses of a builder object -/
structure Cfg where
  server_mac : Bytes
  client_mac : Bytes
  server_ip : List Nat
  client_ip : List Nat
  server_port : Nat
  client_port : Nat
  ipv6 : Bool

/-- the scapy layers of an output datagram. `enc`: the client-to-server IPv6 packet built INSIDE the loop passes the
    addresses through `.encode()` (bytes), the one built after the loop does not -/
def udpPkt (c : Cfg) (cb sb : Bytes) (enc : Bool) (d : Dgram) : Layers × Option Nat :=
  (if d.isServer then
      mkEther c.server_mac c.client_mac ++ mkIP c.ipv6 (.inl c.server_ip) (.inl c.client_ip) ++ mkUDP c.client_port c.server_port ++ mkRaw d.payload
    else if c.ipv6 && enc then
      mkEther c.client_mac c.server_mac ++ mkIP true (.inr cb) (.inr sb) ++ mkUDP c.server_port c.client_port ++ mkRaw d.payload
    else
      mkEther c.client_mac c.server_mac ++ mkIP c.ipv6 (.inl c.client_ip) (.inl c.server_ip) ++ mkUDP c.server_port c.client_port ++ mkRaw d.payload,
   some d.ts)

abbrev LSt := Option Nat × Option Bool × Bytes × List (Layers × Option Nat)

/-- the loop state of the translation that stands for the model's -/
def encSt (c : Cfg) (cb sb : Bytes) (out0 : List (Layers × Option Nat)) (s : St) : LSt :=
  (s.1.map (·.1), s.1.map (·.2.1), (s.1.map (·.2.2)).getD [], out0 ++ s.2.map (udpPkt c cb sb true))

theorem quic_round (c : Cfg) (cb sb : Bytes) (hc : utf8E c.client_ip = .ok cb) (hs : utf8E c.server_ip = .ok sb) (md : Bool)
    (o out0 : List (Layers × Option Nat)) (s : St) (f : Frame) :
    quic_build.loop1 md o c.server_mac c.client_mac c.server_ip c.client_ip c.server_port c.client_port c.ipv6 (encSt c cb sb out0 s) f
      = .ok (.next (encSt c cb sb out0 (step md s f))) := by
  unfold quic_build.loop1 step exported isStream encSt
  obtain ⟨cur, outD⟩ := s
  have hmem : decide (f.ftype ∈ [8, 9, 10, 11, 12, 13, 14, 15]) = decide (f.ftype ∈ ([8, 9, 10, 11, 12, 13, 14, 15] : List Nat)) := rfl
  rcases cur with _ | ⟨ts, srv, pk⟩
  · by_cases hst : f.ftype ∈ ([8, 9, 10, 11, 12, 13, 14, 15] : List Nat) <;> by_cases h6 : f.ftype = 6 <;> by_cases hfe : f.ftype = 254 <;> cases md <;>
      simp [hst, h6, hfe]
  · by_cases hst : f.ftype ∈ ([8, 9, 10, 11, 12, 13, 14, 15] : List Nat) <;> by_cases h6 : f.ftype = 6 <;> by_cases hfe : f.ftype = 254 <;> cases md <;>
      by_cases hts : f.ts = ts <;> by_cases hsv : f.isServer = srv <;> cases srv <;> cases hv6 : c.ipv6 <;>
      simp [hst, h6, hfe, hts, hsv, hv6, hc, hs, udpPkt]

theorem quic_loop (c : Cfg) (cb sb : Bytes) (hc : utf8E c.client_ip = .ok cb) (hs : utf8E c.server_ip = .ok sb) (md : Bool)
    (o out0 : List (Layers × Option Nat)) : ∀ (fs : List Frame) (s : St),
    forS fs (encSt c cb sb out0 s) (quic_build.loop1 md o c.server_mac c.client_mac c.server_ip c.client_ip c.server_port c.client_port c.ipv6)
      = (.ok (.next (encSt c cb sb out0 (fs.foldl (step md) s))) : Except Err (Step LSt (Res quic_build.St (List (Layers × Option Nat))))) := by
  intro fs
  induction fs with
  | nil => intro s; rfl
  | cons f rest ih =>
    intro s
    simp only [forS, quic_round c cb sb hc hs, List.foldl_cons]
    exact ih _

/-- what `self.out` is after `build`: the datagrams closed inside the loop, then the open one -/
def quicOut (c : Cfg) (cb sb : Bytes) (out0 : List (Layers × Option Nat)) (s : St) : List (Layers × Option Nat) :=
  out0 ++ s.2.map (udpPkt c cb sb true) ++ (match s.1 with | none => [] | some (ts, srv, pk) => [udpPkt c cb sb false ⟨srv, ts, pk⟩])

/-- `QUICOutputbuilder.build(metadata)`: the datagrams of the model's `build` (`finish` of the folded `step`), each as the scapy
    layers the code stacks for its direction, appended to `self.out`; returned and stored -/
theorem quic_build_eq_model (c : Cfg) (cb sb : Bytes) (hc : utf8E c.client_ip = .ok cb) (hs : utf8E c.server_ip = .ok sb) (md : Bool)
    (out0 : List (Layers × Option Nat)) (fs : List Frame) :
    quic_build md fs out0 c.server_mac c.client_mac c.server_ip c.client_ip c.server_port c.client_port c.ipv6
      = .ok (quicOut c cb sb out0 (fs.foldl (step md) init)) { out := quicOut c cb sb out0 (fs.foldl (step md) init) } := by
  unfold quic_build init
  have h := quic_loop c cb sb hc hs md out0 out0 fs init
  simp only [encSt, init, Option.map_none, Option.getD_none, List.map_nil, List.append_nil] at h
  simp only [h, loopS_next]
  generalize fs.foldl (step md) (none, []) = s
  obtain ⟨cur, outD⟩ := s
  rcases cur with _ | ⟨ts, srv, pk⟩
  · simp [quicOut]
  · cases srv <;> cases hv6 : c.ipv6 <;> simp [quicOut, udpPkt, hv6]

/-- the datagrams are the model's -/
theorem quicOut_build (c : Cfg) (cb sb : Bytes) (md : Bool) (fs : List Frame) (h6 : c.ipv6 = false) :
    quicOut c cb sb [] (fs.foldl (step md) init) = (build md fs).map (udpPkt c cb sb false) := by
  unfold build finish quicOut
  generalize fs.foldl (step md) init = s
  obtain ⟨cur, outD⟩ := s
  have e : udpPkt c cb sb true = udpPkt c cb sb false := by funext d; simp [udpPkt, h6]
  rcases cur with _ | ⟨ts, srv, pk⟩ <;> simp [e]

end TLX.Props.Translated.Bld
