import TLX.Lemmas.PyRt
open TLX TLX.PyRt

theorem tableGet_tableSet {κ ν : Type} [DecidableEq κ] (t : List (κ × ν)) (k k' : κ) (v : ν) :
    tableGet (tableSet t k v) k' = if k' = k then some v else tableGet t k' := by
  unfold tableSet tableGet
  by_cases ha : (t.any fun e => decide (e.1 = k)) = true
  · simp only [ha, if_true]
    rw [← List.map_reverse, List.find?_map]
    have hf : ((fun e : κ × ν => decide (e.1 = k')) ∘ fun e => if e.1 = k then (k, v) else e) = fun e => decide (e.1 = k') := by
      funext e
      by_cases he : e.1 = k <;> simp [he]
    rw [hf]
    by_cases hk : k' = k
    · subst hk
      simp only [if_true]
      have : ∃ e, List.find? (fun e : κ × ν => decide (e.1 = k')) t.reverse = some e ∧ e.1 = k' := by
        rw [List.any_eq_true] at ha
        obtain ⟨e, he, hk⟩ := ha
        cases hfe : List.find? (fun e : κ × ν => decide (e.1 = k')) t.reverse with
        | none =>
          rw [List.find?_eq_none] at hfe
          exact absurd hk (hfe e (List.mem_reverse.mpr he))
        | some e' =>
          exact ⟨e', rfl, by simpa using List.find?_some hfe⟩
      obtain ⟨e, he, hk⟩ := this
      simp [he, hk]
    · simp only [hk, if_false]
      cases hfe : List.find? (fun e : κ × ν => decide (e.1 = k')) t.reverse with
      | none => rfl
      | some e =>
        have : e.1 = k' := by simpa using List.find?_some hfe
        have : ¬ e.1 = k := by rw [this]; exact hk
        simp [this]
  · simp only [ha, Bool.false_eq_true, if_false, List.reverse_append, List.reverse_cons, List.reverse_nil, List.nil_append, List.singleton_append,
      List.find?_cons]
    by_cases hk : k' = k
    · subst hk; simp
    · have : ¬ k = k' := fun h => hk h.symm
      simp [hk, this]
