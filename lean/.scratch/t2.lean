import TLX.Props.Translated.TlsSess2
open TLX TLX.PyRt TLX.Session TLX.Props.Translated.Sess
namespace TLX.Props.Translated.Sess
variable {δ : Type}

theorem extGet_snoc (acc : Exts) (k k' v : Bytes) : extGet (acc ++ [(k, v)]) k' = if k' = k then some v else extGet acc k' := by
  unfold extGet
  simp only [List.reverse_append, List.reverse_cons, List.reverse_nil, List.nil_append, List.singleton_append, List.find?_cons]
  by_cases hk : k' = k
  · subst hk; simp
  · have : ¬ k = k' := fun h => hk h.symm
    simp [hk, this]

/-- one round of the `while extensions_index < extensions_length` loop as the translation spells it -/
def extBody (ebin : Bytes) (p : G δ × Nat) : Except Err (Step (G δ × Nat) (Res (G δ) Unit)) :=
  tryE (attrE p.1.extensions) (fun e => .ok (.ret (.raised e p.1))) fun t =>
    .ok (.next ({ p.1 with extensions := some (tableSet t (Bytes.slice ebin p.2 (p.2 + 2))
                    (Bytes.slice ebin (p.2 + 4) (p.2 + 4 + Bytes.beNat (Bytes.slice ebin (p.2 + 2) (p.2 + 4))))) },
                 p.2 + (Bytes.beNat (Bytes.slice ebin (p.2 + 2) (p.2 + 4)) + 4)))

theorem ext_loop (ebin : Bytes) (elen : Nat) (s : St δ) (a b : Option Bytes) (c : Option Nat) :
    ∀ (fuel i : Nat) (t : List (Bytes × Bytes)) (acc : Exts), (∀ k, tableGet t k = extGet acc k) → elen ≤ i + fuel →
      ∃ t' i', whileS fuel (enc s ⟨a, b, c, some t⟩, i) (fun p => decide (p.2 < elen)) (extBody ebin)
                 = (.ok (.next (enc s ⟨a, b, c, some t'⟩, i')) : Except Err (Step (G δ × Nat) (Res (G δ) Unit)))
               ∧ ∀ k, tableGet t' k = extGet (extLoop ebin elen fuel i acc) k := by
  intro fuel
  induction fuel with
  | zero =>
    intro i t acc ht hf
    have : decide (i < elen) = false := by simp; omega
    exact ⟨t, i, by simp only [whileS, this, Bool.false_eq_true, if_false], by simpa only [extLoop] using ht⟩
  | succ n ih =>
    intro i t acc ht hf
    by_cases hi : i < elen
    · simp only [whileS, extLoop, hi, decide_true, if_true, extBody, enc_exts, attrE_some, tryE_ok, enc_set_exts]
      apply ih
      · intro k
        rw [tableGet_tableSet, extGet_snoc, ht]
      · omega
    · have : decide (i < elen) = false := by simp; omega
      exact ⟨t, i, by simp only [whileS, this, Bool.false_eq_true, if_false], by simpa only [extLoop, hi, if_false] using ht⟩

theorem latch_enc (s : St δ) (x : Extra) :
    (if (enc s x).client_hello_seen = true then { enc s x with can_decrypt := true } else enc s x) = enc (latch s) x := by
  obtain ⟨cd, chs, ver, scc, ccc, dec, cr, tr, hc, hs⟩ := s
  cases chs <;> rfl

theorem enc_set_sr_suite (s : St δ) (x : Extra) (a b : Option Bytes) :
    { enc s x with server_random := a, ciphersuite := b } = enc s { x with server_random := a, ciphersuite := b } := rfl
theorem enc_set_sr_suite_comp (s : St δ) (x : Extra) (a b : Option Bytes) (c : Option Nat) :
    { enc s x with server_random := a, ciphersuite := b, compression_method := c } = enc s { x with server_random := a, ciphersuite := b, compression_method := c } := rfl
theorem enc_set_all (s : St δ) (x : Extra) (a b : Option Bytes) (c : Option Nat) (e : Option (List (Bytes × Bytes))) :
    { enc s x with server_random := a, ciphersuite := b, compression_method := c, extensions := e } = enc s ⟨a, b, c, e⟩ := rfl

theorem choose_enc (s1 : St δ) (x1 : Extra) (rv hv : Nat) (is13 : Bool) :
    (if decide (rv = 768) = true then { enc s1 x1 with tls_version := some Ver.ssl30 }
     else if decide (rv = 770) = true then { enc s1 x1 with tls_version := some Ver.tls11 }
     else if decide (hv = 769) = true then { enc s1 x1 with tls_version := some Ver.tls10 }
     else if decide (hv = 771) = true then
       (if is13 = true then { enc s1 x1 with tls_version := some Ver.tls13 } else { enc s1 x1 with tls_version := some Ver.tls12 })
     else { enc s1 x1 with can_decrypt := false }) = enc (chooseVersion s1 rv hv is13) x1 := by
  unfold chooseVersion
  simp only [decide_eq_true_eq]
  repeat' split
  all_goals rfl

theorem handle_tls_server_hello_eq_model (O : Ops δ) (hO : ReadsExtsAsDict O) (K : Kinds δ) (s : St δ) (x : Extra) (r : Rec) (m : Bool) :
    Matches (Gen.Py.Sess.handle_tls_server_hello (gkE O K) r m (enc s x)) (serverHello O s r) := by
  unfold Gen.Py.Sess.handle_tls_server_hello serverHello
  simp only [latch_enc, enc_set_sr, getItem_nat]
  cases h38 : r.body[38]? with
  | none => exact ⟨_, _, by decide, rfl⟩
  | some sid =>
    have e1 : 38 + (sid.toNat + 1) = 38 + sid.toNat + 1 := by omega
    simp only [tryE_ok, enc_set_sr_suite, enc_set_all, e1]
    cases hc : r.body[38 + sid.toNat + 1 + 2]? with
    | none => exact ⟨_, _, by decide, rfl⟩
    | some comp =>
      simp only [tryE_ok]
      obtain ⟨t', i', hw, hget⟩ := ext_loop (δ := δ) (r.body.slice (38 + sid.toNat + 1 + 5) (38 + sid.toNat + 1 + 5 + (r.body.slice (38 + sid.toNat + 1 + 3) (38 + sid.toNat + 1 + 5)).beNat))
        (r.body.slice (38 + sid.toNat + 1 + 3) (38 + sid.toNat + 1 + 5)).beNat (latch s) (some (r.body.slice 6 38))
        (some (r.body.slice (38 + sid.toNat + 1) (38 + sid.toNat + 1 + 2))) (some comp.toNat)
        (r.body.slice (38 + sid.toNat + 1 + 3) (38 + sid.toNat + 1 + 5)).beNat 0 [] [] (fun k => rfl) (by omega)
      erw [hw]
      simp only [loopS_next, choose_enc]
      simp only [enc_exts, attrE_some, tryE_ok, enc_suite, enc_cr, enc_sr, enc_comp]
      have his : (if decide (tableGet t' [0, 43] = some [3, 4]) = true then true else false)
          = decide (extGet (parseExts (r.body.slice (38 + sid.toNat + 1 + 5) (38 + sid.toNat + 1 + 5 + (r.body.slice (38 + sid.toNat + 1 + 3) (38 + sid.toNat + 1 + 5)).beNat))
                      (r.body.slice (38 + sid.toNat + 1 + 3) (38 + sid.toNat + 1 + 5)).beNat) [0, 0x2b] = some [3, 4]) := by
        have ite_id : ∀ b : Bool, (if b = true then true else false) = b := by intro b; cases b <;> rfl
        rw [ite_id, hget]; rfl
      simp only [his]
      generalize chooseVersion (latch s) _ _ _ = s2
      unfold serverHelloKeys
      obtain ⟨cd2, chs2, ver2, scc2, ccc2, dec2, cr2, tr2, hc2, hs2⟩ := s2
      cases cr2 with
      | none => exact ⟨_, _, by decide, rfl⟩
      | some cr =>
        simp only [attrE_some, tryE_ok, gkE, enc_ver, enc_can_decrypt, enc_dec, UInt8.ofNat_toNat]
        rw [hO ver2 _ cr _ comp t' (parseExts _ _) (fun k => hget k)]
        cases O.genKeys ver2 _ cr _ (parseExts _ _) comp with
        | noSuite => exact ⟨⟨_, _, _, _⟩, rfl⟩
        | noSecrets => exact ⟨⟨_, _, _, _⟩, rfl⟩
        | raised =>
          exact ⟨⟨_, _, _, _⟩, _, K.gk_ne _ _ _ _, rfl⟩
        | installed d => exact ⟨⟨_, _, _, _⟩, rfl⟩

end TLX.Props.Translated.Sess
