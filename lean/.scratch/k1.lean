import TLX.Gen.Translated.KeySched
import TLX.Props.Translated.Enc
import TLX.KeySchedule
namespace TLX.Props.Translated.KS
open TLX TLX.PyRt TLX.KeySchedule TLX.Crypto

/-- the model's error kinds as the translator's (`nonterm`: Python would loop forever, the translation runs out of fuel) -/
def errOf : PyErr → Err
  | .index => .index | .unbound => .unbound | .overflow => .overflow | .nonterm => .fuel | .typeErr => .type

def ofR {α : Type} : R α → Except Err α
  | .ok a => .ok a
  | .error e => .error (errOf e)

/-- the external hash functions as the model's `Prims` give them -/
def hmacOf (P : Prims) (t : MacTag) : Bytes → Bytes → Bytes := (macSuite P t).hmac
def hashOf (P : Prims) (t : MacTag) : Bytes → Bytes := (macSuite P t).hash

/-- a `while len(block) < n` loop of the translation whose round is `body` on the part `st` of the loop state and appends to
    the part `blk`, followed by something that only looks at the block: the model's `whileShort` -/
theorem loop_short {σ τ ρ : Type} (body : σ → R (σ × Bytes)) (n : Nat) (blk : τ → Bytes) (st : τ → σ) (nxt : τ → σ × Bytes → τ)
    (gbody : τ → Except Err (Step τ (Except Err ρ)))
    (hb : ∀ t, gbody t = match body (st t) with | .ok r => .ok (.next (nxt t r)) | .error e => .error (errOf e))
    (h1 : ∀ t r, blk (nxt t r) = blk t ++ r.2) (h2 : ∀ t r, st (nxt t r) = r.1) (K : Bytes → Except Err ρ) :
    ∀ (fuel : Nat) (t : τ),
      loopS (whileS fuel t (fun t => decide ((blk t).length < n)) gbody) (fun e => .error e) (fun r => r) (fun t => K (blk t))
        = tryE (ofR (whileShort body n fuel (st t) (blk t))) (fun e => .error e) K := by
  intro fuel
  induction fuel with
  | zero =>
    intro t
    by_cases h : (blk t).length < n <;> simp [whileS, whileShort, h, ofR, errOf]
  | succ k ih =>
    intro t
    by_cases h : (blk t).length < n
    · simp only [whileS, whileShort, h, decide_true, if_true, hb]
      cases hbd : body (st t) with
      | error e => simp [ofR]
      | ok r =>
        simp only []
        have := ih (nxt t r)
        rw [h1, h2] at this
        exact this
    · simp [whileS, whileShort, h, ofR]

theorem ofR_bind_pure {α β : Type} (x : R α) (g : α → β) :
    ofR (x >>= fun b => pure (g b)) = tryE (ofR x) (fun e => .error e) (fun b => .ok (g b)) := by
  cases x <;> rfl

theorem slice_zero (b : Bytes) (n : Nat) : Bytes.slice b 0 n = b.take n := by simp [Bytes.slice]

theorem prfHash_tag (P : Prims) (mac : MacTag) :
    macSuite P (if decide (mac = MacTag.sha384) = true then MacTag.sha384 else MacTag.sha256) = prfHash12 P mac := by
  cases mac <;> rfl

theorem prf_tls_12_eq_model (P : Prims) (secret cr sr label : Bytes) (length : Nat) (mac : MacTag) :
    Gen.Py.prf_tls_12 (hmacOf P) secret cr sr label length mac = ofR (prfTls12 P secret cr sr label length mac) := by
  unfold Gen.Py.prf_tls_12 prfTls12
  simp only [ofR_bind_pure, ← slice_zero, hmacOf, prfHash_tag, Acc.update, Acc.finalize, List.nil_append]
  exact loop_short (pHashBody (prfHash12 P mac).hmac secret (label ++ sr ++ cr)) length (·.1) (·.2) (fun t r => (t.1 ++ r.2, r.1))
    (fun py_s => .ok (.next (py_s.1 ++ (prfHash12 P mac).hmac secret ((prfHash12 P mac).hmac secret py_s.2 ++ (label ++ sr ++ cr)),
                              (prfHash12 P mac).hmac secret py_s.2)))
    (fun t => rfl) (fun _ _ => rfl) (fun _ _ => rfl) (fun b => .ok (Bytes.slice b 0 length)) length ([], label ++ sr ++ cr)

theorem ofR_bind {α β : Type} (x : R α) (f : α → R β) :
    ofR (x >>= f) = tryE (ofR x) (fun e => .error e) (fun b => ofR (f b)) := by
  cases x <;> rfl

theorem ofR_pure {α : Type} (a : α) : ofR (pure a : R α) = .ok a := rfl

theorem gen_master_secret_tls_12_eq_model (P : Prims) (pms cr sr : Bytes) (mac : MacTag) :
    Gen.Py.gen_master_secret_tls_12 (hmacOf P) pms cr sr mac = genMasterTls12 P mac pms cr sr := by
  unfold Gen.Py.gen_master_secret_tls_12 genMasterTls12
  simp only [hmacOf, prfHash_tag, Acc.update, Acc.finalize, List.nil_append, slice_zero]
  rfl

theorem xor_u8 (a b : UInt8) : UInt8.ofNat (a.toNat ^^^ b.toNat) = a ^^^ b := by
  rw [← UInt8.toNat_inj]
  simp [UInt8.toNat_xor]

theorem xor_list (x : Bytes) : ∀ y : Bytes,
    (List.map Int.ofNat (List.map (fun (p : Nat × Nat) => p.1 ^^^ p.2) (zipBytes x y))).all (fun v => decide (0 ≤ v ∧ v < 256)) = true ∧
    (List.map Int.ofNat (List.map (fun (p : Nat × Nat) => p.1 ^^^ p.2) (zipBytes x y))).map (fun v => UInt8.ofNat v.toNat) = xorZip x y := by
  induction x with
  | nil => intro y; simp [zipBytes, xorZip]
  | cons a r ih =>
    intro y
    cases y with
    | nil => simp [zipBytes, xorZip]
    | cons b s =>
      have h := ih s
      have hlt : a.toNat ^^^ b.toNat < 256 := Nat.xor_lt_two_pow (n := 8) a.toNat_lt b.toNat_lt
      unfold zipBytes xorZip at h ⊢
      simp only [List.zipWith_cons_cons, List.map_cons, List.all_cons, h.1, h.2, Bool.and_true, Int.ofNat_eq_natCast, Int.toNat_natCast, xor_u8]
      constructor
      · simp only [decide_eq_true_eq]; omega
      · trivial

/-- `bytearray([b1 ^ b2 for b1, b2 in zip(x, y)])` -/
theorem xor_bytes (x y : Bytes) :
    bytesOfE (List.map Int.ofNat (List.map (fun (p : Nat × Nat) => p.1 ^^^ p.2) (zipBytes x y))) = .ok (xorZip x y) := by
  unfold bytesOfE
  simp only [(xor_list x y).1, if_true, (xor_list x y).2]

theorem prf_tls_10_11_eq_model (P : Prims) (secret cr sr label : Bytes) (length nk : Nat) :
    Gen.Py.prf_tls_10_11 (hmacOf P) (fun n => (n + 1) / 2) secret cr sr label length nk
      = ofR (prfTls1011 P secret cr sr label length (decide (nk ≠ 0))) := by
  unfold Gen.Py.prf_tls_10_11 prfTls1011
  simp only [ofR_bind, ofR_pure, ← slice_zero, hmacOf, Acc.update, Acc.finalize, List.nil_append, xor_bytes, tryE_ok]
  generalize (if decide (nk ≠ 0) = true then label ++ cr ++ sr else label ++ sr ++ cr) = seed
  refine (loop_short (pHashBody (macSuite P MacTag.md5).hmac (secret.slice 0 ((List.length secret + 1) / 2)) seed) length (·.2.1) (·.2.2)
        (fun t r => (t.1 + 1, t.2.1 ++ r.2, r.1)) _ (fun t => rfl) (fun _ _ => rfl) (fun _ _ => rfl)
        (fun b => loopS
          (whileS length ((0 : Nat), ([] : Bytes), seed)
            (fun py_s => decide (List.length py_s.snd.fst < length)) fun py_s =>
            Except.ok
              (Step.next
                (py_s.fst + 1,
                  py_s.snd.fst ++
                    (macSuite P MacTag.sha1).hmac (List.drop ((List.length secret + 1) / 2) secret)
                      ((macSuite P MacTag.sha1).hmac (List.drop ((List.length secret + 1) / 2) secret) py_s.snd.snd ++ seed),
                  (macSuite P MacTag.sha1).hmac (List.drop ((List.length secret + 1) / 2) secret) py_s.snd.snd)))
          (fun py_e => Except.error py_e) (fun py_r => py_r) fun py_s_1 =>
          (Except.ok ((xorZip b py_s_1.snd.fst).slice 0 length) : Except Err Bytes)) length (0, [], seed)).trans ?_
  congr 1
  funext b
  exact loop_short (pHashBody (macSuite P MacTag.sha1).hmac (List.drop ((List.length secret + 1) / 2) secret) seed) length (·.2.1) (·.2.2)
        (fun t r => (t.1 + 1, t.2.1 ++ r.2, r.1)) _ (fun t => rfl) (fun _ _ => rfl) (fun _ _ => rfl)
        (fun b1 => .ok ((xorZip b b1).slice 0 length)) length (0, [], seed)

/-- `bytes(counter * sec_bits[counter - 1], 'utf-8')` -/
theorem sec_char {β : Type} (K : Bytes → Except Err β) (counter : Nat) :
    tryE (strItemE [65, 66, 67, 68, 69, 70, 71, 72, 73, 74] ((Int.ofNat counter) - (1 : Int))) (fun e => .error e)
        (fun t => tryE (utf8E (repeatSeq (Int.ofNat counter) t)) (fun e => .error e) K)
      = match secBits[counter - 1]? with | none => .error .index | some ch => K (List.replicate counter ch) := by
  rcases counter with _ | k
  · rfl
  · have e : Int.ofNat (k + 1) - 1 = Int.ofNat k := by simp only [Int.ofNat_eq_natCast]; omega
    rw [e]
    rcases k with _ | _ | _ | _ | _ | _ | _ | _ | _ | _ | k
    all_goals rfl

theorem prf_ssl_30_eq_model (P : Prims) (secret cr sr : Bytes) (length nk : Nat) :
    Gen.Py.prf_ssl_30 (hashOf P) secret cr sr length nk = ofR (prfSsl30 P secret cr sr length (decide (nk ≠ 0))) := by
  unfold Gen.Py.prf_ssl_30 prfSsl30
  simp only [ofR_bind_pure, ← slice_zero, hashOf, Acc.update, Acc.finalize, List.nil_append, sec_char]
  refine loop_short (ssl30Body P secret cr sr (decide (nk ≠ 0))) length (·.1) (·.2) (fun t r => (t.1 ++ r.2, r.1)) _ ?_
    (fun _ _ => rfl) (fun _ _ => rfl) (fun b => .ok (Bytes.slice b 0 length)) length ([], 1)
  intro t
  unfold ssl30Body
  by_cases h : nk ≠ 0
  · have hd : decide (nk ≠ 0) = true := by simp [h]
    simp only [hd, if_true, macSuite]
    cases secBits[t.2 - 1]? <;> simp [errOf, List.append_assoc]
  · have hd : decide (nk ≠ 0) = false := by simp [h]
    simp only [hd, Bool.false_eq_true, if_false, macSuite]
    cases secBits[t.2 - 1]? <;> simp [errOf, List.append_assoc]

theorem gen_master_secret_tls_10_11_eq_model (P : Prims) (pms cr sr : Bytes) :
    Gen.Py.gen_master_secret_tls_10_11 (hmacOf P) (fun n => (n + 1) / 2) pms cr sr = ofR (genMasterTls1011 P pms cr sr) := by
  unfold Gen.Py.gen_master_secret_tls_10_11 genMasterTls1011
  rw [prf_tls_10_11_eq_model]
  cases h : prfTls1011 P pms cr sr bMasterSecret 48 true <;> simp [bMasterSecret, ofR] at h ⊢ <;> simp [h]

theorem gen_master_secret_ssl_30_eq_model (P : Prims) (pms cr sr : Bytes) :
    Gen.Py.gen_master_secret_ssl_30 (hashOf P) pms cr sr = ofR (genMasterSsl30 P pms cr sr) := by
  unfold Gen.Py.gen_master_secret_ssl_30 genMasterSsl30
  rw [prf_ssl_30_eq_model]
  cases h : prfSsl30 P pms cr sr 48 true <;> simp [ofR] at h ⊢ <;> simp [h]

theorem toBytesE_overflow (n k : Nat) (h : ¬ n < 256 ^ k) : toBytesE (Int.ofNat n) (Int.ofNat k) = .error .overflow := by
  unfold toBytesE
  have h1 : ¬ (Int.ofNat k < 0) := by simp
  have h2 : (Int.ofNat n < 0 ∨ Int.ofNat n ≥ 256 ^ (Int.ofNat k).toNat) := by
    right
    simp only [Int.ofNat_eq_natCast, Int.toNat_natCast]
    have : ((256 ^ k : Nat) : Int) = (256 : Int) ^ k := by simp
    omega
  rw [if_neg h1, if_pos h2]

theorem toBytes2_eq (n : Nat) : toBytesE (Int.ofNat n) (2 : Int) = ofR (toBytes2 n) := by
  unfold toBytes2
  by_cases h : n < 65536
  · rw [show (2 : Int) = Int.ofNat 2 from rfl, toBytesE_nat n 2 (by omega)]
    simp only [h, if_true, ofR, Bytes.ofNatBE, List.nil_append, List.cons_append]
    congr 3
    have : n / 256 % 256 = n / 256 := Nat.mod_eq_of_lt (by omega)
    rw [this]
  · rw [show (2 : Int) = Int.ofNat 2 from rfl, toBytesE_overflow n 2 (by omega)]
    simp [h, ofR, errOf]

theorem toBytes1_eq (n : Nat) : toBytesE (Int.ofNat n) (1 : Int) = ofR (toBytes1 n) := by
  unfold toBytes1
  by_cases h : n < 256
  · rw [show (1 : Int) = Int.ofNat 1 from rfl, toBytesE_nat n 1 (by omega)]
    simp [h, ofR, Bytes.ofNatBE, Nat.mod_eq_of_lt h]
  · rw [show (1 : Int) = Int.ofNat 1 from rfl, toBytesE_overflow n 1 (by omega)]
    simp [h, ofR, errOf]

theorem make_info_eq_model (label : Bytes) (kl : Nat) : Gen.Py.make_info label kl = ofR (makeInfo label kl) := by
  unfold Gen.Py.make_info makeInfo
  simp only [toBytes2_eq, toBytes1_eq, ofR_bind, ofR_pure, bTls13]

/-- the `keys` dict of the legacy `dev_*_keys` functions: the six names (as code points) in display order -/
def keys6Table (k : Keys6) : List (List Nat × Bytes) :=
  [(([99, 108, 105, 101, 110, 116, 95, 119, 114, 105, 116, 101, 95, 77, 65, 67, 95, 115, 101, 99, 114, 101, 116] : List Nat), k.clientMac),
   (([115, 101, 114, 118, 101, 114, 95, 119, 114, 105, 116, 101, 95, 77, 65, 67, 95, 115, 101, 99, 114, 101, 116] : List Nat), k.serverMac),
   (([99, 108, 105, 101, 110, 116, 95, 119, 114, 105, 116, 101, 95, 107, 101, 121] : List Nat), k.clientKey),
   (([115, 101, 114, 118, 101, 114, 95, 119, 114, 105, 116, 101, 95, 107, 101, 121] : List Nat), k.serverKey),
   (([99, 108, 105, 101, 110, 116, 95, 119, 114, 105, 116, 101, 95, 73, 86] : List Nat), k.clientIv),
   (([115, 101, 114, 118, 101, 114, 95, 119, 114, 105, 116, 101, 95, 73, 86] : List Nat), k.serverIv)]

theorem iv12 (c : CipherTag) (ua : Nat) :
    (if decide (c ∈ [CipherTag.aes, CipherTag.camellia]) = true then
        (if (decide (c = CipherTag.camellia) && decide (ua ≠ 0)) = true then 4 else 16)
      else (if decide (c = CipherTag.chacha) = true then 12 else 4)) = ivLenTls12 c (decide (ua ≠ 0)) := by
  unfold ivLenTls12
  by_cases h : ua = 0 <;> cases c <;> simp [h]

theorem ivLegacy (c : CipherTag) :
    (if decide (c ∈ [CipherTag.aes, CipherTag.camellia]) = true then 16
      else (if decide (c ∈ [CipherTag.tripleDES, CipherTag.idea]) = true then 8 else 4)) = ivLenLegacy c := by
  cases c <;> rfl

theorem dev_tls_12_keys_eq_model (P : Prims) (master cr sr : Bytes) (kl ml kbl : Nat) (c : CipherTag) (ua : Nat) (mac : MacTag) :
    Gen.Py.dev_tls_12_keys (hmacOf P) master cr sr kl ml kbl c ua mac
      = (ofR (devTls12Keys P master cr sr kl ml kbl c (decide (ua ≠ 0)) mac)).map keys6Table := by
  unfold Gen.Py.dev_tls_12_keys devTls12Keys
  simp only [prf_tls_12_eq_model, ofR_bind, ofR_pure, iv12, bKeyExpansion]
  generalize (if decide (ua ≠ 0) = true then 0 else ml) = m
  cases ofR (prfTls12 P master cr sr _ _ mac) with
  | error e => rfl
  | ok b => simp only [tryE_ok, Except.map, keys6Table, sliceKeys, Nat.mul_comm _ 2]

theorem dev_tls_10_11_keys_eq_model (P : Prims) (master sr cr : Bytes) (kl ml kbl : Nat) (c : CipherTag) (ua : Nat) :
    Gen.Py.dev_tls_10_11_keys (hmacOf P) (fun n => (n + 1) / 2) master sr cr kl ml kbl c ua
      = (ofR (devTls1011Keys P master sr cr kl ml kbl c (decide (ua ≠ 0)))).map keys6Table := by
  unfold Gen.Py.dev_tls_10_11_keys devTls1011Keys
  simp only [prf_tls_10_11_eq_model, ofR_bind, ofR_pure, ivLegacy, bKeyExpansion]
  generalize (if decide (ua ≠ 0) = true then 0 else ml) = m
  have e0 : decide ((0 : Nat) ≠ 0) = false := by decide
  simp only [e0]
  cases ofR (prfTls1011 P master cr sr _ _ false) with
  | error e => rfl
  | ok b => simp only [tryE_ok, Except.map, keys6Table, sliceKeys, Nat.mul_comm _ 2]

theorem dev_ssl_30_keys_eq_model (P : Prims) (master sr cr : Bytes) (kl ml kbl : Nat) (c : CipherTag) (ua : Nat) :
    Gen.Py.dev_ssl_30_keys (hashOf P) master sr cr kl ml kbl c ua
      = (ofR (devSsl30Keys P master sr cr kl ml kbl c (decide (ua ≠ 0)))).map keys6Table := by
  unfold Gen.Py.dev_ssl_30_keys devSsl30Keys
  simp only [prf_ssl_30_eq_model, ofR_bind, ofR_pure, ivLegacy]
  generalize (if decide (ua ≠ 0) = true then 0 else ml) = m
  have e0 : decide ((0 : Nat) ≠ 0) = false := by decide
  simp only [e0]
  cases ofR (prfSsl30 P master cr sr _ false) with
  | error e => rfl
  | ok b => simp only [tryE_ok, Except.map, keys6Table, sliceKeys]

end TLX.Props.Translated.KS
