import TLX.Props.Translated.KeySched
namespace TLX.Props.Translated.KS
open TLX TLX.PyRt TLX.KeySchedule TLX.Crypto

/-- `secret.label` (a str) as the model's `Label` -/
def labelOf (s : List Nat) : Label :=
  if s = [67, 76, 73, 69, 78, 84, 95, 72, 65, 78, 68, 83, 72, 65, 75, 69, 95, 84, 82, 65, 70, 70, 73, 67, 95, 83, 69, 67, 82, 69, 84] then .clientHandshake else
  if s = [83, 69, 82, 86, 69, 82, 95, 72, 65, 78, 68, 83, 72, 65, 75, 69, 95, 84, 82, 65, 70, 70, 73, 67, 95, 83, 69, 67, 82, 69, 84] then .serverHandshake else
  if s = [67, 76, 73, 69, 78, 84, 95, 84, 82, 65, 70, 70, 73, 67, 95, 83, 69, 67, 82, 69, 84, 95, 48] then .clientTraffic0 else
  if s = [83, 69, 82, 86, 69, 82, 95, 84, 82, 65, 70, 70, 73, 67, 95, 83, 69, 67, 82, 69, 84, 95, 48] then .serverTraffic0 else
  if s = [67, 76, 73, 69, 78, 84, 95, 69, 65, 82, 76, 89, 95, 84, 82, 65, 70, 70, 73, 67, 95, 83, 69, 67, 82, 69, 84] then .clientEarly else
  if s = [83, 69, 82, 86, 69, 82, 95, 69, 65, 82, 76, 89, 95, 84, 82, 65, 70, 70, 73, 67, 95, 83, 69, 67, 82, 69, 84] then .serverEarly else
  if s = [67, 76, 73, 69, 78, 84, 95, 82, 65, 78, 68, 79, 77] then .clientRandom else
  if s = [82, 83, 65] then .rsa else
  .other

/-- a key-log entry of the translation as the model's `Secret` -/
def secOf (s : List Nat × Bytes) : Secret := (labelOf s.1, s.2)

def hkdfExpandOf (P : Prims) (t : MacTag) (n : Nat) (info ikm : Bytes) : Bytes := (macSuite P t).hkdfExpand ikm info n
def hkdfExtractOf (P : Prims) (t : MacTag) (salt ikm : Bytes) : Bytes := (macSuite P t).hkdfExtract salt ikm

/-- the `keys` dict of `dev_tls_13_keys` in display order -/
def tls13Table (k : Tls13Keys) : List (List Nat × Option Bytes) :=
  [(([99, 108, 105, 101, 110, 116, 95, 104, 97, 110, 100, 115, 104, 97, 107, 101, 95, 116, 114, 97, 102, 102, 105, 99, 95, 115, 101, 99, 114, 101, 116] : List Nat), k.clientHsKey),
   (([115, 101, 114, 118, 101, 114, 95, 104, 97, 110, 100, 115, 104, 97, 107, 101, 95, 116, 114, 97, 102, 102, 105, 99, 95, 115, 101, 99, 114, 101, 116] : List Nat), k.serverHsKey),
   (([99, 108, 105, 101, 110, 116, 95, 97, 112, 112, 108, 105, 99, 97, 116, 105, 111, 110, 95, 116, 114, 97, 102, 102, 105, 99, 95, 115, 101, 99, 114, 101, 116, 95, 48] : List Nat), k.clientAppKey),
   (([115, 101, 114, 118, 101, 114, 95, 97, 112, 112, 108, 105, 99, 97, 116, 105, 111, 110, 95, 116, 114, 97, 102, 102, 105, 99, 95, 115, 101, 99, 114, 101, 116, 95, 48] : List Nat), k.serverAppKey),
   (([99, 108, 105, 101, 110, 116, 95, 104, 97, 110, 100, 115, 104, 97, 107, 101, 95, 105, 118] : List Nat), k.clientHsIv),
   (([115, 101, 114, 118, 101, 114, 95, 104, 97, 110, 100, 115, 104, 97, 107, 101, 95, 105, 118] : List Nat), k.serverHsIv),
   (([99, 108, 105, 101, 110, 116, 95, 97, 112, 112, 108, 105, 99, 97, 116, 105, 111, 110, 95, 105, 118] : List Nat), k.clientAppIv),
   (([115, 101, 114, 118, 101, 114, 95, 97, 112, 112, 108, 105, 99, 97, 116, 105, 111, 110, 95, 105, 118] : List Nat), k.serverAppIv)]

theorem beNat_toBytes2 (n : Nat) (h : n < 65536) : Bytes.beNat [UInt8.ofNat (n / 256), UInt8.ofNat (n % 256)] = n := by
  simp only [Bytes.beNat, List.foldl_cons, List.foldl_nil, UInt8.toNat_ofNat']
  omega

def accTuple (a : Tls13Acc) := (a.clientHsKey, a.clientHsIv, a.serverHsKey, a.serverHsIv, a.clientAppKey, a.clientAppIv, a.serverAppKey, a.serverAppIv)

abbrev T8 := Option Bytes × Option Bytes × Option Bytes × Option Bytes × Option Bytes × Option Bytes × Option Bytes × Option Bytes

/-- the loop of `dev_tls_13_keys`: any step function that does what the four label tests say is the model's `tls13Step` -/
theorem fold13 (hs : HashSuite) (kl : Nat) (keyInfo ivInfo : Bytes) (g : T8 → (List Nat × Bytes) → T8)
    (hg : ∀ (t : T8) (s : List Nat × Bytes), g t s =
      if s.1 = [67, 76, 73, 69, 78, 84, 95, 72, 65, 78, 68, 83, 72, 65, 75, 69, 95, 84, 82, 65, 70, 70, 73, 67, 95, 83, 69, 67, 82, 69, 84] then (some (hs.hkdfExpand s.2 keyInfo kl), some (hs.hkdfExpand s.2 ivInfo 12), t.2.2.1, t.2.2.2.1, t.2.2.2.2.1, t.2.2.2.2.2.1, t.2.2.2.2.2.2.1, t.2.2.2.2.2.2.2)
      else if s.1 = [83, 69, 82, 86, 69, 82, 95, 72, 65, 78, 68, 83, 72, 65, 75, 69, 95, 84, 82, 65, 70, 70, 73, 67, 95, 83, 69, 67, 82, 69, 84] then (t.1, t.2.1, some (hs.hkdfExpand s.2 keyInfo kl), some (hs.hkdfExpand s.2 ivInfo 12), t.2.2.2.2.1, t.2.2.2.2.2.1, t.2.2.2.2.2.2.1, t.2.2.2.2.2.2.2)
      else if s.1 = [67, 76, 73, 69, 78, 84, 95, 84, 82, 65, 70, 70, 73, 67, 95, 83, 69, 67, 82, 69, 84, 95, 48] then (t.1, t.2.1, t.2.2.1, t.2.2.2.1, some (hs.hkdfExpand s.2 keyInfo kl), some (hs.hkdfExpand s.2 ivInfo 12), t.2.2.2.2.2.2.1, t.2.2.2.2.2.2.2)
      else if s.1 = [83, 69, 82, 86, 69, 82, 95, 84, 82, 65, 70, 70, 73, 67, 95, 83, 69, 67, 82, 69, 84, 95, 48] then (t.1, t.2.1, t.2.2.1, t.2.2.2.1, t.2.2.2.2.1, t.2.2.2.2.2.1, some (hs.hkdfExpand s.2 keyInfo kl), some (hs.hkdfExpand s.2 ivInfo 12))
      else t) :
    ∀ (ss : List (List Nat × Bytes)) (a : Tls13Acc),
      List.foldl g (accTuple a) ss = accTuple (List.foldl (tls13Step hs kl keyInfo ivInfo) a (ss.map secOf)) := by
  intro ss
  induction ss with
  | nil => intro a; rfl
  | cons s rest ih =>
    intro a
    simp only [List.foldl_cons, List.map_cons]
    rw [← ih]
    congr 1
    rw [hg]
    unfold tls13Step secOf labelOf
    by_cases h1 : s.1 = [67, 76, 73, 69, 78, 84, 95, 72, 65, 78, 68, 83, 72, 65, 75, 69, 95, 84, 82, 65, 70, 70, 73, 67, 95, 83, 69, 67, 82, 69, 84]
    · simp [h1, accTuple]
    · by_cases h2 : s.1 = [83, 69, 82, 86, 69, 82, 95, 72, 65, 78, 68, 83, 72, 65, 75, 69, 95, 84, 82, 65, 70, 70, 73, 67, 95, 83, 69, 67, 82, 69, 84]
      · simp [h2, accTuple]
      · by_cases h3 : s.1 = [67, 76, 73, 69, 78, 84, 95, 84, 82, 65, 70, 70, 73, 67, 95, 83, 69, 67, 82, 69, 84, 95, 48]
        · simp [h3, accTuple]
        · by_cases h4 : s.1 = [83, 69, 82, 86, 69, 82, 95, 84, 82, 65, 70, 70, 73, 67, 95, 83, 69, 67, 82, 69, 84, 95, 48]
          · simp [h4, accTuple]
          · simp only [h1, h2, h3, h4, if_false]
            by_cases h5 : s.1 = [67, 76, 73, 69, 78, 84, 95, 69, 65, 82, 76, 89, 95, 84, 82, 65, 70, 70, 73, 67, 95, 83, 69, 67, 82, 69, 84]
            · simp [h5]
            · by_cases h6 : s.1 = [83, 69, 82, 86, 69, 82, 95, 69, 65, 82, 76, 89, 95, 84, 82, 65, 70, 70, 73, 67, 95, 83, 69, 67, 82, 69, 84]
              · simp [h6]
              · by_cases h7 : s.1 = [67, 76, 73, 69, 78, 84, 95, 82, 65, 78, 68, 79, 77]
                · simp [h7]
                · by_cases h8 : s.1 = [82, 83, 65]
                  · simp [h8]
                  · simp [h5, h6, h7, h8]

theorem fold13' (hs : HashSuite) (kl : Nat) (keyInfo ivInfo : Bytes) (g : T8 → (List Nat × Bytes) → T8)
    (ss : List (List Nat × Bytes)) (r : T8)
    (hr : List.foldl g (none, none, none, none, none, none, none, none) ss = r)
    (hg : ∀ (t : T8) (s : List Nat × Bytes), g t s =
      if s.1 = [67, 76, 73, 69, 78, 84, 95, 72, 65, 78, 68, 83, 72, 65, 75, 69, 95, 84, 82, 65, 70, 70, 73, 67, 95, 83, 69, 67, 82, 69, 84] then (some (hs.hkdfExpand s.2 keyInfo kl), some (hs.hkdfExpand s.2 ivInfo 12), t.2.2.1, t.2.2.2.1, t.2.2.2.2.1, t.2.2.2.2.2.1, t.2.2.2.2.2.2.1, t.2.2.2.2.2.2.2)
      else if s.1 = [83, 69, 82, 86, 69, 82, 95, 72, 65, 78, 68, 83, 72, 65, 75, 69, 95, 84, 82, 65, 70, 70, 73, 67, 95, 83, 69, 67, 82, 69, 84] then (t.1, t.2.1, some (hs.hkdfExpand s.2 keyInfo kl), some (hs.hkdfExpand s.2 ivInfo 12), t.2.2.2.2.1, t.2.2.2.2.2.1, t.2.2.2.2.2.2.1, t.2.2.2.2.2.2.2)
      else if s.1 = [67, 76, 73, 69, 78, 84, 95, 84, 82, 65, 70, 70, 73, 67, 95, 83, 69, 67, 82, 69, 84, 95, 48] then (t.1, t.2.1, t.2.2.1, t.2.2.2.1, some (hs.hkdfExpand s.2 keyInfo kl), some (hs.hkdfExpand s.2 ivInfo 12), t.2.2.2.2.2.2.1, t.2.2.2.2.2.2.2)
      else if s.1 = [83, 69, 82, 86, 69, 82, 95, 84, 82, 65, 70, 70, 73, 67, 95, 83, 69, 67, 82, 69, 84, 95, 48] then (t.1, t.2.1, t.2.2.1, t.2.2.2.1, t.2.2.2.2.1, t.2.2.2.2.2.1, some (hs.hkdfExpand s.2 keyInfo kl), some (hs.hkdfExpand s.2 ivInfo 12))
      else t) :
    r = accTuple (List.foldl (tls13Step hs kl keyInfo ivInfo) {} (ss.map secOf)) := by
  rw [← hr]
  exact fold13 hs kl keyInfo ivInfo g hg ss {}

theorem dev_tls_13_keys_eq_model (P : Prims) (ss : List (List Nat × Bytes)) (kl : Nat) (h : MacTag) :
    Gen.Py.dev_tls_13_keys (hkdfExpandOf P) ss kl h = (ofR (devTls13Keys (macSuite P h) (ss.map secOf) kl)).map tls13Table := by
  unfold Gen.Py.dev_tls_13_keys devTls13Keys
  simp only [toBytes2_eq, ofR_bind, ofR_pure]
  unfold toBytes2
  by_cases hk : kl < 65536
  · simp only [hk, if_true, ofR, tryE_ok, beNat_toBytes2 kl hk]
    generalize hfold : List.foldl _ _ ss = r
    have key := fold13' (macSuite P h) kl
      ([UInt8.ofNat (kl / 256), UInt8.ofNat (kl % 256)] ++ [0x09] ++ bTls13Key ++ [0x00]) ([0x00, 0x0c] ++ [0x08] ++ bTls13Iv ++ [0x00]) _ ss r hfold
      (by
        intro t s
        simp only [hkdfExpandOf, bTls13Key, bTls13Iv]
        by_cases h1 : s.1 = [67, 76, 73, 69, 78, 84, 95, 72, 65, 78, 68, 83, 72, 65, 75, 69, 95, 84, 82, 65, 70, 70, 73, 67, 95, 83, 69, 67, 82, 69, 84]
        · simp [h1]
        · by_cases h2 : s.1 = [83, 69, 82, 86, 69, 82, 95, 72, 65, 78, 68, 83, 72, 65, 75, 69, 95, 84, 82, 65, 70, 70, 73, 67, 95, 83, 69, 67, 82, 69, 84]
          · simp [h2]
          · by_cases h3 : s.1 = [67, 76, 73, 69, 78, 84, 95, 84, 82, 65, 70, 70, 73, 67, 95, 83, 69, 67, 82, 69, 84, 95, 48]
            · simp [h3]
            · by_cases h4 : s.1 = [83, 69, 82, 86, 69, 82, 95, 84, 82, 65, 70, 70, 73, 67, 95, 83, 69, 67, 82, 69, 84, 95, 48]
              · simp [h4]
              · simp [h1, h2, h3, h4])
    rw [key]
    rfl
  · simp [hk, ofR, Except.map]

/-- the dict `dev_initial_keys` returns, in display order -/
def initTable (k : InitialKeys) : List (List Nat × Bytes) :=
  [(([99, 108, 105, 101, 110, 116, 95, 105, 110, 105, 116, 105, 97, 108, 95, 107, 101, 121] : List Nat), k.clientKey),
   (([99, 108, 105, 101, 110, 116, 95, 105, 110, 105, 116, 105, 97, 108, 95, 105, 118] : List Nat), k.clientIv),
   (([99, 108, 105, 101, 110, 116, 95, 105, 110, 105, 116, 105, 97, 108, 95, 104, 112] : List Nat), k.clientHp),
   (([115, 101, 114, 118, 101, 114, 95, 105, 110, 105, 116, 105, 97, 108, 95, 107, 101, 121] : List Nat), k.serverKey),
   (([115, 101, 114, 118, 101, 114, 95, 105, 110, 105, 116, 105, 97, 108, 95, 105, 118] : List Nat), k.serverIv),
   (([115, 101, 114, 118, 101, 114, 95, 105, 110, 105, 116, 105, 97, 108, 95, 104, 112] : List Nat), k.serverHp)]

theorem dev_initial_keys_eq_model (P : Prims) (cid : Bytes) (ver : QuicVersion) (chacha : Bool) :
    Gen.Py.dev_initial_keys (hkdfExpandOf P) (hkdfExtractOf P) cid ver chacha
      = (ofR (devInitialKeys P.sha256 cid ver chacha)).map (Option.map initTable) := by
  cases ver <;> cases chacha <;> rfl

theorem listItemE_nat {α : Type} (n : Nat) (l : List α) :
    listItemE l (n : Int) = match l[n]? with | none => .error .index | some a => .ok a := by
  unfold listItemE
  have h1 : ¬ ((n : Int) < 0) := by omega
  simp only [h1, if_false, Int.toNat_natCast]
  rfl

/-- `digest_size` of the model's hash -/
def digestOf (P : Prims) (t : MacTag) : Nat := (macSuite P t).outLen

theorem key_update_eq_model (P : Prims) (h : MacTag) (kl : Nat) (ver : QuicVersion) (keys : List Bytes) :
    Gen.Py.key_update (hkdfExpandOf P) (digestOf P) h kl ver keys
      = (ofR (keyUpdate (macSuite P h) kl keys)).map (fun d => ({ keys := d } : Gen.Py.QDecObj)) := by
  unfold Gen.Py.key_update keyUpdate
  simp only [make_info_eq_model, ofR_bind, ofR_pure, if_true, bQuicKey, bQuicIv, bQuicKu, digestOf, hkdfExpandOf]
  cases ofR (makeInfo _ kl) with
  | error e => rfl
  | ok b =>
    cases ofR (makeInfo _ 12) with
    | error e => rfl
    | ok b1 =>
      cases ofR (makeInfo _ (macSuite P h).outLen) with
      | error e => rfl
      | ok b2 =>
        have e4 : listItemE keys (4 : Int) = _ := listItemE_nat 4 keys
        have e5 : listItemE keys (5 : Int) = _ := listItemE_nat 5 keys
        simp only [tryE_ok, e4, e5]
        cases keys[4]? <;> cases keys[5]? <;> rfl

abbrev T20 := Option Bytes × Option Bytes × Option Bytes × Option Bytes × Option Bytes × Option Bytes × Option Bytes × Option Bytes × Option Bytes × Option Bytes × Option Bytes × Option Bytes × Option Bytes × Option Bytes × Option Bytes × Option Bytes × Option Bytes × Option Bytes × Option Bytes × Option Bytes

def qTuple (a : QuicAcc) : T20 :=
  (a.clientHs.map (·.key), a.clientHs.map (·.iv), a.clientHs.map (·.hp), a.serverHs.map (·.key), a.serverHs.map (·.iv), a.serverHs.map (·.hp),
   a.clientApp.map (·.1.key), a.clientApp.map (·.1.iv), a.clientApp.map (·.1.hp), a.clientApp.map (·.2),
   a.serverApp.map (·.1.key), a.serverApp.map (·.1.iv), a.serverApp.map (·.1.hp), a.serverApp.map (·.2),
   a.clientEarly.map (·.key), a.clientEarly.map (·.iv), a.clientEarly.map (·.hp), a.serverEarly.map (·.key), a.serverEarly.map (·.iv), a.serverEarly.map (·.hp))

/-- the loop of `dev_quic_keys`: any step function that does what the six label tests say is the model's `quicStep` -/
theorem foldQ (hs : HashSuite) (kl : Nat) (ki ii hi : Bytes) (g : T20 → (List Nat × Bytes) → T20)
    (ss : List (List Nat × Bytes)) (r : T20)
    (hr : List.foldl g (none, none, none, none, none, none, none, none, none, none, none, none, none, none, none, none, none, none, none, none) ss = r)
    (hg : ∀ (t : T20) (s : List Nat × Bytes), g t s =
      if s.1 = [67, 76, 73, 69, 78, 84, 95, 72, 65, 78, 68, 83, 72, 65, 75, 69, 95, 84, 82, 65, 70, 70, 73, 67, 95, 83, 69, 67, 82, 69, 84] then (some (hs.hkdfExpand s.2 ki kl), some (hs.hkdfExpand s.2 ii 12), some (hs.hkdfExpand s.2 hi kl), t.2.2.2.1, t.2.2.2.2.1, t.2.2.2.2.2.1, t.2.2.2.2.2.2.1, t.2.2.2.2.2.2.2.1, t.2.2.2.2.2.2.2.2.1, t.2.2.2.2.2.2.2.2.2.1, t.2.2.2.2.2.2.2.2.2.2.1, t.2.2.2.2.2.2.2.2.2.2.2.1, t.2.2.2.2.2.2.2.2.2.2.2.2.1, t.2.2.2.2.2.2.2.2.2.2.2.2.2.1, t.2.2.2.2.2.2.2.2.2.2.2.2.2.2.1, t.2.2.2.2.2.2.2.2.2.2.2.2.2.2.2.1, t.2.2.2.2.2.2.2.2.2.2.2.2.2.2.2.2.1, t.2.2.2.2.2.2.2.2.2.2.2.2.2.2.2.2.2.1, t.2.2.2.2.2.2.2.2.2.2.2.2.2.2.2.2.2.2.1, t.2.2.2.2.2.2.2.2.2.2.2.2.2.2.2.2.2.2.2)
      else       if s.1 = [83, 69, 82, 86, 69, 82, 95, 72, 65, 78, 68, 83, 72, 65, 75, 69, 95, 84, 82, 65, 70, 70, 73, 67, 95, 83, 69, 67, 82, 69, 84] then (t.1, t.2.1, t.2.2.1, some (hs.hkdfExpand s.2 ki kl), some (hs.hkdfExpand s.2 ii 12), some (hs.hkdfExpand s.2 hi kl), t.2.2.2.2.2.2.1, t.2.2.2.2.2.2.2.1, t.2.2.2.2.2.2.2.2.1, t.2.2.2.2.2.2.2.2.2.1, t.2.2.2.2.2.2.2.2.2.2.1, t.2.2.2.2.2.2.2.2.2.2.2.1, t.2.2.2.2.2.2.2.2.2.2.2.2.1, t.2.2.2.2.2.2.2.2.2.2.2.2.2.1, t.2.2.2.2.2.2.2.2.2.2.2.2.2.2.1, t.2.2.2.2.2.2.2.2.2.2.2.2.2.2.2.1, t.2.2.2.2.2.2.2.2.2.2.2.2.2.2.2.2.1, t.2.2.2.2.2.2.2.2.2.2.2.2.2.2.2.2.2.1, t.2.2.2.2.2.2.2.2.2.2.2.2.2.2.2.2.2.2.1, t.2.2.2.2.2.2.2.2.2.2.2.2.2.2.2.2.2.2.2)
      else       if s.1 = [67, 76, 73, 69, 78, 84, 95, 84, 82, 65, 70, 70, 73, 67, 95, 83, 69, 67, 82, 69, 84, 95, 48] then (t.1, t.2.1, t.2.2.1, t.2.2.2.1, t.2.2.2.2.1, t.2.2.2.2.2.1, some (hs.hkdfExpand s.2 ki kl), some (hs.hkdfExpand s.2 ii 12), some (hs.hkdfExpand s.2 hi kl), some s.2, t.2.2.2.2.2.2.2.2.2.2.1, t.2.2.2.2.2.2.2.2.2.2.2.1, t.2.2.2.2.2.2.2.2.2.2.2.2.1, t.2.2.2.2.2.2.2.2.2.2.2.2.2.1, t.2.2.2.2.2.2.2.2.2.2.2.2.2.2.1, t.2.2.2.2.2.2.2.2.2.2.2.2.2.2.2.1, t.2.2.2.2.2.2.2.2.2.2.2.2.2.2.2.2.1, t.2.2.2.2.2.2.2.2.2.2.2.2.2.2.2.2.2.1, t.2.2.2.2.2.2.2.2.2.2.2.2.2.2.2.2.2.2.1, t.2.2.2.2.2.2.2.2.2.2.2.2.2.2.2.2.2.2.2)
      else       if s.1 = [83, 69, 82, 86, 69, 82, 95, 84, 82, 65, 70, 70, 73, 67, 95, 83, 69, 67, 82, 69, 84, 95, 48] then (t.1, t.2.1, t.2.2.1, t.2.2.2.1, t.2.2.2.2.1, t.2.2.2.2.2.1, t.2.2.2.2.2.2.1, t.2.2.2.2.2.2.2.1, t.2.2.2.2.2.2.2.2.1, t.2.2.2.2.2.2.2.2.2.1, some (hs.hkdfExpand s.2 ki kl), some (hs.hkdfExpand s.2 ii 12), some (hs.hkdfExpand s.2 hi kl), some s.2, t.2.2.2.2.2.2.2.2.2.2.2.2.2.2.1, t.2.2.2.2.2.2.2.2.2.2.2.2.2.2.2.1, t.2.2.2.2.2.2.2.2.2.2.2.2.2.2.2.2.1, t.2.2.2.2.2.2.2.2.2.2.2.2.2.2.2.2.2.1, t.2.2.2.2.2.2.2.2.2.2.2.2.2.2.2.2.2.2.1, t.2.2.2.2.2.2.2.2.2.2.2.2.2.2.2.2.2.2.2)
      else       if s.1 = [67, 76, 73, 69, 78, 84, 95, 69, 65, 82, 76, 89, 95, 84, 82, 65, 70, 70, 73, 67, 95, 83, 69, 67, 82, 69, 84] then (t.1, t.2.1, t.2.2.1, t.2.2.2.1, t.2.2.2.2.1, t.2.2.2.2.2.1, t.2.2.2.2.2.2.1, t.2.2.2.2.2.2.2.1, t.2.2.2.2.2.2.2.2.1, t.2.2.2.2.2.2.2.2.2.1, t.2.2.2.2.2.2.2.2.2.2.1, t.2.2.2.2.2.2.2.2.2.2.2.1, t.2.2.2.2.2.2.2.2.2.2.2.2.1, t.2.2.2.2.2.2.2.2.2.2.2.2.2.1, some (hs.hkdfExpand s.2 ki kl), some (hs.hkdfExpand s.2 ii 12), some (hs.hkdfExpand s.2 hi kl), t.2.2.2.2.2.2.2.2.2.2.2.2.2.2.2.2.2.1, t.2.2.2.2.2.2.2.2.2.2.2.2.2.2.2.2.2.2.1, t.2.2.2.2.2.2.2.2.2.2.2.2.2.2.2.2.2.2.2)
      else       if s.1 = [83, 69, 82, 86, 69, 82, 95, 69, 65, 82, 76, 89, 95, 84, 82, 65, 70, 70, 73, 67, 95, 83, 69, 67, 82, 69, 84] then (t.1, t.2.1, t.2.2.1, t.2.2.2.1, t.2.2.2.2.1, t.2.2.2.2.2.1, t.2.2.2.2.2.2.1, t.2.2.2.2.2.2.2.1, t.2.2.2.2.2.2.2.2.1, t.2.2.2.2.2.2.2.2.2.1, t.2.2.2.2.2.2.2.2.2.2.1, t.2.2.2.2.2.2.2.2.2.2.2.1, t.2.2.2.2.2.2.2.2.2.2.2.2.1, t.2.2.2.2.2.2.2.2.2.2.2.2.2.1, t.2.2.2.2.2.2.2.2.2.2.2.2.2.2.1, t.2.2.2.2.2.2.2.2.2.2.2.2.2.2.2.1, t.2.2.2.2.2.2.2.2.2.2.2.2.2.2.2.2.1, some (hs.hkdfExpand s.2 ki kl), some (hs.hkdfExpand s.2 ii 12), some (hs.hkdfExpand s.2 hi kl))
      else t) :
    r = qTuple (List.foldl (quicStep hs kl ki ii hi) {} (ss.map secOf)) := by
  rw [← hr]
  have gen : ∀ (ss : List (List Nat × Bytes)) (a : QuicAcc), List.foldl g (qTuple a) ss = qTuple (List.foldl (quicStep hs kl ki ii hi) a (ss.map secOf)) := by
    intro ss
    induction ss with
    | nil => intro a; rfl
    | cons s rest ih =>
      intro a
      simp only [List.foldl_cons, List.map_cons]
      rw [← ih]
      congr 1
      rw [hg]
      by_cases h1 : s.1 = [67, 76, 73, 69, 78, 84, 95, 72, 65, 78, 68, 83, 72, 65, 75, 69, 95, 84, 82, 65, 70, 70, 73, 67, 95, 83, 69, 67, 82, 69, 84]
      · have hl : labelOf s.1 = Label.clientHandshake := by unfold labelOf; rw [if_pos h1]
        rw [if_pos h1]
        unfold quicStep secOf
        simp only [hl]
        rfl
      · by_cases h2 : s.1 = [83, 69, 82, 86, 69, 82, 95, 72, 65, 78, 68, 83, 72, 65, 75, 69, 95, 84, 82, 65, 70, 70, 73, 67, 95, 83, 69, 67, 82, 69, 84]
        · have hl : labelOf s.1 = Label.serverHandshake := by unfold labelOf; rw [if_neg h1, if_pos h2]
          rw [if_neg h1, if_pos h2]
          unfold quicStep secOf
          simp only [hl]
          rfl
        · by_cases h3 : s.1 = [67, 76, 73, 69, 78, 84, 95, 84, 82, 65, 70, 70, 73, 67, 95, 83, 69, 67, 82, 69, 84, 95, 48]
          · have hl : labelOf s.1 = Label.clientTraffic0 := by unfold labelOf; rw [if_neg h1, if_neg h2, if_pos h3]
            rw [if_neg h1, if_neg h2, if_pos h3]
            unfold quicStep secOf
            simp only [hl]
            rfl
          · by_cases h4 : s.1 = [83, 69, 82, 86, 69, 82, 95, 84, 82, 65, 70, 70, 73, 67, 95, 83, 69, 67, 82, 69, 84, 95, 48]
            · have hl : labelOf s.1 = Label.serverTraffic0 := by unfold labelOf; rw [if_neg h1, if_neg h2, if_neg h3, if_pos h4]
              rw [if_neg h1, if_neg h2, if_neg h3, if_pos h4]
              unfold quicStep secOf
              simp only [hl]
              rfl
            · by_cases h5 : s.1 = [67, 76, 73, 69, 78, 84, 95, 69, 65, 82, 76, 89, 95, 84, 82, 65, 70, 70, 73, 67, 95, 83, 69, 67, 82, 69, 84]
              · have hl : labelOf s.1 = Label.clientEarly := by unfold labelOf; rw [if_neg h1, if_neg h2, if_neg h3, if_neg h4, if_pos h5]
                rw [if_neg h1, if_neg h2, if_neg h3, if_neg h4, if_pos h5]
                unfold quicStep secOf
                simp only [hl]
                rfl
              · by_cases h6 : s.1 = [83, 69, 82, 86, 69, 82, 95, 69, 65, 82, 76, 89, 95, 84, 82, 65, 70, 70, 73, 67, 95, 83, 69, 67, 82, 69, 84]
                · have hl : labelOf s.1 = Label.serverEarly := by unfold labelOf; rw [if_neg h1, if_neg h2, if_neg h3, if_neg h4, if_neg h5, if_pos h6]
                  rw [if_neg h1, if_neg h2, if_neg h3, if_neg h4, if_neg h5, if_pos h6]
                  unfold quicStep secOf
                  simp only [hl]
                  rfl
                · by_cases h7 : s.1 = [67, 76, 73, 69, 78, 84, 95, 82, 65, 78, 68, 79, 77]
                  · have hl : labelOf s.1 = Label.clientRandom := by unfold labelOf; rw [if_neg h1, if_neg h2, if_neg h3, if_neg h4, if_neg h5, if_neg h6, if_pos h7]
                    rw [if_neg h1, if_neg h2, if_neg h3, if_neg h4, if_neg h5, if_neg h6]
                    unfold quicStep secOf
                    simp only [hl]
                  · by_cases h8 : s.1 = [82, 83, 65]
                    · have hl : labelOf s.1 = Label.rsa := by unfold labelOf; rw [if_neg h1, if_neg h2, if_neg h3, if_neg h4, if_neg h5, if_neg h6, if_neg h7, if_pos h8]
                      rw [if_neg h1, if_neg h2, if_neg h3, if_neg h4, if_neg h5, if_neg h6]
                      unfold quicStep secOf
                      simp only [hl]
                    · have hl : labelOf s.1 = Label.other := by unfold labelOf; rw [if_neg h1, if_neg h2, if_neg h3, if_neg h4, if_neg h5, if_neg h6, if_neg h7, if_neg h8]
                      rw [if_neg h1, if_neg h2, if_neg h3, if_neg h4, if_neg h5, if_neg h6]
                      unfold quicStep secOf
                      simp only [hl]

  exact gen ss {}

/-- the dict `dev_quic_keys` returns, in display order -/
def quicTable (k : QuicKeys) : List (List Nat × Option Bytes) :=
  [(([99, 108, 105, 101, 110, 116, 95, 104, 97, 110, 100, 115, 104, 97, 107, 101, 95, 107, 101, 121] : List Nat), some k.clientHs.key),
   (([115, 101, 114, 118, 101, 114, 95, 104, 97, 110, 100, 115, 104, 97, 107, 101, 95, 107, 101, 121] : List Nat), some k.serverHs.key),
   (([99, 108, 105, 101, 110, 116, 95, 104, 97, 110, 100, 115, 104, 97, 107, 101, 95, 105, 118] : List Nat), some k.clientHs.iv),
   (([115, 101, 114, 118, 101, 114, 95, 104, 97, 110, 100, 115, 104, 97, 107, 101, 95, 105, 118] : List Nat), some k.serverHs.iv),
   (([99, 108, 105, 101, 110, 116, 95, 104, 97, 110, 100, 115, 104, 97, 107, 101, 95, 104, 112] : List Nat), some k.clientHs.hp),
   (([115, 101, 114, 118, 101, 114, 95, 104, 97, 110, 100, 115, 104, 97, 107, 101, 95, 104, 112] : List Nat), some k.serverHs.hp),
   (([99, 108, 105, 101, 110, 116, 95, 97, 112, 112, 108, 105, 99, 97, 116, 105, 111, 110, 95, 107, 101, 121] : List Nat), some k.clientApp.key),
   (([115, 101, 114, 118, 101, 114, 95, 97, 112, 112, 108, 105, 99, 97, 116, 105, 111, 110, 95, 107, 101, 121] : List Nat), some k.serverApp.key),
   (([99, 108, 105, 101, 110, 116, 95, 97, 112, 112, 108, 105, 99, 97, 116, 105, 111, 110, 95, 105, 118] : List Nat), some k.clientApp.iv),
   (([115, 101, 114, 118, 101, 114, 95, 97, 112, 112, 108, 105, 99, 97, 116, 105, 111, 110, 95, 105, 118] : List Nat), some k.serverApp.iv),
   (([99, 108, 105, 101, 110, 116, 95, 97, 112, 112, 108, 105, 99, 97, 116, 105, 111, 110, 95, 104, 112] : List Nat), some k.clientApp.hp),
   (([115, 101, 114, 118, 101, 114, 95, 97, 112, 112, 108, 105, 99, 97, 116, 105, 111, 110, 95, 104, 112] : List Nat), some k.serverApp.hp),
   (([99, 108, 105, 101, 110, 116, 95, 97, 112, 112, 108, 105, 99, 97, 116, 105, 111, 110, 95, 115, 101, 99] : List Nat), some k.clientAppSec),
   (([115, 101, 114, 118, 101, 114, 95, 97, 112, 112, 108, 105, 99, 97, 116, 105, 111, 110, 95, 115, 101, 99] : List Nat), some k.serverAppSec),
   (([99, 108, 105, 101, 110, 116, 95, 101, 97, 114, 108, 121, 95, 107, 101, 121] : List Nat), k.clientEarly.map (·.key)),
   (([99, 108, 105, 101, 110, 116, 95, 101, 97, 114, 108, 121, 95, 105, 118] : List Nat), k.clientEarly.map (·.iv)),
   (([115, 101, 114, 118, 101, 114, 95, 101, 97, 114, 108, 121, 95, 107, 101, 121] : List Nat), k.serverEarly.map (·.key)),
   (([115, 101, 114, 118, 101, 114, 95, 101, 97, 114, 108, 121, 95, 105, 118] : List Nat), k.serverEarly.map (·.iv)),
   (([99, 108, 105, 101, 110, 116, 95, 101, 97, 114, 108, 121, 95, 104, 112] : List Nat), k.clientEarly.map (·.hp)),
   (([115, 101, 114, 118, 101, 114, 95, 101, 97, 114, 108, 121, 95, 104, 112] : List Nat), k.serverEarly.map (·.hp))]

theorem dev_quic_keys_eq_model (P : Prims) (kl : Nat) (ss : List (List Nat × Bytes)) (h : MacTag) (ver : QuicVersion) :
    Gen.Py.dev_quic_keys (hkdfExpandOf P) kl ss h ver = (ofR (devQuicKeys (macSuite P h) kl (ss.map secOf) ver)).map quicTable := by
  unfold Gen.Py.dev_quic_keys devQuicKeys
  cases ver
  case v1 =>
    simp only [reduceCtorEq, decide_false, decide_true, Bool.false_eq_true, if_false, if_true, make_info_eq_model, ofR_bind]
    cases ofR (makeInfo _ kl) with
    | error e => rfl
    | ok ki =>
      cases ofR (makeInfo _ 12) with
      | error e => rfl
      | ok ii =>
        cases ofR (makeInfo _ kl) with
        | error e => rfl
        | ok hi =>
          simp only [tryE_ok]
          generalize hfold : List.foldl _ _ ss = r
          sorry
  all_goals sorry

end TLX.Props.Translated.KS
