import TLX.Props.Translated.TlsSess2
open TLX TLX.PyRt TLX.Session TLX.Props.Translated.Sess

def shBody : Bytes := [2, 0, 0, 46, 3, 3] ++ List.replicate 32 7 ++ [0, 0x13, 0x01, 0, 0, 6, 0, 0x2b, 0, 2, 3, 4]
def shRec : Rec := ⟨[0x16, 3, 3, 0, 50] ++ shBody, [1]⟩
def chRec : Rec := ⟨[0x16, 3, 1, 0, 40, 1, 0, 0, 36, 3, 3] ++ List.replicate 34 9, [0]⟩
def x0 : Extra := ⟨none, none, none, none⟩
def run2 := Gen.Py.Sess.run_client_records (decE toyOps toyKinds) (updE toyOps toyKinds) (gkE toyOps toyKinds) false [chRec, shRec] (enc St.init x0)
#eval (outView run2).1
#eval (outView run2).2.1
#eval (outView run2).2.2.2.2.2.1
#eval (outView run2).2.2.2.1
example : (outView run2).1 = true ∧ (outView run2).2.2.2.1 = some .tls13 ∧ (outView run2).2.2.2.2.2.2.1 = some 7 := by decide
