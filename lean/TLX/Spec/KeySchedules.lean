/-
Independent transcriptions of the RFC key schedules, over the abstract hash suite (C15).
Written from the RFC texts, not from TLExport's code; it does not import the model.

  RFC 6101 §6.1, §6.2.2   SSL 3.0 master secret and key block
  RFC 2246 §5, §6.3, §8.1 TLS 1.0 PRF (P_MD5 xor P_SHA-1), key block (RFC 4346: TLS 1.1 identical)
  RFC 5246 §5, §6.3, §8.1 TLS 1.2 PRF (P_<hash>), key block, SecurityParameters lengths
  RFC 8446 §7.1, §7.3     HKDF-Expand-Label, traffic keys
  RFC 9001 §5.1, §5.2, §5.4, §6.1  QUIC v1 packet protection keys, Initial secrets, key update
  Record IV sizes: RFC 2246 §6.3 (IV_size = block size), RFC 4346/5246 §6.2.3.2 (explicit CBC IV,
  nothing from the key block), RFC 5288 §3 / RFC 6655 §3 / RFC 6367 §3 (4-byte salt),
  RFC 7905 §2 (12-byte IV).

`P_hash` is the RFC's A(i) iteration: the first `⌈n / HashLen⌉` terms, truncated to `n` bytes
("iterated as often as necessary"); `stream_prefix` lemmas in Lemmas/ show more terms change nothing.
-/
import TLX.Crypto.HashSuite
namespace TLX.Spec.KeySchedules
open TLX TLX.Crypto

/-- ASCII bytes of a label written as in the RFC text -/
def asc (s : String) : Bytes := s.toList.map fun c => UInt8.ofNat c.toNat

/-- `⌈n / d⌉` -/
def ceilDiv (n d : Nat) : Nat := (n + d - 1) / d

/-- concatenation of the terms `t 0, t 1, …, t (m-1)` -/
def concatTerms (t : Nat → Bytes) (m : Nat) : Bytes := (List.range m).flatMap t

/-! ### RFC 6101 (SSL 3.0) -/

/-- `'A'`, `'BB'`, `'CCC'`, … (term `i` counted from 0) -/
def ssl3Salt (i : Nat) : Bytes := List.replicate (i + 1) (UInt8.ofNat (0x41 + i))

/-- `MD5(secret + SHA(salt_i + secret + randoms))` -/
def ssl3Term (md5 sha : HashSuite) (secret randoms : Bytes) (i : Nat) : Bytes :=
  md5.hash (secret ++ sha.hash (ssl3Salt i ++ secret ++ randoms))

/-- §6.1: `master_secret` = three terms over `ClientHello.random + ServerHello.random` -/
def ssl3MasterSecret (md5 sha : HashSuite) (pms clientRandom serverRandom : Bytes) : Bytes :=
  concatTerms (ssl3Term md5 sha pms (clientRandom ++ serverRandom)) 3

/-- §6.2.2: `key_block` = terms over `ServerHello.random + ClientHello.random`
    "until enough output has been generated" -/
def ssl3KeyBlock (md5 sha : HashSuite) (master clientRandom serverRandom : Bytes) (n : Nat) : Bytes :=
  (concatTerms (ssl3Term md5 sha master (serverRandom ++ clientRandom)) (ceilDiv n md5.outLen)).take n

/-! ### RFC 2246 / RFC 5246 §5: P_hash and the PRFs -/

/-- `A(0) = seed`, `A(i) = HMAC_hash(secret, A(i-1))` -/
def A (h : HashSuite) (secret seed : Bytes) : Nat → Bytes
  | 0 => seed
  | i + 1 => h.hmac secret (A h secret seed i)

/-- the `i`-th term (from 0) of `P_hash`: `HMAC_hash(secret, A(i+1) + seed)` -/
def pHashTerm (h : HashSuite) (secret seed : Bytes) (i : Nat) : Bytes :=
  h.hmac secret (A h secret seed (i + 1) ++ seed)

/-- `P_hash(secret, seed)` truncated to `n` bytes -/
def pHash (h : HashSuite) (secret seed : Bytes) (n : Nat) : Bytes :=
  (concatTerms (pHashTerm h secret seed) (ceilDiv n h.outLen)).take n

def xorBytes : Bytes → Bytes → Bytes
  | a :: as, b :: bs => (a ^^^ b) :: xorBytes as bs
  | _, _ => []

/-- RFC 2246 §5: `L_S1 = L_S2 = ceil(L_S / 2)`; S1 the first `L_S1` bytes, S2 the last `L_S2` bytes;
    `PRF(secret, label, seed) = P_MD5(S1, label + seed) XOR P_SHA-1(S2, label + seed)`. -/
def prf10 (md5 sha1 : HashSuite) (secret label seed : Bytes) (n : Nat) : Bytes :=
  let ls := secret.length
  let ls1 := ceilDiv ls 2
  let s1 := secret.take ls1
  let s2 := secret.drop (ls - ls1)
  xorBytes (pHash md5 s1 (label ++ seed) n) (pHash sha1 s2 (label ++ seed) n)

/-- RFC 5246 §5: `PRF(secret, label, seed) = P_<hash>(secret, label + seed)` -/
def prf12 (h : HashSuite) (secret label seed : Bytes) (n : Nat) : Bytes :=
  pHash h secret (label ++ seed) n

/-- §8.1: `master_secret = PRF(pre_master_secret, "master secret", ClientHello.random + ServerHello.random)[0..47]` -/
def masterSecret10 (md5 sha1 : HashSuite) (pms clientRandom serverRandom : Bytes) : Bytes :=
  prf10 md5 sha1 pms (asc "master secret") (clientRandom ++ serverRandom) 48

def masterSecret12 (h : HashSuite) (pms clientRandom serverRandom : Bytes) : Bytes :=
  prf12 h pms (asc "master secret") (clientRandom ++ serverRandom) 48

/-! ### §6.3 key calculation -/

inductive ProtocolVersion | ssl30 | tls10 | tls11 | tls12
  deriving DecidableEq, Repr

/-- the lengths of RFC 5246 §6.1 `SecurityParameters` (CipherSpec.hash_size / key_material / IV_size
    in the older documents) and the PRF hash of TLS 1.2 -/
structure SecurityParameters where
  prfHash : HashSuite
  macKeyLength : Nat
  encKeyLength : Nat
  fixedIvLength : Nat

def SecurityParameters.keyBlockLength (sp : SecurityParameters) : Nat :=
  2 * sp.macKeyLength + 2 * sp.encKeyLength + 2 * sp.fixedIvLength

/-- `key_block = PRF(master_secret, "key expansion", server_random + client_random)` of the
    length the partition needs -/
def keyBlock (P : Prims) (v : ProtocolVersion) (sp : SecurityParameters) (master clientRandom serverRandom : Bytes) :
    Bytes :=
  match v with
  | .ssl30 => ssl3KeyBlock P.md5 P.sha1 master clientRandom serverRandom sp.keyBlockLength
  | .tls10 | .tls11 =>
    prf10 P.md5 P.sha1 master (asc "key expansion") (serverRandom ++ clientRandom) sp.keyBlockLength
  | .tls12 => prf12 sp.prfHash master (asc "key expansion") (serverRandom ++ clientRandom) sp.keyBlockLength

structure KeyMaterial where
  clientWriteMacKey : Bytes
  serverWriteMacKey : Bytes
  clientWriteKey : Bytes
  serverWriteKey : Bytes
  clientWriteIv : Bytes
  serverWriteIv : Bytes
  deriving DecidableEq, Repr

/-- "the key_block is partitioned as follows": six consecutive reads -/
def partition (kb : Bytes) (macLen keyLen ivLen : Nat) : KeyMaterial :=
  let (cm, r1) := kb.splitAt macLen
  let (sm, r2) := r1.splitAt macLen
  let (ck, r3) := r2.splitAt keyLen
  let (sk, r4) := r3.splitAt keyLen
  let (ci, r5) := r4.splitAt ivLen
  let (si, _) := r5.splitAt ivLen
  ⟨cm, sm, ck, sk, ci, si⟩

/-- the connection's key material for a master secret and the two randoms -/
def connectionKeys (P : Prims) (v : ProtocolVersion) (sp : SecurityParameters)
    (master clientRandom serverRandom : Bytes) : KeyMaterial :=
  partition (keyBlock P v sp master clientRandom serverRandom) sp.macKeyLength sp.encKeyLength sp.fixedIvLength

/-- RFC 5246 §5 with RFC 5288 §3, RFC 5289 §3.1, …: suites whose name ends in `_SHA384` use
    P_SHA384, every other suite (including all suites defined before TLS 1.2) uses P_SHA256. -/
def tls12PrfHash (P : Prims) (suiteNamesSha384 : Bool) : HashSuite :=
  if suiteNamesSha384 then P.sha384 else P.sha256

/-! ### bulk ciphers: what the record layer takes from the key block as IV -/

inductive Bulk
  | rc4_128 | tripleDesEdeCbc | ideaCbc | aesCbc | camelliaCbc      -- stream / CBC block ciphers
  | aesGcm | aesCcm | camelliaGcm | chacha20Poly1305                -- AEAD
  deriving DecidableEq, Repr

def Bulk.isAead : Bulk → Bool
  | .aesGcm | .aesCcm | .camelliaGcm | .chacha20Poly1305 => true
  | _ => false

/-- block length in bytes of the CBC ciphers (0 for the stream cipher) -/
def Bulk.blockLength : Bulk → Nat
  | .tripleDesEdeCbc | .ideaCbc => 8
  | .aesCbc | .camelliaCbc => 16
  | _ => 0

/-- `IV_size` / `fixed_iv_length`: bytes of the key block used as the per-direction IV.
    SSL 3.0 / TLS 1.0 CBC: one cipher block. TLS 1.1 / 1.2 CBC: none (the IV is explicit in
    each record). RC4: none. GCM / CCM: the 4-byte salt. ChaCha20-Poly1305: the 12-byte IV. -/
def recordIvLength (v : ProtocolVersion) (b : Bulk) : Nat :=
  match b with
  | .aesGcm | .aesCcm | .camelliaGcm => 4
  | .chacha20Poly1305 => 12
  | .rc4_128 => 0
  | _ => match v with
    | .ssl30 | .tls10 => b.blockLength
    | .tls11 | .tls12 => 0

/-! ### RFC 8446 §7.1, §7.3 -/

def uint8 (n : Nat) : Bytes := [UInt8.ofNat n]
def uint16 (n : Nat) : Bytes := [UInt8.ofNat (n / 256), UInt8.ofNat (n % 256)]
/-- `opaque v<0..255>`: one length byte, then the bytes -/
def opaque8 (b : Bytes) : Bytes := uint8 b.length ++ b

/-- `struct { uint16 length; opaque label<7..255> = "tls13 " + Label; opaque context<0..255>; } HkdfLabel` -/
def hkdfLabel (length : Nat) (label context : Bytes) : Bytes :=
  uint16 length ++ opaque8 (asc "tls13 " ++ label) ++ opaque8 context

/-- `HKDF-Expand-Label(Secret, Label, Context, Length) = HKDF-Expand(Secret, HkdfLabel, Length)` -/
def hkdfExpandLabel (h : HashSuite) (secret label context : Bytes) (length : Nat) : Bytes :=
  h.hkdfExpand secret (hkdfLabel length label context) length

/-- `[sender]_write_key = HKDF-Expand-Label(Secret, "key", "", key_length)` -/
def tls13WriteKey (h : HashSuite) (secret : Bytes) (keyLength : Nat) : Bytes :=
  hkdfExpandLabel h secret (asc "key") [] keyLength

/-- `[sender]_write_iv = HKDF-Expand-Label(Secret, "iv", "", iv_length)`; `iv_length` is 12 for every
    TLS 1.3 AEAD (RFC 8446 §5.3: max(8, N_MIN), N_MIN = 12 for GCM, CCM, ChaCha20-Poly1305) -/
def tls13WriteIv (h : HashSuite) (secret : Bytes) : Bytes :=
  hkdfExpandLabel h secret (asc "iv") [] 12

/-! ### RFC 9001 (QUIC v1) -/

/-- §5.2: `initial_salt = 0x38762cf7f55934b34d179ae6a4c80cadccbb7f0a` -/
def quicInitialSalt : Bytes := Bytes.ofNatBE 20 0x38762cf7f55934b34d179ae6a4c80cadccbb7f0a

/-- `initial_secret = HKDF-Extract(initial_salt, client_dst_connection_id)` -/
def quicInitialSecret (h : HashSuite) (dcid : Bytes) : Bytes := h.hkdfExtract quicInitialSalt dcid

/-- `client_initial_secret = HKDF-Expand-Label(initial_secret, "client in", "", Hash.length)` -/
def quicClientInitialSecret (h : HashSuite) (dcid : Bytes) : Bytes :=
  hkdfExpandLabel h (quicInitialSecret h dcid) (asc "client in") [] h.outLen

def quicServerInitialSecret (h : HashSuite) (dcid : Bytes) : Bytes :=
  hkdfExpandLabel h (quicInitialSecret h dcid) (asc "server in") [] h.outLen

/-- §5.1: key, IV and header-protection key from a secret -/
def quicKey (h : HashSuite) (secret : Bytes) (keyLength : Nat) : Bytes :=
  hkdfExpandLabel h secret (asc "quic key") [] keyLength
def quicIv (h : HashSuite) (secret : Bytes) : Bytes := hkdfExpandLabel h secret (asc "quic iv") [] 12
def quicHp (h : HashSuite) (secret : Bytes) (keyLength : Nat) : Bytes :=
  hkdfExpandLabel h secret (asc "quic hp") [] keyLength

structure QuicPacketKeys where
  key : Bytes
  iv : Bytes
  hp : Bytes
  deriving DecidableEq, Repr

def quicPacketKeys (h : HashSuite) (secret : Bytes) (keyLength : Nat) : QuicPacketKeys :=
  ⟨quicKey h secret keyLength, quicIv h secret, quicHp h secret keyLength⟩

/-- §5.2: Initial packets use AEAD_AES_128_GCM (16-byte key, 16-byte header-protection key)
    with the secrets above; the hash is SHA-256. -/
def quicInitialClientKeys (h : HashSuite) (dcid : Bytes) : QuicPacketKeys :=
  quicPacketKeys h (quicClientInitialSecret h dcid) 16
def quicInitialServerKeys (h : HashSuite) (dcid : Bytes) : QuicPacketKeys :=
  quicPacketKeys h (quicServerInitialSecret h dcid) 16

/-- §6.1: `secret_<n+1> = HKDF-Expand-Label(secret_<n>, "quic ku", "", secret_<n>.Length)` -/
def quicNextSecret (h : HashSuite) (secret : Bytes) : Bytes :=
  hkdfExpandLabel h secret (asc "quic ku") [] secret.length

/-- the secret of key-update generation `n` (generation 0 is the TLS traffic secret) -/
def quicGeneration (h : HashSuite) (secret0 : Bytes) : Nat → Bytes
  | 0 => secret0
  | n + 1 => quicNextSecret h (quicGeneration h secret0 n)

/-- AEAD key lengths of the four QUIC v1 suites (RFC 9001 §5.3 / RFC 8446 B.4) and their hashes -/
def quicSuiteKeyLength (code : Nat) : Option Nat :=
  if code = 0x1301 then some 16        -- TLS_AES_128_GCM_SHA256
  else if code = 0x1302 then some 32   -- TLS_AES_256_GCM_SHA384
  else if code = 0x1303 then some 32   -- TLS_CHACHA20_POLY1305_SHA256
  else if code = 0x1304 then some 16   -- TLS_AES_128_CCM_SHA256
  else none

def quicSuiteUsesSha384 (code : Nat) : Bool := code = 0x1302

end TLX.Spec.KeySchedules
