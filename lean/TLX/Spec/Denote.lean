/-
Independent specification of what an IANA cipher-suite *name* denotes (C14): a token grammar over
the part after `_WITH_` (or the TLS 1.3 form `TLS_<cipher>_<hash>`), not a substring search.
The result is phrased in the vocabulary the implementation hands to its decryptor: the
`cryptography` class used for the bulk cipher with its AEAD flag, the mode with its AEAD flag, the
key length in bytes, the MAC/PRF hash, and the AEAD tag length.
-/
import TLX.CipherSuiteTypes
import TLX.Tok
namespace TLX.Spec
open TLX.Tok TLX.CipherSuite

/-- split at `_` (95) -/
def splitUnderscore : List Nat → List (List Nat)
  | [] => [[]]
  | c :: cs =>
    match splitUnderscore cs with
    | [] => [[c]]            -- unreachable
    | t :: ts => if c = 95 then [] :: t :: ts else (c :: t) :: ts

/-- tokens after `WITH` if there is one, else everything after the leading `TLS` -/
def cipherTokens (toks : List (List Nat)) : Option (List (List Nat)) :=
  match toks with
  | t :: rest =>
    if t = t_TLS then
      match rest.dropWhile (· ≠ t_WITH) with
      | _ :: after => some after
      | [] => some rest
    else none
  | [] => none

def bits : List Nat → Option Nat
  | l => if l = t_128_ then some 16 else if l = t_256_ then some 32 else none

def hashOf (rest : List (List Nat)) : Option Val :=
  match rest with
  | [] => some (.cls t_SHA256)                    -- e.g. …_WITH_AES_128_CCM: PRF SHA-256, no MAC
  | [h] =>
    if h = t_SHA then some (.cls t_SHA1) else if h = t_SHA256 then some (.cls t_SHA256)
    else if h = t_SHA384 then some (.cls t_SHA384) else if h = t_MD5 then some (.cls t_MD5) else none
  | _ => none

def mk (algo mode : Val) (klen tag : Nat) (mac : Val) : List (List Nat × Val) :=
  [(t_CryptoAlgo, algo), (t_Mode, mode), (t_KeyLength, .int klen), (t_MAC, mac), (t_TagLength, .int tag)]

/-- block cipher `algoCls` with key length `klen`, followed by the mode tokens -/
def blockModes (algoCls : List Nat) (isAes : Bool) (klen : Nat) (rest : List (List Nat)) :
    Option (List (List Nat × Val)) :=
  match rest with
  | m :: rest =>
    if m = t_CBC then (hashOf rest).map (mk (.tup algoCls 0) (.tup t_CBC 0) klen 16)
    else if isAes ∧ m = t_GCM then (hashOf rest).map (mk (.tup t_AESGCM 1) (.tup t_GCM 1) klen 16)
    else if isAes ∧ m = t_CCM then
      match rest with
      | e :: rest' =>
        if e = t_8_ then (hashOf rest').map (mk (.tup t_AESCCM 1) (.tup t_AESCCM 1) klen 8)
        else (hashOf rest).map (mk (.tup t_AESCCM 1) (.tup t_AESCCM 1) klen 16)
      | [] => (hashOf rest).map (mk (.tup t_AESCCM 1) (.tup t_AESCCM 1) klen 16)
    else none
  | [] => none

def denoteTokens : List (List Nat) → Option (List (List Nat × Val))
  | a :: b :: rest =>
    if a = t_AES then (bits b).bind fun k => blockModes t_AES true k rest
    else if a = t_CAMELLIA then (bits b).bind fun k => blockModes t_Camellia false k rest
    else if a = t_3DES_ ∧ b = t_EDE then blockModes t_TripleDES false 24 rest
    else if a = t_IDEA then blockModes t_IDEA false 16 (b :: rest)
    else if a = t_RC4 ∧ b = t_128_ then (hashOf rest).map (mk (.tup t_ARC4 0) (.tup t_None 0) 16 16)
    else if a = t_CHACHA20 ∧ b = t_POLY1305 then
      (hashOf rest).map (mk (.tup t_ChaCha20Poly1305 1) (.tup t_ChaCha20Poly1305 1) 32 16)
    else none
  | _ => none

def denote (name : List Nat) : Option (List (List Nat × Val)) :=
  (cipherTokens (splitUnderscore name)).bind denoteTokens

end TLX.Spec
