/-
Independent specification for C01 (record layer): the PROTECT direction of TLS record protection, written from
the RFCs over the abstract primitives — not from tlexport, and not a copy of `TLX/RecordLayer.lean` (which only
ever *removes* protection).

  stream        RFC 6101 §5.2.3.1 / RFC 2246, 4346, 5246 §6.2.3.1   GenericStreamCipher: stream(content ‖ MAC)
  cbcImplicit   RFC 6101 §5.2.3.2 / RFC 2246 §6.2.3.2               GenericBlockCipher, IV = last ciphertext block of
                                                                    the previous record (initially the key-block IV)
  cbcExplicit   RFC 4346 / 5246 §6.2.3.2                            IV ‖ CBC(content ‖ MAC ‖ padding ‖ padding_length)
  (etm = true)  RFC 7366 §3                                         CBC(content ‖ padding ‖ padding_length) ‖ MAC
  aead12        RFC 5246 §6.2.3.3, RFC 5288 §3, RFC 6655 §3         nonce_explicit ‖ AEAD(key, salt ‖ nonce_explicit,
                                                                    seq ‖ type ‖ version ‖ length, content)
  chacha12      RFC 7905 §2                                         nonce = padded seq XOR write IV, no explicit part
  aead13/chacha13  RFC 8446 §5.2, §5.3, §5.4                        opaque_type 23, legacy version 0x0303,
                                                                    AEAD(key, padded seq XOR iv, header,
                                                                         content ‖ type ‖ zeros)

Universally quantified (`Fresh`): the explicit IV / nonce, the MAC value (TLExport never verifies a MAC; the RFC
value is HMAC/SSLv3-MAC over seq ‖ header ‖ content and is one admissible value), the CBC padding bytes (TLS
requires every byte to equal the length, SSL 3.0 leaves them arbitrary: both are instances) and the number of
TLS 1.3 padding zeros. Per-direction sender state: sequence number, CBC residue, RC4 keystream position, current
write key / IV and (TLS 1.3) the application traffic key / IV that `switchToApp` installs after the side's Finished.

Core Lean only.
-/
import TLX.Crypto.Prims
namespace TLX.Spec.TlsSender
open TLX TLX.Cipher

inductive CipherClass
  | stream
  | cbcImplicit (a : Alg) (etm : Bool)
  | cbcExplicit (a : Alg) (etm : Bool)
  | aead12 (a : Alg) (tagLen : Nat)
  | chacha12
  | aead13 (a : Alg) (tagLen : Nat)
  | chacha13
  deriving DecidableEq, Repr

def CipherClass.is13 : CipherClass → Bool
  | .aead13 _ _ | .chacha13 => true
  | _ => false

/-- One direction of a connection, sending side. -/
structure SDir where
  key : Bytes
  iv : Bytes
  seq : Nat
  last : Bytes
  off : Nat
  appKey : Bytes
  appIv : Bytes
  deriving Repr, DecidableEq

/-- Sender state right after the key block / traffic keys are installed: sequence number 0, CBC residue = the
    key-block IV, RC4 keystream at 0. -/
def SDir.init (key iv appKey appIv : Bytes) : SDir :=
  { key := key, iv := iv, seq := 0, last := iv, off := 0, appKey := appKey, appIv := appIv }

structure Fresh where
  explicit : Bytes
  mac : Bytes
  padding : Bytes
  pad13 : Nat
  deriving Repr

/-- uint16 / uint64 in network byte order. -/
def u16 (n : Nat) : Bytes := Bytes.ofNatBE 2 n
def u64 (n : Nat) : Bytes := Bytes.ofNatBE 8 n

/-- TLSCiphertext: type ‖ version ‖ length ‖ fragment. -/
def record (typ : UInt8) (ver body : Bytes) : Bytes := [typ] ++ ver ++ u16 body.length ++ body

/-- "padded to the left with zeros to iv_length" (RFC 8446 §5.3, RFC 7905 §2). -/
def padLeft (n : Nat) (b : Bytes) : Bytes := List.replicate (n - b.length) 0 ++ b

/-- per-record nonce of RFC 8446 §5.3 / RFC 7905: padded sequence number XOR static IV. -/
def nonceXor (iv : Bytes) (seq : Nat) : Bytes := List.zipWith (· ^^^ ·) iv (padLeft iv.length (u64 seq))

/-- `padding ‖ padding_length`. -/
def padBlock (f : Fresh) : Bytes := f.padding ++ [UInt8.ofNat f.padding.length]

/-- additional data of TLS 1.2 AEAD: seq_num ‖ type ‖ version ‖ length (of the plaintext). -/
def aad12 (seq : Nat) (typ : UInt8) (ver : Bytes) (n : Nat) : Bytes := u64 seq ++ [typ] ++ ver ++ u16 n

/-- TLSInnerPlaintext. -/
def inner13 (typ : UInt8) (pt : Bytes) (f : Fresh) : Bytes := pt ++ [typ] ++ List.replicate f.pad13 0

/-- TLS 1.3 record header = additional data: opaque_type 23, legacy_record_version 0x0303, length. -/
def hdr13 (n : Nat) : Bytes := [23, 3, 3] ++ u16 n

/-- What the receiving record layer hands upwards for one protected record: the content, except in TLS 1.3 where it
    is the TLSInnerPlaintext (content ‖ type ‖ zeros). -/
def delivered (cls : CipherClass) (typ : UInt8) (pt : Bytes) (f : Fresh) : Bytes :=
  match cls with
  | .aead13 _ _ | .chacha13 => inner13 typ pt f
  | _ => pt

/-- Protect one record: new sender state and the bytes on the wire. `ver` is the record-layer version field. -/
def protect (P : Prims) (L : SealLaws P) (cls : CipherClass) (ver : Bytes) (sd : SDir) (typ : UInt8) (pt : Bytes)
    (f : Fresh) : SDir × Bytes :=
  match cls with
  | .stream =>
    let body := P.rc4 sd.key sd.off (pt ++ f.mac)
    ({ sd with seq := sd.seq + 1, off := sd.off + body.length }, record typ ver body)
  | .cbcImplicit a etm =>
    let data := (if etm then pt else pt ++ f.mac) ++ padBlock f
    let ct := L.cbcEnc a sd.key sd.last data
    let body := if etm then ct ++ f.mac else ct
    ({ sd with seq := sd.seq + 1, last := ct.drop (ct.length - a.blk) }, record typ ver body)
  | .cbcExplicit a etm =>
    let data := (if etm then pt else pt ++ f.mac) ++ padBlock f
    let ct := L.cbcEnc a sd.key f.explicit data
    let body := f.explicit ++ (if etm then ct ++ f.mac else ct)
    ({ sd with seq := sd.seq + 1 }, record typ ver body)
  | .aead12 a tl =>
    let body := f.explicit ++ L.aeadSeal a sd.key (sd.iv ++ f.explicit) (aad12 sd.seq typ ver pt.length) tl pt
    ({ sd with seq := sd.seq + 1 }, record typ ver body)
  | .chacha12 =>
    let body := L.aeadSeal .chachaPoly sd.key (nonceXor sd.iv sd.seq) (aad12 sd.seq typ ver pt.length) 16 pt
    ({ sd with seq := sd.seq + 1 }, record typ ver body)
  | .aead13 a tl =>
    let inner := inner13 typ pt f
    let hdr := hdr13 (inner.length + tl)
    ({ sd with seq := sd.seq + 1 }, hdr ++ L.aeadSeal a sd.key (nonceXor sd.iv sd.seq) hdr tl inner)
  | .chacha13 =>
    let inner := inner13 typ pt f
    let hdr := hdr13 (inner.length + 16)
    ({ sd with seq := sd.seq + 1 }, hdr ++ L.aeadSeal .chachaPoly sd.key (nonceXor sd.iv sd.seq) hdr 16 inner)

/-- RFC 8446 §7.3 / §5.3: after this side's Finished the application traffic keys protect its records, and the
    sequence number restarts at 0. -/
def switchToApp (sd : SDir) : SDir := { sd with key := sd.appKey, iv := sd.appIv, seq := 0 }

/-- Both directions. -/
structure Snd where
  c : SDir
  s : SDir
  deriving Repr, DecidableEq

def Snd.get (x : Snd) (srv : Bool) : SDir := if srv then x.s else x.c
def Snd.set (x : Snd) (srv : Bool) (v : SDir) : Snd := if srv then { x with s := v } else { x with c := v }

/-- What a side does next: send a record, or (TLS 1.3) move to the application traffic keys. -/
inductive Ev
  | send (srv : Bool) (typ : UInt8) (pt : Bytes) (f : Fresh)
  | switch (srv : Bool)

/-- What appears on the wire / is signalled to the receiver for an event. -/
inductive Wire
  | record (srv : Bool) (raw : Bytes)
  | switch (srv : Bool)

def step (P : Prims) (L : SealLaws P) (cls : CipherClass) (ver : Bytes) (x : Snd) : Ev → Snd × Wire
  | .send srv typ pt f =>
    let o := protect P L cls ver (x.get srv) typ pt f
    (x.set srv o.1, .record srv o.2)
  | .switch srv => (x.set srv (switchToApp (x.get srv)), .switch srv)

/-- The wire image of a whole history (any number of records, any direction order). -/
def run (P : Prims) (L : SealLaws P) (cls : CipherClass) (ver : Bytes) : Snd → List Ev → List Wire
  | _, [] => []
  | x, e :: es =>
    let o := step P L cls ver x e
    o.2 :: run P L cls ver o.1 es

end TLX.Spec.TlsSender
