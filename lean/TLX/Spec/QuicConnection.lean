/-
Independent specification for the capstone of C02 (`Props/C02Capstone.lean`): what the two endpoints of a QUIC v1
connection put on the wire, at DATAGRAM level, for the 1-RTT phase. Built from the packet encoders of
`Spec/QuicPackets.lean` (RFC 9000 §17.3.1, RFC 9001 §5.4 header protection) and the sender of `Spec/QuicSender.lean`
(RFC 9000 §17.1 packet-number truncation, RFC 9001 §5.3 nonce / AAD / payload, §6 key generations). Nothing here refers
to the model of tlexport.

  `shortOf`       the 1-RTT packet of a sender decision `SPkt` as the wire format of `Spec.QuicPackets.Short`
                  (spin and reserved bits = the three `lowBits`, key phase = generation mod 2)
  `Dg1`           one 1-RTT datagram: the sender's decision and the header-protection mask its hp key gave for the
                  packet's sample; `Dg1.wire`: the UDP payload
  `newCids`       RFC 9000 §19.15: the connection IDs a packet issues in NEW_CONNECTION_ID frames
  `DcidOk`        RFC 9000 §5.1 "each endpoint selects connection IDs … for its peer to use": the Destination Connection ID
                  of a packet is never one that ONLY its sender issued (one both issued — the same bytes chosen twice —
                  is allowed)
  `CidsOk`        … along a history, the sets growing with the NEW_CONNECTION_ID frames (`issue`)
  `streamData`    the data of the STREAM frames of a packet, in order: what C02 says must be exported
-/
import TLX.Spec.QuicSender
import TLX.Spec.QuicPackets
namespace TLX.Spec.QuicConnection
open TLX TLX.Quic TLX.Cipher TLX.Spec.QuicFrames TLX.Spec.QuicSender TLX.Spec.QuicPackets
open TLX.Quic.Session (DirKeys AppKeys)

/-- RFC 9000 §17.3.1 for a sender decision: 0 1 S RR K PP -/
def shortOf (x : SPkt) (payload : Bytes) : Short :=
  { spin := decide (4 ≤ x.lowBits % 8), reserved := x.lowBits % 4, keyPhase := decide (x.gen % 2 = 1),
    dcid := x.dcid, pn := pnBytes x.pnLen x.pn, payload := payload }

/-- one 1-RTT datagram (one short-header packet: RFC 9000 §12.2 allows it only as the last packet of a datagram) -/
structure Dg1 where
  x : SPkt
  /-- `header_protection(hp_key, sample)` as the sender computed it (RFC 9001 §5.4.1), at least 5 bytes -/
  mask : Bytes

/-- the UDP payload: packet protection under the direction's key of generation `x.gen`, then header protection -/
def Dg1.wire (sealFn : Seal) (alg : Alg) (k : DirKeys) (d : Dg1) : Bytes :=
  (shortOf d.x (protectedPayload sealFn alg k d.x)).protect d.mask

def newCids (fs : List QFrame) : List Bytes :=
  fs.filterMap fun f => match f with | .newConnectionId _ _ cid _ => some cid | _ => none

/-- a set of connection IDs after more were issued (kept without duplicates, in order of first issue) -/
def issue (known : List Bytes) (cids : List Bytes) : List Bytes :=
  cids.foldl (fun l c => if c ∈ l then l else l ++ [c]) known

/-- `cc` / `sc`: the connection IDs issued so far by the client / by the server -/
def DcidOk (cc sc : List Bytes) (fromServer : Bool) (dcid : Bytes) : Prop :=
  if fromServer then ¬ (dcid ≠ [] ∧ dcid ∈ sc ∧ dcid ∉ cc) else ¬ (dcid ≠ [] ∧ dcid ∈ cc ∧ dcid ∉ sc)

instance (cc sc : List Bytes) (b : Bool) (d : Bytes) : Decidable (DcidOk cc sc b d) := by
  unfold DcidOk; infer_instance

def CidsOk : (cc sc : List Bytes) → List Dg1 → Prop
  | _, _, [] => True
  | cc, sc, d :: rest =>
    DcidOk cc sc d.x.srv d.x.dcid ∧
    CidsOk (if d.x.srv then cc else issue cc (newCids d.x.frames))
           (if d.x.srv then issue sc (newCids d.x.frames) else sc) rest

def finalCids : (cc sc : List Bytes) → List Dg1 → List Bytes × List Bytes
  | cc, sc, [] => (cc, sc)
  | cc, sc, d :: rest =>
    finalCids (if d.x.srv then cc else issue cc (newCids d.x.frames))
              (if d.x.srv then issue sc (newCids d.x.frames) else sc) rest

def streamData (fs : List QFrame) : List Bytes :=
  fs.filterMap fun f => match f with | .stream _ _ _ _ data => some data | _ => none

def hasStream (fs : List QFrame) : Bool := fs.any fun f => match f with | .stream .. => true | _ => false

def hasCrypto (fs : List QFrame) : Bool := fs.any fun f => match f with | .crypto .. => true | _ => false

/-! ### the handshake, at datagram level

A handshake datagram (`DgH`) is a sequence of coalesced long-header packets of one direction with one capture time
(RFC 9000 §12.2). The handshake of a connection is a list of such datagrams in capture order, e.g.

    client   [Initial: CRYPTO(ClientHello, one frame or fragments in any order) PADDING…] (one or several datagrams)
    server   [Initial: ACK CRYPTO(ServerHello)] [Handshake: CRYPTO(EncryptedExtensions ‖ Certificate ‖ …)]   coalesced,
             or each in its own datagram; further [Handshake: CRYPTO(… ‖ CertificateVerify ‖ Finished)]
    client   [Initial: ACK] [Handshake: ACK CRYPTO(Finished)]
    server   [Handshake: ACK]            (HANDSHAKE_DONE travels in a 1-RTT packet: first datagram of the 1-RTT history)

`PkH` is a sender decision (`SPkt`, level Initial or Handshake) with the header-protection mask its sender computed;
`longOf` its RFC 9000 §17.2 wire format. Connection IDs of any length 0..20 on either side. What each packet has to
satisfy is `Props.C02Capstone.HsPkOk` (it refers to the keys of its level). -/

def ltypeOf : Level → LType
  | .initial => .initial
  | .zeroRtt => .zeroRtt
  | _ => .handshake

/-- RFC 9000 §17.2 for a sender decision: 1 1 TT RR PP, Version, DCID, SCID, [Token], Length, Packet Number, Payload -/
def longOf (x : SPkt) (payload : Bytes) : Long :=
  { ty := ltypeOf x.level, reserved := x.lowBits % 4, version := x.version, dcid := x.dcid, scid := x.scid,
    tokenW := x.tokW, token := x.token, lenW := x.lenW, pn := pnBytes x.pnLen x.pn, payload := payload }

structure PkH where
  x : SPkt
  /-- `header_protection(hp_key, sample)` as the sender computed it -/
  mask : Bytes

def PkH.wire (sealFn : Seal) (alg : Alg) (k : DirKeys) (q : PkH) : Bytes :=
  (longOf q.x (protectedPayload sealFn alg k q.x)).protect q.mask

/-- what makes the sender decision a QUIC v1 long-header packet: type bits of its level, version 1, connection IDs of at
    most 20 bytes, varint widths that fit, 1–4 packet-number bytes -/
structure LongShape (x : SPkt) : Prop where
  level : x.level = .initial ∨ x.level = .handshake
  typeBits : x.typeBits = (ltypeOf x.level).bits
  version : x.version = [0, 0, 0, 1]
  dcid : x.dcid.length ≤ 20
  scid : x.scid.length ≤ 20
  tok : x.tokW.fits x.token.length
  len : x.lenW.fits (x.pnLen + (encodeAll x.frames).length + 16)
  /-- RFC 9001 §5.4.2: padded so that the header-protection sample exists -/
  padded : 4 ≤ x.pnLen + (encodeAll x.frames).length

structure DgH where
  srv : Bool
  ts : Nat
  pkts : List PkH

/-- RFC 9000 §7.2 / §5.1: what an observer learns from an Initial packet — the sender's Source Connection ID is one of
    its own, the Destination Connection ID one the receiver is addressed by -/
def learnFrom (cc sc : List Bytes) (x : SPkt) : List Bytes × List Bytes :=
  if x.level = .initial then
    (if x.srv then (issue cc [x.dcid], issue sc [x.scid]) else (issue cc [x.scid], issue sc [x.dcid]))
  else (cc, sc)

end TLX.Spec.QuicConnection
