/-
Independent frame ENCODER (a sender's view), written from the RFCs — not from dpkt and not from the model:

  Ethernet II (IEEE 802.3 §3.2.6: destination, source, EtherType; 0x0800 IPv4, 0x86DD IPv6), optional trailer bytes after
    the IP datagram (padding to the 60-byte minimum, FCS left in by the capture, vendor trailers);
  IPv4  RFC 791 §3.1: version 4, IHL = 5 + options/4, total length = header + payload, flags DF / MF, fragment offset 0
    (a whole datagram, or — MF set — the first fragment), protocol, addresses, options (any bytes, multiple of 4, ≤ 40);
  IPv6  RFC 8200 §3, §4: version 6, payload length = extension headers + upper layer, and ANY chain of the extension headers
    the RFCs define in the clear: hop-by-hop and destination options (§4.2–4.3, §4.6: Pad1 / PadN / TLV options filling a
    multiple of 8 octets), routing (§4.4: type-specific data, 8·n + 4 octets), fragment (§4.5, offset 0: first or atomic
    fragment), authentication header (RFC 4302 §2: payload length in 32-bit words minus 2, ICV);
  TCP   RFC 9293 §3.1: ports, sequence and acknowledgment numbers, data offset = 5 + options/4, the flag bits, window,
    checksum, urgent pointer, options (≤ 40 bytes, multiple of 4), data;
  UDP   RFC 768: ports, length = 8 + data, checksum, data.

Checksums are free fields here (the dissection does not depend on them; C11 is about their verification).
-/
import TLX.Py
namespace TLX.Spec.FrameBuild
open TLX

def be2 (v : Nat) : Bytes := [UInt8.ofNat (v / 256), UInt8.ofNat v]
def be4 (v : Nat) : Bytes := [UInt8.ofNat (v / 16777216), UInt8.ofNat (v / 65536), UInt8.ofNat (v / 256), UInt8.ofNat v]

/-! ### transport -/

structure Tcp where
  sport : Nat
  dport : Nat
  seq : Nat
  ack : Nat
  /-- the eight flag bits CWR … FIN -/
  flags : Nat
  /-- the four reserved bits (RFC 9293: zero; RFC 3540 used the lowest one) -/
  rsv : Nat
  window : Nat
  csum : Nat
  urgent : Nat
  options : Bytes
  payload : Bytes
  deriving Repr

def Tcp.WF (t : Tcp) : Prop :=
  t.sport < 65536 ∧ t.dport < 65536 ∧ t.seq < 4294967296 ∧ t.ack < 4294967296 ∧ t.flags < 256 ∧ t.rsv < 16 ∧
  t.options.length % 4 = 0 ∧ t.options.length ≤ 40

def Tcp.header (t : Tcp) : Bytes :=
  be2 t.sport ++ be2 t.dport ++ be4 t.seq ++ be4 t.ack ++
  [UInt8.ofNat ((5 + t.options.length / 4) * 16 + t.rsv), UInt8.ofNat t.flags] ++
  be2 t.window ++ be2 t.csum ++ be2 t.urgent

def Tcp.encode (t : Tcp) : Bytes := t.header ++ (t.options ++ t.payload)

structure Udp where
  sport : Nat
  dport : Nat
  csum : Nat
  payload : Bytes
  deriving Repr

def Udp.WF (u : Udp) : Prop := u.sport < 65536 ∧ u.dport < 65536 ∧ 8 + u.payload.length < 65536

def Udp.encode (u : Udp) : Bytes :=
  be2 u.sport ++ be2 u.dport ++ be2 (8 + u.payload.length) ++ be2 u.csum ++ u.payload

inductive Upper
  | tcp (t : Tcp)
  | udp (u : Udp)
  deriving Repr

def Upper.proto : Upper → Nat
  | .tcp _ => 6
  | .udp _ => 17

def Upper.encode : Upper → Bytes
  | .tcp t => t.encode
  | .udp u => u.encode

def Upper.WF : Upper → Prop
  | .tcp t => t.WF
  | .udp u => u.WF

/-! ### IPv4 -/

structure V4 where
  tos : Nat
  ident : Nat
  df : Bool
  /-- more fragments: with offset 0 this is the FIRST fragment of a datagram -/
  mf : Bool
  ttl : Nat
  hcsum : Nat
  src : Bytes
  dst : Bytes
  options : Bytes
  deriving Repr

def V4.WF (h : V4) (payloadLen : Nat) : Prop :=
  h.src.length = 4 ∧ h.dst.length = 4 ∧ h.options.length % 4 = 0 ∧ h.options.length ≤ 40 ∧
  20 + h.options.length + payloadLen < 65536

/-- the first twelve octets -/
def V4.fixed (h : V4) (proto : Nat) (payloadLen : Nat) : Bytes :=
  [UInt8.ofNat (0x40 + (5 + h.options.length / 4)), UInt8.ofNat h.tos] ++
  be2 (20 + h.options.length + payloadLen) ++ be2 h.ident ++
  [UInt8.ofNat ((if h.df then 0x40 else 0) + (if h.mf then 0x20 else 0)), 0] ++
  [UInt8.ofNat h.ttl, UInt8.ofNat proto] ++ be2 h.hcsum

def V4.encode (h : V4) (proto : Nat) (payload : Bytes) : Bytes :=
  h.fixed proto payload.length ++ (h.src ++ (h.dst ++ (h.options ++ payload)))

/-! ### IPv6 -/

/-- an option of a hop-by-hop / destination options header -/
inductive Opt6
  | pad1
  | opt (type : Nat) (data : Bytes)      -- type 1 = PadN
  deriving Repr

def Opt6.encode : Opt6 → Bytes
  | .pad1 => [0]
  | .opt t d => [UInt8.ofNat t, UInt8.ofNat d.length] ++ d

def Opt6.WF : Opt6 → Prop
  | .pad1 => True
  | .opt t d => 0 < t ∧ t < 256 ∧ d.length < 256

def encOpts (os : List Opt6) : Bytes := os.flatMap Opt6.encode

inductive Ext
  | hopByHop (opts : List Opt6)
  | destOpts (opts : List Opt6)
  | routing (rtype segsLeft : Nat) (data : Bytes)
  | fragment (ident : Nat) (more : Bool)          -- offset 0
  | ah (spi seq : Nat) (icv : Bytes)
  deriving Repr

/-- the Next Header value that announces this header -/
def Ext.proto : Ext → Nat
  | .hopByHop _ => 0
  | .destOpts _ => 60
  | .routing .. => 43
  | .fragment .. => 44
  | .ah .. => 51

def Ext.WF : Ext → Prop
  | .hopByHop os | .destOpts os => (∀ o ∈ os, o.WF) ∧ (2 + (encOpts os).length) % 8 = 0 ∧ 2 + (encOpts os).length ≤ 2048
  | .routing _ _ d => (4 + d.length) % 8 = 0 ∧ 4 + d.length ≤ 2048
  | .fragment .. => True
  | .ah _ _ icv => icv.length % 4 = 0 ∧ 12 + icv.length ≤ 1024

/-- the header with its Next Header field set to `nxt` -/
def Ext.encode (nxt : Nat) : Ext → Bytes
  | .hopByHop os | .destOpts os => [UInt8.ofNat nxt, UInt8.ofNat ((2 + (encOpts os).length) / 8 - 1)] ++ encOpts os
  | .routing t s d => [UInt8.ofNat nxt, UInt8.ofNat ((4 + d.length) / 8 - 1), UInt8.ofNat t, UInt8.ofNat s] ++ d
  | .fragment ident more => [UInt8.ofNat nxt, 0, 0, UInt8.ofNat (if more then 1 else 0)] ++ be4 ident
  | .ah spi seq icv => [UInt8.ofNat nxt, UInt8.ofNat ((12 + icv.length) / 4 - 2), 0, 0] ++ be4 spi ++ be4 seq ++ icv

/-- the chain in front of an upper-layer packet: the first Next Header value and the bytes -/
def encChain : List Ext → Nat → Bytes → Nat × Bytes
  | [], p, upper => (p, upper)
  | e :: es, p, upper =>
    let (n, b) := encChain es p upper
    (e.proto, e.encode n ++ b)

structure V6 where
  tclass : Nat
  flow : Nat
  hlim : Nat
  src : Bytes
  dst : Bytes
  exts : List Ext
  deriving Repr

def V6.WF (h : V6) (payloadLen : Nat) : Prop :=
  h.src.length = 16 ∧ h.dst.length = 16 ∧ (∀ e ∈ h.exts, e.WF) ∧ h.tclass < 256 ∧ h.flow < 1048576 ∧
  0 < payloadLen ∧ payloadLen < 65536

/-- the first eight octets; `n` is the first Next Header value -/
def V6.fixed (h : V6) (n : Nat) (payloadLen : Nat) : Bytes :=
  [UInt8.ofNat (0x60 + h.tclass / 16), UInt8.ofNat (h.tclass % 16 * 16 + h.flow / 65536), UInt8.ofNat (h.flow / 256),
   UInt8.ofNat h.flow] ++ be2 payloadLen ++ [UInt8.ofNat n, UInt8.ofNat h.hlim]

def V6.encode (h : V6) (proto : Nat) (upper : Bytes) : Bytes :=
  let nb := encChain h.exts proto upper
  h.fixed nb.1 nb.2.length ++ (h.src ++ (h.dst ++ nb.2))

/-! ### the frame -/

inductive Net
  | v4 (h : V4)
  | v6 (h : V6)
  deriving Repr

structure Frame where
  dstMac : Bytes
  srcMac : Bytes
  net : Net
  upper : Upper
  /-- bytes after the IP datagram -/
  trailer : Bytes
  deriving Repr

def Frame.datagram (f : Frame) : Bytes :=
  match f.net with
  | .v4 h => h.encode f.upper.proto f.upper.encode
  | .v6 h => h.encode f.upper.proto f.upper.encode

def Frame.etherType (f : Frame) : Bytes :=
  match f.net with
  | .v4 _ => [0x08, 0x00]
  | .v6 _ => [0x86, 0xdd]

def Frame.encode (f : Frame) : Bytes := f.dstMac ++ (f.srcMac ++ (f.etherType ++ (f.datagram ++ f.trailer)))

def Frame.WF (f : Frame) : Prop :=
  f.dstMac.length = 6 ∧ f.srcMac.length = 6 ∧ f.upper.WF ∧
  (match f.net with
   | .v4 h => h.WF f.upper.encode.length
   | .v6 h => h.WF (encChain h.exts f.upper.proto f.upper.encode).2.length)

end TLX.Spec.FrameBuild
