/-
C17 specification, second half: what a correct parser has to report for a frame that was sent —
`QFrame.toParsed` maps the sender's frame to the attribute record of TLX/Quic/Frame.lean (`Parsed`
is used as a plain record type here; none of the model's functions is referenced).
`length` is the length of the frame's wire image; integer fields are the values sent; byte-string
fields are the bytes sent.
-/
import TLX.Spec.QuicFrames
import TLX.Quic.Frame
namespace TLX.Spec.QuicFrames
open TLX TLX.Quic.Frame

def rangeVals (r : VI × VI) : Nat × Nat := (r.1.val, r.2.val)

def ecnVals : Option (VI × VI × VI) → Option (Nat × Nat × Nat)
  | none => none
  | some (a, b, c) => some (a.val, b.val, c.val)

def optVal : Option VI → Option Nat
  | none => none
  | some x => some x.val

def QFrame.toParsed (f : QFrame) : Parsed :=
  match f with
  | .padding n => .padding n
  | .ping => .ping
  | .ack largest delay _ first ranges ecn =>
    .ack (if ecn.isSome then 0x03 else 0x02) f.encode.length largest.val delay.val ranges.length first.val
      (ranges.map rangeVals) (ecnVals ecn)
  | .resetStream sid err fs => .resetStream f.encode.length sid.val err.val fs.val
  | .stopSending sid err => .stopSending f.encode.length sid.val err.val
  | .crypto off _ data => .crypto f.encode.length off.val data.length data
  | .newToken _ token => .newToken f.encode.length token.length token
  | .stream fin sid off lenW data =>
    .stream (streamType fin lenW.isSome off.isSome) f.encode.length fin lenW.isSome off.isSome sid.val
      ((optVal off).getD 0) data.length data
  | .maxData m => .maxData f.encode.length m.val
  | .maxStreamData sid m => .maxStreamData f.encode.length sid.val m.val
  | .maxStreams uni m => .maxStreams (if uni then 0x13 else 0x12) f.encode.length m.val
  | .dataBlocked m => .dataBlocked f.encode.length m.val
  | .streamDataBlocked sid m => .streamDataBlocked f.encode.length sid.val m.val
  | .streamsBlocked uni m => .streamsBlocked (if uni then 0x17 else 0x16) f.encode.length m.val
  | .newConnectionId seq retire cid token =>
    .newConnectionId f.encode.length seq.val retire.val cid.length cid token
  | .retireConnectionId seq => .retireConnectionId f.encode.length seq.val
  | .pathChallenge data => .pathChallenge data
  | .pathResponse data => .pathResponse data
  | .connectionClose err ft _ reason =>
    .connectionClose (if ft.isSome then 0x1c else 0x1d) f.encode.length err.val (optVal ft) reason.length reason
  | .handshakeDone => .handshakeDone
  | .datagram lenW data => .datagram (if lenW.isSome then 0x31 else 0x30) f.encode.length lenW.isSome data

/-- Offset of the `i`-th returned frame inside the payload: the lengths of the frames before it. -/
def startOf (ps : List Parsed) (i : Nat) : Nat := ((ps.take i).map Parsed.length).sum

/-- Where, relative to the start of the frame, each byte-string attribute lies according to the
    frame's own integer attributes (the same derivation the Python oracle of harness/c17.py uses):
    `(relative start, bytes)` in wire order. -/
def _root_.TLX.Quic.Frame.Parsed.dataAt : Parsed → List (Nat × Bytes)
  | .crypto len _ n d => [(len - n, d)]
  | .newToken len n d => [(len - n, d)]
  | .stream _ len _ _ _ _ _ n d => [(len - n, d)]
  | .newConnectionId len _ _ cl cid tok => [(len - 16 - cl, cid), (len - 16, tok)]
  | .pathChallenge d => [(1, d)]
  | .pathResponse d => [(1, d)]
  | .connectionClose _ len _ _ rl d => [(len - rl, d)]
  | .datagram _ len _ d => [(len - d.length, d)]
  | .generic len fl d => [(1 + (len - fl), d)]
  | _ => []

end TLX.Spec.QuicFrames
