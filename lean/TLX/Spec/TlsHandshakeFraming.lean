/-
Independent specification for the QUIC CRYPTO stream (C02): what a byte stream *means* as TLS handshake messages
(RFC 8446 §4: `HandshakeType msg_type` (1 byte), `uint24 length`, then `length` bytes of body; RFC 9001 §4.1.3: the
CRYPTO stream of an encryption level carries these messages back to back, without record headers), and what it
means to deliver the stream in CRYPTO frames (RFC 9000 §19.6: offset, length, data). Written without looking at the
model: greedy well-founded `frameHs`, fragments of a cut with their stream offsets. Core Lean only.
-/
import TLX.Py
namespace TLX.Spec.TlsHandshakeFraming
open TLX

/-- The `uint24 length` of the message at the head of `b` (bytes 1, 2, 3). -/
def hsLen (b : Bytes) : Nat :=
  65536 * (b.getD 1 0).toNat + 256 * (b.getD 2 0).toNat + (b.getD 3 0).toNat

/-- The handshake messages of a byte stream: 4-byte header, then `hsLen` bytes of body; greedy; an unfinished
    message at the end is not a message. A message with an empty body (4 bytes) *is* a message. -/
def frameHs (b : Bytes) : List Bytes :=
  if b.length < 4 then []
  else if b.length < 4 + hsLen b then []
  else b.take (4 + hsLen b) :: frameHs (b.drop (4 + hsLen b))
termination_by b.length
decreasing_by simp only [List.length_drop]; omega

/-- The stream consists of whole messages only. -/
def WholeMessages (b : Bytes) : Prop := (frameHs b).flatten = b

/-- A cut of the stream into non-empty fragments (any cut points). -/
def IsCut (str : Bytes) (frags : List Bytes) : Prop := (∀ c ∈ frags, c ≠ []) ∧ frags.flatten = str

/-- What a CRYPTO frame says: (offset, data, length). -/
abbrev Wire := Nat × Bytes × Nat

/-- The CRYPTO frames of a cut in stream order: fragment after fragment, the offset is the number of stream bytes
    before it, the length field is the length of the data. -/
def framesOf (off : Nat) : List Bytes → List Wire
  | [] => []
  | c :: cs => (off, c, c.length) :: framesOf (off + c.length) cs

end TLX.Spec.TlsHandshakeFraming
