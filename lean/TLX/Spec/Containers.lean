/-
Independent specification of the capture containers (C12): ENCODERS, written from the format documents, not from
the reader under test.

  * pcapng: draft-tuexen-opsawg-pcapng — General Block Structure (§3.1: type, total length, body padded to 32 bits,
    total length again), options (§3.5: code, length, value padded to 32 bits, opt_endofopt), Section Header Block
    (§4.1: byte-order magic 0x1A2B3C4D written in the section's byte order, major 1, minor, section length),
    Interface Description Block (§4.2: linktype, reserved, snaplen; if_tsresol = option 9: one byte, MSB 0 → 10^-k,
    MSB 1 → 2^-k; if_tsoffset = option 14: signed 64-bit seconds to ADD to every timestamp), Enhanced Packet Block
    (§4.3), Simple Packet Block (§4.4), Name Resolution Block (§4.5), Interface Statistics Block (§4.6), Decryption
    Secrets Block (§4.7), Custom Block (§4.8), obsolete Packet Block (Appendix A).
  * libpcap savefile (pcap-savefile(5)): magic 0xa1b2c3d4 (µs) / 0xa1b23c4d (ns) in the writer's byte order, version
    2.4, thiszone, sigfigs, snaplen, linktype; per packet: seconds, sub-second part, captured length, original
    length, data (NOT padded).

Only the basic types `Bytes`, `Endian`, `Time`, `Item` are shared with the model (`TLX/Container.lean`); no decoding
function of the model is used here.
-/
import TLX.Container
namespace TLX.Spec.Containers
open TLX
open TLX.Container (Endian Time Item)

/-! ### integers, padding -/

/-- `w`-byte little-endian representation of `n mod 256^w` -/
def leBytes : Nat → Nat → Bytes
  | 0, _ => []
  | w + 1, n => UInt8.ofNat (n % 256) :: leBytes w (n / 256)

/-- a `w`-byte unsigned integer in byte order `e` -/
def enc (e : Endian) (w n : Nat) : Bytes :=
  match e with
  | .le => leBytes w n
  | .be => (leBytes w n).reverse

abbrev u16 (e : Endian) (n : Nat) : Bytes := enc e 2 n
abbrev u32 (e : Endian) (n : Nat) : Bytes := enc e 4 n
abbrev u64 (e : Endian) (n : Nat) : Bytes := enc e 8 n

/-- signed 64-bit, two's complement -/
def i64 (e : Endian) (x : Int) : Bytes := enc e 8 (x % ((2 ^ 64 : Nat) : Int)).toNat

/-- zero bytes up to the next 32-bit boundary -/
def padding (n : Nat) : Bytes := List.replicate ((4 - n % 4) % 4) 0

def padded (b : Bytes) : Bytes := b ++ padding b.length

/-! ### options -/

structure Opt where
  code : Nat
  val : Bytes
  deriving DecidableEq, Repr

def encOpt (e : Endian) (o : Opt) : Bytes := u16 e o.code ++ (u16 e o.val.length ++ padded o.val)

/-- An option list; `eoo`: terminated by opt_endofopt (the draft says a non-empty list is, some writers omit it). -/
structure Opts where
  list : List Opt := []
  eoo : Bool := false
  deriving DecidableEq, Repr

def encOptList (e : Endian) : List Opt → Bytes
  | [] => []
  | o :: os => encOpt e o ++ encOptList e os

def encOpts (e : Endian) (o : Opts) : Bytes :=
  encOptList e o.list ++ (if o.eoo then u16 e 0 ++ u16 e 0 else [])

/-- representable and meaningful: 16-bit code other than opt_endofopt, 16-bit length, and an opt_comment (code 1)
    is text — ASCII here (a sufficient, checkable form of "UTF-8 string"). -/
def Opt.WF (o : Opt) : Prop :=
  0 < o.code ∧ o.code < 2 ^ 16 ∧ o.val.length < 2 ^ 16 ∧ (o.code = 1 → ∀ b ∈ o.val, b < 0x80)

def Opts.WF (o : Opts) : Prop := ∀ x ∈ o.list, x.WF

/-- encoded size of an option list (independent of the byte order) -/
def optListLen : List Opt → Nat
  | [] => 0
  | o :: os => 4 + (o.val.length + (4 - o.val.length % 4) % 4) + optListLen os

def Opts.encLen (o : Opts) : Nat := optListLen o.list + (if o.eoo then 4 else 0)

/-! ### blocks -/

/-- General Block Structure -/
def encBlock (e : Endian) (ty : Nat) (body : Bytes) : Bytes :=
  u32 e ty ++ (u32 e (12 + (padded body).length) ++ (padded body ++ u32 e (12 + (padded body).length)))

/-- What a section may contain after its header, as far as C12 cares: packets (EPB, obsolete PB), secrets (DSB) and
    everything else by type and body (IDB, NRB, ISB, SPB, custom, unknown, …). -/
inductive Block
  | epb (iface ticks : Nat) (data : Bytes) (origLen : Nat) (opts : Opts)
  | pb (iface drops ticks : Nat) (data : Bytes) (origLen : Nat) (opts : Opts)
  | dsb (secretsType : Nat) (secrets : Bytes) (opts : Opts)
  | other (ty : Nat) (body : Bytes)
  deriving DecidableEq, Repr

def Block.encode (e : Endian) : Block → Bytes
  | .epb iface ticks data origLen opts =>
    encBlock e 6 (u32 e iface ++ (u32 e (ticks / 2 ^ 32) ++ (u32 e (ticks % 2 ^ 32) ++
      (u32 e data.length ++ (u32 e origLen ++ (padded data ++ encOpts e opts))))))
  | .pb iface drops ticks data origLen opts =>
    encBlock e 2 (u16 e iface ++ (u16 e drops ++ (u32 e (ticks / 2 ^ 32) ++ (u32 e (ticks % 2 ^ 32) ++
      (u32 e data.length ++ (u32 e origLen ++ (padded data ++ encOpts e opts)))))))
  | .dsb st secrets opts =>
    encBlock e 10 (u32 e st ++ (u32 e secrets.length ++ (padded secrets ++ encOpts e opts)))
  | .other ty body => encBlock e ty body

def encBlocks (e : Endian) : List Block → Bytes
  | [] => []
  | b :: bs => b.encode e ++ encBlocks e bs

/-- the block type code written in the first field -/
def Block.typeCode : Block → Nat
  | .epb .. => 6
  | .pb .. => 2
  | .dsb .. => 10
  | .other ty _ => ty

/-- all fixed-width fields hold their values, the total length fits its 32-bit field, and `other` really is
    something else than a packet or secrets block -/
def Block.WF : Block → Prop
  | .epb iface ticks data origLen opts =>
    iface < 2 ^ 32 ∧ ticks < 2 ^ 64 ∧ origLen < 2 ^ 32 ∧ opts.WF ∧
      32 + (padded data).length + opts.encLen < 2 ^ 32
  | .pb iface drops ticks data origLen opts =>
    iface < 2 ^ 16 ∧ drops < 2 ^ 16 ∧ ticks < 2 ^ 64 ∧ origLen < 2 ^ 32 ∧ opts.WF ∧
      32 + (padded data).length + opts.encLen < 2 ^ 32
  | .dsb st secrets opts =>
    st < 2 ^ 32 ∧ opts.WF ∧ 20 + (padded secrets).length + opts.encLen < 2 ^ 32
  | .other ty body => ty < 2 ^ 32 ∧ (ty ≠ 6 ∧ ty ≠ 2 ∧ ty ≠ 10) ∧ 12 + (padded body).length < 2 ^ 32

/-- "unrelated" to packets and secrets: anything that is not an EPB, a PB or a DSB
    (a well-formed `other` never carries one of their three type codes) -/
def Block.unrelated : Block → Prop
  | .other _ _ => True
  | _ => False

/-- A captured event in the units of the variant it is written in: `ticks` counts the variant's resolution units
    since the variant's origin (epoch + if_tsoffset; the epoch for libpcap). -/
inductive Ev
  | pkt (ticks : Nat) (data : Bytes)
  | dsb (secrets : Bytes)
  deriving DecidableEq, Repr

/-- the event a block records, if any -/
def Block.event : Block → Option Ev
  | .epb _ ticks data _ _ => some (.pkt ticks data)
  | .pb _ _ ticks data _ _ => some (.pkt ticks data)
  | .dsb _ s _ => some (.dsb s)
  | .other _ _ => none

/-- unrelated blocks the draft defines (each is an `other` with the right type; used in the non-vacuity examples
    and mirrored by harness/containers.py) -/
def nrb (e : Endian) (records : List (Nat × Bytes)) (opts : Opts) : Block :=
  .other 4 (records.flatMap (fun r => u16 e r.1 ++ (u16 e r.2.length ++ padded r.2)) ++ (u16 e 0 ++ (u16 e 0 ++ encOpts e opts)))

def isb (e : Endian) (iface ticks : Nat) (opts : Opts) : Block :=
  .other 5 (u32 e iface ++ (u32 e (ticks / 2 ^ 32) ++ (u32 e (ticks % 2 ^ 32) ++ encOpts e opts)))

def custom (e : Endian) (copyable : Bool) (pen : Nat) (data : Bytes) (opts : Opts) : Block :=
  .other (if copyable then 0x00000BAD else 0x40000BAD) (u32 e pen ++ (padded data ++ encOpts e opts))

def spb (e : Endian) (origLen : Nat) (data : Bytes) : Block := .other 3 (u32 e origLen ++ data)

/-! ### section header, interface description -/

inductive TsResol
  | dec (k : Nat)     -- 10^-k seconds
  | bin (k : Nat)     -- 2^-k seconds
  deriving DecidableEq, Repr

def TsResol.byte : TsResol → Nat
  | .dec k => k
  | .bin k => 128 + k

def TsResol.unitsPerSecond : TsResol → Nat
  | .dec k => 10 ^ k
  | .bin k => 2 ^ k

def TsResol.WF : TsResol → Prop
  | .dec k => k < 128
  | .bin k => k < 128

/-- Header choices of a pcapng capture with one section and one timestamp-defining interface. -/
structure NgHeader where
  e : Endian := .le
  minor : Nat := 0
  sectionLen : Nat := 2 ^ 64 - 1            -- the 64-bit field as unsigned; 2^64-1 is "-1 = unspecified"
  shbOpts : Opts := {}
  preIdb : List Block := []                  -- blocks between the SHB and the first IDB (none of them an IDB)
  linktype : Nat := 1
  snaplen : Nat := 65535
  idbOptsBefore : List Opt := []             -- IDB options other than if_tsresol / if_tsoffset, before …
  tsresol : Option TsResol := none           -- option absent = microseconds
  tsoffset : Option Int := none              -- option absent = 0
  idbOptsAfter : List Opt := []              -- … and after them
  idbEoo : Bool := true
  deriving Repr

def NgHeader.idbOpts (h : NgHeader) : Opts :=
  { list := h.idbOptsBefore
      ++ (match h.tsresol with | some r => [⟨9, [UInt8.ofNat r.byte]⟩] | none => [])
      ++ (match h.tsoffset with | some o => [⟨14, i64 h.e o⟩] | none => [])
      ++ h.idbOptsAfter,
    eoo := h.idbEoo }

def NgHeader.shb (h : NgHeader) : Block :=
  .other 0x0A0D0D0A (u32 h.e 0x1A2B3C4D ++ (u16 h.e 1 ++ (u16 h.e h.minor ++ (u64 h.e h.sectionLen ++ encOpts h.e h.shbOpts))))

def NgHeader.idb (h : NgHeader) : Block :=
  .other 1 (u16 h.e h.linktype ++ (u16 h.e 0 ++ (u32 h.e h.snaplen ++ encOpts h.e h.idbOpts)))

def NgHeader.divisor (h : NgHeader) : Nat :=
  match h.tsresol with
  | none => 10 ^ 6
  | some r => r.unitsPerSecond

def NgHeader.offset (h : NgHeader) : Int := h.tsoffset.getD 0

/-- What a correct pcapng reader must deliver for an event of a section with this header: the operands of
    "instant = if_tsoffset + ticks / unitsPerSecond" exactly, the bytes exactly. -/
def NgHeader.item (h : NgHeader) : Ev → Item
  | .pkt ticks data => .pkt ⟨ticks, h.divisor, h.offset, false⟩ data
  | .dsb s => .dsb s

def otherOptOk (o : Opt) : Prop := o.WF ∧ o.code ≠ 9 ∧ o.code ≠ 14

def NgHeader.WF (h : NgHeader) : Prop :=
  h.minor < 2 ^ 16 ∧ h.sectionLen < 2 ^ 64 ∧ h.shbOpts.WF ∧ h.shb.WF ∧
  (∀ b ∈ h.preIdb, b.WF ∧ b.typeCode ≠ 1) ∧
  h.linktype < 2 ^ 16 ∧ h.snaplen < 2 ^ 32 ∧
  (∀ o ∈ h.idbOptsBefore, otherOptOk o) ∧ (∀ o ∈ h.idbOptsAfter, otherOptOk o) ∧
  (∀ r ∈ h.tsresol, r.WF) ∧
  (∀ o ∈ h.tsoffset, -(2 ^ 63 : Int) ≤ o ∧ o < 2 ^ 63) ∧ h.idb.WF

/-- A complete pcapng file: header, anything before the interface description, the interface description, blocks. -/
def encodeNg (h : NgHeader) (blocks : List Block) : Bytes :=
  h.shb.encode h.e ++ (encBlocks h.e h.preIdb ++ (h.idb.encode h.e ++ encBlocks h.e blocks))

/-! ### what a capture contains, and how a variant lays it down -/

/-- per-event writer choices -/
structure Deco where
  before : List Block := []       -- unrelated blocks written just before the event
  usePb : Bool := false           -- obsolete Packet Block instead of an Enhanced Packet Block
  iface : Nat := 0
  drops : Nat := 0
  extraLen : Nat := 0             -- original length = captured length + extraLen
  opts : Opts := {}
  secretsType : Nat := 0x544c534b -- TLS key log
  deriving Repr

def Ev.block (d : Deco) : Ev → Block
  | .pkt ticks data =>
    if d.usePb then .pb d.iface d.drops ticks data (data.length + d.extraLen) d.opts
    else .epb d.iface ticks data (data.length + d.extraLen) d.opts
  | .dsb s => .dsb d.secretsType s d.opts

/-- events `i, i+1, …` with their decorations -/
def weave (deco : Nat → Deco) : Nat → List Ev → List Block
  | _, [] => []
  | i, ev :: evs => (deco i).before ++ (ev.block (deco i) :: weave deco (i + 1) evs)

structure NgVariant where
  hdr : NgHeader := {}
  afterIdb : List Block := []     -- unrelated blocks right after the interface description
  deco : Nat → Deco := fun _ => {}
  atEnd : List Block := []        -- unrelated blocks after the last event

def NgVariant.blocks (v : NgVariant) (evs : List Ev) : List Block :=
  v.afterIdb ++ (weave v.deco 0 evs ++ v.atEnd)

structure LegacyVariant where
  e : Endian := .le
  nano : Bool := false
  minor : Nat := 4
  thiszone : Nat := 0
  sigfigs : Nat := 0
  snaplen : Nat := 65535
  linktype : Nat := 1
  extraLen : Nat → Nat := fun _ => 0

def LegacyVariant.unitsPerSecond (v : LegacyVariant) : Nat := if v.nano then 10 ^ 9 else 10 ^ 6

def LegacyVariant.magic (v : LegacyVariant) : Nat := if v.nano then 0xa1b23c4d else 0xa1b2c3d4

def LegacyVariant.fileHeader (v : LegacyVariant) : Bytes :=
  u32 v.e v.magic ++ (u16 v.e 2 ++ (u16 v.e v.minor ++ (u32 v.e v.thiszone ++ (u32 v.e v.sigfigs ++
    (u32 v.e v.snaplen ++ u32 v.e v.linktype)))))

/-- libpcap has no place for secrets: they are not written -/
def LegacyVariant.records (v : LegacyVariant) : Nat → List Ev → Bytes
  | _, [] => []
  | i, .pkt ticks data :: evs =>
    u32 v.e (ticks / v.unitsPerSecond) ++ (u32 v.e (ticks % v.unitsPerSecond) ++ (u32 v.e data.length ++
      (u32 v.e (data.length + v.extraLen i) ++ (data ++ v.records (i + 1) evs))))
  | i, .dsb _ :: evs => v.records (i + 1) evs

inductive Variant
  | pcapng (v : NgVariant)
  | legacy (v : LegacyVariant)

def Variant.isLegacy : Variant → Bool
  | .pcapng _ => false
  | .legacy _ => true

/-- THE encoder: the same events in any container variant. -/
def encode : Variant → List Ev → Bytes
  | .pcapng v, evs => encodeNg v.hdr (v.blocks evs)
  | .legacy v, evs => v.fileHeader ++ v.records 0 evs

/-- What a correct reader must deliver for an event written in variant `v`: the operands of
    "instant = offset + ticks / unitsPerSecond" exactly, the bytes exactly. -/
def scale : Variant → Ev → Option Item
  | .pcapng v, ev => some (v.hdr.item ev)
  | .legacy v, .pkt ticks data =>
    some (.pkt ⟨ticks % v.unitsPerSecond, v.unitsPerSecond, (ticks / v.unitsPerSecond : Nat), v.nano⟩ data)
  | .legacy _, .dsb _ => none

/-! ### well-formedness of a variant for a list of events (= everything fits its fixed-width field) -/

def Deco.WF (d : Deco) : Prop := ∀ b ∈ d.before, b.WF ∧ b.unrelated

def NgVariant.WF (v : NgVariant) (evs : List Ev) : Prop :=
  v.hdr.WF ∧ (∀ b ∈ v.hdr.preIdb, b.unrelated) ∧ (∀ b ∈ v.afterIdb, b.WF ∧ b.unrelated) ∧ (∀ b ∈ v.atEnd, b.WF ∧ b.unrelated) ∧
  (∀ i, (v.deco i).WF) ∧ ∀ b ∈ weave v.deco 0 evs, b.WF

def LegacyVariant.WFfrom (v : LegacyVariant) : Nat → List Ev → Prop
  | _, [] => True
  | i, .pkt ticks data :: evs =>
    ticks / v.unitsPerSecond < 2 ^ 32 ∧ data.length + v.extraLen i < 2 ^ 32 ∧ v.WFfrom (i + 1) evs
  | i, .dsb _ :: evs => v.WFfrom (i + 1) evs

def LegacyVariant.WF (v : LegacyVariant) (evs : List Ev) : Prop :=
  v.minor < 2 ^ 16 ∧ v.thiszone < 2 ^ 32 ∧ v.sigfigs < 2 ^ 32 ∧ v.snaplen < 2 ^ 32 ∧ v.linktype < 2 ^ 32 ∧
  v.WFfrom 0 evs

def Variant.WF : Variant → List Ev → Prop
  | .pcapng v, evs => v.WF evs
  | .legacy v, evs => v.WF evs

/-! ### the capture itself, independent of any container (for `container_independent`) -/

/-- two lists related element by element (core Lean has no `Forall₂`) -/
inductive Zip {α β : Type} (R : α → β → Prop) : List α → List β → Prop
  | nil : Zip R [] []
  | cons {a b as bs} : R a b → Zip R as bs → Zip R (a :: as) (b :: bs)

/-- An event of the capture itself, independent of any container: a packet seen at the exact instant `num / den`
    seconds after the epoch, or a set of secrets. -/
inductive CEv
  | pkt (num den : Nat) (data : Bytes)
  | dsb (secrets : Bytes)

/-- `ev` is how variant `v` writes the capture event `c`: its ticks denote exactly the instant of `c`. -/
def represents : Variant → CEv → Ev → Prop
  | .pcapng v, .pkt num den data, .pkt ticks data' =>
    data' = data ∧ (v.hdr.offset * v.hdr.divisor + ticks) * den = (num : Int) * v.hdr.divisor
  | .legacy v, .pkt num den data, .pkt ticks data' =>
    data' = data ∧ ((ticks : Nat) : Int) * den = (num : Int) * (v.unitsPerSecond : Nat)
  | _, .dsb s, .dsb s' => s' = s
  | _, _, _ => False

/-- exact instant of a delivered timestamp triple: `(offset · divisor + ticks) / divisor` seconds -/
def Time.num (t : Time) : Int := t.offset * t.divisor + t.ticks

/-- the reader's item carries the capture event: same bytes, and the triple denotes exactly the same instant -/
def delivers : CEv → Item → Prop
  | .pkt num den data, .pkt t data' => data' = data ∧ Time.num t * den = (num : Int) * t.divisor
  | .dsb s, .dsb s' => s' = s
  | _, _ => False

/-- what of a capture a container can hold: libpcap has no secrets block -/
def keep : Variant → List CEv → List CEv
  | .pcapng _, cap => cap
  | .legacy _, cap => cap.filter (fun c => match c with | .pkt .. => true | .dsb _ => false)

/-! decidability of the well-formedness conditions (for the concrete non-vacuity examples) -/
instance (o : Opt) : Decidable o.WF := by unfold Opt.WF; infer_instance
instance (o : Opts) : Decidable o.WF := by unfold Opts.WF; infer_instance
instance (b : Block) : Decidable b.WF := by cases b <;> unfold Block.WF <;> infer_instance
instance (b : Block) : Decidable b.unrelated := by cases b <;> unfold Block.unrelated <;> infer_instance
instance (r : TsResol) : Decidable r.WF := by cases r <;> unfold TsResol.WF <;> infer_instance
instance (o : Opt) : Decidable (otherOptOk o) := by unfold otherOptOk; infer_instance
instance (h : NgHeader) : Decidable h.WF := by unfold NgHeader.WF; infer_instance

end TLX.Spec.Containers
