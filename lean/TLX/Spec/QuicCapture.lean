/-
Sender-side description of "a capture that contains this QUIC connection" (for `Props/C02File.lean`), the UDP twin of
`Spec/TlsCapture.lean`: which frames are datagrams of the connection. Written over the independent frame encoder
`Spec.FrameBuild` (Ethernet II / RFC 791 / RFC 8200 / RFC 768); shares nothing with the model. Core Lean only.

A datagram of the connection in direction `fromServer` is ANY well-formed frame (`Frame.WF`: any MAC addresses, any IPv4
options / DF / MF / TTL / identification, any UDP checksum value, any trailer bytes after the datagram) that carries UDP
between the flow's two endpoints in that direction over the flow's IP version. For IPv6: packets WITHOUT extension headers
(as in `Spec.TlsCapture`). The bytes on the wire are `fr.encode`; the capture stores them with a time stamp in any container
variant of `Spec.Containers.encode`. No address migration: the two endpoints are fixed.
-/
import TLX.Spec.TlsCapture
namespace TLX.Spec.QuicCapture
open TLX TLX.Spec.FrameBuild TLX.Spec.TlsCapture

/-- `fr` is a datagram of the connection sent by the server (`fromServer`) or by the client; `u` is its UDP part -/
def IsDg (fl : Flow) (fromServer : Bool) (fr : Frame) (u : Udp) : Prop :=
  fr.WF ∧ fr.upper = .udp u ∧
  u.sport = (if fromServer then fl.serverPort else fl.clientPort) ∧
  u.dport = (if fromServer then fl.clientPort else fl.serverPort) ∧
  (match fr.net with
   | .v4 h => fl.v6 = false ∧ h.src = (if fromServer then fl.serverIp else fl.clientIp) ∧
              h.dst = (if fromServer then fl.clientIp else fl.serverIp)
   | .v6 h => fl.v6 = true ∧ h.exts = [] ∧ h.src = (if fromServer then fl.serverIp else fl.clientIp) ∧
              h.dst = (if fromServer then fl.clientIp else fl.serverIp))

end TLX.Spec.QuicCapture
