/-
Independent specification for the QUIC packet dissector (C02): *encoders* for the packets of RFC 9000 §17.2/§17.3
(QUIC version 1) and header protection as RFC 9001 §5.4 applies it. Nothing here refers to the model of tlexport
(TLX/Quic/Dissect.lean); variable-length integers are the RFC 9000 §16 encoder of TLX/Spec/QuicFrames.lean (`VW`).

  RFC 9000 §17.2  Long Header Packet {Header Form (1) = 1, Fixed Bit (1) = 1, Long Packet Type (2),
                  Type-Specific Bits (4), Version (32), Destination Connection ID Length (8), Destination
                  Connection ID (0..160), Source Connection ID Length (8), Source Connection ID (0..160), …}
        §17.2.1   Version Negotiation {Header Form (1) = 1, Unused (7), Version (32) = 0, DCID Length (8), DCID (0..2040),
                  SCID Length (8), SCID (0..2040), Supported Version (32) ...}
        §17.2.2   Initial   type 0x00: Reserved Bits (2), Packet Number Length (2) … Token Length (i), Token (..),
                  Length (i), Packet Number (8..32), Packet Payload (8..)
        §17.2.3   0-RTT     type 0x01: … Length (i), Packet Number (8..32), Packet Payload (8..)
        §17.2.4   Handshake type 0x02: same layout as 0-RTT
        §17.2.5   Retry     type 0x03: Unused (4) … Retry Token (..), Retry Integrity Tag (128)
        §17.3.1   1-RTT {Header Form (1) = 0, Fixed Bit (1) = 1, Spin Bit (1), Reserved Bits (2), Key Phase (1),
                  Packet Number Length (2), Destination Connection ID (0..160), Packet Number (8..32), Packet Payload (8..)}
  "Length: the length of the remainder of the packet (that is, the Packet Number and Payload fields) in bytes."
  "Packet Number Length: … one less than the length of the Packet Number field in bytes."

  RFC 9001 §5.3   the associated data of the AEAD "is the contents of the QUIC header, starting from the first byte
                  of either the short or long header, up to and including the unprotected packet number": `header`
        §5.4.1    mask = header_protection(hp_key, sample); long header: `packet[0] ^= mask[0] & 0x0f`, short header:
                  `packet[0] ^= mask[0] & 0x1f`; `packet[pn_offset:pn_offset+pn_length] ^= mask[1:1+pn_length]`
        §5.4.2    `sample_offset = pn_offset + 4; sample = packet[sample_offset..sample_offset+sample_length]`, 16 bytes
                  of ciphertext, the packet number assumed 4 bytes long; a sender pads so that the sample exists,
                  i.e. packet number + protected payload ≥ 20 bytes
  The payload here is the PROTECTED payload (AEAD output incl. tag); the mask is a parameter of `protect`.
-/
import TLX.Spec.QuicFrames
namespace TLX.Spec.QuicPackets
open TLX TLX.Spec.QuicFrames

/-- the protected long-header packet types and their two type bits (RFC 9000 Table 5) -/
inductive LType | initial | zeroRtt | handshake
  deriving DecidableEq, Repr

def LType.bits : LType → Nat
  | .initial => 0
  | .zeroRtt => 1
  | .handshake => 2

/-- an Initial, 0-RTT or Handshake packet before header protection -/
structure Long where
  ty : LType
  /-- Reserved Bits (2) -/
  reserved : Nat := 0
  version : Bytes := [0, 0, 0, 1]
  dcid : Bytes
  scid : Bytes
  /-- Initial only: width of the Token Length field, and the token -/
  tokenW : VW := ⟨0, by decide⟩
  token : Bytes := []
  /-- width of the Length field -/
  lenW : VW
  /-- Packet Number field, 1..4 bytes -/
  pn : Bytes
  /-- protected payload -/
  payload : Bytes
  deriving Repr

/-- encodable: field sizes fit their length fields (RFC 9000 v1 further restricts CIDs to 20 bytes) -/
def Long.wf (p : Long) : Prop :=
  p.reserved < 4 ∧ p.version.length = 4 ∧ p.dcid.length ≤ 255 ∧ p.scid.length ≤ 255 ∧
  1 ≤ p.pn.length ∧ p.pn.length ≤ 4 ∧ p.tokenW.fits p.token.length ∧ p.lenW.fits (p.pn.length + p.payload.length)

instance (p : Long) : Decidable p.wf := by unfold Long.wf; infer_instance

/-- 1 1 TT RR PP -/
def Long.first (p : Long) : UInt8 := UInt8.ofNat (0xC0 + p.ty.bits * 16 + p.reserved * 4 + (p.pn.length - 1))

def Long.tokenPart (p : Long) : Bytes :=
  match p.ty with
  | .initial => p.tokenW.enc p.token.length ++ p.token
  | _ => []

def Long.lengthField (p : Long) : Bytes := p.lenW.enc (p.pn.length + p.payload.length)

/-- the header after its first byte and before the packet number -/
def Long.mid (p : Long) : Bytes :=
  p.version ++ [UInt8.ofNat p.dcid.length] ++ p.dcid ++ [UInt8.ofNat p.scid.length] ++ p.scid ++ p.tokenPart ++
    p.lengthField

/-- RFC 9001 §5.3: the unprotected header, first byte up to and including the packet number -/
def Long.header (p : Long) : Bytes := p.first :: p.mid ++ p.pn

/-- a 1-RTT packet before header protection -/
structure Short where
  spin : Bool := false
  reserved : Nat := 0
  keyPhase : Bool := false
  dcid : Bytes
  pn : Bytes
  payload : Bytes
  deriving Repr

def Short.wf (p : Short) : Prop := p.reserved < 4 ∧ 1 ≤ p.pn.length ∧ p.pn.length ≤ 4
instance (p : Short) : Decidable p.wf := by unfold Short.wf; infer_instance

/-- 0 1 S RR K PP -/
def Short.first (p : Short) : UInt8 :=
  UInt8.ofNat (0x40 + (if p.spin then 0x20 else 0) + p.reserved * 8 + (if p.keyPhase then 4 else 0) + (p.pn.length - 1))

def Short.header (p : Short) : Bytes := p.first :: p.dcid ++ p.pn

/-! ### header protection (RFC 9001 §5.4) -/

/-- §5.4.2: 16 bytes starting 4 bytes after the start of the Packet Number field -/
def sampleOf (pn payload : Bytes) : Bytes := ((pn ++ payload).drop 4).take 16

def xorBytes : Bytes → Bytes → Bytes
  | a :: as, b :: bs => (a ^^^ b) :: xorBytes as bs
  | _, _ => []

/-- §5.4.1 on a packet given as first byte, rest of the header before the packet number, packet number, payload;
    `bits` = 0x0f (long header) or 0x1f (short header); `m` = the mask, at least 5 bytes -/
def applyMask (bits : UInt8) (m : Bytes) (first : UInt8) (mid pn payload : Bytes) : Bytes :=
  (first ^^^ (m.headD 0 &&& bits)) :: mid ++ xorBytes pn ((m.drop 1).take pn.length) ++ payload

def Long.sample (p : Long) : Bytes := sampleOf p.pn p.payload
def Short.sample (p : Short) : Bytes := sampleOf p.pn p.payload

/-- the packet on the wire, `m = header_protection(hp_key, p.sample)` -/
def Long.protect (p : Long) (m : Bytes) : Bytes := applyMask 0x0f m p.first p.mid p.pn p.payload
def Short.protect (p : Short) (m : Bytes) : Bytes := applyMask 0x1f m p.first p.dcid p.pn p.payload

/-! ### Retry and Version Negotiation (not protected) -/

structure Retry where
  /-- Unused (4) -/
  unused : Nat := 0
  version : Bytes := [0, 0, 0, 1]
  dcid : Bytes
  scid : Bytes
  token : Bytes
  /-- Retry Integrity Tag (128) -/
  tag : Bytes
  deriving Repr

def Retry.wf (p : Retry) : Prop :=
  p.unused < 16 ∧ p.version.length = 4 ∧ p.dcid.length ≤ 255 ∧ p.scid.length ≤ 255 ∧ p.tag.length = 16
instance (p : Retry) : Decidable p.wf := by unfold Retry.wf; infer_instance

def Retry.first (p : Retry) : UInt8 := UInt8.ofNat (0xF0 + p.unused)

def Retry.encode (p : Retry) : Bytes :=
  p.first :: p.version ++ [UInt8.ofNat p.dcid.length] ++ p.dcid ++ [UInt8.ofNat p.scid.length] ++ p.scid ++
    p.token ++ p.tag

structure VerNeg where
  /-- Unused (7) -/
  unused : Nat := 0
  dcid : Bytes
  scid : Bytes
  /-- Supported Version (32) ... -/
  versions : List Bytes
  deriving Repr

def VerNeg.wf (p : VerNeg) : Prop :=
  p.unused < 128 ∧ p.dcid.length ≤ 255 ∧ p.scid.length ≤ 255 ∧ p.versions ≠ [] ∧ ∀ v ∈ p.versions, v.length = 4
instance (p : VerNeg) : Decidable p.wf := by unfold VerNeg.wf; infer_instance

def VerNeg.first (p : VerNeg) : UInt8 := UInt8.ofNat (0x80 + p.unused)

def VerNeg.encode (p : VerNeg) : Bytes :=
  p.first :: [0, 0, 0, 0] ++ [UInt8.ofNat p.dcid.length] ++ p.dcid ++ [UInt8.ofNat p.scid.length] ++ p.scid ++
    p.versions.flatten

end TLX.Spec.QuicPackets
