/-
Independent specification for the hello messages of TLS 1.3 as QUIC carries them:
RFC 8446 §4 (Handshake framing), §4.1.2 (ClientHello), §4.1.3 (ServerHello), §4.2 (Extension),
§4.3.1 (EncryptedExtensions), RFC 7301 §3.1 (ALPN extension body), RFC 9000 §18 (transport
parameters). These are *encoders* (what a peer sends), written from the RFCs' presentation-language
definitions; nothing here is derived from the parser model.

      struct { HandshakeType msg_type; uint24 length; select (msg_type) {...}; } Handshake;
      struct { ProtocolVersion legacy_version = 0x0303; Random random;
               opaque legacy_session_id<0..32>; CipherSuite cipher_suites<2..2^16-2>;
               opaque legacy_compression_methods<1..2^8-1>; Extension extensions<8..2^16-1>; } ClientHello;
      struct { ProtocolVersion legacy_version = 0x0303; Random random;
               opaque legacy_session_id_echo<0..32>; CipherSuite cipher_suite;
               uint8 legacy_compression_method = 0; Extension extensions<6..2^16-1>; } ServerHello;
      struct { ExtensionType extension_type; opaque extension_data<0..2^16-1>; } Extension;

The `extensions` vector is optional here (`none` = the field is absent, as in a pre-TLS-1.2-extensions
hello, RFC 8446 §4.1.2 last paragraphs / RFC 5246 §7.4.1.2); RFC 8446 senders always have `some`.
The lower bounds `<8..>`/`<6..>` of the extension vectors are not imposed (weaker hypothesis).
Core Lean only.
-/
import TLX.Py
import TLX.Spec.QuicFrames
namespace TLX.Spec.TlsHello
open TLX

def u8 (n : Nat) : Bytes := Bytes.ofNatBE 1 n
def u16 (n : Nat) : Bytes := Bytes.ofNatBE 2 n
def u24 (n : Nat) : Bytes := Bytes.ofNatBE 3 n

/-- `opaque x<0..2^8-1>`: one length byte, then the bytes. -/
def vec8 (b : Bytes) : Bytes := u8 b.length ++ b
/-- `opaque x<0..2^16-1>`: two length bytes, then the bytes. -/
def vec16 (b : Bytes) : Bytes := u16 b.length ++ b

structure Ext where
  ty : Nat
  body : Bytes
  deriving DecidableEq, Repr

def Ext.wf (e : Ext) : Prop := e.ty < 65536 ∧ e.body.length < 65536
instance (e : Ext) : Decidable e.wf := by unfold Ext.wf; infer_instance

def encodeExt (e : Ext) : Bytes := u16 e.ty ++ vec16 e.body

/-- The concatenated `Extension` structures (the content of the `extensions<..>` vector). -/
def extsPayload (es : List Ext) : Bytes := es.flatMap encodeExt

def encodeExts (es : List Ext) : Bytes := vec16 (extsPayload es)

def extsWf (es : List Ext) : Prop := (∀ e ∈ es, e.wf) ∧ (extsPayload es).length < 65536
instance (es : List Ext) : Decidable (extsWf es) := by unfold extsWf; infer_instance

def encodeOptExts : Option (List Ext) → Bytes
  | none => []
  | some es => encodeExts es

def optExtsWf : Option (List Ext) → Prop
  | none => True
  | some es => extsWf es
instance (o : Option (List Ext)) : Decidable (optExtsWf o) := by cases o <;> unfold optExtsWf <;> infer_instance

/-- RFC 8446 §4: `msg_type`, `uint24 length`, body. -/
def handshake (msgType : Nat) (body : Bytes) : Bytes := u8 msgType ++ u24 body.length ++ body

structure ClientHello where
  legacyVersion : Bytes
  random : Bytes
  sessionId : Bytes
  cipherSuites : List Bytes
  compression : Bytes
  extensions : Option (List Ext)
  deriving DecidableEq, Repr

def ClientHello.body (ch : ClientHello) : Bytes :=
  ch.legacyVersion ++ ch.random ++ vec8 ch.sessionId ++ vec16 ch.cipherSuites.flatten ++
    vec8 ch.compression ++ encodeOptExts ch.extensions

def encodeClientHello (ch : ClientHello) : Bytes := handshake 1 ch.body

def ClientHello.WellFormed (ch : ClientHello) : Prop :=
  ch.legacyVersion.length = 2 ∧ ch.random.length = 32 ∧ ch.sessionId.length ≤ 32 ∧
  ch.cipherSuites ≠ [] ∧ (∀ s ∈ ch.cipherSuites, s.length = 2) ∧ ch.cipherSuites.length < 32768 ∧
  1 ≤ ch.compression.length ∧ ch.compression.length ≤ 255 ∧
  optExtsWf ch.extensions ∧ ch.body.length < 16777216
instance (ch : ClientHello) : Decidable ch.WellFormed := by unfold ClientHello.WellFormed; infer_instance

structure ServerHello where
  legacyVersion : Bytes
  random : Bytes
  sessionIdEcho : Bytes
  cipherSuite : Bytes
  compressionMethod : UInt8
  extensions : Option (List Ext)
  deriving DecidableEq, Repr

def ServerHello.body (sh : ServerHello) : Bytes :=
  sh.legacyVersion ++ sh.random ++ vec8 sh.sessionIdEcho ++ sh.cipherSuite ++ [sh.compressionMethod] ++
    encodeOptExts sh.extensions

def encodeServerHello (sh : ServerHello) : Bytes := handshake 2 sh.body

def ServerHello.WellFormed (sh : ServerHello) : Prop :=
  sh.legacyVersion.length = 2 ∧ sh.random.length = 32 ∧ sh.sessionIdEcho.length ≤ 32 ∧
  sh.cipherSuite.length = 2 ∧ optExtsWf sh.extensions ∧ sh.body.length < 16777216
instance (sh : ServerHello) : Decidable sh.WellFormed := by unfold ServerHello.WellFormed; infer_instance

/-- RFC 8446 §4.3.1: `struct { Extension extensions<0..2^16-1>; } EncryptedExtensions;` (msg_type 8). -/
def encodeEncryptedExtensions (es : List Ext) : Bytes := handshake 8 (encodeExts es)

/-- RFC 7301 §3.1: `ProtocolName protocol_name_list<2..2^16-1>`, `opaque ProtocolName<1..2^8-1>`. -/
def alpnBody (names : List Bytes) : Bytes := vec16 (names.flatMap vec8)

/-- RFC 9000 §18: a transport parameter is `id (varint)`, `length (varint)`, value. The widths of
    the two varints are the sender's choice. -/
structure TParam where
  id : QuicFrames.VI
  lenW : QuicFrames.VW
  value : Bytes
  deriving DecidableEq, Repr

def TParam.wf (p : TParam) : Prop := p.id.ok ∧ p.lenW.fits p.value.length
instance (p : TParam) : Decidable p.wf := by unfold TParam.wf; infer_instance

def encodeTParam (p : TParam) : Bytes := p.id.enc ++ p.lenW.enc p.value.length ++ p.value

def tpBody (ps : List TParam) : Bytes := ps.flatMap encodeTParam

/-- What a hello says about the protocol version as the tool reads it: the body of the last
    `supported_versions` (43) extension that is a bare `ProtocolVersion` (the ServerHello form,
    RFC 8446 §4.2.1), else `dflt`. -/
def versionSeen (dflt : Option Bytes) (es : List Ext) : Option Bytes :=
  match es.reverse.find? (fun e => e.ty == 43 && e.body.length == 2) with
  | some e => some e.body
  | none => dflt

end TLX.Spec.TlsHello
