/-
Independent well-formedness check for a little-endian pcapng file, from draft-tuexen-opsawg-pcapng §3.1 (General
Block Structure): a file is a sequence of blocks that tile it exactly; a block is

    Block Type (32 bits) | Block Total Length (32 bits) | Block Body, padded to 32 bits | Block Total Length (32 bits)

where "Block Total Length: total size of this block, in octets … this value MUST be a multiple of 4", the minimum
being 12 (a block without body), and the trailing copy "allow[s] backward file navigation". `walk` splits a file
into `(type, body)` pairs and fails on any violation: a length below 12, not a multiple of 4, running past the end
of the file, differing from its trailing copy, or stray bytes after the last block.
Only the integer decoding `Container.fld` is shared with the reader model. Core Lean only.
-/
import TLX.Container
namespace TLX.Spec.PcapngWalk
open TLX TLX.Container

def walkFuel : Nat → Bytes → Option (List (Nat × Bytes))
  | 0, f => if f.isEmpty then some [] else none
  | fuel + 1, f =>
    if f.isEmpty then some []
    else if f.length < 12 then none
    else
      let ty := fld .le f 0 4
      let n := fld .le f 4 4
      if n < 12 ∨ n % 4 ≠ 0 ∨ f.length < n then none
      else if fld .le f (n - 4) 4 ≠ n then none
      else
        match walkFuel fuel (f.drop n) with
        | none => none
        | some bs => some ((ty, f.slice 8 (n - 4)) :: bs)

/-- every block consumes at least 12 octets, so `f.length` rounds suffice -/
def walk (f : Bytes) : Option (List (Nat × Bytes)) := walkFuel f.length f

end TLX.Spec.PcapngWalk
