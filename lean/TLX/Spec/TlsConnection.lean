/-
Independent specification: what the two endpoints of ONE TLS connection put on the wire, record by record, and the
byte stream of each direction — the sender-side transcript against which C01 is stated for a whole connection.
Written from the RFCs over `Spec/TlsSender` (record protection) and `Spec/TlsHello` (hello encoders); nothing here
looks at the tool or its model.

  RFC 5246 §7.3 (full handshake), §7.1 (ChangeCipherSpec), RFC 7918 (False Start), RFC 5077 (NewSessionTicket before the
  server's CCS), RFC 6101 / 2246 / 4346 for the older versions — after its hello an endpoint sends
      clear-text handshake records (Certificate, ServerKeyExchange, CertificateRequest, ServerHelloDone,
        ClientKeyExchange, CertificateVerify, NewSessionTicket: any grouping of messages into records; no further
        hello),
      ChangeCipherSpec, and from then on protected records: Finished (type 22), application data (type 23).
  RFC 8446 §2, §4.4.4, §5, Appendix D.4 — after its hello an endpoint sends, in any order the protocol allows,
      dummy ChangeCipherSpec records (middlebox compatibility), protected handshake records of whole messages
        (EncryptedExtensions … Finished; the client's Finished; NewSessionTicket after the handshake) — after each
        Finished the endpoint protects with its application traffic keys from sequence number 0 —
      and protected application data.

Each direction has its own cipher state (`SDir`), so an endpoint's records depend on what IT sent before only.
The byte stream of a direction is the concatenation of its records (`stream`); how TCP delivers the two streams and how
the capture interleaves them is `Spec/TlsFraming` (`InOrder`, `Delivers`) and the causality hypothesis of the theorems.
Core Lean only.
-/
import TLX.Spec.TlsSender
import TLX.Spec.TlsHello
import TLX.Spec.TlsFraming
namespace TLX.Spec.TlsConnection
open TLX TLX.Cipher TLX.Spec.TlsSender

/-- one record an endpoint sends after its hello -/
inductive DirEv
  /-- clear-text handshake record (type 22) with this fragment -/
  | clear (body : Bytes)
  /-- ChangeCipherSpec record (type 20, fragment 01) -/
  | ccs
  /-- protected record: content type, plaintext, the sender's fresh values (TLS ≤ 1.2: Finished = 22; all: data = 23) -/
  | enc (typ : UInt8) (pt : Bytes) (f : Fresh)
  /-- TLS 1.3: protected handshake record consisting of the whole messages `(msg_type, body)` -/
  | hs13 (msgs : List (UInt8 × Bytes)) (f : Fresh)

/-- RFC 8446 §4 handshake framing of a message list -/
def hsBytes (msgs : List (UInt8 × Bytes)) : Bytes := msgs.flatMap fun m => TlsHello.handshake m.1.toNat m.2

/-- number of Finished messages (type 20) -/
def finished (msgs : List (UInt8 × Bytes)) : Nat := (msgs.filter fun m => m.1 = 20).length

/-- RFC 8446 §7.3 / §5.3 after every Finished sent -/
def switchN : Nat → SDir → SDir
  | 0, sd => sd
  | n + 1, sd => switchN n (switchToApp sd)

/-- the records of one endpoint after its hello, from cipher state `sd` (record-layer version field `ver`) -/
def sendDir (P : Prims) (L : SealLaws P) (cls : CipherClass) (ver : Bytes) : SDir → List DirEv → List Bytes
  | _, [] => []
  | sd, .clear body :: r => record 22 ver body :: sendDir P L cls ver sd r
  | sd, .ccs :: r => record 20 ver [1] :: sendDir P L cls ver sd r
  | sd, .enc typ pt f :: r =>
    (protect P L cls ver sd typ pt f).2 :: sendDir P L cls ver (protect P L cls ver sd typ pt f).1 r
  | sd, .hs13 msgs f :: r =>
    (protect P L cls ver sd 22 (hsBytes msgs) f).2 ::
      sendDir P L cls ver (switchN (finished msgs) (protect P L cls ver sd 22 (hsBytes msgs) f).1) r

/-- the application data an endpoint sent, in order -/
def plainOf : List DirEv → Bytes
  | [] => []
  | .enc typ pt _ :: r => if typ = 23 then pt ++ plainOf r else plainOf r
  | _ :: r => plainOf r

/-- TLS ≤ 1.2 after the hello: clear-text handshake records without a further hello, ChangeCipherSpec, then protected
    handshake / application-data records -/
def Script12 (l : List DirEv) : Prop :=
  ∃ (cl : List Bytes) (rest : List DirEv), l = cl.map .clear ++ .ccs :: rest ∧
    (∀ b ∈ cl, ∀ t ∈ b.head?, t ≠ 1 ∧ t ≠ 2) ∧
    ∀ e ∈ rest, ∃ typ pt f, e = .enc typ pt f ∧ (typ = 22 ∨ typ = 23)

/-- TLS 1.3 after the hello: dummy ChangeCipherSpec records, protected handshake records, protected application data -/
def Script13 (l : List DirEv) : Prop :=
  ∀ e ∈ l, e = .ccs ∨ (∃ ms f, e = .hs13 ms f) ∨ (∃ pt f, e = .enc 23 pt f)

/-- a connection as sent: the two hello records (each with its own record-layer version field) and what follows -/
structure Transcript where
  ch : TlsHello.ClientHello
  sh : TlsHello.ServerHello
  rvC : Bytes
  rvS : Bytes
  ver : Bytes
  cEvs : List DirEv
  sEvs : List DirEv

def Transcript.chRecord (t : Transcript) : Bytes := record 22 t.rvC (TlsHello.encodeClientHello t.ch)
def Transcript.shRecord (t : Transcript) : Bytes := record 22 t.rvS (TlsHello.encodeServerHello t.sh)

/-- the records of one direction (`true` = server), given the cipher states the key schedule installs -/
def Transcript.records (t : Transcript) (P : Prims) (L : SealLaws P) (cls : CipherClass) (x : Snd) (srv : Bool) :
    List Bytes :=
  if srv then t.shRecord :: sendDir P L cls t.ver x.s t.sEvs else t.chRecord :: sendDir P L cls t.ver x.c t.cEvs

/-- the byte stream of one direction -/
def Transcript.stream (t : Transcript) (P : Prims) (L : SealLaws P) (cls : CipherClass) (x : Snd) (srv : Bool) : Bytes :=
  (t.records P L cls x srv).flatten

/-- a record whose length field says its length (RFC 5246 §6.2.1: fragment ≤ 2^14 + 2048 < 2^16) -/
def WholeRecord (r : Bytes) : Prop := 5 ≤ r.length ∧ r.length = 5 + TlsFraming.hdrLen r

instance (r : Bytes) : Decidable (WholeRecord r) := by unfold WholeRecord; infer_instance

end TLX.Spec.TlsConnection
