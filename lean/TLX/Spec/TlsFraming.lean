/-
Independent specification for C05: what the byte stream of one endpoint *means* as TLS records
(RFC 5246 §6.2.1 / RFC 8446 §5.1: type, version, 16-bit length, fragment) and which TCP segment lists
are deliveries of that stream (RFC 9293 §3.4: the sequence number of a segment is the ISN-relative
offset of its first byte, modulo 2^32).  Written without looking at the model: greedy `frame` by
well-founded recursion on the remaining bytes, a delivery relation as an inductive predicate.
Core Lean only.
-/
import TLX.Py
namespace TLX.Spec.TlsFraming
open TLX

/-- The 16-bit length field of a record header (bytes 3 and 4). -/
def hdrLen (b : Bytes) : Nat := 256 * (b.getD 3 0).toNat + (b.getD 4 0).toNat

/-- The records of a byte stream: 5-byte header, then `hdrLen` bytes; greedy; an unfinished record at
    the end is not a record. -/
def frame (b : Bytes) : List Bytes :=
  if b.length < 5 then []
  else if b.length < 5 + hdrLen b then []
  else b.take (5 + hdrLen b) :: frame (b.drop (5 + hdrLen b))
termination_by b.length
decreasing_by simp only [List.length_drop]; omega

/-- The stream consists of whole records only (what an endpoint has sent when it is done). -/
def WholeRecords (b : Bytes) : Prop := (frame b).flatten = b

/-- What a capture shows of a TCP segment: the sequence-number field and the payload. -/
abbrev Wire := Nat × Bytes

/-- The segments of a cut of the stream in the order sent: chunk after chunk, the sequence number
    is `isn + offset` reduced modulo 2^32. -/
def segsOf (isn off : Nat) : List Bytes → List Wire
  | [] => []
  | c :: cs => ((isn + off) % 2 ^ 32, c) :: segsOf isn (off + c.length) cs

/-- A cut of the stream into non-empty chunks (single bytes, many records in one chunk, a record over
    many chunks: anything). -/
def IsCut (str : Bytes) (chunks : List Bytes) : Prop := (∀ c ∈ chunks, c ≠ []) ∧ chunks.flatten = str

/-- One segment captured up to `k` positions later or earlier than sent. -/
inductive Displaced (k : Nat) : List Wire → List Wire → Prop
  | later (a m b : List Wire) (x : Wire) : m.length ≤ k → Displaced k (a ++ x :: (m ++ b)) (a ++ (m ++ x :: b))
  | earlier (a m b : List Wire) (x : Wire) : m.length ≤ k → Displaced k (a ++ (m ++ x :: b)) (a ++ x :: (m ++ b))

/-- `Delivers k isn str segs`: `segs` is a capture-order list of the segments of one direction whose
    endpoint sent the byte stream `str` with initial sequence number `isn`: some cut of the stream,
    any number of exact duplicates (retransmissions) inserted behind their original, any number of
    segments displaced by at most `k` positions. -/
inductive Delivers (k isn : Nat) (str : Bytes) : List Wire → Prop
  | cut (chunks : List Bytes) : IsCut str chunks → Delivers k isn str (segsOf isn 0 chunks)
  | dup (a b₁ b₂ : List Wire) (x : Wire) :
      Delivers k isn str (a ++ x :: (b₁ ++ b₂)) → Delivers k isn str (a ++ x :: (b₁ ++ x :: b₂))
  | displace (l l' : List Wire) : Delivers k isn str l → Displaced k l l' → Delivers k isn str l'

/-- The delivery is in order (no displacement; duplicates allowed). -/
def InOrder (isn : Nat) (str : Bytes) (l : List Wire) : Prop := Delivers 0 isn str l

end TLX.Spec.TlsFraming
