/-
What the negotiated cipher suite means for the SENDER of a QUIC v1 connection, in RFC terms only (used by `Props/C02Rfc`):

  `quicSuite`     code point ─IANA registry copy (`Spec.Iana`)→ name ─`Spec.denote`→ `Spec.RfcSuite.SuiteSpec`, restricted to the
                  AEADs RFC 9001 §5.3 admits: AEAD_AES_128_GCM, AEAD_AES_256_GCM, AEAD_CHACHA20_POLY1305, AEAD_AES_128_CCM
                  (tag length 16: `TLS_AES_128_CCM_8_SHA256` MUST NOT be used)
  `aeadOf`        the AEAD algorithm of the suite
  `selOf`         hash / AEAD / key length as one record (the record type `Quic.Session.SuiteSel` is plain data; NOTHING here
                  looks at the tool's table `Quic.Session.selectSuite`)
  `hpChacha`      RFC 9001 §5.4.3 / §5.4.4: header protection is ChaCha20-based exactly for AEAD_CHACHA20_POLY1305
  `labelCETS`     the NSS key-log label of the 0-RTT secret (the four others are `Spec.RfcSuite.label…`)
`quicSuite_table`: for the four code points the registry names, the denotation agrees with RFC 9001's own table
(`Spec.KeySchedules.quicSuiteKeyLength`, `quicSuiteUsesSha384`) — kernel evaluation.
Core Lean only.
-/
import TLX.Spec.RfcSuite
import TLX.Quic.Session
namespace TLX.Spec.RfcQuic
open TLX TLX.Cipher TLX.Spec.RfcSuite TLX.Spec.KeySchedules TLX.CipherSuite

/-- the AEAD of a TLS 1.3 suite that QUIC v1 may use (RFC 9001 §5.3) -/
def aeadOf (sp : SuiteSpec) : Option Alg :=
  if sp.tagLen = 16 then
    match sp.bulk with
    | .aesGcm => some .aesgcm
    | .aesCcm => some .aesccm
    | .chacha20Poly1305 => some .chachaPoly
    | _ => none
  else none

def hashSelOf : HashName → Option Quic.Session.HashSel
  | .sha256 => some .sha256
  | .sha384 => some .sha384
  | _ => none

/-- hash, AEAD and key length of the suite -/
def selOf (sp : SuiteSpec) : Option Quic.Session.SuiteSel :=
  match hashSelOf sp.hash, aeadOf sp with
  | some h, some a => some ⟨h, a, sp.keyLen⟩
  | _, _ => none

/-- the suite of a QUIC v1 connection: what the IANA name of the ServerHello's code point denotes, if RFC 9001 admits it -/
def quicSuite (cs : Nat) : Option (SuiteSpec × Quic.Session.SuiteSel) :=
  (suiteOfCode cs).bind fun sp => (selOf sp).map fun s => (sp, s)

/-- RFC 9001 §5.4.4: ChaCha20-based header protection for AEAD_CHACHA20_POLY1305, AES-based (§5.4.3) otherwise -/
def hpChacha (sel : Quic.Session.SuiteSel) : Bool := sel.alg == .chachaPoly

def labelCETS : List Nat := ascii "CLIENT_EARLY_TRAFFIC_SECRET"

/-- RFC 8446 B.4: the cipher suites of TLS 1.3 (QUIC v1 runs TLS 1.3: RFC 9001 §4.2), as `ServerHello.cipher_suite` bytes -/
def tls13Codes : List Bytes := [[0x13, 0x01], [0x13, 0x02], [0x13, 0x03], [0x13, 0x04], [0x13, 0x05]]

/-- the four TLS 1.3 suites QUIC v1 uses: the denotation of their IANA names is RFC 9001's table -/
theorem quicSuite_table :
    ∀ cs ∈ [0x1301, 0x1302, 0x1303, 0x1304], (quicSuite cs).isSome = true ∧
      (quicSuite cs).map (·.2.keyLen) = quicSuiteKeyLength cs ∧
      (quicSuite cs).map (fun p => p.2.hash == .sha384) = some (quicSuiteUsesSha384 cs) ∧
      (quicSuite cs).map (fun p => decide (p.1.keyLen = p.2.keyLen)) = some true := by
  decide +kernel

/-- … and RFC 9001 §5.3 excludes the fifth TLS 1.3 suite -/
theorem quicSuite_ccm8 : quicSuite 0x1305 = none := by decide +kernel

end TLX.Spec.RfcQuic
