/-
Independent specification for C06 (bytes): what a RECEIVER reads out of an Ethernet II frame that carries TCP or UDP
over IPv4 or IPv6, checking every length field on the way. Written from the format documents, not from scapy:

  * Ethernet II (IEEE 802.3 §3.2.6 with a type ≥ 0x0600): destination, source, EtherType; 0x0800 = IPv4, 0x86DD = IPv6.
  * RFC 791 §3.1: Version (4), IHL in 32-bit words (≥ 5), Total Length = header + data in octets, Flags/Fragment
    Offset (a datagram with MF set or a non-zero offset is a fragment: not reassemblable on its own), TTL, Protocol,
    Header Checksum, Source, Destination, options up to IHL·4.
  * RFC 8200 §3: Version (6), Traffic Class, Flow Label, Payload Length = octets after the 40-octet header,
    Next Header, Hop Limit, Source, Destination. (Extension headers are not accepted: the tool emits none.)
  * RFC 9293 §3.1: ports, Sequence Number, Acknowledgment Number, Data Offset in 32-bit words (≥ 5, within the
    segment), Rsrvd, eight control bits, Window, Checksum, Urgent Pointer, options up to Data Offset·4, data.
  * RFC 768: ports, Length = header + data in octets (must be the length the IP layer delivered), Checksum, data.

A frame with bytes after the IP datagram (Ethernet padding) is rejected: the property wants frames in which every
length field is exact. Checksums are NOT verified here — that is `TLX.Spec.Rfc1071` on `Parsed.segment` (and on the
IPv4 header, `Props.C06Bytes.ipv4_header_checksum_valid`). Core Lean only; shares only `Bytes` with the model.
-/
import TLX.Py
namespace TLX.Spec.FrameParse
open TLX

/-- one octet at `off` (callers have checked the length) -/
def u8 (b : Bytes) (off : Nat) : Nat := (b.getD off 0).toNat

/-- 16-bit big-endian field at `off` -/
def u16 (b : Bytes) (off : Nat) : Nat := u8 b off * 256 + u8 b (off + 1)

/-- 32-bit big-endian field at `off` -/
def u32 (b : Bytes) (off : Nat) : Nat := u16 b off * 65536 + u16 b (off + 2)

inductive Transport
  | tcp (seq ack dataOffset reserved flags window urgent : Nat) (options : Bytes)
  | udp
  deriving DecidableEq, Repr

structure Parsed where
  dstMac : Bytes
  srcMac : Bytes
  v6 : Bool
  src : Bytes
  dst : Bytes
  /-- TTL / Hop Limit -/
  ttl : Nat
  sport : Nat
  dport : Nat
  l4 : Transport
  /-- the transport header and data exactly as delimited by the IP length field -/
  segment : Bytes
  payload : Bytes
  deriving DecidableEq, Repr

structure IpInfo where
  v6 : Bool
  src : Bytes
  dst : Bytes
  ttl : Nat
  proto : Nat
  data : Bytes
  deriving DecidableEq, Repr

def parseIpv4 (ip : Bytes) : Option IpInfo :=
  if ip.length < 20 then none
  else
    let version := u8 ip 0 / 16
    let ihl := u8 ip 0 % 16
    let total := u16 ip 2
    if version ≠ 4 ∨ ihl < 5 ∨ total < ihl * 4 ∨ total ≠ ip.length then none
    else if u16 ip 6 % 16384 ≠ 0 then none                    -- MF or fragment offset: a fragment
    else some ⟨false, ip.slice 12 16, ip.slice 16 20, u8 ip 8, u8 ip 9, ip.drop (ihl * 4)⟩

def parseIpv6 (ip : Bytes) : Option IpInfo :=
  if ip.length < 40 then none
  else if u8 ip 0 / 16 ≠ 6 ∨ u16 ip 4 + 40 ≠ ip.length then none
  else some ⟨true, ip.slice 8 24, ip.slice 24 40, u8 ip 7, u8 ip 6, ip.drop 40⟩

structure L4Info where
  sport : Nat
  dport : Nat
  l4 : Transport
  payload : Bytes

def parseTcp (seg : Bytes) : Option L4Info :=
  if seg.length < 20 then none
  else
    let off := u8 seg 12 / 16
    if off < 5 ∨ seg.length < off * 4 then none
    else some ⟨u16 seg 0, u16 seg 2,
      .tcp (u32 seg 4) (u32 seg 8) off (u8 seg 12 % 16) (u8 seg 13) (u16 seg 14) (u16 seg 18) (seg.slice 20 (off * 4)),
      seg.drop (off * 4)⟩

def parseUdp (seg : Bytes) : Option L4Info :=
  if seg.length < 8 then none
  else if u16 seg 4 ≠ seg.length then none
  else some ⟨u16 seg 0, u16 seg 2, .udp, seg.drop 8⟩

/-- the whole frame -/
def parse (frame : Bytes) : Option Parsed :=
  if frame.length < 14 then none
  else
    let etype := u16 frame 12
    let ip? := if etype = 0x0800 then parseIpv4 (frame.drop 14)
      else if etype = 0x86DD then parseIpv6 (frame.drop 14) else none
    match ip? with
    | none => none
    | some ip =>
      let l4? := if ip.proto = 6 then parseTcp ip.data else if ip.proto = 17 then parseUdp ip.data else none
      match l4? with
      | none => none
      | some t => some ⟨frame.take 6, frame.slice 6 12, ip.v6, ip.src, ip.dst, ip.ttl, t.sport, t.dport, t.l4,
                        ip.data, t.payload⟩

end TLX.Spec.FrameParse
