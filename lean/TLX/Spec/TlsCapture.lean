/-
Sender-side description of "a capture that contains this TCP connection" (for `Props/C01File.lean`): which frames are
segments of the connection. Written over the independent frame encoder `Spec.FrameBuild` (Ethernet II / RFC 791 / RFC 8200 /
RFC 9293); shares nothing with the model. Core Lean only.

A segment of the connection in direction `fromServer` is ANY well-formed frame (`Frame.WF`: any MAC addresses, any IPv4
options / DF / MF / TTL / identification, any TCP options, flags, window, acknowledgment number, checksums, any trailer
bytes after the datagram) that carries TCP between the flow's two endpoints in that direction over the flow's IP version.
For IPv6 the description is restricted to packets WITHOUT extension headers (`Props.C12Dissect.dissect_build_v6` covers
the chains dpkt reads back; they could be admitted here at the price of its two side conditions).
The bytes on the wire are `fr.encode`; the capture stores them with a time stamp in any container variant of
`Spec.Containers.encode`.
-/
import TLX.Spec.FrameBuild
namespace TLX.Spec.TlsCapture
open TLX TLX.Spec.FrameBuild

/-- the two endpoints of the connection -/
structure Flow where
  v6 : Bool
  clientIp : Bytes
  clientPort : Nat
  serverIp : Bytes
  serverPort : Nat
  deriving Repr

/-- `fr` is a segment of the connection sent by the server (`fromServer`) or by the client; `t` is its TCP part -/
def IsSeg (fl : Flow) (fromServer : Bool) (fr : Frame) (t : Tcp) : Prop :=
  fr.WF ∧ fr.upper = .tcp t ∧
  t.sport = (if fromServer then fl.serverPort else fl.clientPort) ∧
  t.dport = (if fromServer then fl.clientPort else fl.serverPort) ∧
  (match fr.net with
   | .v4 h => fl.v6 = false ∧ h.src = (if fromServer then fl.serverIp else fl.clientIp) ∧
              h.dst = (if fromServer then fl.clientIp else fl.serverIp)
   | .v6 h => fl.v6 = true ∧ h.exts = [] ∧ h.src = (if fromServer then fl.serverIp else fl.clientIp) ∧
              h.dst = (if fromServer then fl.clientIp else fl.serverIp))

end TLX.Spec.TlsCapture
