/-
Independent specification: a TLS 1.3 endpoint that FRAGMENTS its handshake messages over records, as RFC 8446 §5.1
allows ("Handshake messages MAY be coalesced into a single TLSPlaintext record or fragmented across several records").
After its hello an endpoint sends dummy ChangeCipherSpec records, protected handshake records each carrying the next
piece of its handshake message stream (any cut points), and protected application data; after the record in which a
Finished message ENDS it protects with its application traffic keys from sequence number 0 (RFC 8446 §4.4.4, §7.3).
`Spec/TlsConnection.DirEv.hs13` is the special case "every record holds whole messages". Core Lean only.
-/
import TLX.Spec.TlsConnection
namespace TLX.Spec.TlsFragmented13
open TLX TLX.Cipher TLX.Spec.TlsSender TLX.Spec.TlsConnection

/-- one record an endpoint sends after its hello -/
inductive FEv
  | ccs
  /-- protected handshake record carrying the next `bytes` of the handshake message stream; `fins` Finished messages
      end inside it -/
  | frag (bytes : Bytes) (fins : Nat) (f : Fresh)
  /-- protected application data -/
  | app (pt : Bytes) (f : Fresh)

def sendDirF (P : Prims) (L : SealLaws P) (cls : CipherClass) (ver : Bytes) : SDir → List FEv → List Bytes
  | _, [] => []
  | sd, .ccs :: r => record 20 ver [1] :: sendDirF P L cls ver sd r
  | sd, .frag b n f :: r =>
    (protect P L cls ver sd 22 b f).2 :: sendDirF P L cls ver (switchN n (protect P L cls ver sd 22 b f).1) r
  | sd, .app pt f :: r =>
    (protect P L cls ver sd 23 pt f).2 :: sendDirF P L cls ver (protect P L cls ver sd 23 pt f).1 r

/-- the application data an endpoint sent, in order -/
def plainOfF : List FEv → Bytes
  | [] => []
  | .app pt _ :: r => pt ++ plainOfF r
  | _ :: r => plainOfF r

/-- the endpoint's handshake message stream -/
def hsStream : List FEv → Bytes
  | [] => []
  | .frag b _ _ :: r => b ++ hsStream r
  | _ :: r => hsStream r

/-- stream offsets at which a Finished message (type 20) ends -/
def finEnds : Nat → List (UInt8 × Bytes) → List Nat
  | _, [] => []
  | o, m :: r => (if m.1 = 20 then [o + 4 + m.2.length] else []) ++ finEnds (o + 4 + m.2.length) r

/-- every record's `fins` is the number of Finished messages whose last byte it carries -/
def FinsRight (ends : List Nat) : Nat → List FEv → Prop
  | _, [] => True
  | o, .frag b n _ :: r => n = (ends.filter fun e => o < e ∧ e ≤ o + b.length).length ∧ FinsRight ends (o + b.length) r
  | o, _ :: r => FinsRight ends o r

/-- no zero-length handshake fragments (RFC 8446 §5.1) -/
def FragsNonEmpty : List FEv → Prop
  | [] => True
  | .frag b _ _ :: r => b ≠ [] ∧ FragsNonEmpty r
  | _ :: r => FragsNonEmpty r

/-- RFC conformance of a fragmenting endpoint: its handshake stream is a sequence of whole messages (uint24 lengths),
    cut anywhere into non-empty fragments, and it switches keys after the records in which a Finished ends -/
def FragConform (l : List FEv) : Prop :=
  ∃ msgs : List (UInt8 × Bytes), (∀ m ∈ msgs, m.2.length < 16777216) ∧ hsStream l = hsBytes msgs ∧
    FinsRight (finEnds 0 msgs) 0 l ∧ FragsNonEmpty l

structure TranscriptF where
  ch : TlsHello.ClientHello
  sh : TlsHello.ServerHello
  rvC : Bytes
  rvS : Bytes
  ver : Bytes
  cF : List FEv
  sF : List FEv

def TranscriptF.chRecord (t : TranscriptF) : Bytes := record 22 t.rvC (TlsHello.encodeClientHello t.ch)
def TranscriptF.shRecord (t : TranscriptF) : Bytes := record 22 t.rvS (TlsHello.encodeServerHello t.sh)

def TranscriptF.records (t : TranscriptF) (P : Prims) (L : SealLaws P) (cls : CipherClass) (x : Snd) (srv : Bool) :
    List Bytes :=
  if srv then t.shRecord :: sendDirF P L cls t.ver x.s t.sF else t.chRecord :: sendDirF P L cls t.ver x.c t.cF

def TranscriptF.stream (t : TranscriptF) (P : Prims) (L : SealLaws P) (cls : CipherClass) (x : Snd) (srv : Bool) : Bytes :=
  (t.records P L cls x srv).flatten

end TLX.Spec.TlsFragmented13
