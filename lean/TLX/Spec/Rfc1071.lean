/-
Independent specification for C11: what a *receiver* does with a TCP or UDP checksum.

* RFC 1071 §1: "adjacent octets to be checksummed are paired to form 16-bit integers, and the 1's
  complement sum of these 16-bit integers is formed" (an odd last octet is padded with a zero octet on
  the right); "to check a checksum, the 1's complement sum is computed over the same set of octets,
  including the checksum field. If the result is all 1 bits (-0 in 1's complement arithmetic), the
  check succeeds."
* RFC 793 §3.1 / RFC 768: the sum covers a pseudo-header — source address, destination address, a
  zero octet, the protocol, and the TCP/UDP length — followed by the segment.
* RFC 8200 §8.1: for IPv6 the pseudo-header is source address, destination address, a 32-bit
  upper-layer packet length, 24 zero bits and the next-header value of the *upper-layer protocol*.
* RFC 768: "If the computed checksum is zero, it is transmitted as all ones. An all zero transmitted
  checksum value means that the transmitter generated no checksum." RFC 8200 §8.1: over IPv6 the UDP
  checksum is not optional; receivers discard packets whose checksum field is zero.

Nothing here recomputes a checksum with the field zeroed, builds a byte string, folds a 32-bit sum or
complements anything: the specification adds 16-bit words with end-around carry and looks at the result.
Core Lean only.
-/
import TLX.Py
namespace TLX.Spec.Rfc1071
open TLX

/-- One's-complement addition of two 16-bit numbers: the carry out of bit 15 is added back in. -/
def ocAdd (a b : Nat) : Nat := if a + b > 0xFFFF then a + b - 0xFFFF else a + b

/-- Octets paired to 16-bit integers, first octet most significant; an odd last octet is the high half. -/
def words : Bytes → List Nat
  | [] => []
  | [a] => [a.toNat * 256]
  | a :: b :: rest => (a.toNat * 256 + b.toNat) :: words rest

/-- The one's-complement sum of a list of 16-bit integers. -/
def ocSum (ws : List Nat) : Nat := ws.foldl ocAdd 0

inductive Transport | tcp | udp
  deriving DecidableEq, Repr

/-- IANA protocol numbers. -/
def Transport.proto : Transport → Nat
  | .tcp => 6
  | .udp => 17

/-- Index of the checksum among the 16-bit words of the header (TCP: ninth word, UDP: fourth). -/
def Transport.checksumWord : Transport → Nat
  | .tcp => 8
  | .udp => 3

/-- The pseudo-header as 16-bit words; `len` is the length of the segment in octets. -/
def pseudoWords (v6 : Bool) (src dst : Bytes) (t : Transport) (len : Nat) : List Nat :=
  if v6 then words src ++ words dst ++ [len / 65536, len % 65536, 0, t.proto]
  else words src ++ words dst ++ [t.proto, len]

/-- The checksum field of the segment as transmitted. -/
def storedChecksum (t : Transport) (seg : Bytes) : Nat := (words seg).getD t.checksumWord 0

inductive Verdict
  | valid        -- the check succeeds
  | invalid      -- the check fails: the receiver discards the packet
  | noChecksum   -- UDP over IPv4 with an all-zero field: the sender generated no checksum
  deriving DecidableEq, Repr

/-- The receiver's decision for a segment `seg` carried between `src` and `dst`. -/
def verdict (t : Transport) (v6 : Bool) (src dst seg : Bytes) : Verdict :=
  if t = .udp ∧ storedChecksum t seg = 0 then
    if v6 then .invalid else .noChecksum
  else if ocSum (pseudoWords v6 src dst t seg.length ++ words seg) = 0xFFFF then .valid
  else .invalid

end TLX.Spec.Rfc1071
