/-
Independent specification for C17: an *encoder* for the frames of RFC 9000 §19 and RFC 9221 §4
with a free width choice for every variable-length integer (RFC 9000 §16: 1, 2, 4 or 8 bytes,
"values do not need to be encoded on the minimum number of bytes necessary") and all eight
STREAM flag combinations. Nothing here refers to the model of tlexport (TLX/Quic/*).

  `VW`            a width choice: prefix bits `p ∈ 0..3`, `2^p` bytes, `8·2^p − 2` usable bits
  `VI`            a value together with the width it is sent in
  `QFrame`        the frames; `QFrame.padding n` is a run of `n` PADDING frames (RFC 9000 §19.1: each is the
                  single byte 0x00, so a run is all a receiver can observe)
  `QFrame.encode` the wire image (RFC 9000 figures 23–43, RFC 9221 figure 1)
  `QFrame.wf`     the values fit their widths, fixed-size fields have their size
  `QFrame.greedy` frames without explicit length (STREAM without LEN bit, DATAGRAM 0x30) — extend to the
                  end of the packet, hence may only come last: `WellFormedSeq`
  `normalize`     consecutive PADDING runs are one run
-/
import TLX.Py
namespace TLX.Spec.QuicFrames
open TLX

/-- A varint width choice: the two prefix bits `p`; the encoding is `2^p` bytes long. -/
structure VW where
  p : Nat
  hp : p ≤ 3
  deriving DecidableEq, Repr

/-- Encoded length in bytes: 1, 2, 4 or 8. -/
def VW.w (x : VW) : Nat := 2 ^ x.p

/-- `v` is representable in this width: 6, 14, 30 or 62 usable bits. -/
def VW.fits (x : VW) (v : Nat) : Prop := v < 2 ^ (8 * x.w - 2)

instance (x : VW) (v : Nat) : Decidable (x.fits v) := by unfold VW.fits; infer_instance

/-- RFC 9000 §16: the value in network byte order on `2^p` bytes, the two most significant bits of
    the first byte set to `p`. -/
def VW.enc (x : VW) (v : Nat) : Bytes := Bytes.ofNatBE x.w (x.p * 2 ^ (8 * x.w - 2) + v)

/-- A variable-length integer as sent: value and width. -/
structure VI where
  val : Nat
  w : VW
  deriving DecidableEq, Repr

def VI.ok (x : VI) : Prop := x.w.fits x.val
instance (x : VI) : Decidable x.ok := by unfold VI.ok; infer_instance
def VI.enc (x : VI) : Bytes := x.w.enc x.val

inductive QFrame where
  /-- §19.1: a run of `n` PADDING frames (type 0x00, no content) -/
  | padding (n : Nat)
  /-- §19.2 PING 0x01 -/
  | ping
  /-- §19.3 ACK 0x02 / 0x03 (with ECN counts): Largest Acknowledged, ACK Delay, ACK Range Count
      (= number of ranges, sent in width `cntW`), First ACK Range, (Gap, ACK Range Length)*, [ECT0, ECT1, ECN-CE] -/
  | ack (largest delay : VI) (cntW : VW) (first : VI) (ranges : List (VI × VI)) (ecn : Option (VI × VI × VI))
  /-- §19.4 RESET_STREAM 0x04 -/
  | resetStream (sid err finalSize : VI)
  /-- §19.5 STOP_SENDING 0x05 -/
  | stopSending (sid err : VI)
  /-- §19.6 CRYPTO 0x06: Offset, Length (= data length, width `lenW`), Crypto Data -/
  | crypto (off : VI) (lenW : VW) (data : Bytes)
  /-- §19.7 NEW_TOKEN 0x07: Token Length, Token -/
  | newToken (lenW : VW) (token : Bytes)
  /-- §19.8 STREAM 0x08..0x0f: bit 0x04 OFF (`off` present), bit 0x02 LEN (`lenW` present), bit 0x01 FIN -/
  | stream (fin : Bool) (sid : VI) (off : Option VI) (lenW : Option VW) (data : Bytes)
  /-- §19.9 MAX_DATA 0x10 -/
  | maxData (max : VI)
  /-- §19.10 MAX_STREAM_DATA 0x11 -/
  | maxStreamData (sid max : VI)
  /-- §19.11 MAX_STREAMS 0x12 (bidirectional) / 0x13 (unidirectional) -/
  | maxStreams (uni : Bool) (max : VI)
  /-- §19.12 DATA_BLOCKED 0x14 -/
  | dataBlocked (max : VI)
  /-- §19.13 STREAM_DATA_BLOCKED 0x15 -/
  | streamDataBlocked (sid max : VI)
  /-- §19.14 STREAMS_BLOCKED 0x16 / 0x17 -/
  | streamsBlocked (uni : Bool) (max : VI)
  /-- §19.15 NEW_CONNECTION_ID 0x18: Sequence Number, Retire Prior To, Length (8 bits), Connection ID,
      Stateless Reset Token (128 bits) -/
  | newConnectionId (seq retire : VI) (cid token : Bytes)
  /-- §19.16 RETIRE_CONNECTION_ID 0x19 -/
  | retireConnectionId (seq : VI)
  /-- §19.17 PATH_CHALLENGE 0x1a: Data (64 bits) -/
  | pathChallenge (data : Bytes)
  /-- §19.18 PATH_RESPONSE 0x1b: Data (64 bits) -/
  | pathResponse (data : Bytes)
  /-- §19.19 CONNECTION_CLOSE 0x1c (Error Code, Frame Type, Reason Phrase Length, Reason Phrase) /
      0x1d (application: no Frame Type field; `frameType = none`) -/
  | connectionClose (err : VI) (frameType : Option VI) (lenW : VW) (reason : Bytes)
  /-- §19.20 HANDSHAKE_DONE 0x1e -/
  | handshakeDone
  /-- RFC 9221 §4 DATAGRAM 0x30 (no Length: extends to the end of the packet) / 0x31 (Length present) -/
  | datagram (lenW : Option VW) (data : Bytes)
  deriving Repr

/-- The STREAM type byte `0b00001XXX`: OFF 0x04, LEN 0x02, FIN 0x01. -/
def streamType (fin len off : Bool) : Nat :=
  8 + (if off then 4 else 0) + (if len then 2 else 0) + (if fin then 1 else 0)

def encRanges : List (VI × VI) → Bytes
  | [] => []
  | (g, l) :: rs => g.enc ++ l.enc ++ encRanges rs

def encEcn : Option (VI × VI × VI) → Bytes
  | none => []
  | some (a, b, c) => a.enc ++ b.enc ++ c.enc

def encOptVI : Option VI → Bytes
  | none => []
  | some x => x.enc

def encOptLen : Option VW → Nat → Bytes
  | none, _ => []
  | some w, n => w.enc n

def QFrame.encode : QFrame → Bytes
  | .padding n => List.replicate n 0x00
  | .ping => [0x01]
  | .ack largest delay cntW first ranges ecn =>
    [if ecn.isSome then 0x03 else 0x02] ++ largest.enc ++ delay.enc ++ cntW.enc ranges.length ++ first.enc ++
      encRanges ranges ++ encEcn ecn
  | .resetStream sid err fs => [0x04] ++ sid.enc ++ err.enc ++ fs.enc
  | .stopSending sid err => [0x05] ++ sid.enc ++ err.enc
  | .crypto off lenW data => [0x06] ++ off.enc ++ lenW.enc data.length ++ data
  | .newToken lenW token => [0x07] ++ lenW.enc token.length ++ token
  | .stream fin sid off lenW data =>
    [UInt8.ofNat (streamType fin lenW.isSome off.isSome)] ++ sid.enc ++ encOptVI off ++ encOptLen lenW data.length ++ data
  | .maxData m => [0x10] ++ m.enc
  | .maxStreamData sid m => [0x11] ++ sid.enc ++ m.enc
  | .maxStreams uni m => [if uni then 0x13 else 0x12] ++ m.enc
  | .dataBlocked m => [0x14] ++ m.enc
  | .streamDataBlocked sid m => [0x15] ++ sid.enc ++ m.enc
  | .streamsBlocked uni m => [if uni then 0x17 else 0x16] ++ m.enc
  | .newConnectionId seq retire cid token =>
    [0x18] ++ seq.enc ++ retire.enc ++ [UInt8.ofNat cid.length] ++ cid ++ token
  | .retireConnectionId seq => [0x19] ++ seq.enc
  | .pathChallenge data => [0x1a] ++ data
  | .pathResponse data => [0x1b] ++ data
  | .connectionClose err ft lenW reason =>
    [if ft.isSome then 0x1c else 0x1d] ++ err.enc ++ encOptVI ft ++ lenW.enc reason.length ++ reason
  | .handshakeDone => [0x1e]
  | .datagram lenW data => [if lenW.isSome then 0x31 else 0x30] ++ encOptLen lenW data.length ++ data

def optOk : Option VI → Prop
  | none => True
  | some x => x.ok

def optFits : Option VW → Nat → Prop
  | none, _ => True
  | some w, n => w.fits n

/-- Every value fits the width it is sent in; fixed-size fields have their size. -/
def QFrame.wf : QFrame → Prop
  | .padding n => 1 ≤ n
  | .ping => True
  | .ack largest delay cntW first ranges ecn =>
    largest.ok ∧ delay.ok ∧ cntW.fits ranges.length ∧ first.ok ∧ (∀ r ∈ ranges, r.1.ok ∧ r.2.ok) ∧
      (match ecn with | none => True | some (a, b, c) => a.ok ∧ b.ok ∧ c.ok)
  | .resetStream sid err fs => sid.ok ∧ err.ok ∧ fs.ok
  | .stopSending sid err => sid.ok ∧ err.ok
  | .crypto off lenW data => off.ok ∧ lenW.fits data.length
  | .newToken lenW token => lenW.fits token.length
  | .stream _ sid off lenW data => sid.ok ∧ optOk off ∧ optFits lenW data.length
  | .maxData m => m.ok
  | .maxStreamData sid m => sid.ok ∧ m.ok
  | .maxStreams _ m => m.ok
  | .dataBlocked m => m.ok
  | .streamDataBlocked sid m => sid.ok ∧ m.ok
  | .streamsBlocked _ m => m.ok
  | .newConnectionId seq retire cid token => seq.ok ∧ retire.ok ∧ cid.length < 256 ∧ token.length = 16
  | .retireConnectionId seq => seq.ok
  | .pathChallenge data => data.length = 8
  | .pathResponse data => data.length = 8
  | .connectionClose err ft lenW reason => err.ok ∧ optOk ft ∧ lenW.fits reason.length
  | .handshakeDone => True
  | .datagram lenW data => optFits lenW data.length

/-- Frames without an explicit length: they extend to the end of the packet. -/
def QFrame.greedy : QFrame → Bool
  | .stream _ _ _ none _ => true
  | .datagram none _ => true
  | _ => false

def QFrame.isPadding : QFrame → Bool
  | .padding _ => true
  | _ => false

/-- A packet payload's frame sequence: every frame well-formed, length-less frames only in last position. -/
def WellFormedSeq : List QFrame → Prop
  | [] => True
  | [f] => f.wf
  | f :: g :: rest => f.wf ∧ f.greedy = false ∧ WellFormedSeq (g :: rest)

/-- The payload: the frames' encodings one after the other. -/
def encodeAll (fs : List QFrame) : Bytes := (fs.map QFrame.encode).flatten

/-- Consecutive PADDING runs are one run (what a receiver can observe). -/
def normalize : List QFrame → List QFrame
  | [] => []
  | .padding a :: rest =>
    match normalize rest with
    | .padding b :: r => .padding (a + b) :: r
    | r => .padding a :: r
  | f :: rest => f :: normalize rest

end TLX.Spec.QuicFrames
