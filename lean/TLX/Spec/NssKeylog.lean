/-
Independent specification of what an NSS key log *denotes* (C09): a set of
(label, client random, secret) triples. Written declaratively — a line denotes a triple when it
*is* the triple's rendering — so that nothing of the parser under test (`TLX.Keylog`) is copied:
no splitting, no prefix matching, no character-class recogniser.

Format (NSS "SSLKEYLOGFILE", draft-ietf-tls-keylogfile): one secret per line,
`<label> <space> <64 hex digits: client random> <space> <hex digits: secret>`, hexadecimal digits
in either case; lines end with LF or CRLF; lines starting with `#` are comments; anything else
that does not look like a secret line is ignored by consumers.
-/
namespace TLX.Spec.NssKeylog

structure Triple where
  label : List Nat
  cr : List Nat
  secret : List Nat
  deriving DecidableEq, Repr

/-- Labels of the lines with a 32-byte client random in the second field (the `RSA` label has a
    different second field and is not among them). -/
def nssLabels : List (List Nat) := [
  [67, 76, 73, 69, 78, 84, 95, 82, 65, 78, 68, 79, 77],  -- CLIENT_RANDOM
  [67, 76, 73, 69, 78, 84, 95, 69, 65, 82, 76, 89, 95, 84, 82, 65, 70, 70, 73, 67, 95, 83, 69, 67, 82, 69, 84],  -- CLIENT_EARLY_TRAFFIC_SECRET
  [67, 76, 73, 69, 78, 84, 95, 72, 65, 78, 68, 83, 72, 65, 75, 69, 95, 84, 82, 65, 70, 70, 73, 67, 95, 83, 69, 67, 82, 69, 84],  -- CLIENT_HANDSHAKE_TRAFFIC_SECRET
  [83, 69, 82, 86, 69, 82, 95, 72, 65, 78, 68, 83, 72, 65, 75, 69, 95, 84, 82, 65, 70, 70, 73, 67, 95, 83, 69, 67, 82, 69, 84],  -- SERVER_HANDSHAKE_TRAFFIC_SECRET
  [67, 76, 73, 69, 78, 84, 95, 84, 82, 65, 70, 70, 73, 67, 95, 83, 69, 67, 82, 69, 84, 95, 48],  -- CLIENT_TRAFFIC_SECRET_0
  [83, 69, 82, 86, 69, 82, 95, 84, 82, 65, 70, 70, 73, 67, 95, 83, 69, 67, 82, 69, 84, 95, 48],  -- SERVER_TRAFFIC_SECRET_0
  [69, 65, 82, 76, 89, 95, 69, 88, 80, 79, 82, 84, 69, 82, 95, 83, 69, 67, 82, 69, 84],  -- EARLY_EXPORTER_SECRET
  [69, 88, 80, 79, 82, 84, 69, 82, 95, 83, 69, 67, 82, 69, 84]]  -- EXPORTER_SECRET

/-- Position of `c` in a digit string. -/
def pos? (c : Nat) : List Nat → Option Nat
  | [] => none
  | d :: ds => if c = d then some 0 else (pos? c ds).map (· + 1)

def lowerDigits : List Nat := [48, 49, 50, 51, 52, 53, 54, 55, 56, 57, 97, 98, 99, 100, 101, 102]  -- 0123456789abcdef
def upperDigits : List Nat := [48, 49, 50, 51, 52, 53, 54, 55, 56, 57, 65, 66, 67, 68, 69, 70]   -- 0123456789ABCDEF

/-- Value of a hexadecimal digit, either case. -/
def digitVal (c : Nat) : Option Nat := (pos? c lowerDigits).orElse fun _ => pos? c upperDigits

/-- `h` is a hexadecimal rendering (each digit in either case) of the byte string `b`. -/
def IsHexOf : List Nat → List Nat → Prop
  | [], [] => True
  | a :: b :: r, x :: xs => x < 256 ∧ digitVal a = some (x / 16) ∧ digitVal b = some (x % 16) ∧ IsHexOf r xs
  | _, _ => False

/-- `line` is the key-log line of `tr`, with `hc`/`hv` the hex strings used for the two fields. -/
def DenotesVia (line : List Nat) (tr : Triple) (hc hv : List Nat) : Prop :=
  line = tr.label ++ 32 :: hc ++ 32 :: hv ∧ tr.label ∈ nssLabels ∧
  IsHexOf hc tr.cr ∧ tr.cr.length = 32 ∧ IsHexOf hv tr.secret ∧ tr.secret ≠ []

def Denotes (line : List Nat) (tr : Triple) : Prop := ∃ hc hv, DenotesVia line tr hc hv

def isWordChar (c : Nat) : Bool := (65 ≤ c && c ≤ 90) || (48 ≤ c && c ≤ 57) || c == 95

/-- A line that a consumer could take for a secret line: an upper-case word, a space, 64
    hexadecimal digits, a space. Everything else (comments, blank lines, prose, lines of other
    tools) is inert. -/
def LooksLikeKey (line : List Nat) : Prop :=
  ∃ w h rest, line = w ++ 32 :: h ++ 32 :: rest ∧ w ≠ [] ∧ w.all isWordChar = true ∧
    h.length = 64 ∧ h.all (fun c => (digitVal c).isSome) = true

/-- Lines of a text: separated by LF, one CR before the LF belongs to the line end. -/
def stripCR (l : List Nat) : List Nat := if l.getLast? = some 13 then l.dropLast else l

def splitLF : List Nat → List (List Nat)
  | [] => [[]]
  | c :: cs =>
    match splitLF cs with
    | [] => [[c]]
    | h :: t => if c = 10 then [] :: h :: t else (c :: h) :: t

def lines (t : List Nat) : List (List Nat) := (splitLF t).map stripCR

/-- A key log in the sense of the property: every line is a secret line or inert, and CR occurs
    only as part of a CRLF line end. -/
def WellFormed (t : List Nat) : Prop :=
  ∀ l ∈ lines t, 13 ∉ l ∧ ((∃ tr, Denotes l tr) ∨ ¬ LooksLikeKey l)

/-- The set of triples a text denotes. -/
def HasTriple (t : List Nat) (tr : Triple) : Prop := ∃ l ∈ lines t, Denotes l tr

/-- Same set of secrets. -/
def Equivalent (t₁ t₂ : List Nat) : Prop := ∀ tr, HasTriple t₁ tr ↔ HasTriple t₂ tr

/-- One secret per (label, client random). -/
def Consistent (t : List Nat) : Prop :=
  ∀ tr tr', HasTriple t tr → HasTriple t tr' → tr.label = tr'.label → tr.cr = tr'.cr → tr.secret = tr'.secret

/-! ### the same, relative to one session (client random `cr`)

A session only ever reads the lines of its own client random, so for what it installs the rest of
the log may be anything that still has a well-formed 32-byte client-random field: secrets of other
connections, labels of other tools, damaged secrets. -/

/-- A line with a well-formed client-random field that is not `cr` (whatever its first field and
    whatever follows the second space). -/
def AlienFor (cr : List Nat) (line : List Nat) : Prop :=
  ∃ w h rest b, line = w ++ 32 :: h ++ 32 :: rest ∧ 32 ∉ w ∧ IsHexOf h b ∧ b.length = 32 ∧ b ≠ cr

def WellFormedFor (cr : List Nat) (t : List Nat) : Prop :=
  ∀ l ∈ lines t, 13 ∉ l ∧ ((∃ tr, Denotes l tr) ∨ ¬ LooksLikeKey l ∨ AlienFor cr l)

/-- Same set of secrets for client random `cr`. -/
def EquivalentFor (cr : List Nat) (t₁ t₂ : List Nat) : Prop :=
  ∀ tr, tr.cr = cr → (HasTriple t₁ tr ↔ HasTriple t₂ tr)

/-- One secret per label for client random `cr`. -/
def ConsistentFor (cr : List Nat) (t : List Nat) : Prop :=
  ∀ tr tr', HasTriple t tr → HasTriple t tr' → tr.cr = cr → tr'.cr = cr → tr.label = tr'.label →
    tr.secret = tr'.secret

end TLX.Spec.NssKeylog
