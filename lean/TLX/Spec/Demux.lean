/-
Independent specification of "each connection is exported as if it were alone" (C04): what an order-preserving merge of
captures is, what the flow of a TCP packet is, and the grouping of a capture by flow — written as a right-recursive
"first packet, then everything else of its flow, then the rest" definition that shares nothing with the session-list scan of
`handle_packet`.
-/
import TLX.MainLoop
namespace TLX.Spec.Demux
open TLX.MainLoop

/-- `m` is an interleaving of `a` and `b` that keeps the order within each of them. -/
inductive Merge {α : Type} : List α → List α → List α → Prop
  | nil : Merge [] [] []
  | left {a b m : List α} (x : α) : Merge a b m → Merge (x :: a) b (x :: m)
  | right {a b m : List α} (x : α) : Merge a b m → Merge a (x :: b) (x :: m)

/-- two packets belong to the same flow: the same unordered pair of (address, port) endpoints -/
def sameFlow (p q : Pkt) : Bool :=
  (p.src == q.src && p.dst == q.dst) || (p.src == q.dst && p.dst == q.src)

section
variable {κ σ ο : Type}

/-- a session that has seen `ps` after its first packet -/
def feedAll (M : TlsMachine κ σ ο) (s : TlsSess σ) (ps : List Pkt) : TlsSess σ :=
  ps.foldl (fun s p => { s with st := M.feed s.st p }) s

/-- what a capture holding only (packets of) one flow yields: nothing unless the first packet has a server port at one
    end; else the one session created from the first packet and fed all the others, in order -/
def alone (M : TlsMachine κ σ ο) (o : Opts) : List Pkt → Option (TlsSess σ)
  | [] => none
  | p :: ps => if candidate o p then some (feedAll M (tlsNew M o p) ps) else none

/-- the packets of the other flows -/
def others (p : Pkt) (ps : List Pkt) : List Pkt := ps.filter fun q => !sameFlow p q

theorem others_length_le (p : Pkt) (ps : List Pkt) : (others p ps).length ≤ ps.length :=
  List.length_filter_le _ _

/-- one session per flow that has a server port at one end, in order of first appearance, each with exactly the packets of
    its flow, in capture order -/
def groupByFlow (M : TlsMachine κ σ ο) (o : Opts) : List Pkt → List (TlsSess σ)
  | [] => []
  | p :: ps =>
    if candidate o p then
      feedAll M (tlsNew M o p) (ps.filter (sameFlow p)) :: groupByFlow M o (others p ps)
    else groupByFlow M o ps
termination_by l => l.length
decreasing_by
  · have := others_length_le p ps
    simp only [List.length_cons]; omega
  · simp only [List.length_cons]; omega

end

/-! ### QUIC: when is a datagram foreign to a session -/

section
variable {κ τ ο : Type}

/-- the datagram `x` has nothing a session in state `s` recognises: not its 4-tuple (either direction); long header: its
    non-empty DCID is none of the session's CIDs; short header: no non-empty CID of the session is a prefix of bytes 1.. -/
structure Apart (M : QuicMachine κ τ ο) (s : QuicSess τ) (x : QIn κ) : Prop where
  tuple : s.matches x.p = false
  long : ∀ d v, x.h = .long d v → d ≠ [] → d ∉ M.clientCids s.st ∧ d ∉ M.serverCids s.st
  short : x.h = .short → ∀ c, c ∈ M.clientCids s.st ∨ c ∈ M.serverCids s.st → c ≠ [] → ¬ c <+: x.p.payload.drop 1

/-- at no moment of the run on `A` alone does a session exist to which a (parsable) datagram of `B` is not foreign -/
def QuicSeparated (M : QuicMachine κ τ ο) (o : Opts) (A B : List (QIn κ)) : Prop :=
  ∀ n, ∀ s ∈ quicRun M o [] (A.take n), ∀ x ∈ B, x.h ≠ .tooShort → Apart M s x

end

/-! ### what of a capture reaches which handler -/

section
variable {κ : Type}

/-- the TCP packets `handle_packet` is called with, in order -/
def tcpView (o : Opts) (items : List (Item κ)) : List Pkt :=
  items.filterMap fun it => match classify o it with
    | .tls p => some p
    | _ => none

/-- the key log after the capture: the keys of its DSBs, in order, appended -/
def dsbKeys (o : Opts) (items : List (Item κ)) : List κ :=
  items.flatMap fun it => match classify o it with
    | .keys ks => ks
    | _ => []

/-- the calls of `handle_quic_packet`, each with the key log as it is when the datagram is read -/
def quicView (o : Opts) : List κ → List (Item κ) → List (QIn κ)
  | _, [] => []
  | kl, it :: rest =>
    match classify o it with
    | .keys ks => quicView o (kl ++ ks) rest
    | .quic p b0 r => ⟨kl, parseHeader1 b0 r, p⟩ :: quicView o kl rest
    | _ => quicView o kl rest

end
end TLX.Spec.Demux
