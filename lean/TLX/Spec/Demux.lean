/-
Independent specification of "each connection is exported as if it were alone" (C04): what an order-preserving merge of
captures is, what the flow of a TCP packet is, and the grouping of a capture by flow — written as a right-recursive
"first packet, then everything else of its flow, then the rest" definition that shares nothing with the session-list scan of
`handle_packet`.
-/
import TLX.MainLoop
namespace TLX.Spec.Demux
open TLX.MainLoop

/-- `m` is an interleaving of `a` and `b` that keeps the order within each of them. -/
inductive Merge {α : Type} : List α → List α → List α → Prop
  | nil : Merge [] [] []
  | left {a b m : List α} (x : α) : Merge a b m → Merge (x :: a) b (x :: m)
  | right {a b m : List α} (x : α) : Merge a b m → Merge a (x :: b) (x :: m)

/-- two packets belong to the same flow: the same unordered pair of (address, port) endpoints -/
def sameFlow (p q : Pkt) : Bool :=
  (p.src == q.src && p.dst == q.dst) || (p.src == q.dst && p.dst == q.src)

section
variable {κ σ ο : Type}

/-- a session that has seen `ps` after its first packet -/
def feedAll (M : TlsMachine κ σ ο) (s : TlsSess σ) (ps : List Pkt) : TlsSess σ :=
  ps.foldl (fun s p => { s with st := M.feed s.st p }) s

/-- what a capture holding only (packets of) one flow yields: nothing unless the first packet has a server port at one
    end; else the one session created from the first packet and fed all the others, in order -/
def alone (M : TlsMachine κ σ ο) (o : Opts) : List Pkt → Option (TlsSess σ)
  | [] => none
  | p :: ps => if candidate o p then some (feedAll M (tlsNew M o p) ps) else none

/-- the packets of the other flows -/
def others (p : Pkt) (ps : List Pkt) : List Pkt := ps.filter fun q => !sameFlow p q

theorem others_length_le (p : Pkt) (ps : List Pkt) : (others p ps).length ≤ ps.length :=
  List.length_filter_le _ _

/-- one session per flow that has a server port at one end, in order of first appearance, each with exactly the packets of
    its flow, in capture order -/
def groupByFlow (M : TlsMachine κ σ ο) (o : Opts) : List Pkt → List (TlsSess σ)
  | [] => []
  | p :: ps =>
    if candidate o p then
      feedAll M (tlsNew M o p) (ps.filter (sameFlow p)) :: groupByFlow M o (others p ps)
    else groupByFlow M o ps
termination_by l => l.length
decreasing_by
  · have := others_length_le p ps
    simp only [List.length_cons]; omega
  · simp only [List.length_cons]; omega

end
end TLX.Spec.Demux
