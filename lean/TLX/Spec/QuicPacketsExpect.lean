/-
What a correct dissector reports for the packets of TLX/Spec/QuicPackets.lean, in the vocabulary of the dissected
packet structure `TLX.Quic.Pkt` (the attributes of tlexport's LongQuicPacket / ShortQuicPacket): every header field as
the bytes the sender put on the wire, first byte and packet number WITHOUT header protection. No reference to the
dissector model. Also which header-protection key and algorithm the sender used (RFC 9001 §5.1/§5.2/§5.4).
-/
import TLX.Spec.QuicPackets
import TLX.Quic.Packet
namespace TLX.Spec.QuicPackets
open TLX TLX.Quic

def LType.ptype : LType → PType
  | .initial => .initial
  | .zeroRtt => .rtt0
  | .handshake => .handshake

def Long.toPkt (p : Long) (fromServer : Bool) (ts : Nat) : Pkt :=
  { htype := .long, ptype := p.ty.ptype, isServer := fromServer, ts := ts, firstByte := [p.first],
    version := some p.version, dcidLen := some [UInt8.ofNat p.dcid.length], dcid := p.dcid,
    scidLen := some [UInt8.ofNat p.scid.length], scid := some p.scid,
    tokenLenBytes := match p.ty with | .initial => some (p.tokenW.enc p.token.length) | _ => none,
    token := match p.ty with | .initial => some p.token | _ => none,
    lenBytes := some p.lengthField, pn := some p.pn, payload := some p.payload }

def Short.toPkt (p : Short) (fromServer : Bool) (ts : Nat) : Pkt :=
  { htype := .short, ptype := .rtt1, isServer := fromServer, ts := ts, firstByte := [p.first], dcid := p.dcid,
    pn := some p.pn, payload := some p.payload, keyPhase := some (if p.keyPhase then 1 else 0) }

def Retry.toPkt (p : Retry) (fromServer : Bool) (ts : Nat) : Pkt :=
  { htype := .long, ptype := .retry, isServer := fromServer, ts := ts, firstByte := [p.first],
    version := some p.version, dcidLen := some [UInt8.ofNat p.dcid.length], dcid := p.dcid,
    scidLen := some [UInt8.ofNat p.scid.length], scid := some p.scid,
    retryToken := some p.token, retryTag := some p.tag }

/-- tlexport keeps no Supported Version list (a constant empty tuple): only the connection IDs are reported -/
def VerNeg.toPkt (p : VerNeg) (fromServer : Bool) (ts : Nat) : Pkt :=
  { htype := .long, ptype := .versionNeg, isServer := fromServer, ts := ts, firstByte := [p.first],
    version := some [0, 0, 0, 0], dcidLen := some [UInt8.ofNat p.dcid.length], dcid := p.dcid,
    scidLen := some [UInt8.ofNat p.scid.length], scid := some p.scid }

end TLX.Spec.QuicPackets
