/-
Independent specification: a textbook TCP stream reassembler/validator for one conversation as a sequence of
abstract frames. It accepts a conversation only if it opens with SYN / SYN-ACK / ACK with consistent numbers and
every later segment starts exactly at the running sequence number of its direction (no gap, no overlap) and
acknowledges exactly what the peer has sent so far; it returns the two byte streams.
-/
import TLX.TcpOut
namespace TLX.Spec
open TLX.TcpOut

structure RS where
  cNext : Nat
  sNext : Nat
  c2s : Bytes
  s2c : Bytes
  deriving Repr

def reasmStep (st : Option RS) (f : Frame) : Option RS :=
  st.bind fun s =>
    if f.flags = 0x18 ∨ f.flags = 0x10 then
      if f.fromServer then
        if f.seq = s.sNext ∧ f.ack = s.cNext then
          some { s with sNext := s.sNext + f.payload.length, s2c := s.s2c ++ f.payload }
        else none
      else
        if f.seq = s.cNext ∧ f.ack = s.sNext then
          some { s with cNext := s.cNext + f.payload.length, c2s := s.c2s ++ f.payload }
        else none
    else none

def handshakeOk (a b c : Frame) : Bool :=
  a.flags == 0x02 && !a.fromServer && a.payload.isEmpty &&
  b.flags == 0x12 && b.fromServer && b.ack == a.seq + 1 && b.payload.isEmpty &&
  c.flags == 0x10 && !c.fromServer && c.seq == a.seq + 1 && c.ack == b.seq + 1 && c.payload.isEmpty

/-- `some (client→server bytes, server→client bytes)` iff the frame list is a well-formed conversation
    (the empty list is the legitimately empty export) -/
def reassemble : List Frame → Option (Bytes × Bytes)
  | [] => some ([], [])
  | a :: b :: c :: rest =>
    if handshakeOk a b c then
      (rest.foldl reasmStep (some ⟨a.seq + 1, b.seq + 1, [], []⟩)).map fun s => (s.c2s, s.s2c)
    else none
  | _ => none

end TLX.Spec
