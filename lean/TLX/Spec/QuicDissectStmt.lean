/-
Statement vocabulary of the C02 dissector theorems (TLX/Props/C02Dissect.lean). Definitions only; the dissector model
is imported for its TYPES (`Env`, `KeyName`, `MaskFn`, `Out`), none of its functions is used here.

  `senderKey`, `senderChacha`   which header-protection key and algorithm the SENDER of a packet used
  `LongOK`, `LongsOK`           a protected long-header packet as a conformant sender emits it, for a receiver that
                                holds the sender's key under the right name; a sequence of them where the keys may
                                arrive while the datagram is being processed
  `Tail`, `TailOK`              what may follow the long-header packets of a datagram (RFC 9000 §12.2: a short-header
                                packet only last; §14.1-style zero padding of the datagram)
  `Chain`                       the calls of the coalescing loop tile the datagram
-/
import TLX.Quic.Dissect
import TLX.Spec.QuicPacketsExpect
namespace TLX.Spec.QuicPackets
open TLX TLX.Quic TLX.Quic.Dissect

/-- RFC 9001 §5.1: one set of keys per encryption level and direction; 0-RTT packets are only sent by clients -/
def senderKey : LType → Bool → KeyName
  | .initial, true => .serverInitial
  | .initial, false => .clientInitial
  | .handshake, true => .serverHandshake
  | .handshake, false => .clientHandshake
  | .zeroRtt, _ => .clientEarly

/-- RFC 9001 §5.2: Initial packets always use AEAD_AES_128_GCM, hence the AES-based header protection of §5.4.3;
    the other levels use the negotiated suite (`c` = it is TLS_CHACHA20_POLY1305_SHA256) -/
def senderChacha : LType → Bool → Bool
  | .initial, _ => false
  | _, c => c

/-- `(p, m)`: the packet `p` was protected with the mask `m`; the receiver's key table has the sender's key and the
    primitive returns `m` (≥ 5 bytes) for the RFC 9001 §5.4.2 sample.
      `p.wf`                encodable (8-bit CID lengths, varints fit, pn 1..4 bytes, 2 reserved bits)
      `version ≠ 0`         RFC 9000 §17.2.1: version 0 is Version Negotiation
      `scid.length ≤ 63`    CODE LIMIT (`scid_len` decoded as a varint); RFC 9000 v1: ≤ 20
      `20 ≤ pn + payload`   RFC 9001 §5.4.2: the sender pads so that the 16-byte sample exists -/
def LongOK (mask : MaskFn) (env : Env) (fromServer : Bool) (x : Long × Bytes) : Prop :=
  x.1.wf ∧ x.1.version ≠ [0, 0, 0, 0] ∧ x.1.scid.length ≤ 63 ∧ 20 ≤ x.1.pn.length + x.1.payload.length ∧
  5 ≤ x.2.length ∧
  ∃ key, env.keys (senderKey x.1.ty fromServer) = some key ∧
    mask (senderChacha x.1.ty env.chacha) key x.1.sample = some x.2

/-- the same along a datagram: packet `i` is judged against the keys the session holds after packets `< i` were
    handled (`handle_quic_packet` derives the Handshake keys from the Initial of the same datagram) -/
def LongsOK {σ : Type} (mask : MaskFn) (envOf : σ → Env) (handle : σ → List Pkt → σ) (fromServer : Bool) (ts : Nat) :
    σ → List (Long × Bytes) → Prop
  | _, [] => True
  | s, x :: xs => LongOK mask (envOf s) fromServer x ∧
      LongsOK mask envOf handle fromServer ts (handle s [x.1.toPkt fromServer ts]) xs

/-- the state after the packets of `xs` were handled one by one -/
def afterLongs {σ : Type} (handle : σ → List Pkt → σ) (fromServer : Bool) (ts : Nat) : σ → List (Long × Bytes) → σ
  | s, [] => s
  | s, x :: xs => afterLongs handle fromServer ts (handle s [x.1.toPkt fromServer ts]) xs

inductive Tail
  | none
  | short (p : Short) (m : Bytes)
  | zeros (n : Nat)

def Tail.bytes : Tail → Bytes
  | .none => []
  | .short p m => p.protect m
  | .zeros n => List.replicate n 0

def Tail.pkts (fromServer : Bool) (ts : Nat) : Tail → List Pkt
  | .short p _ => [p.toPkt fromServer ts]
  | _ => []

/-- a short-header tail: as `LongOK`; the connection ID the session guessed for the datagram is the packet's
    (RFC 9000 §12.2: all packets of a datagram carry the same destination connection ID) -/
def TailOK (mask : MaskFn) (env : Env) (fromServer : Bool) (guessed : Bytes) : Tail → Prop
  | .short p m => p.wf ∧ 20 ≤ p.pn.length + p.payload.length ∧ 5 ≤ m.length ∧ guessed = p.dcid ∧
      ∃ key, env.keys (if fromServer then .serverApplication else .clientApplication) = some key ∧
        mask env.chacha key p.sample = some m
  | _ => True

/-- the calls of the loop form a chain: each is given the non-empty remainder the previous one left, each remainder
    is a proper suffix `d[t:]`, `t ≥ 1`, of what the call was given (consumed or dropped: `t = len(d)`), each call
    yields at most one packet, and the last one leaves nothing -/
def Chain : Bytes → List (Bytes × Out) → Prop
  | d, [] => d = []
  | d, (i, o) :: tr => i = d ∧ d ≠ [] ∧ (∃ t, 1 ≤ t ∧ o.rest = d.drop t) ∧ o.pkts.length ≤ 1 ∧ Chain o.rest tr

end TLX.Spec.QuicPackets
