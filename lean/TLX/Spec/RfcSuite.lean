/-
What a negotiated cipher suite means for the SENDER of a TLS connection, in RFC terms only (used by `Props/C01Rfc`):

  `suiteOfCode`     code point ─IANA registry copy (`Spec.Iana`)→ name ─`Spec.denote`→ bulk cipher, key length, hash, tag length
  `cls13`, `cls12`  the record protection of RFC 8446 §5 / RFC 5246 §6.2.3 (RFC 2246, RFC 6101; RFC 7366 encrypt-then-MAC;
                    RFC 5288 / 6655 / 7905 AEAD) the suite selects in a protocol version
  `secParams`       RFC 5246 §6.1 SecurityParameters lengths (mac_key_length, enc_key_length, fixed_iv_length) + PRF hash
  `snd13`           RFC 8446 §7.3: write key / IV = HKDF-Expand-Label(traffic secret, "key" / "iv", "", …) with the suite's hash
  `snd12`           RFC 5246 §6.3 (RFC 2246 §6.3, RFC 6101 §6.2.2): the key block of the master secret, partitioned
  `etmNegotiated`   RFC 7366: the ServerHello carries extension 22
  `label…`          the NSS key-log labels, written as text

Nothing here looks at the tool or its model: no `CipherSuite.resolve`, no `Pipeline.*`, no `KeySchedule.*`.
Core Lean only.
-/
import TLX.Spec.IanaRegistry
import TLX.Spec.Denote
import TLX.Spec.KeySchedules
import TLX.Spec.TlsConnection
namespace TLX.Spec.RfcSuite
open TLX TLX.Tok TLX.Crypto TLX.Cipher TLX.CipherSuite TLX.Spec.KeySchedules TLX.Spec.TlsSender TLX.Spec.TlsConnection

/-- the hash a suite name ends in (`_MD5`, `_SHA`, `_SHA256`, `_SHA384`; none: SHA-256) -/
inductive HashName | md5 | sha1 | sha256 | sha384
  deriving DecidableEq, Repr

def HashName.suite (H : Crypto.Prims) : HashName → HashSuite
  | .md5 => H.md5 | .sha1 => H.sha1 | .sha256 => H.sha256 | .sha384 => H.sha384

/-- what a cipher-suite name denotes -/
structure SuiteSpec where
  bulk : Bulk
  /-- enc_key_length, bytes -/
  keyLen : Nat
  /-- the MAC hash (non-AEAD suites) / the hash of the TLS 1.2 PRF and of the TLS 1.3 HKDF -/
  hash : HashName
  /-- AEAD tag length, bytes (16; 8 for `_CCM_8`) -/
  tagLen : Nat
  deriving DecidableEq, Repr

/-! ### reading `Spec.denote`'s vocabulary -/

def bulkOfCls (c : List Nat) : Option Bulk :=
  if c = t_AES then some .aesCbc else if c = t_Camellia then some .camelliaCbc
  else if c = t_TripleDES then some .tripleDesEdeCbc else if c = t_IDEA then some .ideaCbc
  else if c = t_ARC4 then some .rc4_128 else if c = t_AESGCM then some .aesGcm else if c = t_AESCCM then some .aesCcm
  else if c = t_ChaCha20Poly1305 then some .chacha20Poly1305 else none

def hashOfCls (c : List Nat) : Option HashName :=
  if c = t_MD5 then some .md5 else if c = t_SHA1 then some .sha1 else if c = t_SHA256 then some .sha256
  else if c = t_SHA384 then some .sha384 else none

def ofDenoted (ps : List (List Nat × Val)) : Option SuiteSpec :=
  match ps with
  | [(k1, .tup c _), (k2, _), (k3, .int kl), (k4, .cls m), (k5, .int tg)] =>
    if k1 = t_CryptoAlgo ∧ k2 = t_Mode ∧ k3 = t_KeyLength ∧ k4 = t_MAC ∧ k5 = t_TagLength then
      match bulkOfCls c, hashOfCls m with
      | some b, some h => some ⟨b, kl, h, tg⟩
      | _, _ => none
    else none
  | _ => none

/-- the suite of a code point: its name in the IANA registry, and what the name denotes -/
def suiteOfCode (cs : Nat) : Option SuiteSpec :=
  (Spec.Iana.lookup cs).bind fun n => (Spec.denote n).bind ofDenoted

/-! ### record protection -/

/-- RFC 8446 B.4: the AEAD of a TLS 1.3 suite -/
def cls13 (sp : SuiteSpec) : Option CipherClass :=
  match sp.bulk with
  | .aesGcm => some (.aead13 .aesgcm sp.tagLen)
  | .aesCcm => some (.aead13 .aesccm sp.tagLen)
  | .chacha20Poly1305 => some .chacha13
  | _ => none

/-- the block cipher of a CBC suite -/
def cbcAlg : Bulk → Option Alg
  | .aesCbc => some .aes | .camelliaCbc => some .camellia | .tripleDesEdeCbc => some .tdes | .ideaCbc => some .idea
  | _ => none

/-- SSL 3.0 … TLS 1.2: RC4 (stream), CBC with the IV chained from the previous record (SSL 3.0, TLS 1.0) or explicit in each
    record (TLS 1.1, 1.2), MAC-then-encrypt or — RFC 7366 — encrypt-then-MAC; the TLS 1.2 AEADs -/
def cls12 (pv : ProtocolVersion) (etm : Bool) (sp : SuiteSpec) : Option CipherClass :=
  match sp.bulk with
  | .rc4_128 => some .stream
  | .aesGcm => if pv = .tls12 then some (.aead12 .aesgcm sp.tagLen) else none
  | .aesCcm => if pv = .tls12 then some (.aead12 .aesccm sp.tagLen) else none
  | .chacha20Poly1305 => if pv = .tls12 then some .chacha12 else none
  | .camelliaGcm => none
  | b =>
    (cbcAlg b).map fun a => if pv = .ssl30 ∨ pv = .tls10 then .cbcImplicit a etm else .cbcExplicit a etm

/-- RFC 5246 A.5: the AEAD suites and the suites with a SHA-256 / SHA-384 MAC are TLS 1.2 suites -/
def ValidFor (sp : SuiteSpec) (pv : ProtocolVersion) : Prop :=
  (sp.bulk.isAead = true ∨ sp.hash = .sha256 ∨ sp.hash = .sha384) → pv = .tls12

instance (sp : SuiteSpec) (pv : ProtocolVersion) : Decidable (ValidFor sp pv) := by unfold ValidFor; infer_instance

/-- RFC 7366: encrypt-then-MAC is in force when the ServerHello carries the extension (type 22) -/
def etmNegotiated (sh : TlsHello.ServerHello) : Bool := (sh.extensions.getD []).any fun e => e.ty == 22

/-! ### keys -/

/-- RFC 5246 §6.1 SecurityParameters of the suite in the version -/
def secParams (H : Crypto.Prims) (pv : ProtocolVersion) (sp : SuiteSpec) : SecurityParameters :=
  { prfHash := tls12PrfHash H (sp.hash = .sha384)
    macKeyLength := if sp.bulk.isAead then 0 else (sp.hash.suite H).outLen
    encKeyLength := sp.keyLen
    fixedIvLength := recordIvLength pv sp.bulk }

/-- the two write states after ChangeCipherSpec: keys and IVs of the key block (§6.3), sequence numbers 0 -/
def snd12 (H : Crypto.Prims) (pv : ProtocolVersion) (sp : SuiteSpec) (master clientRandom serverRandom : Bytes) : Snd :=
  let km := connectionKeys H pv (secParams H pv sp) master clientRandom serverRandom
  ⟨SDir.init km.clientWriteKey km.clientWriteIv [] [], SDir.init km.serverWriteKey km.serverWriteIv [] []⟩

/-- RFC 8446 §7.3: handshake traffic keys first, application traffic keys after the side's Finished -/
def snd13 (H : Crypto.Prims) (sp : SuiteSpec) (chts shts cats sats : Bytes) : Snd :=
  let h := sp.hash.suite H
  ⟨SDir.init (tls13WriteKey h chts sp.keyLen) (tls13WriteIv h chts) (tls13WriteKey h cats sp.keyLen) (tls13WriteIv h cats),
   SDir.init (tls13WriteKey h shts sp.keyLen) (tls13WriteIv h shts) (tls13WriteKey h sats sp.keyLen) (tls13WriteIv h sats)⟩

/-! ### NSS key-log labels -/

def ascii (s : String) : List Nat := s.toList.map (·.toNat)

def labelClientRandom : List Nat := ascii "CLIENT_RANDOM"
def labelCHTS : List Nat := ascii "CLIENT_HANDSHAKE_TRAFFIC_SECRET"
def labelSHTS : List Nat := ascii "SERVER_HANDSHAKE_TRAFFIC_SECRET"
def labelCTS0 : List Nat := ascii "CLIENT_TRAFFIC_SECRET_0"
def labelSTS0 : List Nat := ascii "SERVER_TRAFFIC_SECRET_0"

end TLX.Spec.RfcSuite
