/-
Independent specification for the packet-level part of C02: an RFC 9000 / RFC 9001 *sender*, at the abstraction
level of dissected packets (`TLX.Quic.Pkt` is the interface type: the header as the list of its fields).
Nothing here refers to the model's functions (`TLX/Quic/Session.lean`); only the *types* of the cryptographic
parameters are shared (`Cipher.Alg`, `Session.DirKeys`, `Session.AppKeys` — as `Cipher.Prims` is shared between
`RecordLayer` and `Spec.TlsSender`).

What the sender does for one packet (`SPkt`):
  * RFC 9000 §17.1: the packet number `pn` is sent as its `pnLen ∈ 1..4` least significant bytes (`pnBytes`).
    "the sender MUST use a packet number size able to represent more than twice as large a range as the difference
    between the largest acknowledged packet number and the packet number being sent" — the receiver (A.3) then
    recovers every number within half a window of `largest + 1`. For a passive observer `largest` is the largest
    number already captured in that space and direction: `PnLenOk largest pn pnLen` (the window of `Props/C16`).
  * RFC 9000 §17.2 / §17.3: header layout (`longHeader`, `shortHeader`); the first byte carries form, fixed bit,
    type / spin, reserved bits (any value), key phase and `pnLen − 1`.
  * RFC 9001 §5.3: "The nonce, N, is formed by combining the packet protection IV with the packet number. The 62 bits
    of the reconstructed QUIC packet number in network byte order are left-padded with zeros to the size of the IV.
    The exclusive OR of the padded packet number and the IV forms the AEAD nonce." (`nonce`) "The associated data,
    A, for the AEAD is the contents of the QUIC header, starting from the first byte of either the short or long
    header, up to and including the unprotected packet number." "The input plaintext, P, for the AEAD is the
    payload of the QUIC packet" = the frames one after the other (`Spec.QuicFrames.encodeAll`).
  * RFC 9001 §6: "The Key Phase bit is initially set to 0 for the first set of 1-RTT packets and toggled to signal
    each subsequent key update." → bit = generation mod 2; §6.1 the generation-(g+1) secrets are derived from the
    generation-g secrets (`genKeys` iterates the derivation `ku`).

Conformant key-update histories (`KeyUpdateConformant`): per direction, in capture order, the generation never
decreases and grows by at most one per packet. Justification:
  * RFC 9001 §6.4: "Packets with higher packet numbers MUST be protected with either the same or newer packet
    protection keys than packets with lower packet numbers." → non-decreasing (capture order = sending order of one
    direction; the tool cannot undo reordering across a key update, which the predicate therefore excludes).
  * RFC 9001 §6.1: "An endpoint MUST NOT initiate a subsequent key update unless it has received an acknowledgment
    for a packet that was sent protected with keys from the current key phase." → between two updates of one side at
    least one packet of the intermediate generation was sent and reached the peer, i.e. passed the capture point:
    no generation is skipped.
  * §6.1/§6.2 together also bound the two directions to differ by at most one generation (`RfcInitiation`: a side
    shows generation g+1 only after the peer has shown generation ≥ g). The theorems do NOT need this cross-direction
    clause (the tool keeps every generation's keys), so they hold for a superset of the RFC-conformant histories.
-/
import TLX.Quic.Session
import TLX.Spec.QuicFrames
namespace TLX.Spec.QuicSender
open TLX TLX.Quic TLX.Cipher TLX.Spec.QuicFrames
open TLX.Quic.Session (DirKeys AppKeys)

/-- RFC 9000 §17.1: the `n` least significant bytes of the packet number, network byte order -/
def pnBytes (n pn : Nat) : Bytes := Bytes.ofNatBE n (pn % 2 ^ (8 * n))

/-- RFC 9000 §17.1 / A.2–A.3 window: `n` bytes are enough for `pn` when the largest number seen so far is `largest` -/
def PnLenOk (largest pn n : Nat) : Prop :=
  (1 ≤ n ∧ n ≤ 4) ∧ largest + 1 < pn + 2 ^ (8 * n) / 2 ∧ pn < largest + 1 + 2 ^ (8 * n) / 2 ∧
  pn + 2 ^ (8 * n) < 2 ^ 62

/-- RFC 9001 §5.3 -/
def nonce (iv : Bytes) (pn : Nat) : Bytes := List.zipWith (· ^^^ ·) iv (Bytes.ofNatBE iv.length pn)

inductive Level | initial | zeroRtt | handshake | oneRtt
  deriving DecidableEq, Repr

def Level.ptype : Level → PType
  | .initial => .initial | .zeroRtt => .rtt0 | .handshake => .handshake | .oneRtt => .rtt1

/-- what the sender decides for one packet -/
structure SPkt where
  level : Level
  srv : Bool
  ts : Nat
  pn : Nat
  pnLen : Nat
  frames : List QFrame
  dcid : Bytes
  /-- reserved bits (and spin bit for short headers): any value, they are protected and authenticated only -/
  lowBits : Nat := 0
  -- long header
  version : Bytes := [0, 0, 0, 1]
  typeBits : Nat := 0
  scid : Bytes := []
  token : Bytes := []
  tokW : VW := ⟨0, by omega⟩
  lenW : VW := ⟨1, by omega⟩
  -- short header: key generation
  gen : Nat := 0

/-- first byte of a long header: form 1, fixed 1, type (2 bits), reserved (2 bits), pn length − 1 (2 bits) -/
def firstByteLong (x : SPkt) : UInt8 :=
  UInt8.ofNat (0xC0 + (x.typeBits % 4) * 16 + (x.lowBits % 4) * 4 + (x.pnLen - 1) % 4)

/-- first byte of a short header: form 0, fixed 1, spin, reserved (2), KEY PHASE, pn length − 1 -/
def firstByteShort (x : SPkt) : UInt8 :=
  UInt8.ofNat (0x40 + (x.lowBits % 8) * 8 + (x.gen % 2) * 4 + (x.pnLen - 1) % 4)

/-- Token Length + Token exist in Initial packets only (§17.2.2) -/
def tokenPart (x : SPkt) : Bytes :=
  if x.level = .initial then x.tokW.enc x.token.length ++ x.token else []

/-- the Length field counts the packet number and the protected payload (plaintext + 16-byte tag) -/
def lengthField (x : SPkt) : Bytes := x.lenW.enc (x.pnLen + (encodeAll x.frames).length + 16)

/-- RFC 9000 §17.2: the unprotected long header up to and including the packet number -/
def longHeader (x : SPkt) : Bytes :=
  [firstByteLong x] ++ x.version ++ [UInt8.ofNat x.dcid.length] ++ x.dcid ++ [UInt8.ofNat x.scid.length] ++ x.scid ++
    tokenPart x ++ lengthField x ++ pnBytes x.pnLen x.pn

/-- RFC 9000 §17.3.1 -/
def shortHeader (x : SPkt) : Bytes := [firstByteShort x] ++ x.dcid ++ pnBytes x.pnLen x.pn

def header (x : SPkt) : Bytes := if x.level = .oneRtt then shortHeader x else longHeader x

abbrev Seal := Alg → (key nonce aad : Bytes) → (tagLen : Nat) → (pt : Bytes) → Bytes

/-- RFC 9001 §5.3: the protected payload -/
def protectedPayload (sealFn : Seal) (alg : Alg) (k : DirKeys) (x : SPkt) : Bytes :=
  sealFn alg k.key (nonce k.iv x.pn) (header x) 16 (encodeAll x.frames)

/-- the packet as a dissector that removed header protection reports it -/
def emit (sealFn : Seal) (alg : Alg) (k : DirKeys) (x : SPkt) : Pkt :=
  if x.level = .oneRtt then
    { htype := .short, ptype := .rtt1, isServer := x.srv, ts := x.ts, firstByte := [firstByteShort x], dcid := x.dcid,
      pn := some (pnBytes x.pnLen x.pn), payload := some (protectedPayload sealFn alg k x),
      keyPhase := some (x.gen % 2) }
  else
    { htype := .long, ptype := x.level.ptype, isServer := x.srv, ts := x.ts, firstByte := [firstByteLong x],
      version := some x.version, dcidLen := some [UInt8.ofNat x.dcid.length], dcid := x.dcid,
      scidLen := some [UInt8.ofNat x.scid.length], scid := some x.scid,
      tokenLenBytes := if x.level = .initial then some (x.tokW.enc x.token.length) else none,
      token := if x.level = .initial then some x.token else none,
      lenBytes := some (lengthField x), pn := some (pnBytes x.pnLen x.pn),
      payload := some (protectedPayload sealFn alg k x) }

/-- RFC 9001 §6.1: generation `g` of the 1-RTT keys; `ku` maps the two secrets of a generation to the next one -/
def genKeys (ku : (serverSec clientSec : Bytes) → AppKeys) (k0 : AppKeys) : Nat → AppKeys
  | 0 => k0
  | g + 1 => ku (genKeys ku k0 g).serverSec (genKeys ku k0 g).clientSec

/-- the sender's 1-RTT key of direction `srv` in generation `g` -/
def genDir (ku : Bytes → Bytes → AppKeys) (k0 : AppKeys) (srv : Bool) (g : Nat) : DirKeys :=
  if srv then (genKeys ku k0 g).server else (genKeys ku k0 g).client

/-- per direction, in capture order: the generation never decreases and grows by at most one per packet.
    `gc`, `gs`: the generation each direction has shown so far (0 before the first 1-RTT packet). -/
def KeyUpdateConformant : (gc gs : Nat) → List (Bool × Nat) → Prop
  | _, _, [] => True
  | gc, gs, (srv, g) :: rest =>
    (if srv then gs else gc) ≤ g ∧ g ≤ (if srv then gs else gc) + 1 ∧
    KeyUpdateConformant (if srv then gc else g) (if srv then g else gs) rest

/-- the cross-direction clause of RFC 9001 §6.1/§6.2 (not needed by the theorems): a side moves to generation
    g+1 only after the peer has shown generation ≥ g -/
def RfcInitiation : (gc gs : Nat) → List (Bool × Nat) → Prop
  | _, _, [] => True
  | gc, gs, (srv, g) :: rest =>
    (g = (if srv then gs else gc) + 1 → (if srv then gs else gc) ≤ (if srv then gc else gs)) ∧
    RfcInitiation (if srv then gc else g) (if srv then g else gs) rest

/-- which frames of a packet the exporter has to deliver (C02: STREAM data; CRYPTO frames feed the metadata
    export), as the parser reports them (consecutive PADDING merged: `normalize`) -/
def exported (fs : List QFrame) : List QFrame :=
  (normalize fs).filter fun f => match f with | .stream .. => true | .crypto .. => true | _ => false

end TLX.Spec.QuicSender
