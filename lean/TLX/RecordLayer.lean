/-
Model of `tlexport/decryptor.py` — the per-record decryption state machine `Decryptor` (C01, record layer).

Source map (line numbers of /repo/tlexport/decryptor.py):
  `Dec.init`            __init__ 27-65 (EtM flag from extension 0x0016 is the `etm` input; tag-length default 45-47),
                        get_cipher_type 67-84, parse_keys 86-119 (TLS 1.3 fallback 97-107)
  `tls13Aead`           decrypt_tls13_aead 122-165
  `tls13Stream`         decrypt_tls13_stream_cipher 167-202
  `genericStream`       decrypt_generic_stream_cipher 204-222
  `tls12Aead`           decrypt_tls12_aead 224-270
  `tls12Block`          decrypt_tls12_block_cipher 272-328
  `tls12Chacha`         decrypt_tls12_chacha20 330-370
  `lastBlockCbc`        decrypt_last_block_iv_cbc 372-423
  `Dec.decrypt`         decrypt 425-445 (falls off the end ⇒ returns `None`)
  `Dec.updateKeys`      update_keys 447-463
  `byteXor`             byte_xor 476-485
  `Rec.ofRaw`           tlsrecord.py TlsRecord.__init__

The source's `if isserver: … server_* … else: … client_* …` pairs are symmetric in every routine; the model keeps
one `DirSt` per direction and selects with `Dec.get srv` (an asymmetric edit of the source shows up in the
correspondence run, which compares both directions after every record).

Python traps mirrored: `decrypted[:-mac_length]` and `ciphertext[:-mac_length]` are EMPTY for mac_length 0
(`Bytes.cutEnd`); `decrypted[-1]` on empty ⇒ IndexError; `decrypted[:-(padding_length+1)]` clamps;
`int(self.block_length / 8)` and `ciphertext[-index:]` (index 0 ⇒ the whole ciphertext); `record.raw[:3]`;
`(len(record.binary) - 8 - tag_length).to_bytes(2,'big')` ⇒ OverflowError when negative or ≥ 65536; `cipher`
unbound when `bulk_alg` is neither AESGCM nor AESCCM (UnboundLocalError); `block_size` unbound in the TLS 1.1/1.2
block routine for a non-block algorithm; `last_block_*`, `*_cipher`, `*_handshake_*` attributes that were never
assigned (AttributeError); `key.hex()` / `iv.hex()` inside the logging f-strings on a `None` key (AttributeError,
evaluated whatever the log level); `byte_xor` with an IV shorter than 8 bytes (`bytes(negative)` ⇒ ValueError).

State and exceptions: a result carries the new state also in the error case (`Res`). Reading the source routine
by routine, every mutation (`*_seq += 1`, `last_block_* = …`, the RC4 keystream position) happens after the last
statement of the routine that can raise (compression excluded), so an exception leaves the state unchanged:
`Dec.decrypt_err_state` below proves this for the model, and the correspondence run checks it on the real object.

Not modelled: compression (`inflate`, `compression_method = 1`) — not claimed by C01; logging; `mac_alg`,
`bulk_mode`, `key_length`, `client_mac/server_mac` (stored, never read by decrypt); a `keys` dict with missing
entries (KeyError; key_derivator always fills every entry, possibly with `None`); `mac_length`/`block_length`
that are not ints.

Core Lean only.
-/
import TLX.Crypto.Prims
namespace TLX.RecordLayer
open TLX TLX.Cipher

/-- `TlsVersion` (tlsversion.py). -/
inductive Version | ssl30 | tls10 | tls11 | tls12 | tls13 | undefined
  deriving DecidableEq, Repr

/-- `EncryptionType` (decryptor.py 19-23). -/
inductive CType | stream | block | aead | unknown
  deriving DecidableEq, Repr

/-- get_cipher_type 67-84. -/
def cipherType : Alg → CType
  | .aesccm | .aesgcm => .aead
  | .aes | .tdes | .camellia | .idea => .block
  | .chacha20 | .chachaPoly | .arc4 => .stream
  | .none => .unknown

/-- `TlsRecord`: `record_type = binary[0]`, `record_version = binary[1:3]`, `record_length = binary[3:5]`,
    `binary = binary[5:]`, `raw = binary`. -/
structure Rec where
  typ : UInt8
  ver : Bytes
  len : Bytes
  body : Bytes
  raw : Bytes
  deriving Repr

def Rec.ofRaw : Bytes → Py Rec
  | [] => .error .index
  | t :: rest => .ok { typ := t, ver := Bytes.slice (t :: rest) 1 3, len := Bytes.slice (t :: rest) 3 5,
                       body := (t :: rest).drop 5, raw := t :: rest }

/-- Per-direction mutable state (`client_*` / `server_*` attributes). `none` = `None` or never assigned. -/
structure DirSt where
  key : Option Bytes
  iv : Option Bytes
  seq : Nat
  /-- `last_block_*`: assigned in `__init__` only for SSL 3.0 / TLS 1.0. -/
  last : Option Bytes
  /-- `*_cipher`: the RC4 context = (key captured at construction, keystream position). -/
  rc4 : Option (Bytes × Nat)
  /-- `*_handshake_key/iv`, `*_application_key/iv` (TLS 1.3 only, after the fallback). -/
  hsKey : Option Bytes
  hsIv : Option Bytes
  appKey : Option Bytes
  appIv : Option Bytes
  deriving Repr, DecidableEq

/-- The construction-time constants. -/
structure Cfg where
  version : Version
  bulk : Alg
  ctype : CType
  macLen : Nat
  tagLen : Nat
  /-- `block_length` in bits as passed by Session (128, 64 or 0). -/
  blockLen : Nat
  etm : Bool
  /-- whether the `*_handshake_*` / `*_application_*` attributes exist (version was TLS 1.3 in `parse_keys`). -/
  has13 : Bool
  deriving Repr, DecidableEq

structure Dec where
  cfg : Cfg
  c : DirSt
  s : DirSt
  deriving Repr, DecidableEq

def Dec.get (d : Dec) (srv : Bool) : DirSt := if srv then d.s else d.c
def Dec.set (d : Dec) (srv : Bool) (x : DirSt) : Dec := if srv then { d with s := x } else { d with c := x }

/-- Outcome of a state-changing method: the value or the exception kind, and the state afterwards. -/
inductive Res (α : Type)
  | ok (a : α) (d : Dec)
  | err (e : PyErr) (d : Dec)

-- ------------------------------------------------------------------ small Python helpers
/-- `n.to_bytes(len, 'big')` for a Python int (OverflowError if negative or too big). -/
def toBE (len : Nat) (n : Int) : Py Bytes :=
  if n < 0 then .error .overflow
  else if n.toNat < 256 ^ len then .ok (Bytes.ofNatBE len n.toNat) else .error .overflow

/-- `x.hex()` inside a logging f-string: AttributeError on `None`. -/
def hexOf (x : Option Bytes) : Py Bytes :=
  match x with
  | some b => .ok b
  | none => .error .attr

def xorZip (a b : Bytes) : Bytes := List.zipWith (· ^^^ ·) a b

/-- byte_xor 476-485: `bytes(len(a) - len(b)) + b`, then `a[i] ^ b_padded[i]` for `i < len(a)`. -/
def byteXor (a b : Bytes) : Py Bytes :=
  if a.length < b.length then .error .value
  else .ok (xorZip a (List.replicate (a.length - b.length) 0 ++ b))

/-- `b[-1]`. -/
def lastByte (b : Bytes) : Py UInt8 :=
  match b.getLast? with
  | some x => .ok x
  | none => .error .index

/-- `b[:-(n+1)]`. -/
def stripPad (b : Bytes) (padLen : UInt8) : Bytes := b.take (b.length - (padLen.toNat + 1))

/-- `b[-index:]` (`index ≥ 0`): the whole of `b` for index 0. -/
def lastN (b : Bytes) (index : Nat) : Bytes := if index = 0 then b else b.drop (b.length - index)

-- ------------------------------------------------------------------ the seven routines
-- Each returns the plaintext and the new state, or the exception (state unchanged, see the header).

/-- `cipher = AESGCM(key)` / `AESCCM(key, self.tag_length)` / unbound, then `cipher.decrypt(nonce, ct, aad)`. -/
def aeadByBulk (P : Prims) (cfg : Cfg) (key nonce aad ct : Bytes) : Py Bytes :=
  match cfg.bulk with
  | .aesgcm => P.aeadOpen .aesgcm key nonce aad 16 ct
  | .aesccm => P.aeadOpen .aesccm key nonce aad cfg.tagLen ct
  | _ => .error .unbound

def bumpSeq (d : Dec) (srv : Bool) : Dec :=
  let st := d.get srv
  d.set srv { st with seq := st.seq + 1 }

/-- decrypt_tls13_aead 122-165. -/
def tls13Aead (P : Prims) (r : Rec) (srv : Bool) (d : Dec) : Py (Bytes × Dec) := do
  let aad := [r.typ] ++ r.ver ++ r.len
  let st := d.get srv
  let key ← hexOf st.key
  let iv ← hexOf st.iv
  let seq8 ← toBE 8 st.seq
  let nonce ← byteXor iv seq8
  let pt ← aeadByBulk P d.cfg key nonce aad r.body
  pure (pt, bumpSeq d srv)

/-- decrypt_tls13_stream_cipher 167-202: always `ChaCha20Poly1305(key)`. -/
def tls13Stream (P : Prims) (r : Rec) (srv : Bool) (d : Dec) : Py (Bytes × Dec) := do
  let aad := [r.typ] ++ r.ver ++ r.len
  let st := d.get srv
  let key ← hexOf st.key
  let iv ← hexOf st.iv
  let seq8 ← toBE 8 st.seq
  let nonce ← byteXor iv seq8
  let pt ← P.aeadOpen .chachaPoly key nonce aad 16 r.body
  pure (pt, bumpSeq d srv)

/-- decrypt_generic_stream_cipher 204-222: `cipher.update(body)`, then `decrypted[0:-mac_length]`. -/
def genericStream (P : Prims) (r : Rec) (srv : Bool) (d : Dec) : Py (Bytes × Dec) := do
  let st := d.get srv
  match st.rc4 with
  | none => throw .attr
  | some (k, off) =>
    let decrypted := P.rc4 k off r.body
    let d' := d.set srv { st with rc4 := some (k, off + r.body.length) }
    pure (Bytes.cutEnd decrypted d.cfg.macLen, d')

/-- decrypt_tls12_aead 224-270. -/
def tls12Aead (P : Prims) (r : Rec) (srv : Bool) (d : Dec) : Py (Bytes × Dec) := do
  let st := d.get srv
  let key ← hexOf st.key
  let iv ← hexOf st.iv
  let seq8 ← toBE 8 st.seq
  let clen ← toBE 2 ((r.body.length : Int) - 8 - (d.cfg.tagLen : Int))
  let aad := seq8 ++ r.raw.take 3 ++ clen
  let ct := r.body.drop 8
  let nonce := iv ++ r.body.take 8
  let pt ← aeadByBulk P d.cfg key nonce aad ct
  pure (pt, bumpSeq d srv)

/-- decrypt_tls12_block_cipher 272-328. No state is read but the key, none is written. -/
def tls12Block (P : Prims) (r : Rec) (srv : Bool) (d : Dec) : Py (Bytes × Dec) := do
  let st := d.get srv
  let a := d.cfg.bulk
  if !a.isBlock then
    -- no branch of the `if … elif` chain assigned `block_size`
    throw .unbound
  -- `AES(key)` etc. on `None` ⇒ TypeError (`_check_byteslike`)
  let key ← match st.key with
    | some k => pure k
    | none => throw PyErr.type
  let iv := r.body.take a.blk
  let ct := r.body.drop a.blk
  let ct := if d.cfg.etm then Bytes.cutEnd ct d.cfg.macLen else ct
  let dec ← P.cbcDec a key iv ct
  let padLen ← lastByte dec
  let dec := stripPad dec padLen
  let dec := if !d.cfg.etm then Bytes.cutEnd dec d.cfg.macLen else dec
  pure (dec, d)

/-- decrypt_tls12_chacha20 330-370. -/
def tls12Chacha (P : Prims) (r : Rec) (srv : Bool) (d : Dec) : Py (Bytes × Dec) := do
  let st := d.get srv
  let key ← hexOf st.key
  let iv ← hexOf st.iv
  let seq8 ← toBE 8 st.seq
  let clen ← toBE 2 ((r.body.length : Int) - 16)
  let aad := seq8 ++ [r.typ] ++ r.ver ++ clen
  let nonce ← byteXor iv seq8
  let pt ← P.aeadOpen .chachaPoly key nonce aad 16 r.body
  pure (pt, bumpSeq d srv)

/-- decrypt_last_block_iv_cbc 372-423. -/
def lastBlockCbc (P : Prims) (r : Rec) (srv : Bool) (d : Dec) : Py (Bytes × Dec) := do
  let st := d.get srv
  -- `iv = self.last_block_*` (AttributeError if never assigned), then `key.hex()`, `iv.hex()`
  let iv ← hexOf st.last
  let key ← hexOf st.key
  let ct := if d.cfg.etm then Bytes.cutEnd r.body d.cfg.macLen else r.body
  let dec ← P.cbcDec d.cfg.bulk key iv ct
  let padLen ← lastByte dec
  let pt := stripPad dec padLen
  let pt := if !d.cfg.etm then Bytes.cutEnd pt d.cfg.macLen else pt
  let d' := d.set srv { st with last := some (lastN ct (d.cfg.blockLen / 8)) }
  pure (pt, d')

def lift (d : Dec) (x : Py (Bytes × Dec)) : Res (Option Bytes) :=
  match x with
  | .ok (pt, d') => .ok (some pt) d'
  | .error e => .err e d

/-- decrypt 425-445. `ok none` = the method returned `None` (no branch matched). -/
def Dec.decrypt (P : Prims) (r : Rec) (srv : Bool) (d : Dec) : Res (Option Bytes) :=
  let v := d.cfg.version
  let t := d.cfg.ctype
  if v = .tls13 ∧ t = .aead then lift d (tls13Aead P r srv d)
  else if v = .tls13 then lift d (tls13Stream P r srv d)
  else if v = .tls12 ∧ d.cfg.bulk = .chachaPoly then lift d (tls12Chacha P r srv d)
  else if t = .stream then lift d (genericStream P r srv d)
  else if t = .aead then lift d (tls12Aead P r srv d)
  else if t = .block ∧ (v = .tls12 ∨ v = .tls11) then lift d (tls12Block P r srv d)
  else if t = .block ∧ (v = .tls10 ∨ v = .ssl30) then lift d (lastBlockCbc P r srv d)
  else .ok none d

/-- update_keys 447-463: the four `.hex()` calls of the logging lines come first. -/
def Dec.updateKeys (srv : Bool) (d : Dec) : Res Unit :=
  if !d.cfg.has13 then .err .attr d
  else
    let st := d.get srv
    match st.hsKey, st.appKey, st.hsIv, st.appIv with
    | some _, some ak, some _, some aiv =>
      .ok () (d.set srv { st with key := some ak, iv := some aiv, seq := 0 })
    | _, _, _, _ => .err .attr d

-- ------------------------------------------------------------------ construction
/-- The `keys` dict: for TLS 1.3 the eight entries of `dev_tls_13_keys` (values may be `None`); otherwise the four
    entries of the key block that `parse_keys` reads and `decrypt` uses. -/
structure Keys where
  cKey : Option Bytes := none      -- client_write_key
  sKey : Option Bytes := none
  cIv : Option Bytes := none       -- client_write_IV
  sIv : Option Bytes := none
  cHsKey : Option Bytes := none    -- client_handshake_traffic_secret (already the traffic *key*)
  sHsKey : Option Bytes := none
  cAppKey : Option Bytes := none
  sAppKey : Option Bytes := none
  cHsIv : Option Bytes := none
  sHsIv : Option Bytes := none
  cAppIv : Option Bytes := none
  sAppIv : Option Bytes := none

/-- `Cipher(self.bulk_alg(key), mode=None).decryptor()` for the two algorithms that reach it. -/
def streamCtx (P : Prims) (a : Alg) (key : Option Bytes) : Py (Bytes × Nat) :=
  match a with
  | .arc4 =>
    match key with
    | none => .error .type
    | some k => do
      P.rc4Init k
      pure (k, 0)
  | _ => .error .type           -- `ChaCha20(key)`: missing positional argument `nonce`

/-- `Decryptor.__init__` (compression_method 0). `tagLen = none` is `tag_length is None`. -/
def Dec.init (P : Prims) (bulk : Alg) (version : Version) (macLen : Nat) (tagLen : Option Nat) (blockLen : Nat)
    (etm : Bool) (k : Keys) : Py Dec := do
  let ctype := cipherType bulk
  let is13 := version = .tls13
  -- parse_keys
  let cFall := is13 ∧ (k.cHsKey.isNone ∨ k.cHsIv.isNone)
  let sFall := is13 ∧ (k.sHsKey.isNone ∨ k.sHsIv.isNone)
  let cHsKey := if cFall then k.cAppKey else k.cHsKey
  let cHsIv := if cFall then k.cAppIv else k.cHsIv
  let sHsKey := if sFall then k.sAppKey else k.sHsKey
  let sHsIv := if sFall then k.sAppIv else k.sHsIv
  let cKey := if is13 then cHsKey else k.cKey
  let sKey := if is13 then sHsKey else k.sKey
  let cIv := if is13 then cHsIv else k.cIv
  let sIv := if is13 then sHsIv else k.sIv
  let lastSet := version = .tls10 ∨ version = .ssl30
  -- server context first, then client (line 60-61)
  let needCtx := ctype = .stream ∧ bulk ≠ .chachaPoly
  let sCtx ← if needCtx then (streamCtx P bulk sKey).map some else pure none
  let cCtx ← if needCtx then (streamCtx P bulk cKey).map some else pure none
  let mk (key iv : Option Bytes) (ctx : Option (Bytes × Nat)) (hk hi ak ai : Option Bytes) : DirSt :=
    { key := key, iv := iv, seq := 0, last := if lastSet then iv else none, rc4 := ctx,
      hsKey := if is13 then hk else none, hsIv := if is13 then hi else none,
      appKey := if is13 then ak else none, appIv := if is13 then ai else none }
  pure { cfg := { version := version, bulk := bulk, ctype := ctype, macLen := macLen, tagLen := tagLen.getD 16,
                  blockLen := blockLen, etm := etm, has13 := is13 },
         c := mk cKey cIv cCtx cHsKey cHsIv k.cAppKey k.cAppIv,
         s := mk sKey sIv sCtx sHsKey sHsIv k.sAppKey k.sAppIv }

-- ------------------------------------------------------------------ facts about the model itself
theorem lift_err {d d' : Dec} {x : Py (Bytes × Dec)} {e : PyErr} (h : lift d x = .err e d') : d' = d := by
  unfold lift at h
  split at h
  · cases h
  · cases h; rfl

/-- An exception leaves the whole cipher state as it was (every routine mutates after its last raising
    statement). -/
theorem Dec.decrypt_err_state (P : Prims) (r : Rec) (srv : Bool) (d d' : Dec) (e : PyErr)
    (h : d.decrypt P r srv = .err e d') : d' = d := by
  unfold Dec.decrypt at h
  simp only at h
  repeat' split at h
  all_goals first | exact lift_err h | cases h

theorem Dec.updateKeys_err_state (srv : Bool) (d d' : Dec) (e : PyErr)
    (h : d.updateKeys srv = .err e d') : d' = d := by
  unfold Dec.updateKeys at h
  split at h
  · cases h; rfl
  · simp only at h
    split at h
    · cases h
    · cases h; rfl

end TLX.RecordLayer
