/-
Model of `tlexport/checksums.py` and of the `-c` (`--checksumTest`) branches of the packet loop in
`tlexport/main.py` (C11).  Core Lean only (linked into `tlxdriver`).

The model mirrors the source *with the repair `fix_c11` applied* (fold while `> 0xFFFF`; `len(packet.udp)`
in the UDP/IPv4 pseudo-header; `packet.ip.p` as upper-layer protocol for IPv6; a computed UDP checksum of
zero compared as `0xffff`; TCP computed `0x0000` also matches stored `0xffff`).  The first commit of this
file modelled the unrepaired source (loop `> 65536`, `AttributeError` on UDP/IPv4, plain compare) and agreed
with it on every generated case; `implFoldPreFix` keeps the old loop for the regression theorem.

Source map (line numbers of checksums.py after the repair):
* `toBytes1/2/4`            – `int.to_bytes(n, 'big')`: `OverflowError` when the value does not fit.
* `pad`, `wordSum`          – :10-17 (pad to 16 bit, sum of big-endian 16-bit chunks).
* `implFold`                – :19-23 (the `while` loop, with the source's loop condition).
* `complement`              – :26-28 (`out_arr[i] = ~out_arr[i] + 256`, i.e. `255 - x`).
* `onesComplementChecksum`  – :7-30 as a whole; `to_bytes(2)` is the only raise site.
* `pseudoHeader`            – :38-53 (UDP) / :81-96 (TCP), field by field, in the source's evaluation order.
* `zeroField`, `storedField`– `tcp_data[16:18] = b"\0\0"` (:100) / `udp_data[6:8] = …` (:57) (Python slice
                              assignment: `b[:i] + x + b[j:]` with clamping) and
                              `packet.tcp.sum.to_bytes(2, 'big')` (:107 / :70; dpkt parsed the field from
                              exactly these two bytes).
* `check`                   – `calculate_checksum_tcp` (:76-116) / `calculate_checksum_udp` (:33-73):
                              `ok true | ok false | error`.
* `step`, `run`, `filterValid` – main.py:214-260, the loop body around the two handlers.

Inputs of `check` are what the functions read from the `Packet` object: `ipv6_packet`, `ip_src`, `ip_dst`,
the protocol byte `ip.p`, and `bytes(packet.tcp)` / `bytes(packet.udp)` — for a parsed packet dpkt
re-serialises the transport header, options and payload to the bytes it was parsed from, and
`len(packet.tcp)` is the length of those bytes (the harness compares them on every generated frame).

Not modelled: dpkt's dissection (which frames become a `tcp`/`udp` object: at least 20 / 8 bytes of
transport header, protocol 6 / 17, not a later fragment), the logging calls, `copy.deepcopy` (the
argument is not mutated), and the two handlers `handle_packet` / `handle_quic_packet` (parameters of `run`).
-/
import TLX.Py
namespace TLX.Checksum
open TLX

/-- Python exceptions that can leave `checksums.py`: only `int.to_bytes` can raise. -/
inductive Err
  | overflow   -- OverflowError: int too big to convert
  deriving DecidableEq, Repr

def Err.tag : Err → String
  | .overflow => "overflow"

def toBytes1 (n : Nat) : Except Err Bytes :=
  if n < 256 then .ok (Bytes.ofNatBE 1 n) else .error .overflow
def toBytes2 (n : Nat) : Except Err Bytes :=
  if n < 65536 then .ok (Bytes.ofNatBE 2 n) else .error .overflow
def toBytes4 (n : Nat) : Except Err Bytes :=
  if n < 4294967296 then .ok (Bytes.ofNatBE 4 n) else .error .overflow

/-- `if len(arr) % 2 != 0: arr.extend(b'\x00')` -/
def pad (b : Bytes) : Bytes := if b.length % 2 ≠ 0 then b ++ [0] else b

/-- `for i in range(0, len(arr), 2): checksum += int.from_bytes(arr[i:i+2], "big")`
    (a last one-byte slice counts as that byte; it cannot occur after `pad`). -/
def wordSum : Bytes → Nat
  | [] => 0
  | [a] => a.toNat
  | a :: b :: rest => a.toNat * 256 + b.toNat + wordSum rest

/-- `while checksum > 0xFFFF: checksum = (checksum >> 16) + (checksum & 0xFFFF)` -/
def implFold (s : Nat) : Nat :=
  if s > 65535 then implFold (s / 65536 + s % 65536) else s
termination_by s
decreasing_by omega

/-- The loop as it was before the repair (`while checksum > 65536`): kept only for the regression
    theorem `TLX.Props.C11.prefix_loop_counterexample`; nothing else uses it. -/
def implFoldPreFix (s : Nat) : Nat :=
  if s > 65536 then implFoldPreFix (s / 65536 + s % 65536) else s
termination_by s
decreasing_by omega

/-- `out_arr[i] = ~out_arr[i] + 256` for both bytes. -/
def complement (b : Bytes) : Bytes := b.map fun x => UInt8.ofNat (255 - x.toNat)

/-- `ones_complement_checksum(byte_arr)` -/
def onesComplementChecksum (b : Bytes) : Except Err Bytes := do
  let s := implFold (wordSum (pad b))
  let out ← toBytes2 s
  pure (complement out)

/-- The two transports the tool verifies, with the offset of the checksum field in the segment. -/
inductive L4 | tcp | udp
  deriving DecidableEq, Repr

def L4.off : L4 → Nat
  | .tcp => 16
  | .udp => 6

/-- IANA protocol number. -/
def L4.num : L4 → Nat
  | .tcp => 6
  | .udp => 17

/-- The pseudo-header as the source builds it; `p` is `packet.ip.p` (for IPv6 dpkt sets it to the
    upper-layer protocol behind the extension headers), `l4len` is `len(packet.tcp)` / `len(packet.udp)`.
    Both functions build it the same way. -/
def pseudoHeader (v6 : Bool) (src dst : Bytes) (p l4len : Nat) : Except Err Bytes :=
  if !v6 then do
    let pb ← toBytes1 p
    let lb ← toBytes2 l4len
    pure (src ++ dst ++ [0] ++ pb ++ lb)
  else do
    let lb ← toBytes4 l4len
    let pb ← toBytes1 p
    pure (src ++ dst ++ lb ++ [0, 0, 0] ++ pb)

/-- `data[off:off+2] = b"\x00\x00"` on a bytearray. -/
def zeroField (k : L4) (seg : Bytes) : Bytes := seg.take k.off ++ [0, 0] ++ seg.drop (k.off + 2)

/-- `packet.<l4>.sum.to_bytes(2, 'big')`: the two bytes dpkt parsed the field from. -/
def storedField (k : L4) (seg : Bytes) : Bytes := seg.slice k.off (k.off + 2)

/-- `calculate_checksum_tcp(packet)` / `calculate_checksum_udp(packet)`.
    UDP: a computed zero is replaced by all ones before the comparison (RFC 768).
    TCP: computed `0x0000` also matches a stored `0xffff` (the two one's-complement zeros). -/
def check (k : L4) (v6 : Bool) (src dst : Bytes) (p : Nat) (seg : Bytes) : Except Err Bool := do
  let ph ← pseudoHeader v6 src dst p seg.length
  let calculated ← onesComplementChecksum (ph ++ zeroField k seg)
  let stored := storedField k seg
  match k with
  | .udp =>
    let calculated := if calculated == [0, 0] then [0xFF, 0xFF] else calculated
    pure (calculated == stored)
  | .tcp =>
    if calculated == [0, 0] && stored == [0xFF, 0xFF] then pure true
    else pure (calculated == stored)

/-! ### The packet loop of `run()` -/

/-- What `Packet.__init__` leaves for the loop: `tcp_packet` / `udp_packet` / neither. -/
inductive Kind | l4 (k : L4) | other
  deriving DecidableEq, Repr

/-- The fields of a `Packet` the loop and the checksum functions read. -/
structure Pkt where
  kind : Kind
  v6 : Bool
  src : Bytes
  dst : Bytes
  p : Nat
  /-- `bytes(packet.tcp)` / `bytes(packet.udp)` -/
  seg : Bytes
  /-- `len(packet.tls_data)` -/
  payloadLen : Nat

/-- One iteration of `for ts, buf in pcap_reader` for a packet block (`ts != -1`).
    `c` is `args.checksumTest`; `h k` stands for everything the loop does with an accepted packet
    (`handle_packet` for TCP; the QUIC/DTLS dispatch for UDP) and may itself raise. -/
def step {σ : Type} (c : Bool) (h : L4 → σ → Pkt → Except Err σ) (s : σ) (pk : Pkt) : Except Err σ :=
  match pk.kind with
  | .other => pure s
  | .l4 k =>
    if pk.payloadLen = 0 then pure s          -- `if len(packet.tls_data) == 0: continue`
    else do
      let test ← if !c then pure true else check k pk.v6 pk.src pk.dst pk.p pk.seg
      if test then h k s pk else pure s

/-- The whole loop: an exception ends the run. -/
def run {σ : Type} (c : Bool) (h : L4 → σ → Pkt → Except Err σ) (s : σ) (pkts : List Pkt) : Except Err σ :=
  pkts.foldlM (step c h) s

/-- The `-c` filter on its own: the packets that reach a handler, in capture order. -/
def filterValid (pkts : List Pkt) : Except Err (List Pkt) :=
  run true (fun _ acc pk => pure (acc ++ [pk])) [] pkts

end TLX.Checksum
