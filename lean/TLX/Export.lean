/-
THE WHOLE PROGRAM as one function: `tlexport -i <capture> [-s <key log>] [-l] [-p …] [-m …] [-c] [-g] [-a] -o <out>`
as a map from the BYTES of the capture file and the TEXT of the key-log file to the BYTES of the output file
(main.py `run()`, l. 160-293).  Core Lean only (linked into `tlxdriver`, op `runfile` of `Drv/Pipeline.lean`).

  capture bytes ──Ingest.itemsWith──▶ items + Info        reader (Container), DSB key lines (Keylog), dpkt dissection
        (Dissect), `-c` verdicts (Checksum); an exception there ends the run before anything is written
  key-log text  ──Keylog.getKeysFromString ∘ universalNewlines──▶ file keys       (`open(…).read()`; `none`: no `-s`)
  MainLoop.runFrom (reset of the module state, option parsing, the packet loop, both composed machines:
        Pipeline.tlsMachine, QuicPipeline.quicMachine) ──▶ exported frames `OutPkt`;  an unusable `-p`/`-m` value:
        the run stops after printing the message (no output file)
  OutBytes.fileOf ──▶ output file bytes     scapy serialisation + dpkt pcapng writer; an exception there leaves a
        truncated file behind and ends the run

Parameters: the header-protection mask `mask`, the hash suite `H` and the cipher primitives `P` (the cryptography
library; the driver runs with Lean's own hashes and the toy ciphers of the harness), and `prior`, the module state an
earlier `run()` in the same interpreter left behind (`exportFile` = a fresh interpreter; `Props.Export` shows it does not
matter).  `legacy` = `-l` (libpcap reader).
-/
import TLX.Pipeline
import TLX.QuicPipeline
import TLX.Ingest
import TLX.OutBytes
namespace TLX.Export
open TLX TLX.MainLoop

/-- why a run died with an uncaught exception -/
inductive Abort
  | ingest (e : Ingest.Err)     -- in the read loop: nothing is written
  | write (e : OutBytes.Err)    -- in the write loop: a truncated output file is left behind
  deriving DecidableEq, Repr

/-- the exception kind as the line protocol names it -/
def Abort.name : Abort → String
  | .ingest e => e.name
  | .write e => "write:" ++ e.tag

inductive Outcome
  | file (f : Bytes)       -- the run ends normally and this is the output file
  | abort (k : Abort)      -- the run dies with an uncaught exception
  | badOptions             -- `-p` / `-m` value not usable: message, no output
  deriving DecidableEq, Repr

abbrev Prior := ModState Keylog.Key Pipeline.Conn QuicPipeline.QConn

/-- the frames `run()` hands to the writer, from items that are already read -/
def framesFrom (mask : Quic.Dissect.MaskFn) (H : Crypto.Prims) (P : Cipher.Prims) (prior : Prior) (args : Args)
    (fileKeys : Option (List Keylog.Key)) (xs : List (Item Keylog.Key)) (info : Nat → Pipeline.Info) :
    Except Options.Err (List Pipeline.OutPkt) :=
  match runFrom (Pipeline.tlsMachine H P info) (QuicPipeline.quicMachine mask H P info) prior args ⟨fileKeys, xs⟩ with
  | .error e => .error e
  | .ok (_, out) => .ok out

/-- `open(args.secrets).read()` → `get_keys_from_string` -/
def fileKeysOf (keyFile : Option Keylog.Str) : Option (List Keylog.Key) :=
  keyFile.map fun s => Keylog.getKeysFromString Keylog.srcHexClass (Keylog.universalNewlines s)

/-- `get_port_map(args)` or `[int(x) for x in args.serverports]` raises (main.py l. 196-203): this happens BEFORE the key
    log and the capture are opened, so a damaged capture does not matter then -/
def optionsBad (prior : Prior) (args : Args) : Bool :=
  match Options.getPortMap Options.Src.bare args.mArg with
  | .error _ => true
  | .ok _ =>
    match Options.serverPorts (reset prior).serverPorts Options.Src.pDefault args.pArg with
    | .error _ => true
    | .ok _ => false

/-- `run()` in an interpreter whose module state is `prior` -/
def exportFrom (mask : Quic.Dissect.MaskFn) (H : Crypto.Prims) (P : Cipher.Prims) (prior : Prior) (args : Args)
    (legacy : Bool) (keyFile : Option Keylog.Str) (capture : Bytes) : Outcome :=
  if optionsBad prior args then .badOptions
  else
    match Ingest.itemsWith Keylog.srcHexClass args.checksumTest legacy capture with
    | .error e => .abort (.ingest e)
    | .ok (xs, is) =>
      match framesFrom mask H P prior args (fileKeysOf keyFile) xs (Ingest.lookup is) with
      | .error _ => .badOptions                     -- not reachable: `Props.Export.framesFrom_error_iff`
      | .ok out =>
        match OutBytes.fileOf out with
        | .error e => .abort (.write e)
        | .ok f => .file f

/-- the program, started in a fresh interpreter -/
def exportFile (mask : Quic.Dissect.MaskFn) (H : Crypto.Prims) (P : Cipher.Prims) (args : Args) (legacy : Bool)
    (keyFile : Option Keylog.Str) (capture : Bytes) : Outcome :=
  exportFrom mask H P freshState args legacy keyFile capture

end TLX.Export
