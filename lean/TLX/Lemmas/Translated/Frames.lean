/-
Helper lemmas of `Props/Translated/Frames.lean`: the translated frame constructors and the model's parsers are brought
into one shape — chains of `obind` over `getVarintLength` / `decodeVarint` / `payload[i]?` — in which they can be compared.
-/
import TLX.Gen.Translated.Frames
import TLX.Props.Translated.Varint
import TLX.Quic.Frame
namespace TLX.Lemmas.Translated
open TLX TLX.PyRt TLX.Props.Translated TLX.Quic.Varint TLX.Quic.Frame

/-- the translated `get_variable_length_int_length` under `tryE` -/
theorem try_len {β : Type} (b : Bytes) (K : Nat → Except Err β) :
    tryE (Gen.Py.get_variable_length_int_length b) (fun e => .error e) K = obind (getVarintLength b) K := by
  rw [get_variable_length_int_length_eq_model, tryE_ofOpt]

/-- the translated `decode_variable_length_int` under `tryE` -/
theorem try_dec {β : Type} (b : Bytes) (K : Nat → Except Err β) :
    tryE (Gen.Py.decode_variable_length_int b) (fun e => .error e) K = obind (decodeVarint b) K := by
  rw [decode_variable_length_int_eq_model, tryE_ofOpt]

/-- `payload[i]` for a natural index under `tryE` -/
theorem try_item {β : Type} (p : Bytes) (i : Nat) (K : Nat → Except Err β) :
    tryE (getItem p (Int.ofNat i)) (fun e => .error e) K = obind p[i]? (fun x => K x.toNat) := by
  rw [getItem_nat]
  cases p[i]? <;> rfl

theorem try_item0 {β : Type} (p : Bytes) (K : Nat → Except Err β) :
    tryE (getItem p (0 : Int)) (fun e => .error e) K = obind p[0]? (fun x => K x.toNat) := try_item p 0 K

/-- the model's `readVarint` is the two reads the code makes -/
theorem readVarint_bind {β : Type} (p : Bytes) (i : Nat) (f : Nat × Nat → Option β) :
    ofOpt ((readVarint p i).bind f) =
      obind (getVarintLength (Bytes.slice p i (i + 1))) (fun l =>
        obind (decodeVarint (Bytes.slice p i (i + l))) (fun v => ofOpt (f (v, i + l)))) := by
  unfold readVarint
  cases h1 : getVarintLength (Bytes.slice p i (i + 1)) with
  | none => simp [ofOpt]
  | some l => cases h2 : decodeVarint (Bytes.slice p i (i + l)) <;> simp [h2, ofOpt]

theorem obind_readVarint {β : Type} (p : Bytes) (i : Nat) (K : Nat × Nat → Except Err β) :
    obind (readVarint p i) K =
      obind (getVarintLength (Bytes.slice p i (i + 1))) (fun l =>
        obind (decodeVarint (Bytes.slice p i (i + l))) (fun v => K (v, i + l))) := by
  unfold readVarint
  cases h1 : getVarintLength (Bytes.slice p i (i + 1)) with
  | none => simp
  | some l => cases h2 : decodeVarint (Bytes.slice p i (i + l)) <;> simp [h2]

end TLX.Lemmas.Translated
