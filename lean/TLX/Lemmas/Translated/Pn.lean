/-
Helper lemmas of `Props/Translated/Pn.lean` (`get_full_packet_number`) (they name the generated
result records, hence the import of the generated file).
-/
import TLX.Gen.Translated.Pn
import TLX.Lemmas.PyRt
import TLX.Quic.PktNum
namespace TLX.Lemmas.Translated
open TLX TLX.PyRt TLX.Quic.PktNum

/-- the arithmetic of A.3 on Python's integers is the model's on naturals (generic in window and bound) -/
theorem pn_arith (W B L t : Nat) (hW : 2 ≤ W) (ht : t < W) :
    (if ((Int.ofNat ((L + 1) - (L + 1) % W + t) : Int) ≤ (Int.ofNat L + 1) - Int.ofNat (W / 2)
          ∧ (Int.ofNat ((L + 1) - (L + 1) % W + t) : Int) < Int.ofNat B - Int.ofNat W)
      then (Int.ofNat ((L + 1) - (L + 1) % W + t) : Int) + Int.ofNat W
      else if ((Int.ofNat ((L + 1) - (L + 1) % W + t) : Int) > (Int.ofNat L + 1) + Int.ofNat (W / 2)
          ∧ (Int.ofNat ((L + 1) - (L + 1) % W + t) : Int) ≥ Int.ofNat W)
        then (Int.ofNat ((L + 1) - (L + 1) % W + t) : Int) - Int.ofNat W
        else (Int.ofNat ((L + 1) - (L + 1) % W + t) : Int))
      = Int.ofNat (rfcDecode W B L t) := by
  simp only [rfcDecode, Int.ofNat_eq_natCast]
  have hm := Nat.mod_lt (L + 1) (show W > 0 by omega)
  have hle := Nat.mod_le (L + 1) W
  generalize (L + 1) % W = r at *
  generalize W / 2 = h at *
  split
  · rename_i c
    have : r ≤ L + 1 := hle
    have c' : L + 1 - r + t + h ≤ L + 1 ∧ L + 1 - r + t + W < B := by omega
    simp only [c', and_self, if_true]
    omega
  · rename_i c
    have c' : ¬ (L + 1 - r + t + h ≤ L + 1 ∧ L + 1 - r + t + W < B) := by omega
    simp only [c', if_false]
    split
    · rename_i d
      have d' : L + 1 - r + t > L + 1 + h ∧ L + 1 - r + t ≥ W := by omega
      simp only [d', and_self, if_true]
      omega
    · rename_i d
      have d' : ¬ (L + 1 - r + t > L + 1 + h ∧ L + 1 - r + t ≥ W) := by omega
      simp only [d', if_false]


theorem rfcDecode_lt (W B L t : Nat) (hW : 0 < W) (ht : t < W) : rfcDecode W B L t < B + L + 1 + W := by
  simp only [rfcDecode]
  have hle := Nat.mod_le (L + 1) W
  generalize (L + 1) % W = r at *
  generalize W / 2 = h at *
  split
  · omega
  · split <;> omega

/-- what the function does once the A.3 value `R` is known (both directions) -/
theorem pn_finish (srv : Bool) (pn : Bytes) (pnS pnC R : Nat) (hR : R < 256 ^ 8)
    (hd : implDecode (2 ^ (8 * pn.length)) (2 ^ 62) (if srv then pnS else pnC) (Bytes.beNat pn) =
      if Bytes.beNat pn > (if srv then pnS else pnC) ∧ (if srv then pnS else pnC) = 0 then Bytes.beNat pn else R) :
    (if Int.ofNat (Bytes.beNat pn) > Int.ofNat (if srv then pnS else pnC) ∧ Int.ofNat (if srv then pnS else pnC) = 0 then
      Res.ok pn ({ pn_server := if srv then Int.ofNat (Bytes.beNat pn) else Int.ofNat pnS,
                   pn_client := if srv then Int.ofNat pnC else Int.ofNat (Bytes.beNat pn) } : Gen.Py.get_full_packet_number.St)
    else
      tryE (toBytesE (Int.ofNat R) 8)
        (fun py_e => Res.raised py_e
          { pn_server := if srv then (if Int.ofNat R > Int.ofNat pnS then Int.ofNat R else Int.ofNat pnS) else Int.ofNat pnS,
            pn_client := if srv then Int.ofNat pnC else (if Int.ofNat R > Int.ofNat pnC then Int.ofNat R else Int.ofNat pnC) })
        fun py_t => Res.ok py_t
          { pn_server := if srv then (if Int.ofNat R > Int.ofNat pnS then Int.ofNat R else Int.ofNat pnS) else Int.ofNat pnS,
            pn_client := if srv then Int.ofNat pnC else (if Int.ofNat R > Int.ofNat pnC then Int.ofNat R else Int.ofNat pnC) }) =
    Res.ok
      (if Bytes.beNat pn > (if srv then pnS else pnC) ∧ (if srv then pnS else pnC) = 0 then pn
       else Bytes.ofNatBE 8 (implDecode (2 ^ (8 * pn.length)) (2 ^ 62) (if srv then pnS else pnC) (Bytes.beNat pn)))
      { pn_server := if srv then Int.ofNat (implUpdate pnS (implDecode (2 ^ (8 * pn.length)) (2 ^ 62) (if srv then pnS else pnC) (Bytes.beNat pn))) else Int.ofNat pnS,
        pn_client := if srv then Int.ofNat pnC else Int.ofNat (implUpdate pnC (implDecode (2 ^ (8 * pn.length)) (2 ^ 62) (if srv then pnS else pnC) (Bytes.beNat pn))) } := by
  rw [hd]
  have h8 : (8 : Int) = Int.ofNat 8 := rfl
  rw [h8, toBytesE_nat R 8 hR, tryE_ok]
  generalize Bytes.beNat pn = t at *
  cases srv
  · simp only [Bool.false_eq_true, if_false, Int.ofNat_eq_natCast, implUpdate]
    by_cases hc : t > pnC ∧ pnC = 0
    · obtain ⟨h1, h0⟩ := hc
      subst h0
      have h1' : (t : Int) > ((0 : Nat) : Int) := by omega
      simp [h1, h1']
    · have hc' : ¬ ((t : Int) > (pnC : Int) ∧ (pnC : Int) = 0) := by omega
      simp only [hc, hc', if_false]
      by_cases hr : R > pnC
      · have hr' : (R : Int) > (pnC : Int) := by omega
        simp only [hr, hr', if_true]
      · have hr' : ¬ (R : Int) > (pnC : Int) := by omega
        simp only [hr, hr', if_false]
  · simp only [if_true, Int.ofNat_eq_natCast, implUpdate]
    by_cases hc : t > pnS ∧ pnS = 0
    · obtain ⟨h1, h0⟩ := hc
      subst h0
      have h1' : (t : Int) > ((0 : Nat) : Int) := by omega
      simp [h1, h1']
    · have hc' : ¬ ((t : Int) > (pnS : Int) ∧ (pnS : Int) = 0) := by omega
      simp only [hc, hc', if_false]
      by_cases hr : R > pnS
      · have hr' : (R : Int) > (pnS : Int) := by omega
        simp only [hr, hr', if_true]
      · have hr' : ¬ (R : Int) > (pnS : Int) := by omega
        simp only [hr, hr', if_false]

end TLX.Lemmas.Translated
