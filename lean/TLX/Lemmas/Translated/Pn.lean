/-
Helper lemmas of `Props/Translated/Pn.lean` (`get_full_packet_number`) 
-/
import TLX.Lemmas.PyRt
import TLX.Quic.PktNum
namespace TLX.Lemmas.Translated
open TLX TLX.PyRt TLX.Quic.PktNum

/-- the arithmetic of A.3 on Python's integers is the model's on naturals (generic in window and bound) -/
theorem pn_arith (W B L t : Nat) (hW : 2 ≤ W) (ht : t < W) :
    (if ((Int.ofNat ((L + 1) - (L + 1) % W + t) : Int) ≤ (Int.ofNat L + 1) - Int.ofNat (W / 2)
          ∧ (Int.ofNat ((L + 1) - (L + 1) % W + t) : Int) < Int.ofNat B - Int.ofNat W)
      then (Int.ofNat ((L + 1) - (L + 1) % W + t) : Int) + Int.ofNat W
      else if ((Int.ofNat ((L + 1) - (L + 1) % W + t) : Int) > (Int.ofNat L + 1) + Int.ofNat (W / 2)
          ∧ (Int.ofNat ((L + 1) - (L + 1) % W + t) : Int) ≥ Int.ofNat W)
        then (Int.ofNat ((L + 1) - (L + 1) % W + t) : Int) - Int.ofNat W
        else (Int.ofNat ((L + 1) - (L + 1) % W + t) : Int))
      = Int.ofNat (rfcDecode W B L t) := by
  simp only [rfcDecode, Int.ofNat_eq_natCast]
  have hm := Nat.mod_lt (L + 1) (show W > 0 by omega)
  have hle := Nat.mod_le (L + 1) W
  generalize (L + 1) % W = r at *
  generalize W / 2 = h at *
  split
  · rename_i c
    have : r ≤ L + 1 := hle
    have c' : L + 1 - r + t + h ≤ L + 1 ∧ L + 1 - r + t + W < B := by omega
    simp only [c', and_self, if_true]
    omega
  · rename_i c
    have c' : ¬ (L + 1 - r + t + h ≤ L + 1 ∧ L + 1 - r + t + W < B) := by omega
    simp only [c', if_false]
    split
    · rename_i d
      have d' : L + 1 - r + t > L + 1 + h ∧ L + 1 - r + t ≥ W := by omega
      simp only [d', and_self, if_true]
      omega
    · rename_i d
      have d' : ¬ (L + 1 - r + t > L + 1 + h ∧ L + 1 - r + t ≥ W) := by omega
      simp only [d', if_false]


theorem rfcDecode_lt (W B L t : Nat) (hW : 0 < W) (ht : t < W) : rfcDecode W B L t < B + L + 1 + W := by
  simp only [rfcDecode]
  have hle := Nat.mod_le (L + 1) W
  generalize (L + 1) % W = r at *
  generalize W / 2 = h at *
  split
  · omega
  · split <;> omega

/-- the model's value fits the 8 bytes `to_bytes` is given (entries below 2^62, windows up to 2^32) -/
theorem implDecode_lt (n L t : Nat) (hn : 1 ≤ n ∧ n ≤ 4) (hL : L < 2 ^ 62) (ht : t < 2 ^ (8 * n)) :
    implDecode (2 ^ (8 * n)) (2 ^ 62) L t < 256 ^ 8 := by
  have h2 : 2 ^ (8 * n) ≤ 2 ^ 32 := Nat.pow_le_pow_right (by omega) (by omega)
  have hp : 0 < 2 ^ (8 * n) := Nat.pow_pos (by omega)
  have h1 := rfcDecode_lt (2 ^ (8 * n)) (2 ^ 62) L t hp ht
  unfold implDecode
  generalize 2 ^ (8 * n) = W at *
  generalize rfcDecode W (2 ^ 62) L t = R at *
  split <;> omega

end TLX.Lemmas.Translated
