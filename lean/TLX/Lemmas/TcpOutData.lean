/-
Helper lemmas about `TcpOut`: the payload-carrying segments of a built conversation, as a function of the records only
(independent of the running sequence numbers).
-/
import TLX.TcpOut
import TLX.Props.C06
namespace TLX.TcpOut
open TLX

/-- (direction, time, payload) of a PSH|ACK data segment -/
def Frame.data? (f : Frame) : Option (Bool × Nat × Bytes) :=
  if f.flags = 0x18 then some (f.fromServer, f.ts, f.payload) else none

def dataFrames (fs : List Frame) : List (Bool × Nat × Bytes) := fs.filterMap Frame.data?

/-- the data segments one record contributes: part `j` at the time of carrier `j`, in the record's direction -/
def recData (r : Rec) : List (Bool × Nat × Bytes) :=
  match parts r.bytes r.ts.length with
  | none => []
  | some ps => (ps.zip r.ts).map fun (p, t) => (r.fromServer, t, p)

theorem dataFrames_append (a b : List Frame) : dataFrames (a ++ b) = dataFrames a ++ dataFrames b := by
  simp [dataFrames, List.filterMap_append]

theorem partsFrames_data (q : Seqs) (srv : Bool) (ps : List Bytes) (ts : List Nat) :
    dataFrames (partsFrames q srv ps ts).2 = (ps.zip ts).map fun (p, t) => (srv, t, p) := by
  induction ps generalizing q ts with
  | nil => simp [partsFrames, dataFrames]
  | cons p ps ih =>
    cases ts with
    | nil => simp [partsFrames, dataFrames]
    | cons t tl =>
      simp only [partsFrames, dataFrames_append, ih, List.zip_cons_cons, List.map_cons]
      cases srv <;> simp [partFrames, dataFrames, Frame.data?]

theorem recFrames_data (q : Seqs) (r : Rec) (q' : Seqs) (fs : List Frame) (h : recFrames q r = some (q', fs)) :
    dataFrames fs = recData r := by
  unfold recFrames at h
  unfold recData
  cases hp : parts r.bytes r.ts.length with
  | none => simp [hp] at h
  | some ps =>
    simp only [hp, Option.map_some, Option.some.injEq] at h
    have := partsFrames_data q r.fromServer ps r.ts
    rw [h] at this
    simpa using this

theorem bodyFrames_data (recs : List Rec) (q q' : Seqs) (fs : List Frame) (h : bodyFrames q recs = some (q', fs)) :
    dataFrames fs = recs.flatMap recData := by
  induction recs generalizing q q' fs with
  | nil =>
    simp only [bodyFrames, Option.some.injEq, Prod.mk.injEq] at h
    obtain ⟨_, rfl⟩ := h
    simp [dataFrames]
  | cons r rs ih =>
    simp only [bodyFrames, Option.bind_eq_some_iff, Option.map_eq_some_iff] at h
    obtain ⟨⟨q1, f1⟩, h1, ⟨q2, f2⟩, h2, h3⟩ := h
    simp only [Prod.mk.injEq] at h3
    obtain ⟨_, rfl⟩ := h3
    rw [dataFrames_append, recFrames_data q r q1 f1 h1, ih q1 q2 f2 h2]
    simp

/-- the data segments of a built conversation depend on the records only -/
theorem build_data (recs : List Rec) (fs : List Frame) (h : build recs = some fs) :
    dataFrames fs = recs.flatMap recData := by
  unfold build at h
  cases recs with
  | nil => simp at h; subst h; simp [dataFrames]
  | cons r rs =>
    simp only at h
    cases hts : r.ts with
    | nil => simp [hts] at h
    | cons t0 tl =>
      simp only [hts, Option.map_eq_some_iff] at h
      obtain ⟨⟨q', body⟩, hb, rfl⟩ := h
      rw [dataFrames_append, bodyFrames_data _ _ _ _ hb]
      simp [handshake, dataFrames, Frame.data?]

end TLX.TcpOut
