/-
Helper lemmas for the QUIC output builder model (`TLX.Quic.UdpOut`):
* `groupRuns key xs` — a list cut into its maximal runs of equal key (recursive specification), its characterising
  properties and uniqueness (`groupRuns_of_valid`);
* the builder loop computes it: `groups_eq_groupRuns`, `build_eq_groups`, `build_eq_chunks`;
* the output list only grows at the end: `out_prefix_foldl`.
-/
import TLX.Quic.UdpOut
namespace TLX.Quic.UdpOut

/-! ### maximal runs of equal key -/

section Runs
variable {α K : Type} [DecidableEq K]

/-- put the run `(k, as)` in front of already grouped runs, merging with the first one if it has the same key -/
def push (k : K) (as : List α) : List (K × List α) → List (K × List α)
  | [] => [(k, as)]
  | (k', bs) :: rest => if k = k' then (k, as ++ bs) :: rest else (k, as) :: (k', bs) :: rest

/-- the maximal runs of equal key, in order -/
def groupRuns (key : α → K) : List α → List (K × List α)
  | [] => []
  | a :: xs => push (key a) [a] (groupRuns key xs)

/-- no two neighbours are equal -/
def AdjDistinct : List K → Prop
  | [] => True
  | [_] => True
  | a :: b :: r => a ≠ b ∧ AdjDistinct (b :: r)

instance decAdjDistinct : (l : List K) → Decidable (AdjDistinct l)
  | [] => isTrue trivial
  | [_] => isTrue trivial
  | a :: b :: r =>
    match decAdjDistinct (b :: r) with
    | isTrue h => if hab : a = b then isFalse (fun h' => h'.1 hab) else isTrue ⟨hab, h⟩
    | isFalse h => isFalse (fun h' => h h'.2)

omit [DecidableEq K] in
theorem adjDistinct_cons {a : K} {l : List K} :
    AdjDistinct (a :: l) ↔ (∀ b ∈ l.head?, a ≠ b) ∧ AdjDistinct l := by
  cases l with
  | nil => simp [AdjDistinct]
  | cons b r => simp [AdjDistinct]

omit [DecidableEq K] in
theorem AdjDistinct.tail {a : K} {l : List K} (h : AdjDistinct (a :: l)) : AdjDistinct l :=
  (adjDistinct_cons.mp h).2

omit [DecidableEq K] in
theorem AdjDistinct.prefix {l₁ l₂ : List K} (hp : l₁ <+: l₂) (h : AdjDistinct l₂) : AdjDistinct l₁ := by
  induction l₁ generalizing l₂ with
  | nil => trivial
  | cons a r ih =>
    obtain ⟨t, rfl⟩ := hp
    rw [List.cons_append] at h
    rw [adjDistinct_cons] at h ⊢
    refine ⟨?_, ih ⟨t, rfl⟩ h.2⟩
    intro b hb
    apply h.1
    cases r with
    | nil => simp at hb
    | cons c r' => simpa using hb

theorem push_nil (k : K) (as : List α) : push k as [] = [(k, as)] := rfl

theorem push_cons_same (k : K) (as bs : List α) (rest : List (K × List α)) :
    push k as ((k, bs) :: rest) = (k, as ++ bs) :: rest := by simp [push]

theorem push_cons_ne {k k' : K} (h : k ≠ k') (as bs : List α) (rest : List (K × List α)) :
    push k as ((k', bs) :: rest) = (k, as) :: (k', bs) :: rest := by simp [push, h]

theorem push_push_same (k : K) (as bs : List α) (g : List (K × List α)) :
    push k as (push k bs g) = push k (as ++ bs) g := by
  cases g with
  | nil => simp [push]
  | cons h rest =>
    obtain ⟨k', cs⟩ := h
    by_cases hk : k = k'
    · subst hk; simp [push, List.append_assoc]
    · simp [push, hk]

theorem push_push_ne {k k' : K} (hk : k ≠ k') (as bs : List α) (g : List (K × List α)) :
    push k as (push k' bs g) = (k, as) :: push k' bs g := by
  cases g with
  | nil => simp [push, hk]
  | cons h rest =>
    obtain ⟨k'', cs⟩ := h
    by_cases hk' : k' = k''
    · subst hk'; simp [push, hk]
    · simp [push, hk, hk']

theorem push_of_head_ne (k : K) (as : List α) (g : List (K × List α))
    (h : ∀ x ∈ g.head?, k ≠ x.1) : push k as g = (k, as) :: g := by
  cases g with
  | nil => rfl
  | cons x rest =>
    obtain ⟨k', bs⟩ := x
    have : k ≠ k' := h (k', bs) (by simp)
    simp [push, this]

theorem push_flatten (k : K) (as : List α) (g : List (K × List α)) :
    (push k as g).flatMap (·.2) = as ++ g.flatMap (·.2) := by
  cases g with
  | nil => simp [push]
  | cons x rest =>
    obtain ⟨k', bs⟩ := x
    by_cases hk : k = k' <;> simp [push, hk]

theorem push_ne_nil (k : K) (as : List α) (g : List (K × List α)) : push k as g ≠ [] := by
  cases g with
  | nil => simp [push]
  | cons x rest =>
    obtain ⟨k', bs⟩ := x
    by_cases hk : k = k' <;> simp [push, hk]

theorem push_head_key (k : K) (as : List α) (g : List (K × List α)) :
    (push k as g).head?.map (·.1) = some k := by
  cases g with
  | nil => simp [push]
  | cons x rest =>
    obtain ⟨k', bs⟩ := x
    by_cases hk : k = k' <;> simp [push, hk]

/-- every element of the grouped list lies in a run with its own key; runs are non-empty -/
theorem push_mem {key : α → K} {k : K} {as : List α} {g : List (K × List α)}
    (has : as ≠ [] ∧ ∀ a ∈ as, key a = k)
    (hg : ∀ x ∈ g, x.2 ≠ [] ∧ ∀ a ∈ x.2, key a = x.1) :
    ∀ x ∈ push k as g, x.2 ≠ [] ∧ ∀ a ∈ x.2, key a = x.1 := by
  cases g with
  | nil => intro x hx; simp [push] at hx; subst hx; exact has
  | cons y rest =>
    obtain ⟨k', bs⟩ := y
    by_cases hk : k = k'
    · subst hk
      intro x hx
      simp only [push, if_true, List.mem_cons] at hx
      rcases hx with rfl | hx
      · refine ⟨by simp [has.1], ?_⟩
        intro a ha
        rcases List.mem_append.mp ha with ha | ha
        · exact has.2 a ha
        · exact (hg (k, bs) (by simp)).2 a ha
      · exact hg x (by simp [hx])
    · intro x hx
      simp only [push, hk, if_false, List.mem_cons] at hx
      rcases hx with rfl | rfl | hx
      · exact has
      · exact hg _ (by simp)
      · exact hg x (by simp [hx])

theorem push_keys_adjDistinct (k : K) (as : List α) (g : List (K × List α))
    (hg : AdjDistinct (g.map (·.1))) : AdjDistinct ((push k as g).map (·.1)) := by
  cases g with
  | nil => simp [push, AdjDistinct]
  | cons y rest =>
    obtain ⟨k', bs⟩ := y
    by_cases hk : k = k'
    · subst hk; simpa [push] using hg
    · simp only [push, hk, if_false, List.map_cons, AdjDistinct]
      exact ⟨hk, hg⟩

theorem groupRuns_flatten (key : α → K) (xs : List α) : (groupRuns key xs).flatMap (·.2) = xs := by
  induction xs with
  | nil => rfl
  | cons a xs ih => simp [groupRuns, push_flatten, ih]

theorem groupRuns_mem (key : α → K) (xs : List α) :
    ∀ x ∈ groupRuns key xs, x.2 ≠ [] ∧ ∀ a ∈ x.2, key a = x.1 := by
  induction xs with
  | nil => intro x hx; simp [groupRuns] at hx
  | cons a xs ih => exact push_mem (by simp) ih

/-- the runs are maximal: neighbouring runs have different keys -/
theorem groupRuns_adjDistinct (key : α → K) (xs : List α) : AdjDistinct ((groupRuns key xs).map (·.1)) := by
  induction xs with
  | nil => trivial
  | cons a xs ih => exact push_keys_adjDistinct _ _ _ ih

theorem groupRuns_eq_nil {key : α → K} {xs : List α} : groupRuns key xs = [] ↔ xs = [] := by
  cases xs with
  | nil => simp [groupRuns]
  | cons a xs => simp [groupRuns, push_ne_nil]

/-- a non-empty block of equal key in front of a list is pushed as a whole -/
theorem groupRuns_block_append (key : α → K) (k : K) (as ys : List α) (hne : as ≠ [])
    (hk : ∀ a ∈ as, key a = k) : groupRuns key (as ++ ys) = push k as (groupRuns key ys) := by
  induction as with
  | nil => exact absurd rfl hne
  | cons a r ih =>
    have ha : key a = k := hk a (by simp)
    cases r with
    | nil => simp [groupRuns, ha]
    | cons b r' =>
      have := ih (by simp) (fun x hx => hk x (by simp [hx]))
      simp only [List.cons_append, groupRuns] at this ⊢
      rw [this, ha, push_push_same]
      rfl

/-- Uniqueness: any cutting of a list into non-empty blocks of constant key with different keys on neighbouring
    blocks is `groupRuns` of the concatenation. -/
theorem groupRuns_of_valid (key : α → K) (gs : List (K × List α))
    (hmem : ∀ g ∈ gs, g.2 ≠ [] ∧ ∀ a ∈ g.2, key a = g.1)
    (hadj : AdjDistinct (gs.map (·.1))) :
    groupRuns key (gs.flatMap (·.2)) = gs := by
  induction gs with
  | nil => rfl
  | cons g rest ih =>
    obtain ⟨k, as⟩ := g
    have h1 := hmem (k, as) (by simp)
    rw [List.map_cons, adjDistinct_cons] at hadj
    rw [List.flatMap_cons, groupRuns_block_append key k as _ h1.1 h1.2,
      ih (fun g hg => hmem g (by simp [hg])) hadj.2]
    apply push_of_head_ne
    intro x hx
    apply hadj.1
    cases rest with
    | nil => simp at hx
    | cons y r => simp at hx; subst hx; simp

/-- merge neighbouring groups of equal key -/
def regroup (gs : List (K × List α)) : List (K × List α) := gs.foldr (fun g acc => push g.1 g.2 acc) []

/-- keep only the elements satisfying `p` in every group and drop the emptied groups -/
def restrict (p : α → Bool) (gs : List (K × List α)) : List (K × List α) :=
  (gs.map (fun g => (g.1, g.2.filter p))).filter (fun g => g.2 ≠ [])

omit [DecidableEq K] in
theorem restrict_cons (p : α → Bool) (k : K) (bs : List α) (rest : List (K × List α)) :
    restrict p ((k, bs) :: rest) =
      if bs.filter p = [] then restrict p rest else (k, bs.filter p) :: restrict p rest := by
  by_cases hb : bs.filter p = []
  · simp only [restrict, List.map_cons, hb, if_true]
    rw [List.filter_cons_of_neg (by simp)]
  · simp only [restrict, List.map_cons, hb, if_false]
    rw [List.filter_cons_of_pos (by simpa using hb)]

theorem regroup_cons (k : K) (bs : List α) (gs : List (K × List α)) :
    regroup ((k, bs) :: gs) = push k bs (regroup gs) := rfl

theorem regroup_restrict_push (p : α → Bool) (k : K) (a : α) (G : List (K × List α)) :
    regroup (restrict p (push k [a] G)) =
      if p a then push k [a] (regroup (restrict p G)) else regroup (restrict p G) := by
  cases G with
  | nil =>
    rw [push_nil, restrict_cons]
    by_cases hp : p a = true
    · rw [List.filter_cons_of_pos hp, if_neg (by simp), if_pos hp]; rfl
    · rw [List.filter_cons_of_neg hp, if_pos (by simp), if_neg hp]
  | cons g rest =>
    obtain ⟨k', bs⟩ := g
    by_cases hk : k = k'
    · subst hk
      rw [push_cons_same, List.cons_append, List.nil_append]
      by_cases hp : p a = true
      · rw [restrict_cons, List.filter_cons_of_pos hp, if_neg (by simp), regroup_cons, if_pos hp, restrict_cons]
        by_cases hb : bs.filter p = []
        · rw [if_pos hb, hb]
        · rw [if_neg hb, regroup_cons, push_push_same]; rfl
      · rw [restrict_cons, List.filter_cons_of_neg hp, if_neg hp, restrict_cons]
    · rw [push_cons_ne hk]
      by_cases hp : p a = true
      · rw [restrict_cons, List.filter_cons_of_pos hp, if_neg (by simp), regroup_cons, if_pos hp]; rfl
      · rw [restrict_cons, List.filter_cons_of_neg hp, if_pos (by simp), if_neg hp]

/-- cutting after filtering = filtering the runs, dropping the emptied ones and merging neighbours that became
    adjacent with equal keys -/
theorem groupRuns_filter (key : α → K) (p : α → Bool) (xs : List α) :
    groupRuns key (xs.filter p) = regroup (restrict p (groupRuns key xs)) := by
  induction xs with
  | nil => rfl
  | cons a xs ih =>
    rw [groupRuns, regroup_restrict_push, ← ih]
    by_cases hp : p a = true
    · rw [List.filter_cons_of_pos hp, if_pos hp, groupRuns]
    · rw [List.filter_cons_of_neg hp, if_neg hp]

/-- nothing to merge when neighbouring keys differ -/
theorem regroup_of_adjDistinct (gs : List (K × List α)) (h : AdjDistinct (gs.map (·.1))) : regroup gs = gs := by
  induction gs with
  | nil => rfl
  | cons g rest ih =>
    obtain ⟨k, bs⟩ := g
    rw [List.map_cons, adjDistinct_cons] at h
    rw [regroup_cons, ih h.2]
    apply push_of_head_ne
    intro x hx
    apply h.1
    cases rest with
    | nil => simp at hx
    | cons y r => simp at hx; subst hx; simp

end Runs

/-! ### the loop computes the runs -/

/-- is this frame exported under `metadata = md` -/
def isExp (md : Bool) (f : Frame) : Bool := (exported md f).isSome

theorem exported_eq (md : Bool) (f : Frame) :
    exported md f = if isExp md f then some f.data else none := by
  unfold isExp exported
  by_cases hs : isStream f.ftype = true <;> cases md <;> simp [hs]
  by_cases h6 : f.ftype = 6 <;> by_cases hfe : f.ftype = 254 <;> simp [h6, hfe]

theorem isExp_false (f : Frame) : isExp false f = isStream f.ftype := by
  unfold isExp exported
  by_cases hs : isStream f.ftype = true <;> simp [hs]

theorem isExp_true (f : Frame) : isExp true f = (isStream f.ftype || f.ftype == 0x06 || f.ftype == 0xfe) := by
  unfold isExp exported
  by_cases hs : isStream f.ftype = true <;> simp [hs]
  by_cases h6 : f.ftype = 6 <;> by_cases hfe : f.ftype = 254 <;> simp [h6, hfe]

theorem isExp_mono (f : Frame) (h : isExp false f = true) : isExp true f = true := by
  rw [isExp_false] at h; rw [isExp_true, h]; rfl

theorem filterMap_exported (md : Bool) (fs : List Frame) :
    fs.filterMap (exported md) = (fs.filter (isExp md)).map (·.data) := by
  induction fs with
  | nil => rfl
  | cons f fs ih =>
    by_cases h : isExp md f = true
    · simp [exported_eq, h, ih]
    · simp [exported_eq, h, ih]

theorem stepG_of_not_exp {md : Bool} {f : Frame} (h : isExp md f = false) (s : StG) : stepG md s f = s := by
  unfold stepG; rw [exported_eq, h]; rfl

/-- the instrumented loop from an open group `(k, acc)` -/
theorem finishG_foldl_some (md : Bool) (fs : List Frame) (k : Nat × Bool) (acc : List Frame) (out : List Group) :
    finishG (fs.foldl (stepG md) (some (k, acc), out)) =
      out ++ push k acc (groupRuns Frame.key (fs.filter (isExp md))) := by
  induction fs generalizing k acc out with
  | nil => simp [finishG, groupRuns, push]
  | cons f fs ih =>
    rw [List.foldl_cons]
    by_cases he : isExp md f = true
    · have hstep : stepG md (some (k, acc), out) f =
          if f.key = k then (some (k, acc ++ [f]), out) else (some (f.key, [f]), out ++ [(k, acc)]) := by
        unfold stepG; rw [exported_eq, he]
        obtain ⟨k1, k2⟩ := k
        simp only [if_true, Frame.key, Prod.mk.injEq]
      rw [hstep, List.filter_cons_of_pos he, groupRuns]
      by_cases hk : f.key = k
      · rw [if_pos hk, ih, hk, push_push_same]
      · rw [if_neg hk, ih, push_push_ne (Ne.symm hk), List.append_assoc]; rfl
    · have he' : isExp md f = false := by simpa using he
      rw [stepG_of_not_exp he', ih, List.filter_cons_of_neg he]

/-- **The export loop cuts the exported frames into maximal runs of equal `(ts, isserver)`.** -/
theorem groups_eq_groupRuns (md : Bool) (fs : List Frame) :
    groups md fs = groupRuns Frame.key (fs.filter (isExp md)) := by
  unfold groups
  induction fs with
  | nil => rfl
  | cons f fs ih =>
    rw [List.foldl_cons]
    by_cases he : isExp md f = true
    · have hstep : stepG md (none, []) f = (some (f.key, [f]), []) := by
        unfold stepG; rw [exported_eq, he]; rfl
      rw [hstep, finishG_foldl_some, List.filter_cons_of_pos he, groupRuns]; rfl
    · have he' : isExp md f = false := by simpa using he
      rw [stepG_of_not_exp he', ih, List.filter_cons_of_neg he]

/-! ### `build` is `groups` with the frames of each datagram concatenated -/

/-- abstraction from the instrumented state to the state of `build` -/
def absSt (s : StG) : St :=
  (s.1.map (fun g => (g.1.1, g.1.2, (g.2.map (·.data)).flatten)), s.2.map Group.dgram)

theorem step_abs (md : Bool) (s : StG) (f : Frame) : step md (absSt s) f = absSt (stepG md s f) := by
  unfold step stepG
  rw [exported_eq]
  by_cases he : isExp md f = true
  · simp only [he, if_true]
    obtain ⟨cur, out⟩ := s
    cases cur with
    | none => simp [absSt, Frame.key]
    | some g =>
      obtain ⟨⟨t, b⟩, acc⟩ := g
      by_cases hk : f.ts = t ∧ f.isServer = b
      · simp [absSt, hk]
      · simp only [absSt, Option.map_some, hk, if_false]
        simp [Group.dgram, Frame.key]
  · have he' : isExp md f = false := by simpa using he
    simp [he']

theorem foldl_step_abs (md : Bool) (fs : List Frame) (s : StG) :
    fs.foldl (step md) (absSt s) = absSt (fs.foldl (stepG md) s) := by
  induction fs generalizing s with
  | nil => rfl
  | cons f fs ih => rw [List.foldl_cons, List.foldl_cons, step_abs, ih]

theorem finish_abs (s : StG) : finish (absSt s) = (finishG s).map Group.dgram := by
  obtain ⟨cur, out⟩ := s
  cases cur with
  | none => simp [finish, finishG, absSt]
  | some g => simp [finish, finishG, absSt, Group.dgram]

theorem build_eq_groups (md : Bool) (fs : List Frame) : build md fs = (groups md fs).map Group.dgram := by
  unfold build groups
  have : (init : St) = absSt (none, []) := rfl
  rw [this, foldl_step_abs, finish_abs]

theorem build_eq_chunks (md : Bool) (fs : List Frame) :
    build md fs = (chunks md fs).map (fun g => ⟨g.1.2, g.1.1, (g.2.map (·.2)).flatten⟩) := by
  rw [build_eq_groups, chunks, List.map_map]
  apply List.map_congr_left
  intro g _
  simp [Group.dgram, chunkOf, List.map_map, Function.comp_def]

/-! ### `self.out` only grows at its end -/

theorem step_out_prefix (md : Bool) (s : St) (f : Frame) : s.2 <+: (step md s f).2 := by
  unfold step
  split
  · exact List.prefix_refl _
  · split
    · exact List.prefix_refl _
    · split
      · exact List.prefix_refl _
      · exact List.prefix_append _ _

theorem out_prefix_foldl (md : Bool) (fs : List Frame) (s : St) : s.2 <+: (fs.foldl (step md) s).2 := by
  induction fs generalizing s with
  | nil => exact List.prefix_refl _
  | cons f fs ih => exact (step_out_prefix md s f).trans (ih _)

theorem out_prefix_finish (s : St) : s.2 <+: finish s := by
  unfold finish
  split
  · exact List.prefix_refl _
  · exact List.prefix_append _ _

theorem finish_dropLast_prefix (s : St) : (finish s).dropLast <+: s.2 := by
  unfold finish
  split
  · exact List.dropLast_prefix _
  · simp

end TLX.Quic.UdpOut
