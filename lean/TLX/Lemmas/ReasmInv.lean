/-
The invariant behind C05 `reassembly_exact_partial` (repaired machine `Reassembly.stepW`), generic in
the modulus `W`.  Fixed data: a cut `cs` of the stream into non-empty chunks, the records `rs` of the
stream.  State description: `done ++ rest = cs` (the chunks delivered so far / not yet), `k` records
handed on, `pend` = the buffered packets as (offset, id, payload), strictly ordered by offset.
Core Lean only.
-/
import TLX.Lemmas.Framing
import TLX.Lemmas.ReasmSort
namespace TLX.Lemmas.ReasmInv
open TLX TLX.Reassembly TLX.Lemmas.ModSeq TLX.Lemmas.ReasmSort TLX.Lemmas.Framing

/-- What `deliver` tests before it hands records on. -/
def Flushable (W base : Nat) (buf : List Seg) : Prop :=
  (∃ h t, buf = h :: t ∧ h.seq = base) ∧ contiguous W buf = true ∧ (flush buf).isSome = true

theorem deliver_cases (W : Nat) (st : St) (base : Nat) (h : Seg) (t : List Seg) :
    (¬ Flushable W base (h :: t) ∧ deliver W st base (h :: t) = { st with buf := h :: t }) ∨
    (∃ recs, Flushable W base (h :: t) ∧ flush (h :: t) = some recs ∧
      deliver W st base (h :: t) =
        { st with buf := [], next := some ((base + (bufData (h :: t)).length) % W), out := st.out ++ recs }) := by
  unfold deliver
  by_cases h1 : h.seq ≠ base
  · left
    refine ⟨?_, by simp [h1]⟩
    rintro ⟨⟨h', t', he, hb⟩, _⟩
    cases he
    exact h1 hb
  · by_cases h2 : contiguous W (h :: t) = true
    · cases hf : flush (h :: t) with
      | none =>
        left
        refine ⟨?_, by simp [h1, h2]⟩
        rintro ⟨_, _, h3⟩
        rw [hf] at h3; exact absurd h3 (by simp)
      | some recs =>
        right
        refine ⟨recs, ⟨⟨h, t, rfl, by simpa using h1⟩, h2, by simp [hf]⟩, rfl, by simp [h1, h2]⟩
    · left
      refine ⟨?_, by simp [h1, h2]⟩
      rintro ⟨_, h3, _⟩
      exact h2 h3

theorem bufData_toSeg (W isn : Nat) (pend : List P) :
    bufData (pend.map (toSeg W isn)) = ((pend.map oc).map (·.2)).flatten := by
  simp [bufData, toSeg, oc, List.map_map, Function.comp_def]

/-- A buffer that holds exactly the next chunks is contiguous. -/
theorem contiguous_of_offs (W isn : Nat) :
    ∀ (pend : List P) (d : Nat) (rest : List Bytes), pend.map oc = offs d rest →
      contiguous W (pend.map (toSeg W isn)) = true := by
  intro pend
  induction pend with
  | nil => intros; rfl
  | cons e t ih =>
    intro d rest h
    cases rest with
    | nil => simp [offs] at h
    | cons c rest' =>
      simp only [List.map_cons, offs, List.cons.injEq] at h
      obtain ⟨he, ht⟩ := h
      cases t with
      | nil => rfl
      | cons e2 t' =>
        cases rest' with
        | nil => simp [offs] at ht
        | cons c2 rest'' =>
          have ht' := ht
          simp only [List.map_cons, offs, List.cons.injEq] at ht'
          simp only [List.map_cons, contiguous, Bool.and_eq_true, beq_iff_eq]
          refine ⟨?_, ih (d + c.length) (c2 :: rest'') ht⟩
          have h1 : e.1 = d := congrArg Prod.fst he
          have h2 : e.2.2 = c := congrArg Prod.snd he
          have h3 : e2.1 = d + c.length := congrArg Prod.fst ht'.1
          simp only [toSeg]
          rw [sq_add, h1, h2, h3]

/-- A contiguous buffer of pending chunks that starts at the next expected offset is a prefix of the
    chunks not yet delivered. -/
theorem contig_prefix (W isn L : Nat) (hW : 0 < W) (hL : L < W) :
    ∀ (pend : List P) (d : Nat) (rest : List Bytes), (∀ c ∈ rest, c ≠ []) → d + rest.flatten.length ≤ L →
      pend.Pairwise (fun a b => a.1 < b.1) → (∀ e ∈ pend, oc e ∈ offs d rest) →
      (∀ e t, pend = e :: t → e.1 = d) → contiguous W (pend.map (toSeg W isn)) = true →
      pend.map oc = (offs d rest).take pend.length := by
  intro pend
  induction pend with
  | nil => intros; simp
  | cons e t ih =>
    intro d rest hne hlen hsort hmem hhead hcont
    have he1 : e.1 = d := hhead e t rfl
    have hemem := hmem e (List.mem_cons_self ..)
    cases rest with
    | nil => simp [offs] at hemem
    | cons c0 rest' =>
      have hc0 : 0 < c0.length := List.length_pos_iff.mpr (hne c0 (List.mem_cons_self ..))
      have hne' : ∀ c ∈ rest', c ≠ [] := fun c hc => hne c (List.mem_cons_of_mem _ hc)
      have hoe : oc e = (d, c0) :=
        offs_functional d (c0 :: rest') hne (oc e) (d, c0) hemem (by simp [offs]) (by simp [oc, he1])
      have hp := List.pairwise_cons.mp hsort
      have hlen' : d + c0.length + rest'.flatten.length ≤ L := by
        simp only [List.flatten_cons, List.length_append] at hlen; omega
      -- the other pending entries lie in the remaining chunks
      have hmem' : ∀ x ∈ t, oc x ∈ offs (d + c0.length) rest' := by
        intro x hx
        have h1 := hmem x (List.mem_cons_of_mem _ hx)
        simp only [offs, List.mem_cons] at h1
        rcases h1 with h1 | h1
        · have := hp.1 x hx
          have : x.1 = d := congrArg Prod.fst h1
          omega
        · exact h1
      have hhead' : ∀ e2 t', t = e2 :: t' → e2.1 = d + c0.length := by
        intro e2 t' ht
        subst ht
        simp only [List.map_cons, contiguous, Bool.and_eq_true, beq_iff_eq] at hcont
        have h1 := hcont.1
        simp only [toSeg] at h1
        rw [sq_add] at h1
        have h2 : e.2.2 = c0 := congrArg Prod.snd hoe
        rw [he1, h2] at h1
        have hb := offs_bounds _ _ _ (hmem' e2 (List.mem_cons_self ..))
        have hc2 : 0 < (oc e2).2.length :=
          List.length_pos_iff.mpr (hne' _ hb.2.2)
        have : (oc e2).1 = e2.1 := rfl
        exact (sq_inj' W isn (d + c0.length) e2.1 (L + 1) hW (by omega) (by omega) (by omega) h1).symm
      have hcont' : contiguous W (t.map (toSeg W isn)) = true := by
        cases t with
        | nil => rfl
        | cons e2 t' =>
          simp only [List.map_cons, contiguous, Bool.and_eq_true] at hcont
          exact hcont.2
      have := ih (d + c0.length) rest' hne' hlen' hp.2 hmem' hhead' hcont'
      simp only [List.map_cons, List.length_cons, offs, List.take_succ_cons, hoe, this]

section
variable (W isn : Nat) (cs rs : List Bytes)

/-- The fixed data and what is assumed about it. -/
structure Setup : Prop where
  hW : 0 < W / 2
  hne : ∀ c ∈ cs, c ≠ []
  hwf : ∀ r ∈ rs, WF r
  hstr : cs.flatten = rs.flatten
  hL : cs.flatten.length + W / 2 ≤ W

structure Inv (st : St) (done rest : List Bytes) (k : Nat) (pend : List P) : Prop where
  split : cs = done ++ rest
  recs : st.out.map (·.1) = rs.take k
  bound : (rs.take k).flatten.length = done.flatten.length
  next : st.next = some (sq W isn done.flatten.length) ∨ (st.next = none ∧ done = [])
  buf : st.buf = pend.map (toSeg W isn)
  sorted : pend.Pairwise (fun a b => a.1 < b.1)
  mem : ∀ e ∈ pend, oc e ∈ offs done.flatten.length rest
  seenDone : ∀ x ∈ offs 0 done, sq W isn x.1 ∈ st.seen
  seenPend : ∀ e ∈ pend, sq W isn e.1 ∈ st.seen
  seenRest : ∀ x ∈ offs done.flatten.length rest, sq W isn x.1 ∈ st.seen → ∃ e ∈ pend, e.1 = x.1
  stuck : st.buf = [] ∨ ¬ Flushable W (sq W isn done.flatten.length) st.buf

theorem inv_init : Inv W isn cs rs St.init [] cs 0 [] where
  split := rfl
  recs := rfl
  bound := rfl
  next := Or.inr ⟨rfl, rfl⟩
  buf := rfl
  sorted := List.Pairwise.nil
  mem := by simp
  seenDone := by simp [offs]
  seenPend := by simp
  seenRest := by simp [St.init]
  stuck := Or.inl rfl

end

/-! ### small facts about `extract`, `offs`, `flatten` -/

theorem extract_of_cons (W : Nat) (st : St) (first : Seg) (rest : List Seg) (hb : st.buf = first :: rest) :
    extract W st = deliver W st (baseOf W st.next first rest)
      (sortBy (syncKey W (baseOf W st.next first rest)) (first :: rest)) := by
  unfold extract
  rw [hb]

theorem extract_seen (W : Nat) (st : St) : (extract W st).seen = st.seen := by
  unfold extract
  split
  · rfl
  · simp only
    unfold deliver
    split
    · rfl
    · split
      · rfl
      · split
        · rfl
        · split <;> rfl

theorem stepW_seen (W : Nat) (st : St) (p : Seg) :
    (stepW W st p).seen = if st.seen.contains p.seq then st.seen else st.seen ++ [p.seq] := by
  unfold stepW
  split
  · rfl
  · rw [extract_seen]

theorem offs_take (o : Nat) (cs : List Bytes) (j : Nat) : (offs o cs).take j = offs o (cs.take j) := by
  induction cs generalizing o j with
  | nil => simp [offs]
  | cons c cs ih =>
    cases j with
    | zero => simp [offs]
    | succ j => simp [offs, ih]

theorem flatten_take_eq (l : List Bytes) (j : Nat) :
    (l.take j).flatten = l.flatten.take (l.take j).flatten.length := by
  conv => rhs; rw [← List.take_append_drop j l, List.flatten_append]
  simp

section
variable {W isn : Nat} {cs rs : List Bytes}

theorem Setup.hW' (S : Setup W cs rs) : 0 < W := by have := S.hW; omega

theorem Setup.hLW (S : Setup W cs rs) : cs.flatten.length < W := by
  have := S.hW; have := S.hL; omega

theorem Inv.len {st : St} {done rest : List Bytes} {k : Nat} {pend : List P}
    (I : Inv W isn cs rs st done rest k pend) :
    done.flatten.length + rest.flatten.length = cs.flatten.length := by
  rw [I.split, List.flatten_append, List.length_append]

theorem Inv.rest_ne (S : Setup W cs rs) {st : St} {done rest : List Bytes} {k : Nat} {pend : List P}
    (I : Inv W isn cs rs st done rest k pend) : ∀ c ∈ rest, c ≠ [] := by
  intro c hc
  apply S.hne
  rw [I.split]
  exact List.mem_append_right _ hc

/-- Chunks not yet delivered lie in `[d, L)`. -/
theorem Inv.rest_bounds (S : Setup W cs rs) {st : St} {done rest : List Bytes} {k : Nat} {pend : List P}
    (I : Inv W isn cs rs st done rest k pend) (x : Nat × Bytes) (hx : x ∈ offs done.flatten.length rest) :
    done.flatten.length ≤ x.1 ∧ x.1 < cs.flatten.length := by
  have hb := offs_bounds _ _ _ hx
  have hpos : 0 < x.2.length := List.length_pos_iff.mpr (I.rest_ne S _ hb.2.2)
  have := I.len
  omega

/-- The records not yet handed on are the bytes of the chunks not yet delivered. -/
theorem Inv.rest_stream (S : Setup W cs rs) {st : St} {done rest : List Bytes} {k : Nat} {pend : List P}
    (I : Inv W isn cs rs st done rest k pend) : (rs.drop k).flatten = rest.flatten := by
  have h1 : cs.flatten = done.flatten ++ rest.flatten := by rw [I.split, List.flatten_append]
  have h2 : rs.flatten = (rs.take k).flatten ++ (rs.drop k).flatten := by
    rw [← List.flatten_append, List.take_append_drop]
  have h3 := S.hstr
  rw [h1, h2] at h3
  exact ((List.append_inj h3 I.bound.symm).2).symm

/-- Who has been seen among the chunks not yet delivered, after a new packet at offset `o`. -/
theorem seenRest_step (S : Setup W cs rs) {st : St} {done rest : List Bytes} {k : Nat} {pend : List P}
    (I : Inv W isn cs rs st done rest k pend) (pe : P) (hpe : oc pe ∈ offs done.flatten.length rest)
    (x : Nat × Bytes) (hx : x ∈ offs done.flatten.length rest)
    (hs : sq W isn x.1 ∈ st.seen ++ [sq W isn pe.1]) : ∃ e ∈ insP pe pend, e.1 = x.1 := by
  rcases List.mem_append.mp hs with h | h
  · obtain ⟨e, he, h1⟩ := I.seenRest x hx h
    exact ⟨e, (mem_insP pe pend e).mpr (Or.inr he), h1⟩
  · simp only [List.mem_singleton] at h
    have b1 := I.rest_bounds S x hx
    have b2 := I.rest_bounds S (oc pe) hpe
    have := sq_inj' W isn x.1 pe.1 cs.flatten.length S.hW' (Nat.le_of_lt S.hLW) b1.2 b2.2 h
    exact ⟨pe, (mem_insP pe pend pe).mpr (Or.inl rfl), this.symm⟩

/-- `baseOf` on the buffer with the new packet appended: in sync the next expected sequence number;
    before anything was delivered the sequence number of the earliest buffered chunk (the head of the
    offset-ordered buffer).  In both cases no buffered chunk lies before it. -/
theorem baseOf_inv (S : Setup W cs rs) {st : St} {done rest : List Bytes} {k : Nat} {pend : List P}
    (I : Inv W isn cs rs st done rest k pend) (pe : P) (hpe : oc pe ∈ offs done.flatten.length rest)
    (hfresh : ∀ a ∈ pend, a.1 ≠ pe.1) (first : Seg) (tl : List Seg)
    (hb : pend.map (toSeg W isn) ++ [toSeg W isn pe] = first :: tl) :
    ∃ b, baseOf W st.next first tl = sq W isn b ∧ (∀ a ∈ insP pe pend, b ≤ a.1) ∧
      (st.next ≠ none → b = done.flatten.length) ∧
      (st.next = none → ∃ e' t', insP pe pend = e' :: t' ∧ b = e'.1) := by
  have hmemAll : ∀ a ∈ insP pe pend, oc a ∈ offs done.flatten.length rest := by
    intro a ha
    rcases (mem_insP pe pend a).mp ha with rfl | ha
    · exact hpe
    · exact I.mem a ha
  rcases I.next with h | ⟨hn, hd⟩
  · refine ⟨done.flatten.length, by simp [baseOf, h], ?_, fun _ => rfl, fun h' => by rw [h] at h'; exact absurd h' (by simp)⟩
    intro a ha
    exact (I.rest_bounds S _ (hmemAll a ha)).1
  · subst hd
    simp only [baseOf, hn, List.flatten_nil, List.length_nil] at hmemAll hpe ⊢
    have hbound : ∀ a : P, oc a ∈ offs 0 rest → a.1 < cs.flatten.length := fun a ha =>
      (I.rest_bounds S (oc a) ha).2
    have hL := S.hL
    have hW := S.hW'
    have hsortedIns := sorted_insP pe pend I.sorted hfresh
    cases hp : pend with
    | nil =>
      rw [hp] at hb
      simp only [List.map_nil, List.nil_append, List.cons.injEq] at hb
      obtain ⟨rfl, rfl⟩ := hb
      refine ⟨pe.1, by simp [minBy, toSeg], ?_, fun h => absurd rfl h, fun _ => ⟨pe, [], by simp [insP], rfl⟩⟩
      intro a ha
      simp only [insP, List.mem_singleton] at ha
      rw [ha]; exact Nat.le_refl _
    | cons e0 t =>
      rw [hp] at hb hsortedIns
      simp only [List.map_cons, List.cons_append, List.cons.injEq] at hb
      obtain ⟨rfl, rfl⟩ := hb
      have hsorted := I.sorted
      rw [hp] at hsorted
      have hp' := List.pairwise_cons.mp hsorted
      have hm0 : oc e0 ∈ offs 0 rest := I.mem e0 (by rw [hp]; exact List.mem_cons_self ..)
      have hne0 : e0.1 ≠ pe.1 := hfresh e0 (by rw [hp]; exact List.mem_cons_self ..)
      -- keys relative to the earliest chunk so far
      have hkey_ge : ∀ a : P, oc a ∈ offs 0 rest → e0.1 ≤ a.1 →
          presyncKey W (sq W isn e0.1) (toSeg W isn a) = (a.1 - e0.1) + W / 2 := by
        intro a ha hle
        have b1 := hbound a ha
        have := presyncKey_sq_ge W isn e0.1 (a.1 - e0.1) a.2.1 a.2.2 hW (by omega)
        rw [show e0.1 + (a.1 - e0.1) = a.1 by omega] at this
        exact this
      have hseq0 : (toSeg W isn e0).seq = sq W isn e0.1 := rfl
      rw [hseq0]
      by_cases hlt : e0.1 < pe.1
      · -- the new packet lies behind the earliest one: the earliest stays
        have hins : insP pe (e0 :: t) = e0 :: insP pe t := by simp [insP, hlt]
        refine ⟨e0.1, ?_, ?_, fun h => absurd rfl h, fun _ => ⟨e0, insP pe t, hins, rfl⟩⟩
        · have hmin : minBy (presyncKey W (sq W isn e0.1)) (toSeg W isn e0)
              (t.map (toSeg W isn) ++ [toSeg W isn pe]) = toSeg W isn e0 := by
            apply minBy_head
            intro x hx
            rw [hkey_ge e0 hm0 (Nat.le_refl _)]
            rcases List.mem_append.mp hx with hx | hx
            · obtain ⟨a, ha, rfl⟩ := List.mem_map.mp hx
              have := hp'.1 a ha
              rw [hkey_ge a (I.mem a (by rw [hp]; exact List.mem_cons_of_mem _ ha)) (by omega)]
              omega
            · simp only [List.mem_singleton] at hx
              subst hx
              rw [hkey_ge pe hpe (by omega)]
              omega
          rw [hmin]
          rfl
        · intro a ha
          rw [hins] at ha hsortedIns
          rcases List.mem_cons.mp ha with rfl | ha
          · exact Nat.le_refl _
          · exact Nat.le_of_lt ((List.pairwise_cons.mp hsortedIns).1 a ha)
      · -- the new packet lies before everything buffered: it becomes the origin
        have hpl : pe.1 < e0.1 := by omega
        have hins : insP pe (e0 :: t) = pe :: e0 :: t := by simp [insP, hlt]
        have hb0 := hbound e0 hm0
        have hkey_pe : presyncKey W (sq W isn e0.1) (toSeg W isn pe) = W / 2 - (e0.1 - pe.1) := by
          have := presyncKey_sq_lt W isn e0.1 (e0.1 - pe.1) pe.2.1 pe.2.2 hW (by omega) (by omega) (by omega)
          rw [show e0.1 - (e0.1 - pe.1) = pe.1 by omega] at this
          exact this
        refine ⟨pe.1, ?_, ?_, fun h => absurd rfl h, fun _ => ⟨pe, e0 :: t, hins, rfl⟩⟩
        · have hmin : minBy (presyncKey W (sq W isn e0.1)) (toSeg W isn e0)
              (t.map (toSeg W isn) ++ [toSeg W isn pe]) = toSeg W isn pe := by
            apply minBy_last
            · rw [hkey_pe, hkey_ge e0 hm0 (Nat.le_refl _)]; omega
            · intro x hx
              obtain ⟨a, ha, rfl⟩ := List.mem_map.mp hx
              have := hp'.1 a ha
              rw [hkey_pe, hkey_ge a (I.mem a (by rw [hp]; exact List.mem_cons_of_mem _ ha)) (by omega)]
              omega
          rw [hmin]
          rfl
        · intro a ha
          rw [hins] at ha hsortedIns
          rcases List.mem_cons.mp ha with rfl | ha
          · exact Nat.le_refl _
          · exact Nat.le_of_lt ((List.pairwise_cons.mp hsortedIns).1 a ha)

/-- The buffer after the new packet has been appended and sorted relative to `sq b`, where no buffered
    chunk lies before offset `b`. -/
theorem sort_inv (S : Setup W cs rs) {st : St} {done rest : List Bytes} {k : Nat} {pend : List P}
    (I : Inv W isn cs rs st done rest k pend) (pe : P) (hpe : oc pe ∈ offs done.flatten.length rest)
    (hfresh : ∀ a ∈ pend, a.1 ≠ pe.1) (b : Nat) (hb : ∀ a ∈ insP pe pend, b ≤ a.1) :
    sortBy (syncKey W (sq W isn b)) (pend.map (toSeg W isn) ++ [toSeg W isn pe]) =
      (insP pe pend).map (toSeg W isn) := by
  have hrange : ∀ a : P, a ∈ insP pe pend → b ≤ a.1 ∧ a.1 - b < W := by
    intro a ha
    have hm : oc a ∈ offs done.flatten.length rest := by
      rcases (mem_insP pe pend a).mp ha with rfl | ha
      · exact hpe
      · exact I.mem a ha
    have b1 := I.rest_bounds S (oc a) hm
    have := S.hLW
    have := hb a ha
    simp only [oc] at b1
    omega
  have hin : ∀ a ∈ pend, a ∈ insP pe pend := fun a ha => (mem_insP pe pend a).mpr (Or.inr ha)
  have hpein : pe ∈ insP pe pend := (mem_insP pe pend pe).mpr (Or.inl rfl)
  have hk : ∀ a : P, a ∈ insP pe pend → syncKey W (sq W isn b) (toSeg W isn a) = a.1 - b := by
    intro a ha
    have r := hrange a ha
    have := syncKey_sq W isn b (a.1 - b) a.2.1 a.2.2 S.hW' r.2
    rw [show b + (a.1 - b) = a.1 by omega] at this
    exact this
  rw [sortBy_append_one]
  · exact insertBy_toSeg W isn b S.hW' pe pend (hrange pe hpein) (fun a ha => hrange a (hin a ha))
  · rw [List.pairwise_map]
    refine List.Pairwise.imp_of_mem ?_ I.sorted
    intro a c ha hc hac
    rw [hk a (hin a ha), hk c (hin c hc)]
    have := hrange a (hin a ha); have := hrange c (hin c hc)
    omega
  · intro x hx
    obtain ⟨a, ha, rfl⟩ := List.mem_map.mp hx
    rw [hk a (hin a ha), hk pe hpein]
    have := hrange a (hin a ha); have := hrange pe hpein
    have := hfresh a ha
    omega

/-- A non-empty buffer that frames hands on at least one record. -/
theorem scanD_some_nil (d : Bytes) (h : scanD d = some []) : d = [] := by
  rw [scanD] at h
  by_cases h0 : d.length = 0
  · exact List.eq_nil_of_length_eq_zero h0
  · rw [if_neg h0] at h
    split at h
    · exact absurd h (by simp)
    · split at h
      · exact absurd h (by simp)
      · cases hs : scanD (d.drop (recLen d)) with
        | none => rw [hs] at h; exact absurd h (by simp)
        | some x => rw [hs] at h; simp at h

/-- One packet that is a copy of a chunk of the cut keeps the invariant.  `hearly`: as long as the chunk
    at offset 0 has not been seen, nothing has been handed on (used only while nothing was delivered). -/
theorem step_inv (S : Setup W cs rs) {st : St} {done rest : List Bytes} {k : Nat} {pend : List P}
    (I : Inv W isn cs rs st done rest k pend) (p : Seg) (o : Nat)
    (hp : (o, p.data) ∈ offs 0 cs) (hseq : p.seq = sq W isn o)
    (hearly : (∀ x ∈ (stepW W st p).seen, x ≠ sq W isn 0) → (stepW W st p).out = []) :
    ∃ done' rest' k' pend', Inv W isn cs rs (stepW W st p) done' rest' k' pend' := by
  have hseenStep := stepW_seen W st p
  unfold stepW at hearly ⊢
  by_cases hc : st.seen.contains p.seq = true
  · rw [if_pos hc]; exact ⟨done, rest, k, pend, I⟩
  rw [if_neg hc] at hearly ⊢
  rw [if_neg hc] at hseenStep
  have hns : p.seq ∉ st.seen := by simpa using hc
  -- the packet is one of the chunks not yet delivered, and not one of the buffered ones
  have hmem : (o, p.data) ∈ offs done.flatten.length rest := by
    rw [I.split, offs_append, Nat.zero_add] at hp
    rcases List.mem_append.mp hp with h | h
    · have := I.seenDone _ h
      rw [← hseq] at this
      exact absurd this hns
    · exact h
  let pe : P := (o, p.id, p.data)
  have hpe : oc pe ∈ offs done.flatten.length rest := hmem
  have hto : toSeg W isn pe = p := by
    cases p; simp only [toSeg, pe]; simp only at hseq; rw [hseq]
  have hfresh : ∀ a ∈ pend, a.1 ≠ pe.1 := by
    intro a ha h
    have := I.seenPend a ha
    rw [h, ← hseq] at this
    exact hns this
  -- what `extract` computes
  have hbuf : (pend.map (toSeg W isn) ++ [toSeg W isn pe]) ≠ [] := by simp
  obtain ⟨first, tl, hft⟩ := List.exists_cons_of_ne_nil hbuf
  obtain ⟨b, hbase, hble, hbsync, hbpre⟩ := baseOf_inv S I pe hpe hfresh first tl hft
  have hext : extract W { st with seen := st.seen ++ [p.seq], buf := st.buf ++ [p] } =
      deliver W { st with seen := st.seen ++ [p.seq], buf := st.buf ++ [p] } (sq W isn b)
        ((insP pe pend).map (toSeg W isn)) := by
    rw [extract_of_cons W _ first tl (by simp only [I.buf, ← hto]; exact hft)]
    simp only
    rw [hbase, ← hft, sort_inv S I pe hpe hfresh b hble]
  rw [hext] at hearly ⊢
  have hne' : (insP pe pend).map (toSeg W isn) ≠ [] := by
    intro h
    have := (mem_insP pe pend pe).mpr (Or.inl rfl)
    rw [List.map_eq_nil_iff] at h
    rw [h] at this; exact absurd this (by simp)
  obtain ⟨h, t, hht⟩ := List.exists_cons_of_ne_nil hne'
  have hseen' : sq W isn pe.1 = p.seq := hseq.symm
  -- facts shared by both outcomes
  have hsorted' := sorted_insP pe pend I.sorted hfresh
  have hmem' : ∀ e ∈ insP pe pend, oc e ∈ offs done.flatten.length rest := by
    intro e he
    rcases (mem_insP pe pend e).mp he with rfl | he
    · exact hpe
    · exact I.mem e he
  have hseenPend' : ∀ e ∈ insP pe pend, sq W isn e.1 ∈ st.seen ++ [p.seq] := by
    intro e he
    rcases (mem_insP pe pend e).mp he with rfl | he
    · rw [hseen']; simp
    · exact List.mem_append_left _ (I.seenPend e he)
  have hseenRest' : ∀ x ∈ offs done.flatten.length rest, sq W isn x.1 ∈ st.seen ++ [p.seq] →
      ∃ e ∈ insP pe pend, e.1 = x.1 := by
    intro x hx hs
    rw [← hseen'] at hs
    exact seenRest_step S I pe hpe x hx hs
  -- the head of the sorted buffer and the base
  have hheadseq : ∀ e t2, insP pe pend = e :: t2 → (h.seq = sq W isn e.1) := by
    intro e t2 he
    rw [he, List.map_cons] at hht
    rw [← (List.cons.inj hht).1]; rfl
  have hL := S.hLW
  have hoffL : ∀ e ∈ insP pe pend, e.1 < cs.flatten.length := fun e he =>
    (I.rest_bounds S (oc e) (hmem' e he)).2
  -- `b` is the next expected offset, or (nothing delivered yet) we are before the origin
  have hbd : b = done.flatten.length ∨
      (st.next = none ∧ done = [] ∧ 0 < b ∧ ∃ e' t', insP pe pend = e' :: t' ∧ b = e'.1) := by
    rcases I.next with hn | ⟨hn, hd⟩
    · left; exact hbsync (by rw [hn]; simp)
    · obtain ⟨e', t', hins, hbe⟩ := hbpre hn
      by_cases hb0 : b = 0
      · left; rw [hd]; simpa using hb0
      · right; exact ⟨hn, hd, by omega, e', t', hins, hbe⟩
  rw [hht] at hearly ⊢
  rcases deliver_cases W { st with seen := st.seen ++ [p.seq], buf := st.buf ++ [p] }
      (sq W isn b) h t with ⟨hnf, heq⟩ | ⟨recs, hfl, hflush, heq⟩
  · -- nothing handed on: the packet stays in the buffer
    rw [heq]
    refine ⟨done, rest, k, insP pe pend, ?_⟩
    exact {
      split := I.split
      recs := I.recs
      bound := I.bound
      next := by
        rcases I.next with hn | ⟨hn, hd⟩
        · exact Or.inl hn
        · exact Or.inr ⟨hn, hd⟩
      buf := hht.symm
      sorted := hsorted'
      mem := hmem'
      seenDone := fun x hx => List.mem_append_left _ (I.seenDone x hx)
      seenPend := hseenPend'
      seenRest := hseenRest'
      stuck := by
        right
        rcases hbd with hb | ⟨_, hd, hbpos, e', t', hins, hbe⟩
        · rw [← hb]; exact hnf
        · -- before the origin: the head of the buffer is not the next expected sequence number
          rintro ⟨⟨h2, t2, hh2, hhseq2⟩, _, _⟩
          simp only at hh2
          have h1 := hheadseq e' t' hins
          rw [(List.cons.inj hh2).1, hhseq2, hd] at h1
          simp only [List.flatten_nil, List.length_nil] at h1
          have hlt := hoffL e' (by rw [hins]; exact List.mem_cons_self ..)
          have := sq_inj' W isn 0 e'.1 cs.flatten.length S.hW' (Nat.le_of_lt hL) (by omega) hlt h1
          omega }
  · -- the whole buffer is handed on
    rw [heq] at hearly ⊢
    rw [← hht] at hfl hflush
    obtain ⟨⟨h', t', hh', hhseq⟩, hcont, _⟩ := hfl
    have hrecs_ne : recs ≠ [] := by
      intro hnil
      have h1 := flush_fst ((insP pe pend).map (toSeg W isn))
      rw [hflush, hnil] at h1
      have := scanD_some_nil _ h1.symm
      rw [bufData_toSeg] at this
      have hpein : pe ∈ insP pe pend := (mem_insP pe pend pe).mpr (Or.inl rfl)
      have hpd : p.data ∈ ((insP pe pend).map oc).map (·.2) :=
        List.mem_map.mpr ⟨oc pe, List.mem_map_of_mem hpein, rfl⟩
      have hnil' := List.flatten_eq_nil_iff.mp this p.data hpd
      have hb := offs_bounds _ _ _ hmem
      exact (I.rest_ne S _ hb.2.2) hnil'
    rcases hbd.symm with ⟨_, hd, hbpos, e', t'', hins, hbe⟩ | hb
    · -- before the origin something would be handed on: excluded by `hearly`
      exfalso
      have hno : ∀ x ∈ st.seen ++ [p.seq], x ≠ sq W isn 0 := by
        intro x hx hx0
        -- the chunk at offset 0 exists and would have to be buffered in front of the head
        have hcs : cs ≠ [] := by
          intro hnil; rw [hnil] at hp; simp [offs] at hp
        obtain ⟨c0, cs', hcs'⟩ := List.exists_cons_of_ne_nil hcs
        have hrest : rest = c0 :: cs' := by rw [← hcs', I.split, hd]; rfl
        have h0mem : ((0 : Nat), c0) ∈ offs done.flatten.length rest := by
          rw [hd, hrest]; simp [offs]
        obtain ⟨e, he, h1⟩ := hseenRest' (0, c0) h0mem (by rw [← hx0]; exact hx)
        rw [hins] at he hsorted'
        rcases List.mem_cons.mp he with rfl | he
        · simp only at h1; omega
        · have := (List.pairwise_cons.mp hsorted').1 e he
          simp only at h1; omega
      have hout := hearly hno
      simp only at hout
      rw [List.append_eq_nil_iff] at hout
      exact hrecs_ne hout.2
    -- the buffer is a prefix of the chunks not yet delivered
    subst hb
    have hrestlen : done.flatten.length + rest.flatten.length ≤ cs.flatten.length := Nat.le_of_eq I.len
    have hhead : ∀ e t, insP pe pend = e :: t → e.1 = done.flatten.length := by
      intro e t2 he
      have h1 := hheadseq e t2 he
      rw [← (List.cons.inj (hh'.symm.trans hht)).1, hhseq] at h1
      have hb := I.rest_bounds S (oc e) (hmem' e (by rw [he]; exact List.mem_cons_self ..))
      simp only [oc] at hb
      exact (sq_inj' W isn done.flatten.length e.1 (cs.flatten.length + 1) S.hW' (by omega) (by omega) (by omega) h1).symm
    have hpre := contig_prefix W isn cs.flatten.length S.hW' hL (insP pe pend) done.flatten.length rest
      (I.rest_ne S) hrestlen hsorted' hmem' hhead hcont
    rw [offs_take] at hpre
    -- bytes of the buffer
    have hdata : bufData ((insP pe pend).map (toSeg W isn)) = (rest.take (insP pe pend).length).flatten := by
      rw [bufData_toSeg, hpre, offs_map_snd]
    -- the records found
    have hscan : scanD ((rest.take (insP pe pend).length).flatten) = some (recs.map (·.1)) := by
      have := flush_fst ((insP pe pend).map (toSeg W isn))
      rw [hflush, hdata] at this
      simpa using this.symm
    have hwf' : ∀ r ∈ rs.drop k, WF r := fun r hr => S.hwf r (List.mem_of_mem_drop hr)
    rw [flatten_take_eq, ← I.rest_stream S] at hscan
    obtain ⟨j', hj1, hj2⟩ := scanD_take (rs.drop k) hwf' _ _ hscan
    have hnlen : (rest.take (insP pe pend).length).flatten.length ≤ (rs.drop k).flatten.length := by
      rw [I.rest_stream S]
      conv => rhs; rw [← List.take_append_drop (insP pe pend).length rest, List.flatten_append, List.length_append]
      omega
    refine ⟨done ++ rest.take (insP pe pend).length, rest.drop (insP pe pend).length, k + j', [], ?_⟩
    have hdlen : (done ++ rest.take (insP pe pend).length).flatten.length =
        done.flatten.length + (rest.take (insP pe pend).length).flatten.length := by
      rw [List.flatten_append, List.length_append]
    have hsplitRest : offs done.flatten.length rest =
        offs done.flatten.length (rest.take (insP pe pend).length) ++
          offs (done ++ rest.take (insP pe pend).length).flatten.length (rest.drop (insP pe pend).length) := by
      conv => lhs; rw [← List.take_append_drop (insP pe pend).length rest]
      rw [offs_append, hdlen]
    exact {
      split := by rw [List.append_assoc, List.take_append_drop]; exact I.split
      recs := by
        simp only [List.map_append]
        rw [I.recs, hj1, List.take_add]
      bound := by
        rw [List.take_add, List.flatten_append, List.length_append, I.bound, hj2, List.length_take, hdlen]
        omega
      next := by
        left
        simp only
        rw [← hht, hdata, sq_add, hdlen]
      buf := rfl
      sorted := List.Pairwise.nil
      mem := by simp
      seenDone := by
        intro x hx
        rw [offs_append, Nat.zero_add] at hx
        rcases List.mem_append.mp hx with hx | hx
        · exact List.mem_append_left _ (I.seenDone x hx)
        · rw [← hpre] at hx
          obtain ⟨e, he, rfl⟩ := List.mem_map.mp hx
          exact hseenPend' e he
      seenPend := by simp
      seenRest := by
        intro x hx hs
        exfalso
        have hx' : x ∈ offs done.flatten.length rest := by
          rw [hsplitRest]; exact List.mem_append_right _ hx
        obtain ⟨e, he, h1⟩ := hseenRest' x hx' hs
        have hoe : oc e ∈ offs done.flatten.length (rest.take (insP pe pend).length) := by
          rw [← hpre]; exact List.mem_map_of_mem he
        have b1 := offs_bounds _ _ _ hoe
        have b2 := offs_bounds _ _ _ hx
        have hpos : 0 < (oc e).2.length :=
          List.length_pos_iff.mpr (I.rest_ne S _ (List.mem_of_mem_take b1.2.2))
        rw [hdlen] at b2
        simp only [oc] at b1 hpos
        omega
      stuck := Or.inl rfl }

/-- Every prefix of a segment list all of whose packets are copies of chunks of the cut satisfies the
    invariant, provided nothing is handed on before the chunk at offset 0 has been seen. -/
theorem fold_inv (S : Setup W cs rs) (segs : List Seg)
    (hcopy : ∀ p ∈ segs, p.data ≠ [] ∧ ∃ o, (o, p.data) ∈ offs 0 cs ∧ p.seq = sq W isn o)
    (hearly : ∀ pre post, segs = pre ++ post → (∀ s ∈ pre, s.seq ≠ sq W isn 0) →
      (pre.foldl (ingestW W) St.init).out = []) :
    ∀ n, n ≤ segs.length →
      ∃ done rest k pend, Inv W isn cs rs ((segs.take n).foldl (ingestW W) St.init) done rest k pend ∧
        (∀ p ∈ segs.take n, p.seq ∈ ((segs.take n).foldl (ingestW W) St.init).seen) := by
  intro n
  induction n with
  | zero => intro _; exact ⟨[], cs, 0, [], by simpa using inv_init W isn cs rs, by simp⟩
  | succ n ih =>
    intro hn
    obtain ⟨done, rest, k, pend, I, hseen⟩ := ih (by omega)
    have hlt : n < segs.length := by omega
    have hpm : segs[n] ∈ segs := List.getElem_mem hlt
    obtain ⟨hpne, o, hpo, hseq⟩ := hcopy segs[n] hpm
    have hing : ∀ st, ingestW W st segs[n] = stepW W st segs[n] := by
      intro st
      unfold ingestW
      rw [if_neg]
      simpa using hpne
    have htake : segs.take (n + 1) = segs.take n ++ [segs[n]] := List.take_succ_eq_append_getElem hlt
    rw [htake, List.foldl_append, List.foldl_cons, List.foldl_nil, hing]
    have hseen1 := stepW_seen W ((segs.take n).foldl (ingestW W) St.init) segs[n]
    have hsub : ∀ x ∈ ((segs.take n).foldl (ingestW W) St.init).seen,
        x ∈ (stepW W ((segs.take n).foldl (ingestW W) St.init) segs[n]).seen := by
      intro x hx; rw [hseen1]; split
      · exact hx
      · exact List.mem_append_left _ hx
    have hpin : segs[n].seq ∈ (stepW W ((segs.take n).foldl (ingestW W) St.init) segs[n]).seen := by
      rw [hseen1]; split
      · rename_i h; simpa using h
      · simp
    have hall : ∀ q ∈ segs.take n ++ [segs[n]],
        q.seq ∈ (stepW W ((segs.take n).foldl (ingestW W) St.init) segs[n]).seen := by
      intro q hq
      rcases List.mem_append.mp hq with hq | hq
      · exact hsub _ (hseen q hq)
      · simp only [List.mem_singleton] at hq; rw [hq]; exact hpin
    have hearly' : (∀ x ∈ (stepW W ((segs.take n).foldl (ingestW W) St.init) segs[n]).seen, x ≠ sq W isn 0) →
        (stepW W ((segs.take n).foldl (ingestW W) St.init) segs[n]).out = [] := by
      intro hno
      have := hearly (segs.take n ++ [segs[n]]) (segs.drop (n + 1))
        (by rw [← htake, List.take_append_drop]) (fun s hs => hno _ (hall s hs))
      rw [List.foldl_append, List.foldl_cons, List.foldl_nil, hing] at this
      exact this
    obtain ⟨done1, rest1, k1, pend1, I1⟩ := step_inv S I segs[n] o hpo hseq hearly'
    exact ⟨done1, rest1, k1, pend1, I1, hall⟩

/-- Once every chunk of the cut has been seen, everything has been handed on. -/
theorem inv_final (S : Setup W cs rs) {st : St} {done rest : List Bytes} {k : Nat} {pend : List P}
    (I : Inv W isn cs rs st done rest k pend) (hall : ∀ x ∈ offs 0 cs, sq W isn x.1 ∈ st.seen) :
    st.out.map (·.1) = rs := by
  have hrne := I.rest_ne S
  -- the buffer holds exactly the chunks not yet delivered
  have hpend : pend.map oc = offs done.flatten.length rest := by
    apply sorted_ext Prod.fst
    · rw [List.pairwise_map]; exact I.sorted
    · exact offs_sorted _ _ hrne
    · intro x
      constructor
      · intro hx
        obtain ⟨e, he, rfl⟩ := List.mem_map.mp hx
        exact I.mem e he
      · intro hx
        have hx0 : x ∈ offs 0 cs := by
          rw [I.split, offs_append, Nat.zero_add]; exact List.mem_append_right _ hx
        obtain ⟨e, he, h1⟩ := I.seenRest x hx (hall x hx0)
        have := offs_functional _ _ hrne (oc e) x (I.mem e he) hx h1
        rw [← this]; exact List.mem_map_of_mem he
  have hwf' : ∀ r ∈ rs.drop k, WF r := fun r hr => S.hwf r (List.mem_of_mem_drop hr)
  have hrest : rest = [] := by
    cases hr : rest with
    | nil => rfl
    | cons c0 rest' =>
      exfalso
      rw [hr] at hpend
      cases hp : pend with
      | nil => rw [hp] at hpend; simp [offs] at hpend
      | cons e t =>
        have hfl : Flushable W (sq W isn done.flatten.length) st.buf := by
          rw [I.buf]
          refine ⟨?_, contiguous_of_offs W isn pend _ _ hpend, ?_⟩
          · rw [hp] at hpend ⊢
            simp only [List.map_cons, offs, List.cons.injEq] at hpend
            have : e.1 = done.flatten.length := congrArg Prod.fst hpend.1
            exact ⟨toSeg W isn e, t.map (toSeg W isn), rfl, by simp [toSeg, this]⟩
          · have h1 := flush_fst (pend.map (toSeg W isn))
            rw [bufData_toSeg, hpend, offs_map_snd, ← hr, ← I.rest_stream S, scanD_flatten _ hwf'] at h1
            cases hf : flush (pend.map (toSeg W isn)) with
            | none => rw [hf] at h1; exact absurd h1 (by simp)
            | some _ => rfl
        rcases I.stuck with hb | hb
        · rw [I.buf, hp] at hb; exact absurd hb (by simp)
        · exact hb hfl
  have hlen := I.len
  rw [hrest] at hlen
  have hk : rs.drop k = [] := by
    apply wf_flatten_nil _ hwf'
    apply List.eq_nil_of_length_eq_zero
    have h2 : rs.flatten.length = (rs.take k).flatten.length + (rs.drop k).flatten.length := by
      rw [← List.length_append, ← List.flatten_append, List.take_append_drop]
    have := S.hstr
    have := I.bound
    simp only [List.flatten_nil, List.length_nil] at hlen
    rw [← S.hstr] at h2
    omega
  rw [I.recs]
  have := List.take_append_drop k rs
  rw [hk, List.append_nil] at this
  exact this

/-- C05 for the repaired machine, generic in the modulus: every packet is a copy of a chunk of the cut,
    every chunk occurs, and nothing is handed on before the chunk at offset 0 has been seen. -/
theorem runW_exact (S : Setup W cs rs) (segs : List Seg)
    (hcopy : ∀ p ∈ segs, p.data ≠ [] ∧ ∃ o, (o, p.data) ∈ offs 0 cs ∧ p.seq = sq W isn o)
    (hall : ∀ x ∈ offs 0 cs, ∃ p ∈ segs, p.seq = sq W isn x.1)
    (hearly : ∀ pre post, segs = pre ++ post → (∀ s ∈ pre, s.seq ≠ sq W isn 0) → runW W pre = []) :
    (runW W segs).map (·.1) = rs := by
  obtain ⟨done, rest, k, pend, I, hseen⟩ :=
    fold_inv (isn := isn) S segs hcopy hearly segs.length (Nat.le_refl _)
  rw [List.take_length] at I hseen
  unfold runW
  apply inv_final S I
  intro x hx
  obtain ⟨p, hp, hseq⟩ := hall x hx
  rw [← hseq]
  exact hseen p hp

end
end TLX.Lemmas.ReasmInv
