/-
Helper lemmas for C17: per frame class, the model's constructor inverts the RFC encoder.
-/
import TLX.Lemmas.QuicVarint
import TLX.Spec.QuicFramesExpect
set_option linter.unusedSimpArgs false
namespace TLX.Lemmas.QuicFrames
open TLX TLX.Quic TLX.Quic.Varint TLX.Quic.Frame TLX.Spec.QuicFrames TLX.Lemmas.QuicVarint

theorem slice_mid (p pre d tail : Bytes) (i j : Nat) (hp : p = pre ++ (d ++ tail)) (hi : i = pre.length)
    (hj : j = i + d.length) : Bytes.slice p i j = d := by
  subst hp hi hj
  unfold Bytes.slice
  rw [List.drop_left, Nat.add_sub_cancel_left, List.take_left]

/-- side goals of the read steps: the payload splits there / the index is the prefix length -/
local macro "split_ok" hp:ident : tactic =>
  `(tactic| (rw [← $hp:ident]; try (simp only [List.append_assoc, List.cons_append, List.nil_append])))
local macro "idx_ok" : tactic =>
  `(tactic| first
    | rfl
    | (simp only [List.length_append, List.length_cons, List.length_nil, VI.enc_length, VW.enc_length]; try omega))

theorem parseResetStream_enc (sid err fs : VI) (h : (QFrame.resetStream sid err fs).wf) (tail : Bytes) :
    parseResetStream ((QFrame.resetStream sid err fs).encode ++ tail) = some (QFrame.resetStream sid err fs).toParsed := by
  obtain ⟨h1, h2, h3⟩ := h
  generalize hp : (QFrame.resetStream sid err fs).encode ++ tail = p
  simp only [QFrame.encode, List.append_assoc] at hp
  have r1 := readVarint_enc p [4] (err.enc ++ (fs.enc ++ tail)) sid 1 h1 (by split_ok hp) (by idx_ok)
  have r2 := readVarint_enc p ([4] ++ sid.enc) (fs.enc ++ tail) err (1 + sid.w.w) h2 (by split_ok hp) (by idx_ok)
  have r3 := readVarint_enc p ([4] ++ sid.enc ++ err.enc) tail fs (1 + sid.w.w + err.w.w) h3 (by split_ok hp) (by idx_ok)
  simp only [parseResetStream, r1, r2, r3, Option.bind_eq_bind, Option.bind_some, Option.pure_def, QFrame.toParsed, QFrame.encode]
  simp [VI.enc_length]; omega


theorem getElem?_at (p pre : Bytes) (x : UInt8) (tail : Bytes) (i : Nat) (hp : p = pre ++ (x :: tail))
    (hi : i = pre.length) : p[i]? = some x := by
  subst hp hi
  simp

/-- final step of every lemma: unfold the constructor, replace the reads by their results -/
local macro "finish_with" "[" ls:Lean.Parser.Tactic.simpLemma,* "]" : tactic =>
  `(tactic| simp only [$ls,*, Option.bind_eq_bind, Option.bind_some, Option.pure_def, QFrame.toParsed, QFrame.encode,
      Option.some.injEq])

theorem parseStopSending_enc (sid err : VI) (h : (QFrame.stopSending sid err).wf) (tail : Bytes) :
    parseStopSending ((QFrame.stopSending sid err).encode ++ tail) = some (QFrame.stopSending sid err).toParsed := by
  obtain ⟨h1, h2⟩ := h
  generalize hp : (QFrame.stopSending sid err).encode ++ tail = p
  simp only [QFrame.encode, List.append_assoc] at hp
  have r1 := readVarint_enc p [5] (err.enc ++ tail) sid 1 h1 (by split_ok hp) (by idx_ok)
  have r2 := readVarint_enc p ([5] ++ sid.enc) tail err (1 + sid.w.w) h2 (by split_ok hp) (by idx_ok)
  finish_with [parseStopSending, r1, r2]
  simp [VI.enc_length]; omega

theorem parseCrypto_enc (off : VI) (lenW : VW) (data : Bytes) (h : (QFrame.crypto off lenW data).wf) (tail : Bytes) :
    parseCrypto ((QFrame.crypto off lenW data).encode ++ tail) = some (QFrame.crypto off lenW data).toParsed := by
  obtain ⟨h1, h2⟩ := h
  generalize hp : (QFrame.crypto off lenW data).encode ++ tail = p
  simp only [QFrame.encode, List.append_assoc] at hp
  have r1 := readVarint_enc p [6] (lenW.enc data.length ++ (data ++ tail)) off 1 h1 (by split_ok hp) (by idx_ok)
  have r2 := readVarint_encW p ([6] ++ off.enc) (data ++ tail) lenW data.length (1 + off.w.w) h2 (by split_ok hp) (by idx_ok)
  have s1 := slice_mid p ([6] ++ off.enc ++ lenW.enc data.length) data tail (1 + off.w.w + lenW.w)
    (1 + off.w.w + lenW.w + data.length) (by split_ok hp) (by idx_ok) rfl
  finish_with [parseCrypto, r1, r2, s1]
  simp [VI.enc_length, VW.enc_length]; omega

theorem parseNewToken_enc (lenW : VW) (data : Bytes) (h : (QFrame.newToken lenW data).wf) (tail : Bytes) :
    parseNewToken ((QFrame.newToken lenW data).encode ++ tail) = some (QFrame.newToken lenW data).toParsed := by
  generalize hp : (QFrame.newToken lenW data).encode ++ tail = p
  simp only [QFrame.encode, List.append_assoc] at hp
  have r1 := readVarint_encW p [7] (data ++ tail) lenW data.length 1 h (by split_ok hp) (by idx_ok)
  have s1 := slice_mid p ([7] ++ lenW.enc data.length) data tail (1 + lenW.w) (1 + lenW.w + data.length)
    (by split_ok hp) (by idx_ok) rfl
  finish_with [parseNewToken, r1, s1]
  simp [VW.enc_length]; omega

theorem parseMaxData_enc (m : VI) (h : (QFrame.maxData m).wf) (tail : Bytes) :
    parseMaxData ((QFrame.maxData m).encode ++ tail) = some (QFrame.maxData m).toParsed := by
  generalize hp : (QFrame.maxData m).encode ++ tail = p
  simp only [QFrame.encode, List.append_assoc] at hp
  have r1 := readVarint_enc p [16] tail m 1 h (by split_ok hp) (by idx_ok)
  finish_with [parseMaxData, r1]
  simp [VI.enc_length]; omega

theorem parseDataBlocked_enc (m : VI) (h : (QFrame.dataBlocked m).wf) (tail : Bytes) :
    parseDataBlocked ((QFrame.dataBlocked m).encode ++ tail) = some (QFrame.dataBlocked m).toParsed := by
  generalize hp : (QFrame.dataBlocked m).encode ++ tail = p
  simp only [QFrame.encode, List.append_assoc] at hp
  have r1 := readVarint_enc p [20] tail m 1 h (by split_ok hp) (by idx_ok)
  finish_with [parseDataBlocked, r1]
  simp [VI.enc_length]; omega

theorem parseRetireConnectionId_enc (m : VI) (h : (QFrame.retireConnectionId m).wf) (tail : Bytes) :
    parseRetireConnectionId ((QFrame.retireConnectionId m).encode ++ tail) = some (QFrame.retireConnectionId m).toParsed := by
  generalize hp : (QFrame.retireConnectionId m).encode ++ tail = p
  simp only [QFrame.encode, List.append_assoc] at hp
  have r1 := readVarint_enc p [25] tail m 1 h (by split_ok hp) (by idx_ok)
  finish_with [parseRetireConnectionId, r1]
  simp [VI.enc_length]; omega

theorem parseMaxStreamData_enc (sid m : VI) (h : (QFrame.maxStreamData sid m).wf) (tail : Bytes) :
    parseMaxStreamData ((QFrame.maxStreamData sid m).encode ++ tail) = some (QFrame.maxStreamData sid m).toParsed := by
  obtain ⟨h1, h2⟩ := h
  generalize hp : (QFrame.maxStreamData sid m).encode ++ tail = p
  simp only [QFrame.encode, List.append_assoc] at hp
  have r1 := readVarint_enc p [17] (m.enc ++ tail) sid 1 h1 (by split_ok hp) (by idx_ok)
  have r2 := readVarint_enc p ([17] ++ sid.enc) tail m (1 + sid.w.w) h2 (by split_ok hp) (by idx_ok)
  finish_with [parseMaxStreamData, r1, r2]
  simp [VI.enc_length]; omega

theorem parseStreamDataBlocked_enc (sid m : VI) (h : (QFrame.streamDataBlocked sid m).wf) (tail : Bytes) :
    parseStreamDataBlocked ((QFrame.streamDataBlocked sid m).encode ++ tail) = some (QFrame.streamDataBlocked sid m).toParsed := by
  obtain ⟨h1, h2⟩ := h
  generalize hp : (QFrame.streamDataBlocked sid m).encode ++ tail = p
  simp only [QFrame.encode, List.append_assoc] at hp
  have r1 := readVarint_enc p [21] (m.enc ++ tail) sid 1 h1 (by split_ok hp) (by idx_ok)
  have r2 := readVarint_enc p ([21] ++ sid.enc) tail m (1 + sid.w.w) h2 (by split_ok hp) (by idx_ok)
  finish_with [parseStreamDataBlocked, r1, r2]
  simp [VI.enc_length]; omega

theorem parseMaxStreams_enc (uni : Bool) (m : VI) (h : (QFrame.maxStreams uni m).wf) (tail : Bytes) :
    parseMaxStreams ((QFrame.maxStreams uni m).encode ++ tail) = some (QFrame.maxStreams uni m).toParsed := by
  generalize hp : (QFrame.maxStreams uni m).encode ++ tail = p
  simp only [QFrame.encode, List.append_assoc] at hp
  have r0 := getElem?_at p [] (if uni then 19 else 18) (m.enc ++ tail) 0 (by split_ok hp) rfl
  have r1 := readVarint_enc p [if uni then 19 else 18] tail m 1 h (by split_ok hp) (by idx_ok)
  finish_with [parseMaxStreams, r0, r1]
  cases uni <;> (simp [VI.enc_length]; try omega)

theorem parseStreamsBlocked_enc (uni : Bool) (m : VI) (h : (QFrame.streamsBlocked uni m).wf) (tail : Bytes) :
    parseStreamsBlocked ((QFrame.streamsBlocked uni m).encode ++ tail) = some (QFrame.streamsBlocked uni m).toParsed := by
  generalize hp : (QFrame.streamsBlocked uni m).encode ++ tail = p
  simp only [QFrame.encode, List.append_assoc] at hp
  have r0 := getElem?_at p [] (if uni then 23 else 22) (m.enc ++ tail) 0 (by split_ok hp) rfl
  have r1 := readVarint_enc p [if uni then 23 else 22] tail m 1 h (by split_ok hp) (by idx_ok)
  finish_with [parseStreamsBlocked, r0, r1]
  cases uni <;> (simp [VI.enc_length]; try omega)


theorem ofNat_toNat_lt (n : Nat) (h : n < 256) : (UInt8.ofNat n).toNat = n := by
  simp; omega

theorem parseNewConnectionId_enc (seq rpt : VI) (cid tok : Bytes) (h : (QFrame.newConnectionId seq rpt cid tok).wf)
    (tail : Bytes) :
    parseNewConnectionId ((QFrame.newConnectionId seq rpt cid tok).encode ++ tail) =
      some (QFrame.newConnectionId seq rpt cid tok).toParsed := by
  obtain ⟨h1, h2, h3, h4⟩ := h
  generalize hp : (QFrame.newConnectionId seq rpt cid tok).encode ++ tail = p
  simp only [QFrame.encode, List.append_assoc] at hp
  have r1 := readVarint_enc p [24] (rpt.enc ++ ([UInt8.ofNat cid.length] ++ (cid ++ (tok ++ tail)))) seq 1 h1
    (by split_ok hp) (by idx_ok)
  have r2 := readVarint_enc p ([24] ++ seq.enc) ([UInt8.ofNat cid.length] ++ (cid ++ (tok ++ tail))) rpt (1 + seq.w.w) h2
    (by split_ok hp) (by idx_ok)
  have r3 := getElem?_at p ([24] ++ seq.enc ++ rpt.enc) (UInt8.ofNat cid.length) (cid ++ (tok ++ tail))
    (1 + seq.w.w + rpt.w.w) (by split_ok hp) (by idx_ok)
  have s1 := slice_mid p ([24] ++ seq.enc ++ rpt.enc ++ [UInt8.ofNat cid.length]) cid (tok ++ tail)
    (1 + seq.w.w + rpt.w.w + 1) (1 + seq.w.w + rpt.w.w + 1 + cid.length) (by split_ok hp) (by idx_ok) rfl
  have s2 := slice_mid p ([24] ++ seq.enc ++ rpt.enc ++ [UInt8.ofNat cid.length] ++ cid) tok tail
    (1 + seq.w.w + rpt.w.w + 1 + cid.length) (1 + seq.w.w + rpt.w.w + 1 + cid.length + 16) (by split_ok hp) (by idx_ok)
    (by rw [h4])
  finish_with [parseNewConnectionId, r1, r2, r3, ofNat_toNat_lt _ h3, s1, s2]
  simp [VI.enc_length, h4]; omega

theorem parsePathChallenge_enc (data : Bytes) (h : (QFrame.pathChallenge data).wf) (tail : Bytes) :
    parsePathChallenge ((QFrame.pathChallenge data).encode ++ tail) = some (QFrame.pathChallenge data).toParsed := by
  have h8 : data.length = 8 := h
  have s1 := slice_mid ((QFrame.pathChallenge data).encode ++ tail) [26] data tail 1 9
    (by simp [QFrame.encode]) rfl (by rw [h8])
  simp only [parsePathChallenge, s1, QFrame.toParsed]

theorem parsePathResponse_enc (data : Bytes) (h : (QFrame.pathResponse data).wf) (tail : Bytes) :
    parsePathResponse ((QFrame.pathResponse data).encode ++ tail) = some (QFrame.pathResponse data).toParsed := by
  have h8 : data.length = 8 := h
  have s1 := slice_mid ((QFrame.pathResponse data).encode ++ tail) [27] data tail 1 9
    (by simp [QFrame.encode]) rfl (by rw [h8])
  simp only [parsePathResponse, s1, QFrame.toParsed]

theorem parseConnectionClose_enc (err : VI) (ft : Option VI) (lenW : VW) (reason : Bytes)
    (h : (QFrame.connectionClose err ft lenW reason).wf) (tail : Bytes) :
    parseConnectionClose ((QFrame.connectionClose err ft lenW reason).encode ++ tail) =
      some (QFrame.connectionClose err ft lenW reason).toParsed := by
  obtain ⟨h1, h2, h3⟩ := h
  generalize hp : (QFrame.connectionClose err ft lenW reason).encode ++ tail = p
  cases ft with
  | none =>
    simp only [QFrame.encode, encOptVI, Option.isSome_none, List.append_assoc, List.nil_append, Bool.false_eq_true, ↓reduceIte] at hp
    have r0 := getElem?_at p [] 29 (err.enc ++ (lenW.enc reason.length ++ (reason ++ tail))) 0 (by split_ok hp) rfl
    have r1 := readVarint_enc p [29] (lenW.enc reason.length ++ (reason ++ tail)) err 1 h1 (by split_ok hp) (by idx_ok)
    have r3 := readVarint_encW p ([29] ++ err.enc) (reason ++ tail) lenW reason.length (1 + err.w.w) h3
      (by split_ok hp) (by idx_ok)
    have s1 := slice_mid p ([29] ++ err.enc ++ lenW.enc reason.length) reason tail (1 + err.w.w + lenW.w)
      (1 + err.w.w + lenW.w + reason.length) (by split_ok hp) (by idx_ok) rfl
    finish_with [parseConnectionClose, readCloseTypeIf, r0, r1, r3, s1]
    simp [VI.enc_length, VW.enc_length, encOptVI, optVal, r3, s1]; omega
  | some f =>
    simp only [QFrame.encode, encOptVI, Option.isSome_some, List.append_assoc, ↓reduceIte] at hp
    have r0 := getElem?_at p [] 28 (err.enc ++ (f.enc ++ (lenW.enc reason.length ++ (reason ++ tail)))) 0
      (by split_ok hp) rfl
    have r1 := readVarint_enc p [28] (f.enc ++ (lenW.enc reason.length ++ (reason ++ tail))) err 1 h1
      (by split_ok hp) (by idx_ok)
    have r2 := readVarint_enc p ([28] ++ err.enc) (lenW.enc reason.length ++ (reason ++ tail)) f (1 + err.w.w) h2
      (by split_ok hp) (by idx_ok)
    have r3 := readVarint_encW p ([28] ++ err.enc ++ f.enc) (reason ++ tail) lenW reason.length
      (1 + err.w.w + f.w.w) h3 (by split_ok hp) (by idx_ok)
    have s1 := slice_mid p ([28] ++ err.enc ++ f.enc ++ lenW.enc reason.length) reason tail
      (1 + err.w.w + f.w.w + lenW.w) (1 + err.w.w + f.w.w + lenW.w + reason.length) (by split_ok hp) (by idx_ok) rfl
    finish_with [parseConnectionClose, readCloseTypeIf, r0, r1, r2, r3, s1]
    simp [VI.enc_length, VW.enc_length, encOptVI, optVal, r2, r3, s1]; omega

theorem slice_to_end (p pre d : Bytes) (i : Nat) (hp : p = pre ++ d) (hi : i = pre.length) :
    Bytes.slice p i p.length = d := by
  subst hp hi
  unfold Bytes.slice
  rw [List.drop_left, List.length_append, Nat.add_sub_cancel_left, List.take_length]

theorem parseDatagram_enc (lenW : Option VW) (data : Bytes) (h : (QFrame.datagram lenW data).wf) (tail : Bytes)
    (hg : (QFrame.datagram lenW data).greedy = true → tail = []) :
    parseDatagram ((QFrame.datagram lenW data).encode ++ tail) = some (QFrame.datagram lenW data).toParsed := by
  generalize hp : (QFrame.datagram lenW data).encode ++ tail = p
  cases lenW with
  | none =>
    have ht : tail = [] := hg rfl
    subst ht
    simp only [QFrame.encode, encOptLen, Option.isSome_none, List.append_assoc, List.nil_append, List.append_nil, Bool.false_eq_true, ↓reduceIte] at hp
    have r0 := getElem?_at p [] 48 data 0 (by split_ok hp) rfl
    have s1 := slice_to_end p [48] data 1 (by split_ok hp) rfl
    finish_with [parseDatagram, r0, s1]
    simp [← hp, encOptLen]
  | some w =>
    have h3 : w.fits data.length := h
    simp only [QFrame.encode, encOptLen, Option.isSome_some, List.append_assoc, ↓reduceIte] at hp
    have r0 := getElem?_at p [] 49 (w.enc data.length ++ (data ++ tail)) 0 (by split_ok hp) rfl
    have r1 := readVarint_encW p [49] (data ++ tail) w data.length 1 h3 (by split_ok hp) (by idx_ok)
    have s1 := slice_mid p ([49] ++ w.enc data.length) data tail (1 + w.w) (1 + w.w + data.length)
      (by split_ok hp) (by idx_ok) rfl
    finish_with [parseDatagram, r0, r1, s1]
    simp [VW.enc_length, encOptLen, r1, s1]; omega


theorem streamType_bits (fin l o : Bool) :
    (UInt8.ofNat (streamType fin l o)).toNat = streamType fin l o ∧
    (streamType fin l o &&& 1 != 0) = fin ∧
    ((streamType fin l o >>> 1) &&& 1 != 0) = l ∧
    ((streamType fin l o >>> 2) &&& 1 != 0) = o := by
  cases fin <;> cases l <;> cases o <;> decide

theorem parseStream_enc (fin : Bool) (sid : VI) (off : Option VI) (lenW : Option VW) (data : Bytes)
    (h : (QFrame.stream fin sid off lenW data).wf) (tail : Bytes)
    (hg : (QFrame.stream fin sid off lenW data).greedy = true → tail = []) :
    parseStream ((QFrame.stream fin sid off lenW data).encode ++ tail) =
      some (QFrame.stream fin sid off lenW data).toParsed := by
  obtain ⟨h1, h2, h3⟩ := h
  generalize hp : (QFrame.stream fin sid off lenW data).encode ++ tail = p
  cases off with
  | none =>
    cases lenW with
    | none =>
      have ht : tail = [] := hg rfl
      subst ht
      obtain ⟨b0, b1, b2, b3⟩ := streamType_bits fin false false
      simp only [QFrame.encode, encOptVI, encOptLen, Option.isSome_none, List.append_assoc, List.nil_append,
        List.append_nil] at hp
      have r0 := getElem?_at p [] (UInt8.ofNat (streamType fin false false)) (sid.enc ++ data) 0 (by split_ok hp) rfl
      have r1 := readVarint_enc p [UInt8.ofNat (streamType fin false false)] data sid 1 h1 (by split_ok hp) (by idx_ok)
      have s1 := slice_to_end p ([UInt8.ofNat (streamType fin false false)] ++ sid.enc) data (1 + sid.w.w)
        (by split_ok hp) (by idx_ok)
      have hlen : p.length = 1 + sid.w.w + data.length := by
        rw [← hp]; simp [VI.enc_length]; omega
      rw [hlen] at s1
      finish_with [parseStream, readOffsetIf, r0, b0, b1, b2, b3, r1, hlen, s1]
      simp [VI.enc_length, encOptVI, encOptLen, optVal]
      exact ⟨by omega, s1⟩
    | some w =>
      have h3' : w.fits data.length := h3
      obtain ⟨b0, b1, b2, b3⟩ := streamType_bits fin true false
      simp only [QFrame.encode, encOptVI, encOptLen, Option.isSome_none, Option.isSome_some, List.append_assoc,
        List.nil_append] at hp
      have r0 := getElem?_at p [] (UInt8.ofNat (streamType fin true false))
        (sid.enc ++ (w.enc data.length ++ (data ++ tail))) 0 (by split_ok hp) rfl
      have r1 := readVarint_enc p [UInt8.ofNat (streamType fin true false)] (w.enc data.length ++ (data ++ tail)) sid 1 h1
        (by split_ok hp) (by idx_ok)
      have r3 := readVarint_encW p ([UInt8.ofNat (streamType fin true false)] ++ sid.enc) (data ++ tail) w data.length
        (1 + sid.w.w) h3' (by split_ok hp) (by idx_ok)
      have s1 := slice_mid p ([UInt8.ofNat (streamType fin true false)] ++ sid.enc ++ w.enc data.length) data tail
        (1 + sid.w.w + w.w) (1 + sid.w.w + w.w + data.length) (by split_ok hp) (by idx_ok) rfl
      finish_with [parseStream, readOffsetIf, r0, b0, b1, b2, b3, r1, r3, s1]
      simp [VI.enc_length, VW.enc_length, encOptVI, encOptLen, optVal, r3, s1]; omega
  | some o =>
    have h2' : o.ok := h2
    cases lenW with
    | none =>
      have ht : tail = [] := hg rfl
      subst ht
      obtain ⟨b0, b1, b2, b3⟩ := streamType_bits fin false true
      simp only [QFrame.encode, encOptVI, encOptLen, Option.isSome_none, Option.isSome_some, List.append_assoc,
        List.nil_append, List.append_nil] at hp
      have r0 := getElem?_at p [] (UInt8.ofNat (streamType fin false true)) (sid.enc ++ (o.enc ++ data)) 0
        (by split_ok hp) rfl
      have r1 := readVarint_enc p [UInt8.ofNat (streamType fin false true)] (o.enc ++ data) sid 1 h1
        (by split_ok hp) (by idx_ok)
      have r2 := readVarint_enc p ([UInt8.ofNat (streamType fin false true)] ++ sid.enc) data o (1 + sid.w.w) h2'
        (by split_ok hp) (by idx_ok)
      have s1 := slice_to_end p ([UInt8.ofNat (streamType fin false true)] ++ sid.enc ++ o.enc) data
        (1 + sid.w.w + o.w.w) (by split_ok hp) (by idx_ok)
      have hlen : p.length = 1 + sid.w.w + o.w.w + data.length := by
        rw [← hp]; simp [VI.enc_length]; omega
      rw [hlen] at s1
      finish_with [parseStream, readOffsetIf, r0, b0, b1, b2, b3, r1, r2, hlen, s1]
      simp [VI.enc_length, encOptVI, encOptLen, optVal]
      exact ⟨by omega, s1⟩
    | some w =>
      have h3' : w.fits data.length := h3
      obtain ⟨b0, b1, b2, b3⟩ := streamType_bits fin true true
      simp only [QFrame.encode, encOptVI, encOptLen, Option.isSome_some, List.append_assoc] at hp
      have r0 := getElem?_at p [] (UInt8.ofNat (streamType fin true true))
        (sid.enc ++ (o.enc ++ (w.enc data.length ++ (data ++ tail)))) 0 (by split_ok hp) rfl
      have r1 := readVarint_enc p [UInt8.ofNat (streamType fin true true)]
        (o.enc ++ (w.enc data.length ++ (data ++ tail))) sid 1 h1 (by split_ok hp) (by idx_ok)
      have r2 := readVarint_enc p ([UInt8.ofNat (streamType fin true true)] ++ sid.enc)
        (w.enc data.length ++ (data ++ tail)) o (1 + sid.w.w) h2' (by split_ok hp) (by idx_ok)
      have r3 := readVarint_encW p ([UInt8.ofNat (streamType fin true true)] ++ sid.enc ++ o.enc) (data ++ tail) w
        data.length (1 + sid.w.w + o.w.w) h3' (by split_ok hp) (by idx_ok)
      have s1 := slice_mid p ([UInt8.ofNat (streamType fin true true)] ++ sid.enc ++ o.enc ++ w.enc data.length) data tail
        (1 + sid.w.w + o.w.w + w.w) (1 + sid.w.w + o.w.w + w.w + data.length) (by split_ok hp) (by idx_ok) rfl
      finish_with [parseStream, readOffsetIf, r0, b0, b1, b2, b3, r1, r2, r3, s1]
      simp [VI.enc_length, VW.enc_length, encOptVI, encOptLen, optVal, r3, s1]; omega


theorem ackRanges_enc (p : Bytes) (rs : List (VI × VI)) (pre tail : Bytes) (i : Nat)
    (hrs : ∀ r ∈ rs, r.1.ok ∧ r.2.ok) (hp : p = pre ++ (encRanges rs ++ tail)) (hi : i = pre.length) :
    ackRanges p rs.length i = some (rs.map rangeVals, i + (encRanges rs).length) := by
  induction rs generalizing pre i with
  | nil => simp [ackRanges, encRanges]
  | cons r rs ih =>
    obtain ⟨g, l⟩ := r
    have hg := (hrs (g, l) (by simp)).1
    have hl := (hrs (g, l) (by simp)).2
    simp only [encRanges, List.append_assoc] at hp
    have r1 := readVarint_enc p pre (l.enc ++ (encRanges rs ++ tail)) g i hg hp hi
    have r2 := readVarint_enc p (pre ++ g.enc) (encRanges rs ++ tail) l (i + g.w.w) hl
      (by rw [hp]; simp only [List.append_assoc]) (by rw [hi]; idx_ok)
    have r3 := ih (pre ++ g.enc ++ l.enc) (i + g.w.w + l.w.w) (fun r hr => hrs r (by simp [hr]))
      (by rw [hp]; simp only [List.append_assoc]) (by rw [hi]; idx_ok)
    simp only [List.length_cons, ackRanges, r1, r2, r3, Option.bind_eq_bind, Option.bind_some, Option.pure_def,
      List.map_cons, rangeVals, encRanges, List.length_append, VI.enc_length, Option.some.injEq, Prod.mk.injEq, true_and]
    omega

theorem parseAck_enc (largest delay : VI) (cntW : VW) (first : VI) (rs : List (VI × VI)) (ecn : Option (VI × VI × VI))
    (h : (QFrame.ack largest delay cntW first rs ecn).wf) (tail : Bytes) :
    parseAck ((QFrame.ack largest delay cntW first rs ecn).encode ++ tail) =
      some (QFrame.ack largest delay cntW first rs ecn).toParsed := by
  obtain ⟨h1, h2, h3, h4, h5, h6⟩ := h
  generalize hp : (QFrame.ack largest delay cntW first rs ecn).encode ++ tail = p
  cases ecn with
  | none =>
    simp only [QFrame.encode, encEcn, Option.isSome_none, List.append_assoc, List.nil_append, Bool.false_eq_true,
      ↓reduceIte] at hp
    have r0 := getElem?_at p [] 2 (largest.enc ++ (delay.enc ++ (cntW.enc rs.length ++ (first.enc ++ (encRanges rs ++ tail)))))
      0 (by split_ok hp) rfl
    have r1 := readVarint_enc p [2] (delay.enc ++ (cntW.enc rs.length ++ (first.enc ++ (encRanges rs ++ tail)))) largest 1 h1
      (by split_ok hp) (by idx_ok)
    have r2 := readVarint_enc p ([2] ++ largest.enc) (cntW.enc rs.length ++ (first.enc ++ (encRanges rs ++ tail))) delay
      (1 + largest.w.w) h2 (by split_ok hp) (by idx_ok)
    have r3 := readVarint_encW p ([2] ++ largest.enc ++ delay.enc) (first.enc ++ (encRanges rs ++ tail)) cntW rs.length
      (1 + largest.w.w + delay.w.w) h3 (by split_ok hp) (by idx_ok)
    have r4 := readVarint_enc p ([2] ++ largest.enc ++ delay.enc ++ cntW.enc rs.length) (encRanges rs ++ tail) first
      (1 + largest.w.w + delay.w.w + cntW.w) h4 (by split_ok hp) (by idx_ok)
    have r5 := ackRanges_enc p rs ([2] ++ largest.enc ++ delay.enc ++ cntW.enc rs.length ++ first.enc) tail
      (1 + largest.w.w + delay.w.w + cntW.w + first.w.w) h5 (by split_ok hp) (by idx_ok)
    finish_with [parseAck, r0, r1, r2, r3, r4, r5]
    simp [VI.enc_length, VW.enc_length, encEcn, ecnVals]; omega
  | some e =>
    obtain ⟨a, b, c⟩ := e
    obtain ⟨ha, hb, hc⟩ : a.ok ∧ b.ok ∧ c.ok := h6
    simp only [QFrame.encode, encEcn, Option.isSome_some, List.append_assoc, ↓reduceIte] at hp
    have r0 := getElem?_at p [] 3 (largest.enc ++ (delay.enc ++ (cntW.enc rs.length ++ (first.enc ++ (encRanges rs ++
      (a.enc ++ (b.enc ++ (c.enc ++ tail)))))))) 0 (by split_ok hp) rfl
    have r1 := readVarint_enc p [3] (delay.enc ++ (cntW.enc rs.length ++ (first.enc ++ (encRanges rs ++
      (a.enc ++ (b.enc ++ (c.enc ++ tail))))))) largest 1 h1 (by split_ok hp) (by idx_ok)
    have r2 := readVarint_enc p ([3] ++ largest.enc) (cntW.enc rs.length ++ (first.enc ++ (encRanges rs ++
      (a.enc ++ (b.enc ++ (c.enc ++ tail)))))) delay (1 + largest.w.w) h2 (by split_ok hp) (by idx_ok)
    have r3 := readVarint_encW p ([3] ++ largest.enc ++ delay.enc) (first.enc ++ (encRanges rs ++
      (a.enc ++ (b.enc ++ (c.enc ++ tail))))) cntW rs.length (1 + largest.w.w + delay.w.w) h3 (by split_ok hp) (by idx_ok)
    have r4 := readVarint_enc p ([3] ++ largest.enc ++ delay.enc ++ cntW.enc rs.length) (encRanges rs ++
      (a.enc ++ (b.enc ++ (c.enc ++ tail)))) first (1 + largest.w.w + delay.w.w + cntW.w) h4 (by split_ok hp) (by idx_ok)
    have r5 := ackRanges_enc p rs ([3] ++ largest.enc ++ delay.enc ++ cntW.enc rs.length ++ first.enc)
      (a.enc ++ (b.enc ++ (c.enc ++ tail))) (1 + largest.w.w + delay.w.w + cntW.w + first.w.w) h5 (by split_ok hp) (by idx_ok)
    have r6 := readVarint_enc p ([3] ++ largest.enc ++ delay.enc ++ cntW.enc rs.length ++ first.enc ++ encRanges rs)
      (b.enc ++ (c.enc ++ tail)) a (1 + largest.w.w + delay.w.w + cntW.w + first.w.w + (encRanges rs).length) ha
      (by split_ok hp) (by idx_ok)
    have r7 := readVarint_enc p ([3] ++ largest.enc ++ delay.enc ++ cntW.enc rs.length ++ first.enc ++ encRanges rs ++ a.enc)
      (c.enc ++ tail) b (1 + largest.w.w + delay.w.w + cntW.w + first.w.w + (encRanges rs).length + a.w.w) hb
      (by split_ok hp) (by idx_ok)
    have r8 := readVarint_enc p
      ([3] ++ largest.enc ++ delay.enc ++ cntW.enc rs.length ++ first.enc ++ encRanges rs ++ a.enc ++ b.enc)
      tail c (1 + largest.w.w + delay.w.w + cntW.w + first.w.w + (encRanges rs).length + a.w.w + b.w.w) hc
      (by split_ok hp) (by idx_ok)
    finish_with [parseAck, r0, r1, r2, r3, r4, r5, r6, r7, r8]
    simp [VI.enc_length, VW.enc_length, encEcn, ecnVals]; omega

theorem padLen_replicate (n : Nat) (tail : Bytes) (ht : tail.head? ≠ some 0) :
    padLen (List.replicate n 0 ++ tail) = n := by
  induction n with
  | zero =>
    cases tail with
    | nil => rfl
    | cons x r =>
      have : x ≠ 0 := by intro hx; apply ht; simp [hx]
      simp [padLen, this]
  | succ n ih => simp [List.replicate_succ, padLen, ih]


/-! ### dispatch: `parseOne` on an encoded frame -/

theorem parseOne_cons (t : UInt8) (r : Bytes) (c : Cls) (h : lookup t.toNat = some c) :
    parseOne (t :: r) = construct c (t :: r) := by
  simp [parseOne, h]

theorem lookup_stream (fin l o : Bool) : lookup (UInt8.ofNat (streamType fin l o)).toNat = some .StreamFrame := by
  cases fin <;> cases l <;> cases o <;> decide

/-- The loop body of parse_frames on the wire image of a well-formed frame followed by anything
    (by nothing, for a frame that has no explicit length; by something that does not begin with
    another PADDING byte, for a PADDING run) constructs exactly that frame. -/
theorem parseOne_encode (f : QFrame) (hwf : f.wf) (tail : Bytes) (hg : f.greedy = true → tail = [])
    (hpad : f.isPadding = true → tail.head? ≠ some 0) :
    parseOne (f.encode ++ tail) = some f.toParsed := by
  cases f with
  | padding n =>
    obtain ⟨m, rfl⟩ : ∃ m, n = m + 1 := ⟨n - 1, by have : 1 ≤ n := hwf; omega⟩
    have hl := padLen_replicate (m + 1) tail (hpad rfl)
    simp only [QFrame.encode, List.replicate_succ, List.cons_append] at hl ⊢
    rw [parseOne_cons 0 _ .PaddingFrame (by decide)]
    simp only [construct, parsePadding, hl, QFrame.toParsed]
  | ping => exact parseOne_cons 1 _ .PingFrame (by decide)
  | handshakeDone => exact parseOne_cons 30 _ .HandshakeDoneFrame (by decide)
  | ack largest delay cntW first rs ecn =>
    rw [← parseAck_enc _ _ _ _ _ _ hwf tail]
    cases ecn with
    | none => exact parseOne_cons 2 _ .AckFrame (by decide)
    | some e => exact parseOne_cons 3 _ .AckFrame (by decide)
  | resetStream sid err fs =>
    rw [← parseResetStream_enc _ _ _ hwf tail]; exact parseOne_cons 4 _ .ResetStreamFrame (by decide)
  | stopSending sid err =>
    rw [← parseStopSending_enc _ _ hwf tail]; exact parseOne_cons 5 _ .StopSendingFrame (by decide)
  | crypto off lenW data =>
    rw [← parseCrypto_enc _ _ _ hwf tail]; exact parseOne_cons 6 _ .CryptoFrame (by decide)
  | newToken lenW token =>
    rw [← parseNewToken_enc _ _ hwf tail]; exact parseOne_cons 7 _ .NewTokenFrame (by decide)
  | stream fin sid off lenW data =>
    rw [← parseStream_enc _ _ _ _ _ hwf tail hg]
    exact parseOne_cons _ _ .StreamFrame (lookup_stream fin lenW.isSome off.isSome)
  | maxData m =>
    rw [← parseMaxData_enc _ hwf tail]; exact parseOne_cons 16 _ .MaxDataFrame (by decide)
  | maxStreamData sid m =>
    rw [← parseMaxStreamData_enc _ _ hwf tail]; exact parseOne_cons 17 _ .MaxStreamDataFrame (by decide)
  | maxStreams uni m =>
    rw [← parseMaxStreams_enc _ _ hwf tail]
    cases uni with
    | false => exact parseOne_cons 18 _ .MaxStreamsFrame (by decide)
    | true => exact parseOne_cons 19 _ .MaxStreamsFrame (by decide)
  | dataBlocked m =>
    rw [← parseDataBlocked_enc _ hwf tail]; exact parseOne_cons 20 _ .DataBlockedFrame (by decide)
  | streamDataBlocked sid m =>
    rw [← parseStreamDataBlocked_enc _ _ hwf tail]; exact parseOne_cons 21 _ .StreamDataBlockedFrame (by decide)
  | streamsBlocked uni m =>
    rw [← parseStreamsBlocked_enc _ _ hwf tail]
    cases uni with
    | false => exact parseOne_cons 22 _ .StreamsBlockedFrame (by decide)
    | true => exact parseOne_cons 23 _ .StreamsBlockedFrame (by decide)
  | newConnectionId seq rpt cid tok =>
    rw [← parseNewConnectionId_enc _ _ _ _ hwf tail]; exact parseOne_cons 24 _ .NewConnectionIdFrame (by decide)
  | retireConnectionId seq =>
    rw [← parseRetireConnectionId_enc _ hwf tail]; exact parseOne_cons 25 _ .RetireConnectionIdFrame (by decide)
  | pathChallenge data =>
    rw [← parsePathChallenge_enc _ hwf tail]; exact parseOne_cons 26 _ .PathChallengeFrame (by decide)
  | pathResponse data =>
    rw [← parsePathResponse_enc _ hwf tail]; exact parseOne_cons 27 _ .PathResponseFrame (by decide)
  | connectionClose err ft lenW reason =>
    rw [← parseConnectionClose_enc _ _ _ _ hwf tail]
    cases ft with
    | none => exact parseOne_cons 29 _ .ConnectionCloseFrame (by decide)
    | some e => exact parseOne_cons 28 _ .ConnectionCloseFrame (by decide)
  | datagram lenW data =>
    rw [← parseDatagram_enc _ _ hwf tail hg]
    cases lenW with
    | none => exact parseOne_cons 48 _ .DatagramFrame (by decide)
    | some e => exact parseOne_cons 49 _ .DatagramFrame (by decide)

end TLX.Lemmas.QuicFrames
