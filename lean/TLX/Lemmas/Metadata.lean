/-
Helper lemmas for C07 `metadata_is_overlap`: where the records of `Reassembly.records` start, and what
the source's carrier test `index < end and index + record_len > start` selects from `packet_ranges`.
Core Lean only.
-/
import TLX.Lemmas.Framing
namespace TLX.Lemmas.Metadata
open TLX TLX.Reassembly TLX.Lemmas.Framing

/-- Start of the `i`-th buffered packet inside the concatenated buffer. -/
def segStart (buf : List Seg) (i : Nat) : Nat := (bufData (buf.take i)).length

/-- The half-open byte ranges `[a, b)` and `[c, d)` have a byte in common. -/
def Overlaps (a b c d : Nat) : Prop := ∃ q, q < d ∧ (a ≤ q ∧ q < b ∧ c ≤ q)

instance (a b c d : Nat) : Decidable (Overlaps a b c d) := by unfold Overlaps; infer_instance

/-- The source's test, for a non-empty packet range `[s, e)` and a non-empty record `[i, i + n)`. -/
theorem test_iff_overlaps (s e i n : Nat) (hse : s < e) (hn : 0 < n) :
    (decide (i < e) && decide (i + n > s)) = true ↔ Overlaps s e i (i + n) := by
  simp only [Bool.and_eq_true, decide_eq_true_eq, Overlaps]
  constructor
  · rintro ⟨h1, h2⟩
    exact ⟨max s i, by omega, by omega, by omega, by omega⟩
  · rintro ⟨q, h1, h2, h3, h4⟩
    omega

theorem bufData_append (a b : List Seg) : bufData (a ++ b) = bufData a ++ bufData b := by
  simp [bufData]

theorem segStart_succ (buf : List Seg) (i : Nat) (h : i < buf.length) :
    segStart buf (i + 1) = segStart buf i + buf[i].data.length := by
  unfold segStart
  rw [List.take_succ_eq_append_getElem h, bufData_append]
  simp [bufData]

theorem segStart_zero (buf : List Seg) : segStart buf 0 = 0 := by simp [segStart, bufData]

theorem segStart_cons (x : Seg) (xs : List Seg) (j : Nat) :
    segStart (x :: xs) (j + 1) = x.data.length + segStart xs j := by
  simp [segStart, bufData]

/-- Packet id at buffer position `j`. -/
def idAt (buf : List Seg) (j : Nat) : Nat := ((buf[j]?).map (·.id)).getD 0

/-- `packet_ranges` are the `segStart`s. -/
theorem ranges_eq (buf : List Seg) (s : Nat) :
    ranges buf s =
      (List.range buf.length).map (fun j => (s + segStart buf j, s + segStart buf (j + 1), idAt buf j)) := by
  induction buf generalizing s with
  | nil => rfl
  | cons x xs ih =>
    rw [ranges, ih, List.length_cons, List.range_succ_eq_map, List.map_cons, List.map_map]
    congr 1
    · simp [segStart_cons, segStart_zero, idAt]
    · apply List.map_congr_left
      intro j _
      simp [segStart_cons, idAt, Nat.add_assoc]

/-- The carriers of `[i, i+n)`: the packets, in buffer order, whose range passes the source's test. -/
theorem carriers_ranges (buf : List Seg) (i n : Nat) :
    carriers (ranges buf 0) i n =
      ((List.range buf.length).filter (fun j =>
          decide (i < segStart buf (j + 1)) && decide (i + n > segStart buf j))).map (idAt buf) := by
  unfold carriers
  rw [ranges_eq, List.filter_map, List.map_map]
  congr 1
  apply List.filter_congr
  intro j _
  simp

/-- Where the records of the second scan start, and that each lies inside the buffer. -/
theorem records_spec (d : Bytes) (rs : List (Nat × Nat × Nat)) :
    ∀ (i : Nat), i ≤ d.length → needData d i = false →
      ∀ (j : Nat) (hj : j < (records d rs i).length),
        let a := i + (((records d rs i).take j).map (·.1.length)).sum
        ((records d rs i)[j]).2 = carriers rs a ((records d rs i)[j]).1.length ∧
          5 ≤ ((records d rs i)[j]).1.length ∧ a + ((records d rs i)[j]).1.length ≤ d.length := by
  intro i
  induction hn : d.length - i using Nat.strongRecOn generalizing i with
  | _ n ih =>
    intro hi hnd j hj
    rw [needData] at hnd
    have hrec : records d rs i = if d.length ≤ i then [] else
        (d.slice i (i + recLenAt d i), carriers rs i (recLenAt d i)) :: records d rs (i + recLenAt d i) := by
      rw [records]
    by_cases h0 : d.length ≤ i
    · rw [hrec, if_pos h0] at hj; exact absurd hj (by simp)
    · rw [if_neg (by omega)] at hnd
      by_cases h5 : d.length < i + 5
      · rw [if_pos h5] at hnd; exact absurd hnd (by simp)
      · rw [if_neg h5] at hnd
        have hge := recLenAt_ge d i
        -- the record lies inside the buffer, otherwise the first scan had said `need_data`
        have hin : i + recLenAt d i ≤ d.length := by
          false_or_by_contra
          rw [needData, if_neg (by omega), if_pos (by omega)] at hnd
          exact absurd hnd (by simp)
        have hlen : (d.slice i (i + recLenAt d i)).length = recLenAt d i := by
          simp [Bytes.slice, List.length_take, List.length_drop]; omega
        simp only [hrec, if_neg h0] at hj ⊢
        cases j with
        | zero =>
          simp only [List.take_zero, List.map_nil, List.sum_nil, Nat.add_zero, List.getElem_cons_zero, hlen]
          exact ⟨trivial, hge, hin⟩
        | succ j =>
          simp only [List.length_cons, Nat.add_lt_add_iff_right] at hj
          have := ih (d.length - (i + recLenAt d i)) (by omega) (i + recLenAt d i) rfl hin hnd j hj
          simp only [List.take_succ_cons, List.map_cons, List.sum_cons, List.getElem_cons_succ, hlen]
          rw [← Nat.add_assoc]
          exact this

theorem segStart_length (buf : List Seg) : segStart buf buf.length = (bufData buf).length := by
  simp [segStart]

/-- Every byte position of the buffer lies in the range of some packet. -/
theorem exists_seg_of_pos (buf : List Seg) (a : Nat) :
    ∀ m, m ≤ buf.length → a < segStart buf m → ∃ i, i < m ∧ segStart buf i ≤ a ∧ a < segStart buf (i + 1) := by
  intro m
  induction m with
  | zero => intro _ h; rw [segStart_zero] at h; omega
  | succ m ih =>
    intro hm h
    by_cases hlt : a < segStart buf m
    · obtain ⟨i, hi, h1, h2⟩ := ih (by omega) hlt
      exact ⟨i, by omega, h1, h2⟩
    · exact ⟨m, by omega, by omega, h⟩

/-- C07 core: the carrier list attached to the `j`-th record handed on by `flush`. -/
theorem flush_carriers (buf : List Seg) (hne : ∀ s ∈ buf, s.data ≠ []) (recs : List Rec)
    (h : flush buf = some recs) (j : Nat) (hj : j < recs.length) :
    (recs[j]).2 =
        ((List.range buf.length).filter (fun i =>
          decide (Overlaps (segStart buf i) (segStart buf (i + 1))
            (((recs.take j).map (·.1.length)).sum) (((recs.take j).map (·.1.length)).sum + (recs[j]).1.length)))).map
          (idAt buf) ∧
      (recs[j]).2 ≠ [] := by
  unfold flush at h
  by_cases hnd : needData (bufData buf) 0 = true
  · rw [if_pos hnd] at h; exact absurd h (by simp)
  · rw [if_neg hnd] at h
    simp only [Option.some.injEq] at h
    subst h
    have hnd' : needData (bufData buf) 0 = false := by simpa using hnd
    have hs := records_spec (bufData buf) (ranges buf 0) 0 (Nat.zero_le _) hnd' j hj
    simp only [Nat.zero_add] at hs
    obtain ⟨hc, h5, hin⟩ := hs
    have hfil : (List.range buf.length).filter (fun i =>
          decide ((((records (bufData buf) (ranges buf 0) 0).take j).map (·.1.length)).sum < segStart buf (i + 1)) &&
          decide ((((records (bufData buf) (ranges buf 0) 0).take j).map (·.1.length)).sum +
            ((records (bufData buf) (ranges buf 0) 0)[j]).1.length > segStart buf i)) =
        (List.range buf.length).filter (fun i =>
          decide (Overlaps (segStart buf i) (segStart buf (i + 1))
            ((((records (bufData buf) (ranges buf 0) 0).take j).map (·.1.length)).sum)
            ((((records (bufData buf) (ranges buf 0) 0).take j).map (·.1.length)).sum +
              ((records (bufData buf) (ranges buf 0) 0)[j]).1.length))) := by
      apply List.filter_congr
      intro i hi
      have hi' : i < buf.length := List.mem_range.mp hi
      have hpos : 0 < buf[i].data.length := List.length_pos_iff.mpr (hne _ (List.getElem_mem hi'))
      have hss := segStart_succ buf i hi'
      have := test_iff_overlaps (segStart buf i) (segStart buf (i + 1))
        ((((records (bufData buf) (ranges buf 0) 0).take j).map (·.1.length)).sum)
        (((records (bufData buf) (ranges buf 0) 0)[j]).1.length) (by omega) (by omega)
      rw [Bool.eq_iff_iff, this, decide_eq_true_eq]
    rw [hc, carriers_ranges, hfil]
    refine ⟨rfl, ?_⟩
    -- the first byte of the record lies in some packet
    obtain ⟨i, hi, h1, h2⟩ := exists_seg_of_pos buf
      ((((records (bufData buf) (ranges buf 0) 0).take j).map (·.1.length)).sum) buf.length (Nat.le_refl _)
      (by rw [segStart_length]; omega)
    intro hnil
    rw [List.map_eq_nil_iff, List.filter_eq_nil_iff] at hnil
    apply hnil i (List.mem_range.mpr hi)
    rw [decide_eq_true_eq]
    exact ⟨_, by omega, h1, h2, Nat.le_refl _⟩

end TLX.Lemmas.Metadata
