/-
Helper lemmas for the exactness theorems of `TLX/Props/C02Session.lean`: key-epoch tracking, the arithmetic that
links the model's packet-number/nonce computation to the sender's (`Spec.QuicSender`), and the composition
AEAD law + C16 window theorem + C17 frame round trip for one packet.
-/
import TLX.Lemmas.QuicSession
import TLX.Lemmas.QuicFrameSeq
import TLX.Spec.QuicSender
import TLX.Props.C16
set_option linter.unusedSimpArgs false
set_option linter.unusedVariables false
namespace TLX.Lemmas.QuicSession
open TLX TLX.Quic TLX.Cipher TLX.Quic.Session TLX.Spec.QuicSender TLX.Spec.QuicFrames

variable {σ : Type} (P : Params σ)

/-! ### key epochs -/

/-- the decryptor object of generation `g`: the sender's keys of that generation under the selected cipher -/
def genDec (sel : SuiteSel) (v : Version) (k0 : AppKeys) (g : Nat) : Dec :=
  (genKeys (P.keyUpdate sel v) k0 g).toDec sel.alg

/-- The refinement relation for 1-RTT key epochs: the session holds exactly the generations `0 … max gc gs` of the
    sender's key chain, its per-direction epochs equal the generations the two directions have shown so far, and
    the remembered key phases are their parities. -/
structure EpochInv (sel : SuiteSel) (v : Version) (k0 : AppKeys) (s : St σ) (gc gs : Nat) : Prop where
  suite : s.suite = some sel
  version : s.version = v
  gens : s.decApp = some ((List.range (max gc gs + 1)).map (genDec P sel v k0))
  ec : s.epochClient = gc
  es : s.epochServer = gs
  lc : s.lastPhaseClient = some (gc % 2)
  ls : s.lastPhaseServer = some (gs % 2)

theorem EpochInv.transfer {sel : SuiteSel} {v : Version} {k0 : AppKeys} {s a : St σ} {gc gs : Nat}
    (h : EpochInv P sel v k0 s gc gs) (h1 : a.suite = s.suite) (h2 : a.version = s.version)
    (h3 : a.decApp = s.decApp) (h4 : a.epochClient = s.epochClient) (h5 : a.epochServer = s.epochServer)
    (h6 : a.lastPhaseClient = s.lastPhaseClient) (h7 : a.lastPhaseServer = s.lastPhaseServer) :
    EpochInv P sel v k0 a gc gs :=
  ⟨h1 ▸ h.suite, h2 ▸ h.version, h3 ▸ h.gens, h4 ▸ h.ec, h5 ▸ h.es, h6 ▸ h.lc, h7 ▸ h.ls⟩

theorem genDec_succ (sel : SuiteSel) (v : Version) (k0 : AppKeys) (m : Nat) :
    (P.keyUpdate sel v (genDec P sel v k0 m).serverSec (genDec P sel v k0 m).clientSec).toDec sel.alg
      = genDec P sel v k0 (m + 1) := rfl

theorem extendGens_inv (s : St σ) (sel : SuiteSel) (v : Version) (k0 : AppKeys) (m : Nat)
    (hs : s.suite = some sel) (hv : s.version = v)
    (hg : s.decApp = some ((List.range (m + 1)).map (genDec P sel v k0)))
    (hm : max s.epochClient s.epochServer = m ∨ max s.epochClient s.epochServer = m + 1) :
    extendGens P s =
      ({ s with decApp := some ((List.range (max s.epochClient s.epochServer + 1)).map (genDec P sel v k0)) }, none) := by
  unfold extendGens
  rw [hg]
  simp only [List.length_map, List.length_range]
  rcases hm with h | h
  · have hn : ¬ (s.epochClient = m + 1 ∨ s.epochServer = m + 1) := by omega
    rw [if_neg hn, h, ← hg]
  · have hp : (s.epochClient = m + 1 ∨ s.epochServer = m + 1) := by omega
    rw [if_pos hp, h]
    have hl : ((List.range (m + 1)).map (genDec P sel v k0)).getLast? = some (genDec P sel v k0 m) := by
      simp [List.range_succ]
    rw [hl]
    simp only [hs, hv, genDec_succ]
    congr 3
    conv => rhs; rw [List.range_succ, List.map_append]
    rfl

theorem flipEpoch_same (s : St σ) (srv : Bool) (g : Nat)
    (h : (if srv then s.lastPhaseServer else s.lastPhaseClient) = some (g % 2)) :
    flipEpoch s (some (g % 2)) srv = s := by
  unfold flipEpoch
  cases srv <;> simp_all

theorem checkKeyEpoch_tracks (sel : SuiteSel) (v : Version) (k0 : AppKeys) (s : St σ) (gc gs : Nat)
    (hinv : EpochInv P sel v k0 s gc gs) (srv : Bool) (g : Nat)
    (hlo : (if srv then gs else gc) ≤ g) (hhi : g ≤ (if srv then gs else gc) + 1) :
    ∃ s', checkKeyEpoch P s (some (g % 2)) srv = (s', none) ∧
      EpochInv P sel v k0 s' (if srv then gc else g) (if srv then g else gs) ∧ FrameSel s s' := by
  obtain ⟨hsu, hve, hge, hec, hes, hlc, hls⟩ := hinv
  unfold checkKeyEpoch
  cases srv
  · -- client direction
    simp only [Bool.false_eq_true, if_false] at hlo hhi ⊢
    by_cases hg : g = gc
    · subst hg
      rw [flipEpoch_same s false g (by simpa using hlc)]
      have := extendGens_inv P s sel v k0 (max g gs) hsu hve hge (Or.inl (by rw [hec, hes]))
      rw [this]
      refine ⟨_, rfl, ⟨hsu, hve, by simp only [hec, hes], hec, hes, hlc, hls⟩, ⟨_, _, _, _, _, rfl⟩⟩
    · have hg1 : g = gc + 1 := by omega
      subst hg1
      have hne : s.lastPhaseClient ≠ some ((gc + 1) % 2) := by rw [hlc]; simp; omega
      have hf : flipEpoch s (some ((gc + 1) % 2)) false =
          { s with epochClient := s.epochClient + 1, lastPhaseClient := some ((gc + 1) % 2) } := by
        simp [flipEpoch, hne]
      rw [hf]
      have := extendGens_inv P { s with epochClient := s.epochClient + 1, lastPhaseClient := some ((gc + 1) % 2) }
        sel v k0 (max gc gs) hsu hve hge (by simp only [hec, hes]; omega)
      rw [this]
      refine ⟨_, rfl, ⟨hsu, hve, by simp only [hec, hes], by simp only [hec], hes, rfl, hls⟩,
        ⟨_, _, _, _, _, rfl⟩⟩
  · simp only [if_true] at hlo hhi ⊢
    by_cases hg : g = gs
    · subst hg
      rw [flipEpoch_same s true g (by simpa using hls)]
      have := extendGens_inv P s sel v k0 (max gc g) hsu hve hge (Or.inl (by rw [hec, hes]))
      rw [this]
      refine ⟨_, rfl, ⟨hsu, hve, by simp only [hec, hes], hec, hes, hlc, hls⟩, ⟨_, _, _, _, _, rfl⟩⟩
    · have hg1 : g = gs + 1 := by omega
      subst hg1
      have hne : s.lastPhaseServer ≠ some ((gs + 1) % 2) := by rw [hls]; simp; omega
      have hf : flipEpoch s (some ((gs + 1) % 2)) true =
          { s with epochServer := s.epochServer + 1, lastPhaseServer := some ((gs + 1) % 2) } := by
        simp [flipEpoch, hne]
      rw [hf]
      have := extendGens_inv P { s with epochServer := s.epochServer + 1, lastPhaseServer := some ((gs + 1) % 2) }
        sel v k0 (max gc gs) hsu hve hge (by simp only [hec, hes]; omega)
      rw [this]
      refine ⟨_, rfl, ⟨hsu, hve, by simp only [hec, hes], hec, by simp only [hes], hlc, rfl⟩,
        ⟨_, _, _, _, _, rfl⟩⟩

theorem appDecryptor_inv (sel : SuiteSel) (v : Version) (k0 : AppKeys) (s : St σ) (gc gs : Nat)
    (hinv : EpochInv P sel v k0 s gc gs) (srv : Bool) :
    appDecryptor s srv = .ok (some (genDec P sel v k0 (if srv then gs else gc))) := by
  unfold appDecryptor
  rw [hinv.gens, hinv.ec, hinv.es]
  have hlt : (if srv then gs else gc) < max gc gs + 1 := by cases srv <;> simp <;> omega
  simp [List.getElem?_map, List.getElem?_range, hlt]

/-- Decryptor selection for a 1-RTT packet of sender generation `g` (one step of a conformant history): no
    KeyError/IndexError, the decryptor is generation `g`'s, the relation is re-established. -/
theorem selectDecryptor_tracks (sel : SuiteSel) (v : Version) (k0 : AppKeys) (s : St σ) (gc gs : Nat)
    (hinv : EpochInv P sel v k0 s gc gs) (p : Pkt) (g : Nat) (hh : p.htype = .short) (ht : p.ptype = .rtt1)
    (hk : p.keyPhase = some (g % 2))
    (hlo : (if p.isServer then gs else gc) ≤ g) (hhi : g ≤ (if p.isServer then gs else gc) + 1) :
    ∃ s', selectDecryptor P s p = (s', .ok (some (genDec P sel v k0 g))) ∧
      EpochInv P sel v k0 s' (if p.isServer then gc else g) (if p.isServer then g else gs) ∧ FrameSel s s' := by
  obtain ⟨s', h1, h2, h3⟩ := checkKeyEpoch_tracks P sel v k0 s gc gs hinv p.isServer g hlo hhi
  refine ⟨s', ?_, h2, h3⟩
  simp only [selectDecryptor, hh, ht, if_true, hk, h1]
  rw [appDecryptor_inv P sel v k0 s' _ _ h2]
  cases p.isServer <;> simp

/-! ### TLS parser assumptions -/

/-- CRYPTO frames carried in packets of type `pt` never make the handshake parser report new data
    (1-RTT: NewSessionTicket and other post-handshake messages). -/
def TlsQuiet (pt : PType) : Prop :=
  ∀ t c, c.ptype = pt → P.tlsNewData t = false → P.tlsNewData (P.tlsUpdate t c).1 = false

/-- … and never make it raise. -/
def TlsNoRaise (pt : PType) : Prop := ∀ t c, c.ptype = pt → (P.tlsUpdate t c).2 = none

/-- what `handle_frame` may change when the parser stays quiet: CID sets, parser state (flag still clear), output -/
def FrameQ (s s' : St σ) : Prop :=
  ∃ cc sc t out, s' = { s with clientCids := cc, serverCids := sc, tls := t, out := out } ∧ P.tlsNewData t = false

theorem FrameQ.refl (s : St σ) (h : P.tlsNewData s.tls = false) : FrameQ P s s := ⟨_, _, _, _, rfl, h⟩

theorem FrameQ.trans {s a b : St σ} (h1 : FrameQ P s a) (h2 : FrameQ P a b) : FrameQ P s b := by
  obtain ⟨_, _, _, _, rfl, _⟩ := h1
  obtain ⟨_, _, _, _, rfl, h⟩ := h2
  exact ⟨_, _, _, _, rfl, h⟩

theorem FrameQ.flag {s a : St σ} (h : FrameQ P s a) : P.tlsNewData a.tls = false := by
  obtain ⟨_, _, _, _, rfl, h⟩ := h; exact h

/-- the exported entry of a parsed frame, if it is one -/
def exportOf (p : Pkt) (f : Frame.Parsed) : Option Out :=
  match f with
  | .crypto .. => some (mkOut p f)
  | .stream .. => some (mkOut p f)
  | _ => none

theorem handleFrame_quiet (p : Pkt) (hq : TlsQuiet P p.ptype) (s : St σ) (f : Frame.Parsed)
    (hf : P.tlsNewData s.tls = false) :
    FrameQ P s (handleFrame P s p f).1 ∧
    ((handleFrame P s p f).2 = none → (handleFrame P s p f).1.out = s.out ++ (exportOf p f).toList) ∧
    (TlsNoRaise P p.ptype → (handleFrame P s p f).2 = none) := by
  unfold handleFrame
  split
  · -- CRYPTO
    rename_i l off len data
    unfold handleCrypto
    have hq' := hq s.tls (cryptoIn p off len data) rfl hf
    have hnr := fun (h : TlsNoRaise P p.ptype) => h s.tls (cryptoIn p off len data) rfl
    cases hu : P.tlsUpdate s.tls (cryptoIn p off len data) with
    | mk t e =>
      rw [hu] at hq' hnr
      simp only at hq' hnr
      cases e with
      | some e => exact ⟨⟨_, _, _, _, rfl, hq'⟩, by simp, fun h => by simpa using hnr h⟩
      | none =>
        simp only [afterTls, hq', Bool.false_eq_true, if_false]
        exact ⟨⟨_, _, _, _, rfl, hq'⟩, by simp [exportOf], fun _ => by first | rfl | trivial⟩
  · exact ⟨⟨_, _, _, _, rfl, hf⟩, by simp [exportOf], fun _ => rfl⟩
  · split <;> exact ⟨⟨_, _, _, _, rfl, hf⟩, by simp [exportOf], fun _ => rfl⟩
  · rename_i h1 h2 h3
    refine ⟨FrameQ.refl P s hf, ?_, fun _ => rfl⟩
    intro _
    cases f <;> simp [exportOf] <;> first | exact absurd rfl (h1 _ _ _ _) | exact absurd rfl (h2 _ _ _ _ _ _ _ _ _) | skip

theorem handleFrames_quiet (p : Pkt) (hq : TlsQuiet P p.ptype) (fs : List Frame.Parsed) (s : St σ)
    (hf : P.tlsNewData s.tls = false) :
    FrameQ P s (handleFrames P s p fs).1 ∧
    (TlsNoRaise P p.ptype → (handleFrames P s p fs).2 = none ∧
      (handleFrames P s p fs).1.out = s.out ++ fs.filterMap (exportOf p)) := by
  induction fs generalizing s with
  | nil => exact ⟨FrameQ.refl P s hf, fun _ => ⟨rfl, by simp [handleFrames]⟩⟩
  | cons f fs ih =>
    obtain ⟨h1, h2, h3⟩ := handleFrame_quiet P p hq s f hf
    unfold handleFrames
    cases hh : handleFrame P s p f with
    | mk s1 e =>
      rw [hh] at h1 h2 h3
      simp only at h1 h2 h3
      cases e with
      | some e => exact ⟨h1, fun hn => by simpa using h3 hn⟩
      | none =>
        simp only
        obtain ⟨i1, i2⟩ := ih s1 h1.flag
        refine ⟨h1.trans P i1, fun hn => ?_⟩
        obtain ⟨j1, j2⟩ := i2 hn
        refine ⟨j1, ?_⟩
        rw [j2, h2 rfl, List.append_assoc]
        cases hx : exportOf p f <;> simp [List.filterMap_cons, hx]

theorem EpochInv.of_frameQ {sel : SuiteSel} {v : Version} {k0 : AppKeys} {s a : St σ} {gc gs : Nat}
    (h : EpochInv P sel v k0 s gc gs) (hf : FrameQ P s a) : EpochInv P sel v k0 a gc gs := by
  obtain ⟨_, _, _, _, rfl, _⟩ := hf
  exact h.transfer P rfl rfl rfl rfl rfl rfl rfl

theorem EpochInv.of_framePn {sel : SuiteSel} {v : Version} {k0 : AppKeys} {s a : St σ} {gc gs : Nat}
    (h : EpochInv P sel v k0 s gc gs) (hf : FramePn s a) : EpochInv P sel v k0 a gc gs := by
  obtain ⟨_, _, rfl⟩ := hf
  exact h.transfer P rfl rfl rfl rfl rfl rfl rfl

/-- everything after the decryptor lookup, with a quiet parser: only the packet-number tables, the CID sets, the
    parser state (flag still clear) and the output can change -/
theorem decryptRest_quiet (p : Pkt) (hq : TlsQuiet P p.ptype) (s : St σ) (d? : Option Dec)
    (hf : P.tlsNewData s.tls = false) :
    ∃ s1, FramePn s s1 ∧ FrameQ P s1 (decryptRest P s p d?).1 := by
  unfold decryptRest
  have flag : ∀ a, FramePn s a → P.tlsNewData a.tls = false := by
    intro a ha; obtain ⟨_, _, rfl⟩ := ha; exact hf
  repeat' split
  all_goals first
    | exact ⟨_, FramePn.refl s, FrameQ.refl P _ hf⟩
    | exact ⟨_, setLargestPn_frame s p _, FrameQ.refl P _ (flag _ (setLargestPn_frame s p _))⟩
    | exact ⟨_, setLargestPn_frame s p _, (handleFrames_quiet P p hq _ _ (flag _ (setLargestPn_frame s p _))).1⟩

/-! ### packet numbers and nonces -/

theorem pow8 (n : Nat) : 2 ^ (8 * n) = 256 ^ n := by rw [Nat.pow_mul]

theorem pnBytes_length (n pn : Nat) : (pnBytes n pn).length = n := QuicVarint.ofNatBE_length _ _

theorem beNat_pnBytes (n pn : Nat) : Bytes.beNat (pnBytes n pn) = pn % 2 ^ (8 * n) := by
  have h : pn % 2 ^ (8 * n) < 256 ^ n := by rw [← pow8]; exact Nat.mod_lt _ (Nat.pow_pos (by omega))
  have := QuicVarint.accBE_ofNatBE 0 n (pn % 2 ^ (8 * n)) h
  simp only [Nat.zero_mul, Nat.zero_add] at this
  exact this

theorem pad_ofNatBE (k n v : Nat) (h : v < 256 ^ n) :
    List.replicate k (0 : UInt8) ++ Bytes.ofNatBE n v = Bytes.ofNatBE (k + n) v := by
  induction k with
  | zero => simp
  | succ k ih =>
    rw [show k + 1 + n = (k + n) + 1 by omega, QuicVarint.ofNatBE_succ_head]
    have hle : 256 ^ n ≤ 256 ^ (k + n) := Nat.pow_le_pow_right (by omega) (by omega)
    have hlt : v < 256 ^ (k + n) := Nat.lt_of_lt_of_le h hle
    rw [Nat.div_eq_of_lt hlt, Nat.mod_eq_of_lt hlt, ← ih]
    rfl

theorem zipWith_xor_comm (a b : Bytes) : List.zipWith (· ^^^ ·) a b = List.zipWith (· ^^^ ·) b a := by
  rw [List.zipWith_comm]
  congr 1
  funext x y
  exact UInt8.xor_comm y x

/-- the model's nonce from bytes that are the big-endian packet number on `n ≤ |iv|` bytes = RFC 9001 §5.3 -/
theorem nonceOf_be (iv : Bytes) (n pn : Nat) (hn : n ≤ iv.length) (h : pn < 256 ^ n) :
    nonceOf iv (Bytes.ofNatBE n pn) = nonce iv pn := by
  unfold nonceOf nonce
  rw [QuicVarint.ofNatBE_length, pad_ofNatBE _ _ _ h, show iv.length - n + n = iv.length by omega]
  exact zipWith_xor_comm _ _

theorem nonce_length (iv : Bytes) (pn : Nat) : (nonce iv pn).length = iv.length := by
  simp [nonce, QuicVarint.ofNatBE_length]

theorem u64_eq : u64Bound = 256 ^ 8 := by unfold u64Bound; rw [show 64 = 8 * 8 by rfl, pow8]

/-- `get_full_packet_number` on a number the sender truncated within the RFC window: the bytes it returns give the
    RFC nonce, and the table entry becomes the maximum. -/
theorem pnResult_ok (largest pn n : Nat) (h : PnLenOk largest pn n) (iv : Bytes) (hiv : 8 ≤ iv.length) :
    (∃ b, pnResult largest (pnBytes n pn) = .ok b ∧ nonceOf iv b = nonce iv pn) ∧
    PktNum.implUpdate largest
      (PktNum.implDecode (2 ^ (8 * (pnBytes n pn).length)) (2 ^ 62) largest (Bytes.beNat (pnBytes n pn))) = max largest pn := by
  obtain ⟨hn, hlo, hhi, hpn⟩ := h
  have hd := TLX.Props.C16.pn_decode_window n largest pn hn hlo hhi hpn
  rw [pnBytes_length, beNat_pnBytes, hd]
  constructor
  · unfold pnResult
    rw [pnBytes_length, beNat_pnBytes, hd]
    split
    · rename_i hs
      -- first-packet shortcut: implDecode returned the truncated value itself
      have ht : pn % 2 ^ (8 * n) = pn := by
        have : PktNum.implDecode (2 ^ (8 * n)) (2 ^ 62) largest (pn % 2 ^ (8 * n)) = pn % 2 ^ (8 * n) := by
          unfold PktNum.implDecode; rw [if_pos hs]
        rw [this] at hd; exact hd
      refine ⟨_, rfl, ?_⟩
      unfold pnBytes
      rw [ht]
      have hlt : pn < 256 ^ n := by
        rw [← pow8, ← ht]; exact Nat.mod_lt _ (Nat.pow_pos (by omega))
      exact nonceOf_be iv n pn (by omega) hlt
    · have hb : pn < u64Bound := by
        have h1 : pn < 2 ^ 62 := Nat.lt_of_le_of_lt (Nat.le_add_right _ _) hpn
        have h2 : 2 ^ 62 ≤ u64Bound := Nat.pow_le_pow_right (by omega) (by omega)
        exact Nat.lt_of_lt_of_le h1 h2
      rw [if_neg (Nat.not_le.mpr hb)]
      refine ⟨_, rfl, ?_⟩
      exact nonceOf_be iv 8 pn hiv (by rw [← u64_eq]; exact hb)
  · unfold PktNum.implUpdate
    split <;> omega

/-- … and the bytes it returns are the packet number itself (what `set_largest_packet_number` reads back). -/
theorem pnResult_ok_be (largest pn n : Nat) (h : PnLenOk largest pn n) (iv : Bytes) (hiv : 8 ≤ iv.length) :
    ∃ b, pnResult largest (pnBytes n pn) = .ok b ∧ nonceOf iv b = nonce iv pn ∧ Bytes.beNat b = pn := by
  obtain ⟨hn, hlo, hhi, hpn⟩ := h
  have hd := TLX.Props.C16.pn_decode_window n largest pn hn hlo hhi hpn
  unfold pnResult
  rw [pnBytes_length, beNat_pnBytes, hd]
  split
  · rename_i hs
    have ht : pn % 2 ^ (8 * n) = pn := by
      have : PktNum.implDecode (2 ^ (8 * n)) (2 ^ 62) largest (pn % 2 ^ (8 * n)) = pn % 2 ^ (8 * n) := by
        unfold PktNum.implDecode; rw [if_pos hs]
      rw [this] at hd; exact hd
    refine ⟨_, rfl, ?_, by rw [beNat_pnBytes, ht]⟩
    unfold pnBytes
    rw [ht]
    have hlt : pn < 256 ^ n := by
      rw [← pow8, ← ht]; exact Nat.mod_lt _ (Nat.pow_pos (by omega))
    exact nonceOf_be iv n pn (by omega) hlt
  · have hb : pn < u64Bound := by
      have h1 : pn < 2 ^ 62 := Nat.lt_of_le_of_lt (Nat.le_add_right _ _) hpn
      have h2 : 2 ^ 62 ≤ u64Bound := Nat.pow_le_pow_right (by omega) (by omega)
      exact Nat.lt_of_lt_of_le h1 h2
    rw [if_neg (Nat.not_le.mpr hb)]
    have hb8 : pn < 256 ^ 8 := by rw [← u64_eq]; exact hb
    refine ⟨_, rfl, nonceOf_be iv 8 pn hiv hb8, ?_⟩
    have := QuicVarint.accBE_ofNatBE 0 8 pn hb8
    simp only [Nat.zero_mul, Nat.zero_add] at this
    exact this

/-! ### the sender's header is the model's AAD -/

theorem assocData_emit (sealFn : Seal) (alg : Alg) (k : DirKeys) (x : SPkt) :
    assocData (emit sealFn alg k x) = .ok (header x) := by
  cases hl : x.level <;>
    simp [assocData, emit, header, hl, cat, longHeader, shortHeader, tokenPart, Level.ptype, List.append_assoc]

/-! ### exported frames -/

def isExp (f : QFrame) : Bool := match f with | .stream .. => true | .crypto .. => true | _ => false

theorem exported_eq (fs : List QFrame) : exported fs = (normalize fs).filter isExp := rfl

theorem filterMap_export (p : Pkt) (l : List QFrame) :
    (l.map QFrame.toParsed).filterMap (exportOf p) = (l.filter isExp).map (fun f => mkOut p f.toParsed) := by
  induction l with
  | nil => rfl
  | cons f l ih =>
    cases f <;> simp [QFrame.toParsed, exportOf, isExp, List.filterMap_cons, List.filter_cons, ih]

/-! ### one packet of the sender, after the decryptor was selected -/

theorem decryptRest_emitted (L : SealLaws P.prims) (s : St σ) (p : Pkt) (d : Dec) (k : DirKeys) (sp : Space)
    (largest pn n : Nat) (hdr : Bytes) (frames : List QFrame)
    (hdir : (if p.isServer then d.server else some d.client) = some k)
    (hsp : p.ptype.space = some sp) (hattr : hasPnAttr p = true)
    (hl : pnLargest s p.isServer sp = largest)
    (hpn : p.pn = some (pnBytes n pn)) (hlen : PnLenOk largest pn n)
    (haad : assocData p = .ok hdr)
    (hpl : p.payload = some (L.aeadSeal d.alg k.key (nonce k.iv pn) hdr 16 (encodeAll frames)))
    (hwf : WellFormedSeq frames) (hk : AeadOk d.alg k.key.length k.iv.length 16) (hiv : 8 ≤ k.iv.length) :
    decryptRest P s p (some d) =
      handleFrames P (pnStore s p.isServer sp (max largest pn)) p ((normalize frames).map QFrame.toParsed) := by
  obtain ⟨b, hb1, hb2, hb3⟩ := pnResult_ok_be largest pn n hlen k.iv hiv
  have hmax : PktNum.implUpdate largest pn = max largest pn := by unfold PktNum.implUpdate; split <;> omega
  unfold decryptRest getFullPn
  simp only [hsp, hattr, Bool.not_true, Bool.false_eq_true, if_false, hpn, hl, hb1, haad]
  have hdec : decDecrypt P d p.payload b hdr p.isServer = .ok (encodeAll frames) := by
    unfold decDecrypt
    rw [hdir, hpl]
    simp only [hb2]
    exact L.open_seal _ _ _ _ _ _ (by rw [nonce_length]; exact hk)
  simp only [hdec, QuicFrameSeq.frames_roundtrip frames hwf, setLargestPn, hsp, hl, hb3, hmax]

end TLX.Lemmas.QuicSession

namespace TLX.Lemmas.QuicSession
open TLX TLX.Quic TLX.Cipher TLX.Quic.Session TLX.Spec.QuicSender TLX.Spec.QuicFrames

variable {σ : Type} (P : Params σ)

/-! ### Initial / Handshake / 0-RTT levels -/

/-- Assumptions on the TLS handshake parser and the key log for the handshake phase of ONE connection: the parser
    never raises, and whenever it reports new data with a client random and a cipher suite, these resolve — through
    `set_tls_decryptors`' suite selection and `dev_quic_keys` — to the connection's suite `sel` and key groups `kg`. -/
structure TlsStable (v : Version) (sel : SuiteSel) (kg : KeyGroups) : Prop where
  noRaise : ∀ t c, (P.tlsUpdate t c).2 = none
  resolves : ∀ t c cr cs, P.tlsNewData (P.tlsUpdate t c).1 = true →
    P.tlsClientRandom (P.tlsUpdate t c).1 = some cr → P.tlsCiphersuite (P.tlsUpdate t c).1 = some cs →
    selectSuite cs = some sel ∧ P.devQuicKeys sel v cr = .ok kg

/-- the decryptor the session holds for a long-header level -/
def installedDec (s : St σ) : Level → Option Dec
  | .initial => s.decInitial | .handshake => s.decHandshake | .zeroRtt => s.decEarly | .oneRtt => none

/-- the decryptors the sender's levels need (`want`) are installed -/
structure LevelInv (v : Version) (want : Level → Option Dec) (s : St σ) : Prop where
  version : s.version = v
  dec : ∀ lv d, want lv = some d → installedDec s lv = some d

/-- what `set_tls_decryptors` would (re-)install from `kg` agrees with the wanted decryptors -/
def WantOk (sel : SuiteSel) (kg : KeyGroups) (want : Level → Option Dec) : Prop :=
  (∀ d a b, want .handshake = some d → kg.hs = some (a, b) → d = { alg := sel.alg, server := some a, client := b }) ∧
  (∀ d ek, want .zeroRtt = some d → kg.early = some ek → d = { alg := sel.alg, server := none, client := ek }) ∧
  want .oneRtt = none

theorem LevelInv.of {v : Version} {want : Level → Option Dec} {s a : St σ} (h : LevelInv v want s)
    (h0 : a.version = s.version) (h1 : a.decInitial = s.decInitial)
    (h2 : ∀ d, want .handshake = some d → a.decHandshake = some d)
    (h3 : ∀ d, want .zeroRtt = some d → a.decEarly = some d) : LevelInv v want a := by
  refine ⟨h0 ▸ h.version, fun lv d hwd => ?_⟩
  cases lv with
  | initial => show a.decInitial = some d; rw [h1]; exact h.dec .initial d hwd
  | handshake => exact h2 d hwd
  | zeroRtt => exact h3 d hwd
  | oneRtt => exact h.dec .oneRtt d hwd

theorem LevelInv.transfer {v : Version} {want : Level → Option Dec} {s a : St σ} (h : LevelInv v want s)
    (h0 : a.version = s.version) (h1 : a.decInitial = s.decInitial) (h2 : a.decHandshake = s.decHandshake)
    (h3 : a.decEarly = s.decEarly) : LevelInv v want a :=
  h.of h0 h1 (fun d hd => by rw [h2]; exact h.dec .handshake d hd) (fun d hd => by rw [h3]; exact h.dec .zeroRtt d hd)

theorem installGroups_out (s : St σ) (sel : SuiteSel) (kg : KeyGroups) : (installGroups s sel kg).out = s.out := by
  unfold installGroups
  repeat' split
  all_goals rfl

theorem installGroups_levelInv {v : Version} {want : Level → Option Dec} {sel : SuiteSel} {kg : KeyGroups}
    (hw : WantOk sel kg want) (s : St σ) (h : LevelInv v want s) : LevelInv v want (installGroups s sel kg) := by
  obtain ⟨w1, w2, w3⟩ := hw
  unfold installGroups
  split
  · exact h.transfer rfl rfl rfl rfl
  · rename_i hsS hsC hhs
    have hH : ∀ d, want .handshake = some d →
        (some { alg := sel.alg, server := some hsS, client := hsC } : Option Dec) = some d :=
      fun d hd => by rw [w1 d hsS hsC hd hhs]
    have hE0 : ∀ d, want .zeroRtt = some d → s.decEarly = some d := fun d hd => h.dec .zeroRtt d hd
    split
    · exact h.of rfl rfl hH hE0
    · split
      · exact h.of rfl rfl hH hE0
      · rename_i ek hek
        exact h.of rfl rfl hH (fun d hd => by rw [w2 d ek hd hek])

theorem handleCrypto_stable {v : Version} {want : Level → Option Dec} {sel : SuiteSel} {kg : KeyGroups}
    (hst : TlsStable P v sel kg) (hw : WantOk sel kg want) (s : St σ) (h : LevelInv v want s) (p : Pkt)
    (f : Frame.Parsed) (c : CryptoIn) :
    (handleCrypto P s p f c).2 = none ∧ (handleCrypto P s p f c).1.out = s.out ++ [mkOut p f] ∧
    LevelInv v want (handleCrypto P s p f c).1 := by
  unfold handleCrypto
  have hnr := hst.noRaise s.tls c
  have hres := hst.resolves s.tls c
  cases hu : P.tlsUpdate s.tls c with
  | mk t e =>
    rw [hu] at hnr hres
    simp only at hnr hres
    subst hnr
    simp only
    unfold afterTls
    simp only
    by_cases hnd : P.tlsNewData t = true
    · rw [if_pos hnd]
      cases hcr : P.tlsClientRandom t with
      | none => exact ⟨rfl, rfl, h.transfer rfl rfl rfl rfl⟩
      | some cr =>
        cases hcs : P.tlsCiphersuite t with
        | none => exact ⟨rfl, rfl, h.transfer rfl rfl rfl rfl⟩
        | some cs =>
          obtain ⟨r1, r2⟩ := hres cr cs hnd hcr hcs
          have hv : s.version = v := h.version
          subst hv
          simp only [setTlsDecryptors, r1, r2]
          have hi : LevelInv _ want (installGroups { s with tls := t, suite := some sel } sel kg) :=
            installGroups_levelInv hw _ (h.transfer rfl rfl rfl rfl)
          have ho : (installGroups { s with tls := t, suite := some sel } sel kg).out = s.out :=
            installGroups_out _ _ _
          refine ⟨by first | rfl | trivial, ?_, hi.transfer rfl rfl rfl rfl⟩
          show (installGroups _ sel kg).out ++ [mkOut p f] = s.out ++ [mkOut p f]
          rw [ho]
    · rw [if_neg hnd]
      exact ⟨rfl, rfl, h.transfer rfl rfl rfl rfl⟩

theorem handleFrames_stable {v : Version} {want : Level → Option Dec} {sel : SuiteSel} {kg : KeyGroups}
    (hst : TlsStable P v sel kg) (hw : WantOk sel kg want) (p : Pkt) (fs : List Frame.Parsed) (s : St σ)
    (h : LevelInv v want s) :
    (handleFrames P s p fs).2 = none ∧ (handleFrames P s p fs).1.out = s.out ++ fs.filterMap (exportOf p) ∧
    LevelInv v want (handleFrames P s p fs).1 := by
  induction fs generalizing s with
  | nil => exact ⟨rfl, by simp [handleFrames], h⟩
  | cons f fs ih =>
    have hf : (handleFrame P s p f).2 = none ∧ (handleFrame P s p f).1.out = s.out ++ (exportOf p f).toList ∧
        LevelInv v want (handleFrame P s p f).1 := by
      unfold handleFrame
      split
      · rename_i l off len data
        have := handleCrypto_stable P hst hw s h p (.crypto l off len data) (cryptoIn p off len data)
        exact ⟨this.1, by simpa [exportOf] using this.2.1, this.2.2⟩
      · exact ⟨rfl, by simp [exportOf], h.transfer rfl rfl rfl rfl⟩
      · split <;> exact ⟨rfl, by simp [exportOf], h.transfer rfl rfl rfl rfl⟩
      · rename_i h1 h2 h3
        refine ⟨rfl, ?_, h⟩
        cases f <;> simp [exportOf] <;> first | exact absurd rfl (h1 _ _ _ _) | exact absurd rfl (h2 _ _ _ _ _ _ _ _ _) | skip
    obtain ⟨a1, a2, a3⟩ := hf
    unfold handleFrames
    cases hh : handleFrame P s p f with
    | mk s1 e =>
      rw [hh] at a1 a2 a3
      simp only at a1 a2 a3
      subst a1
      simp only
      obtain ⟨i1, i2, i3⟩ := ih s1 a3
      refine ⟨i1, ?_, i3⟩
      rw [i2, a2, List.append_assoc]
      cases hx : exportOf p f <;> simp [List.filterMap_cons, hx]

end TLX.Lemmas.QuicSession
