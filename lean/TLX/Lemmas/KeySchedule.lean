/-
Helper lemmas for C15 (loop-to-spec, stream prefixes, slice algebra). Core Lean only.
-/
import TLX.KeySchedule
import TLX.Spec.KeySchedules
namespace TLX.Lemmas.KeySchedule
open TLX TLX.Crypto TLX.KeySchedule
open TLX.Spec.KeySchedules

/-! ### arithmetic of `⌈n / L⌉` -/

theorem lt_ceilDiv_iff (n L j : Nat) (hL : 0 < L) : j < ceilDiv n L ↔ j * L < n := by
  unfold ceilDiv
  rw [Nat.lt_iff_add_one_le, Nat.le_div_iff_mul_le hL, Nat.add_mul]
  omega

theorem ceilDiv_le_self (n L : Nat) (hL : 0 < L) : ceilDiv n L ≤ n := by
  false_or_by_contra; rename_i h
  have h1 : n < ceilDiv n L := by omega
  rw [lt_ceilDiv_iff n L n hL] at h1
  have := Nat.le_mul_of_pos_right n hL
  omega

theorem ceilDiv_mul_ge (n L : Nat) (hL : 0 < L) : n ≤ ceilDiv n L * L := by
  false_or_by_contra; rename_i h
  have : ceilDiv n L < ceilDiv n L := (lt_ceilDiv_iff n L _ hL).2 (by omega)
  omega

theorem ceilDiv_mono (n n' L : Nat) (hL : 0 < L) (h : n ≤ n') : ceilDiv n L ≤ ceilDiv n' L := by
  unfold ceilDiv
  exact Nat.div_le_div_right (by omega)

/-! ### concatenated terms -/

theorem concatTerms_succ (t : Nat → Bytes) (m : Nat) : concatTerms t (m + 1) = concatTerms t m ++ t m := by
  simp [concatTerms, List.range_succ, List.flatMap_append]

theorem concatTerms_length (t : Nat → Bytes) (L : Nat) (hlen : ∀ j, (t j).length = L) (m : Nat) :
    (concatTerms t m).length = m * L := by
  induction m with
  | zero => simp [concatTerms]
  | succ m ih => rw [concatTerms_succ, List.length_append, ih, hlen, Nat.add_mul]; omega

theorem concatTerms_add (t : Nat → Bytes) (m k : Nat) :
    concatTerms t (m + k) = concatTerms t m ++ concatTerms (fun i => t (m + i)) k := by
  induction k with
  | zero => simp [concatTerms]
  | succ k ih => rw [← Nat.add_assoc, concatTerms_succ, ih, concatTerms_succ, List.append_assoc]

/-- more terms than needed do not change the first `n` bytes -/
theorem take_concatTerms_of_le (t : Nat → Bytes) (L : Nat) (hlen : ∀ j, (t j).length = L) (m m' n : Nat)
    (hm : m ≤ m') (hn : n ≤ m * L) : (concatTerms t m').take n = (concatTerms t m).take n := by
  obtain ⟨k, rfl⟩ : ∃ k, m' = m + k := ⟨m' - m, by omega⟩
  rw [concatTerms_add, List.take_append_of_le_length]
  rw [concatTerms_length t L hlen]; exact hn

/-- the truncated stream is prefix-stable: asking for more bytes and truncating gives the same -/
theorem stream_prefix (t : Nat → Bytes) (L : Nat) (hL : 0 < L) (hlen : ∀ j, (t j).length = L) (n n' : Nat)
    (h : n ≤ n') :
    ((concatTerms t (ceilDiv n' L)).take n').take n = (concatTerms t (ceilDiv n L)).take n := by
  rw [List.take_take, Nat.min_eq_left h]
  exact take_concatTerms_of_le t L hlen _ _ _ (ceilDiv_mono n n' L hL h) (ceilDiv_mul_ge n L hL)

theorem stream_length (t : Nat → Bytes) (L : Nat) (hL : 0 < L) (hlen : ∀ j, (t j).length = L) (n : Nat) :
    ((concatTerms t (ceilDiv n L)).take n).length = n := by
  rw [List.length_take, concatTerms_length t L hlen]
  have := ceilDiv_mul_ge n L hL
  omega

/-! ### the `while len(block) < n` loop -/

theorem whileShort_terms {σ : Type} (body : σ → R (σ × Bytes)) (st : Nat → σ) (t : Nat → Bytes) (L n K : Nat)
    (hL : 0 < L) (hbody : ∀ j, j < K → body (st j) = .ok (st (j + 1), t j)) (hlen : ∀ j, (t j).length = L)
    (hK : ceilDiv n L ≤ K) :
    ∀ fuel j, j ≤ ceilDiv n L → ceilDiv n L ≤ j + fuel →
      whileShort body n fuel (st j) (concatTerms t j) = .ok (concatTerms t (ceilDiv n L)) := by
  intro fuel
  induction fuel with
  | zero =>
    intro j h1 h2
    have hj : j = ceilDiv n L := by omega
    subst hj
    have : ¬ (concatTerms t (ceilDiv n L)).length < n := by
      rw [concatTerms_length t L hlen]; have := ceilDiv_mul_ge n L hL; omega
    unfold whileShort
    rw [if_neg this]
  | succ fuel ih =>
    intro j h1 h2
    unfold whileShort
    rw [concatTerms_length t L hlen]
    by_cases hlt : j * L < n
    · have hjm : j < ceilDiv n L := (lt_ceilDiv_iff n L j hL).2 hlt
      rw [if_pos hlt, hbody j (by omega)]
      simp only
      rw [← concatTerms_succ]
      exact ih (j + 1) (by omega) (by omega)
    · have hjm : ¬ j < ceilDiv n L := fun h => hlt ((lt_ceilDiv_iff n L j hL).1 h)
      have hj : j = ceilDiv n L := by omega
      rw [if_neg hlt, ← hj]

/-- the loop started from the empty block with fuel `n` -/
theorem whileShort_eq {σ : Type} (body : σ → R (σ × Bytes)) (st : Nat → σ) (t : Nat → Bytes) (L n K : Nat)
    (hL : 0 < L) (hbody : ∀ j, j < K → body (st j) = .ok (st (j + 1), t j)) (hlen : ∀ j, (t j).length = L)
    (hK : ceilDiv n L ≤ K) :
    whileShort body n n (st 0) [] = .ok (concatTerms t (ceilDiv n L)) := by
  have := whileShort_terms body st t L n K hL hbody hlen hK n 0 (by omega)
    (by have := ceilDiv_le_self n L hL; omega)
  simpa [concatTerms] using this

/-! ### the six slices -/

theorem partition_fields (kb : Bytes) (m k i : Nat) :
    partition kb m k i = ⟨kb.take m, (kb.drop m).take m, (kb.drop (2*m)).take k, (kb.drop (2*m+k)).take k,
      (kb.drop (2*m+2*k)).take i, (kb.drop (2*m+2*k+i)).take i⟩ := by
  simp only [partition, List.splitAt_eq, List.drop_drop]
  congr 1 <;> (congr 2; omega)

theorem take_drop_take (kb : Bytes) (N a l : Nat) (h : a + l ≤ N) :
    ((kb.take N).drop a).take l = (kb.drop a).take l := by
  rw [List.drop_take, List.take_take, Nat.min_eq_left (by omega)]

/-- a model key block read as the RFC's record -/
def toSpec (k : Keys6) : KeyMaterial := ⟨k.clientMac, k.serverMac, k.clientKey, k.serverKey, k.clientIv, k.serverIv⟩

theorem sliceKeys_eq_partition (kb : Bytes) (m k i N : Nat) (hN : 2*m+2*k+2*i ≤ N) :
    toSpec (sliceKeys kb m k i) = partition (kb.take N) m k i := by
  rw [partition_fields]
  simp only [toSpec, sliceKeys, Bytes.slice]
  congr 1
  · simp [List.take_take]; omega
  · rw [take_drop_take _ _ _ _ (by omega)]; congr 1; omega
  · rw [take_drop_take _ _ _ _ (by omega)]; congr 1; omega
  · rw [take_drop_take _ _ _ _ (by omega)]; congr 1; omega
  · rw [take_drop_take _ _ _ _ (by omega)]; congr 1; omega
  · rw [take_drop_take _ _ _ _ (by omega)]; congr 1; omega


/-! ### P_hash loops -/

theorem pHashLoop_eq (h : HashSuite) (hl : h.Lawful) (secret seed : Bytes) (n : Nat) :
    whileShort (pHashBody h.hmac secret seed) n n seed [] =
      .ok (concatTerms (pHashTerm h secret seed) (ceilDiv n h.outLen)) :=
  whileShort_eq (pHashBody h.hmac secret seed) (A h secret seed) (pHashTerm h secret seed) h.outLen n
    (ceilDiv n h.outLen) hl.outLen_pos (fun _ _ => rfl) (fun _ => hl.hmac_len _ _) (Nat.le_refl _)

theorem pHash_length (h : HashSuite) (hl : h.Lawful) (secret seed : Bytes) (n : Nat) :
    (pHash h secret seed n).length = n :=
  stream_length _ h.outLen hl.outLen_pos (fun _ => hl.hmac_len _ _) n

theorem pHash_prefix (h : HashSuite) (hl : h.Lawful) (secret seed : Bytes) (n n' : Nat) (hn : n ≤ n') :
    (pHash h secret seed n').take n = pHash h secret seed n :=
  stream_prefix _ h.outLen hl.outLen_pos (fun _ => hl.hmac_len _ _) n n' hn

theorem xorZip_eq_xorBytes (a b : Bytes) : xorZip a b = xorBytes a b := by
  induction a generalizing b with
  | nil => simp [xorZip, xorBytes]
  | cons x xs ih =>
    cases b with
    | nil => simp [xorZip, xorBytes]
    | cons y ys => simp [xorZip, xorBytes] at *; exact ih ys

theorem xorBytes_take (a b : Bytes) (n : Nat) : (xorBytes a b).take n = xorBytes (a.take n) (b.take n) := by
  induction a generalizing b n with
  | nil => simp [xorBytes]
  | cons x xs ih =>
    cases b with
    | nil => cases n <;> simp [xorBytes]
    | cons y ys =>
      cases n with
      | zero => simp [xorBytes]
      | succ n => simp [xorBytes, ih]

theorem xorBytes_length (a b : Bytes) : (xorBytes a b).length = min a.length b.length := by
  induction a generalizing b with
  | nil => simp [xorBytes]
  | cons x xs ih =>
    cases b with
    | nil => simp [xorBytes]
    | cons y ys => simp [xorBytes, ih, Nat.succ_min_succ]

theorem prf10_length (P : Prims) (hmd5 : P.md5.Lawful) (hsha : P.sha1.Lawful) (secret label seed : Bytes) (n : Nat) :
    (prf10 P.md5 P.sha1 secret label seed n).length = n := by
  simp [prf10, xorBytes_length, pHash_length _ hmd5, pHash_length _ hsha]

theorem bKeyExpansion_eq : bKeyExpansion = asc "key expansion" := by decide
theorem bMasterSecret_eq : bMasterSecret = asc "master secret" := by decide

/-- `prf_tls_12` is RFC 5246's `PRF` with seed `server_random + client_random` -/
theorem prfTls12_eq (P : Prims) (mac : MacTag) (hl : (prfHash12 P mac).Lawful) (secret cr sr label : Bytes) (n : Nat) :
    prfTls12 P secret cr sr label n mac = .ok (prf12 (prfHash12 P mac) secret label (sr ++ cr) n) := by
  simp only [prfTls12, prf12, pHash, List.append_assoc, pHashLoop_eq _ hl]
  rfl

/-- `prf_tls_10_11` is RFC 2246's `PRF` when the secret has even length -/
theorem prfTls1011_eq (P : Prims) (hmd5 : P.md5.Lawful) (hsha : P.sha1.Lawful) (secret cr sr label : Bytes) (n : Nat)
    (nonKey : Bool) (heven : secret.length % 2 = 0) :
    prfTls1011 P secret cr sr label n nonKey =
      .ok (prf10 P.md5 P.sha1 secret label (if nonKey then cr ++ sr else sr ++ cr) n) := by
  have hhalf : secret.length - (secret.length + 1) / 2 = (secret.length + 1) / 2 := by omega
  have hc : ceilDiv secret.length 2 = (secret.length + 1) / 2 := by unfold ceilDiv; omega
  have hseed : (if nonKey then label ++ cr ++ sr else label ++ sr ++ cr) = label ++ (if nonKey then cr ++ sr else sr ++ cr) := by
    cases nonKey <;> simp
  simp only [prfTls1011, prf10, hseed, pHashLoop_eq _ hmd5, pHashLoop_eq _ hsha, hc, hhalf]
  simp only [bind, Except.bind, pure, Except.pure, xorZip_eq_xorBytes, xorBytes_take, pHash]

/-! ### SSL 3.0 PRF and the three key-block functions -/

theorem secBits_get : ∀ j, j < 10 → secBits[j]? = some (UInt8.ofNat (0x41 + j)) := by decide

theorem ssl30Body_eq (P : Prims) (secret cr sr : Bytes) (nonKey : Bool) (j : Nat) (hj : j < 10) :
    ssl30Body P secret cr sr nonKey (j + 1) =
      .ok (j + 2, ssl3Term P.md5 P.sha1 secret (if nonKey then cr ++ sr else sr ++ cr) j) := by
  simp only [ssl30Body, Nat.add_sub_cancel, secBits_get j hj, ssl3Term, ssl3Salt]

/-- `prf_ssl_30` is RFC 6101's iterated MD5/SHA construction as long as at most 10 terms are needed -/
theorem prfSsl30_eq (P : Prims) (hmd5 : P.md5.Lawful) (secret cr sr : Bytes) (n : Nat) (nonKey : Bool)
    (hn : n ≤ 10 * P.md5.outLen) :
    prfSsl30 P secret cr sr n nonKey =
      .ok ((concatTerms (ssl3Term P.md5 P.sha1 secret (if nonKey then cr ++ sr else sr ++ cr))
            (ceilDiv n P.md5.outLen)).take n) := by
  have hK : ceilDiv n P.md5.outLen ≤ 10 := by
    false_or_by_contra; rename_i h
    have := (lt_ceilDiv_iff n P.md5.outLen 10 hmd5.outLen_pos).1 (by omega)
    omega
  have := whileShort_eq (ssl30Body P secret cr sr nonKey) (fun j => j + 1)
    (ssl3Term P.md5 P.sha1 secret (if nonKey then cr ++ sr else sr ++ cr)) P.md5.outLen n 10 hmd5.outLen_pos
    (fun j hj => ssl30Body_eq P secret cr sr nonKey j hj) (fun _ => hmd5.hash_len _) hK
  simp only [prfSsl30, Nat.zero_add] at this ⊢
  rw [this]; rfl

theorem ssl3KeyBlock_prefix (P : Prims) (hmd5 : P.md5.Lawful) (master cr sr : Bytes) (n n' : Nat) (hn : n ≤ n') :
    (ssl3KeyBlock P.md5 P.sha1 master cr sr n').take n = ssl3KeyBlock P.md5 P.sha1 master cr sr n :=
  stream_prefix _ P.md5.outLen hmd5.outLen_pos (fun _ => hmd5.hash_len _) n n' hn

theorem prf10_prefix (P : Prims) (hmd5 : P.md5.Lawful) (hsha : P.sha1.Lawful) (secret label seed : Bytes) (n n' : Nat)
    (hn : n ≤ n') : (prf10 P.md5 P.sha1 secret label seed n').take n = prf10 P.md5 P.sha1 secret label seed n := by
  simp only [prf10, xorBytes_take, pHash_prefix _ hmd5 _ _ _ _ hn, pHash_prefix _ hsha _ _ _ _ hn]

theorem devTls12Keys_eq (P : Prims) (mac : MacTag) (hl : (prfHash12 P mac).Lawful) (master cr sr : Bytes)
    (keyLen macLen kbLen : Nat) (c : CipherTag) (aead : Bool)
    (hkb : 2 * (if aead then 0 else macLen) + 2 * keyLen ≤ kbLen) :
    (devTls12Keys P master cr sr keyLen macLen kbLen c aead mac).map toSpec =
      .ok (connectionKeys P .tls12 ⟨prfHash12 P mac, if aead then 0 else macLen, keyLen, ivLenTls12 c aead⟩
            master cr sr) := by
  simp only [devTls12Keys, prfTls12_eq P mac hl, bind, Except.bind, pure, Except.pure, Except.map, connectionKeys,
    keyBlock, SecurityParameters.keyBlockLength, bKeyExpansion_eq]
  rw [sliceKeys_eq_partition _ _ _ _ _ (Nat.le_refl _), prf12, prf12, pHash_prefix _ hl]
  omega

theorem devTls1011Keys_eq (P : Prims) (hmd5 : P.md5.Lawful) (hsha : P.sha1.Lawful) (master sr cr : Bytes)
    (keyLen macLen kbLen : Nat) (c : CipherTag) (aead : Bool) (heven : master.length % 2 = 0)
    (hkb : 2 * (if aead then 0 else macLen) + 2 * keyLen ≤ kbLen) (v : ProtocolVersion) (hv : v = .tls10 ∨ v = .tls11)
    (prfHash : HashSuite) :
    (devTls1011Keys P master sr cr keyLen macLen kbLen c aead).map toSpec =
      .ok (connectionKeys P v ⟨prfHash, if aead then 0 else macLen, keyLen, ivLenLegacy c⟩ master cr sr) := by
  have hkb' : connectionKeys P v ⟨prfHash, if aead then 0 else macLen, keyLen, ivLenLegacy c⟩ master cr sr =
      connectionKeys P .tls10 ⟨prfHash, if aead then 0 else macLen, keyLen, ivLenLegacy c⟩ master cr sr := by
    rcases hv with rfl | rfl <;> rfl
  rw [hkb']
  simp only [devTls1011Keys, prfTls1011_eq P hmd5 hsha _ _ _ _ _ _ heven, bind, Except.bind, pure, Except.pure,
    Except.map, connectionKeys, keyBlock, SecurityParameters.keyBlockLength, bKeyExpansion_eq]
  rw [sliceKeys_eq_partition _ _ _ _ _ (Nat.le_refl _), prf10_prefix P hmd5 hsha]
  · rfl
  · omega

theorem devSsl30Keys_eq (P : Prims) (hmd5 : P.md5.Lawful) (master sr cr : Bytes)
    (keyLen macLen kbLen : Nat) (c : CipherTag) (aead : Bool)
    (hkb : 2 * (if aead then 0 else macLen) + 2 * keyLen ≤ kbLen)
    (hmax : kbLen + 2 * ivLenLegacy c ≤ 10 * P.md5.outLen) (prfHash : HashSuite) :
    (devSsl30Keys P master sr cr keyLen macLen kbLen c aead).map toSpec =
      .ok (connectionKeys P .ssl30 ⟨prfHash, if aead then 0 else macLen, keyLen, ivLenLegacy c⟩ master cr sr) := by
  simp only [devSsl30Keys, prfSsl30_eq P hmd5 _ _ _ _ _ hmax, bind, Except.bind, pure, Except.pure,
    Except.map, connectionKeys, keyBlock, SecurityParameters.keyBlockLength]
  rw [sliceKeys_eq_partition _ _ _ _ _ (Nat.le_refl _)]
  have := ssl3KeyBlock_prefix P hmd5 master cr sr (2 * (if aead = true then 0 else macLen) + 2 * keyLen + 2 * ivLenLegacy c)
    (kbLen + 2 * ivLenLegacy c) (by omega)
  simp only [ssl3KeyBlock] at this
  simp only [Bool.false_eq_true, if_false, ssl3KeyBlock, this]

/-! ### HkdfLabel, TLS 1.3 -/

theorem bTls13_eq : bTls13 = asc "tls13 " := by decide

/-- `make_info l n` is the `HkdfLabel` encoding (empty context) exactly when both lengths fit -/
theorem makeInfo_eq (l : Bytes) (n : Nat) :
    makeInfo l n = if n < 65536 ∧ l.length + 6 < 256 then .ok (hkdfLabel n l []) else .error .overflow := by
  unfold makeInfo toBytes2 toBytes1
  by_cases h1 : n < 65536 <;> by_cases h2 : l.length + 6 < 256 <;>
    simp [h1, h2, bind, Except.bind, pure, Except.pure, hkdfLabel, uint16, uint8, opaque8, bTls13_eq,
      show (asc "tls13 ").length = 6 by decide, Nat.add_comm]

theorem makeInfo_ok (l : Bytes) (n : Nat) (h1 : n < 65536) (h2 : l.length + 6 < 256) :
    makeInfo l n = .ok (hkdfLabel n l []) := by
  rw [makeInfo_eq, if_pos ⟨h1, h2⟩]

/-- the value of the last key-log entry carrying label `l` (later assignments overwrite earlier ones) -/
def pick (l : Label) (acc : Option Bytes) (s : Secret) : Option Bytes := if s.1 = l then some s.2 else acc
def lastOf (l : Label) (ss : List Secret) : Option Bytes := ss.foldl (pick l) none

theorem tls13_keyInfo (keyLen : Nat) :
    [UInt8.ofNat (keyLen / 256), UInt8.ofNat (keyLen % 256)] ++ [0x09] ++ bTls13Key ++ [0x00] =
      hkdfLabel keyLen (asc "key") [] := by
  simp [hkdfLabel, uint16, uint8, opaque8, show asc "tls13 " ++ asc "key" = bTls13Key by decide,
    show bTls13Key.length = 9 by decide]

theorem tls13_ivInfo : ([0x00, 0x0c] ++ [0x08] ++ bTls13Iv ++ [0x00] : Bytes) = hkdfLabel 12 (asc "iv") [] := by
  decide

def acc13 (f g : Bytes → Bytes) (c1 c2 c3 c4 : Option Bytes) : Tls13Acc :=
  { clientHsKey := c1.map f, clientHsIv := c1.map g, serverHsKey := c2.map f, serverHsIv := c2.map g,
    clientAppKey := c3.map f, clientAppIv := c3.map g, serverAppKey := c4.map f, serverAppIv := c4.map g }

theorem tls13_fold (h : HashSuite) (keyLen : Nat) (ki ii : Bytes) (ss : List Secret) :
    ∀ c1 c2 c3 c4,
      ss.foldl (tls13Step h keyLen ki ii)
          (acc13 (fun s => h.hkdfExpand s ki keyLen) (fun s => h.hkdfExpand s ii 12) c1 c2 c3 c4) =
        acc13 (fun s => h.hkdfExpand s ki keyLen) (fun s => h.hkdfExpand s ii 12)
          (ss.foldl (pick .clientHandshake) c1) (ss.foldl (pick .serverHandshake) c2)
          (ss.foldl (pick .clientTraffic0) c3) (ss.foldl (pick .serverTraffic0) c4) := by
  induction ss with
  | nil => intros; rfl
  | cons s ss ih =>
    intro c1 c2 c3 c4
    simp only [List.foldl_cons]
    rw [← ih]
    congr 1
    obtain ⟨l, v⟩ := s
    cases l <;> simp [tls13Step, acc13, pick]

theorem devTls13Keys_eq (h : HashSuite) (ss : List Secret) (keyLen : Nat) (hk : keyLen < 65536) :
    devTls13Keys h ss keyLen = .ok
      { clientHsKey := (lastOf .clientHandshake ss).map (tls13WriteKey h · keyLen)
        serverHsKey := (lastOf .serverHandshake ss).map (tls13WriteKey h · keyLen)
        clientAppKey := (lastOf .clientTraffic0 ss).map (tls13WriteKey h · keyLen)
        serverAppKey := (lastOf .serverTraffic0 ss).map (tls13WriteKey h · keyLen)
        clientHsIv := (lastOf .clientHandshake ss).map (tls13WriteIv h)
        serverHsIv := (lastOf .serverHandshake ss).map (tls13WriteIv h)
        clientAppIv := (lastOf .clientTraffic0 ss).map (tls13WriteIv h)
        serverAppIv := (lastOf .serverTraffic0 ss).map (tls13WriteIv h) } := by
  have h0 : ({} : Tls13Acc) = acc13 (fun s => h.hkdfExpand s (hkdfLabel keyLen (asc "key") []) keyLen)
      (fun s => h.hkdfExpand s (hkdfLabel 12 (asc "iv") []) 12) none none none none := rfl
  simp only [devTls13Keys, toBytes2, hk, if_true, bind, Except.bind, tls13_keyInfo, tls13_ivInfo, h0, tls13_fold,
    lastOf]
  rfl

/-! ### QUIC -/
theorem saltV1_eq : saltV1 = quicInitialSalt := by decide
theorem bClientIn_eq : bClientIn = asc "client in" := by decide
theorem bServerIn_eq : bServerIn = asc "server in" := by decide
theorem bQuicKey_eq : bQuicKey = asc "quic key" := by decide
theorem bQuicIv_eq : bQuicIv = asc "quic iv" := by decide
theorem bQuicHp_eq : bQuicHp = asc "quic hp" := by decide
theorem bQuicKu_eq : bQuicKu = asc "quic ku" := by decide

/-- a model triple read as the RFC's packet keys -/
def tripleSpec (t : QuicPacketKeys) : Triple := ⟨t.key, t.iv, t.hp⟩

theorem devInitialKeys_eq (h : HashSuite) (h32 : h.outLen = 32) (dcid : Bytes) :
    devInitialKeys h dcid .v1 false =
      .ok (some { clientKey := (quicInitialClientKeys h dcid).key, clientIv := (quicInitialClientKeys h dcid).iv,
                  clientHp := (quicInitialClientKeys h dcid).hp, serverKey := (quicInitialServerKeys h dcid).key,
                  serverIv := (quicInitialServerKeys h dcid).iv, serverHp := (quicInitialServerKeys h dcid).hp }) := by
  simp only [devInitialKeys, Bool.false_eq_true, if_false, if_true,
    makeInfo_ok bClientIn 32 (by decide) (by decide), makeInfo_ok bServerIn 32 (by decide) (by decide),
    makeInfo_ok bQuicKey 16 (by decide) (by decide), makeInfo_ok bQuicIv 12 (by decide) (by decide),
    makeInfo_ok bQuicHp 16 (by decide) (by decide), bind, Except.bind, pure, Except.pure]
  simp only [quicInitialClientKeys, quicInitialServerKeys, quicPacketKeys, quicKey, quicIv, quicHp,
    quicClientInitialSecret, quicServerInitialSecret, quicInitialSecret, hkdfExpandLabel, h32, saltV1_eq,
    bClientIn_eq, bServerIn_eq, bQuicKey_eq, bQuicIv_eq, bQuicHp_eq]

def accQ (f : Bytes → Triple) (c1 c2 c3 c4 c5 c6 : Option Bytes) : QuicAcc :=
  { clientHs := c1.map f, serverHs := c2.map f, clientApp := c3.map fun s => (f s, s),
    serverApp := c4.map fun s => (f s, s), clientEarly := c5.map f, serverEarly := c6.map f }

theorem quic_fold (h : HashSuite) (keyLen : Nat) (ki ii hi : Bytes) (ss : List Secret) :
    ∀ c1 c2 c3 c4 c5 c6,
      ss.foldl (quicStep h keyLen ki ii hi)
          (accQ (fun s => ⟨h.hkdfExpand s ki keyLen, h.hkdfExpand s ii 12, h.hkdfExpand s hi keyLen⟩) c1 c2 c3 c4 c5 c6) =
        accQ (fun s => ⟨h.hkdfExpand s ki keyLen, h.hkdfExpand s ii 12, h.hkdfExpand s hi keyLen⟩)
          (ss.foldl (pick .clientHandshake) c1) (ss.foldl (pick .serverHandshake) c2)
          (ss.foldl (pick .clientTraffic0) c3) (ss.foldl (pick .serverTraffic0) c4)
          (ss.foldl (pick .clientEarly) c5) (ss.foldl (pick .serverEarly) c6) := by
  induction ss with
  | nil => intros; rfl
  | cons s ss ih =>
    intro c1 c2 c3 c4 c5 c6
    simp only [List.foldl_cons]
    rw [← ih]
    congr 1
    obtain ⟨l, v⟩ := s
    cases l <;> simp [quicStep, accQ, pick]

theorem devQuicKeys_eq (h : HashSuite) (keyLen : Nat) (ss : List Secret) (hk : keyLen < 65536) :
    devQuicKeys h keyLen ss .v1 =
      match lastOf .clientHandshake ss, lastOf .serverHandshake ss, lastOf .clientTraffic0 ss,
            lastOf .serverTraffic0 ss with
      | some ch, some sh, some ca, some sa => .ok
          { clientHs := tripleSpec (quicPacketKeys h ch keyLen), serverHs := tripleSpec (quicPacketKeys h sh keyLen)
            clientApp := tripleSpec (quicPacketKeys h ca keyLen), serverApp := tripleSpec (quicPacketKeys h sa keyLen)
            clientAppSec := ca, serverAppSec := sa
            clientEarly := (lastOf .clientEarly ss).map fun s => tripleSpec (quicPacketKeys h s keyLen)
            serverEarly := (lastOf .serverEarly ss).map fun s => tripleSpec (quicPacketKeys h s keyLen) }
      | _, _, _, _ => .error .unbound := by
  have h0 : ({} : QuicAcc) = accQ (fun s => ⟨h.hkdfExpand s (hkdfLabel keyLen bQuicKey []) keyLen,
      h.hkdfExpand s (hkdfLabel 12 bQuicIv []) 12, h.hkdfExpand s (hkdfLabel keyLen bQuicHp []) keyLen⟩)
      none none none none none none := rfl
  simp only [devQuicKeys, if_true, makeInfo_ok bQuicKey keyLen hk (by decide),
    makeInfo_ok bQuicIv 12 (by decide) (by decide), makeInfo_ok bQuicHp keyLen hk (by decide), bind, Except.bind,
    h0, quic_fold, lastOf]
  simp only [accQ]
  cases ss.foldl (pick .clientHandshake) none <;> cases ss.foldl (pick .serverHandshake) none <;>
    cases ss.foldl (pick .clientTraffic0) none <;> cases ss.foldl (pick .serverTraffic0) none <;>
    simp [pure, Except.pure, tripleSpec, quicPacketKeys, quicKey, quicIv, quicHp, hkdfExpandLabel,
      bQuicKey_eq, bQuicIv_eq, bQuicHp_eq]

/-- the RFC's Application decryptor of key-update generation `n`, in `QuicDecryptor.keys` order -/
def specGeneration (h : HashSuite) (keyLen : Nat) (server0 client0 : Bytes) (n : Nat) : QDec :=
  [quicKey h (quicGeneration h server0 n) keyLen, quicIv h (quicGeneration h server0 n),
   quicKey h (quicGeneration h client0 n) keyLen, quicIv h (quicGeneration h client0 n),
   quicGeneration h server0 n, quicGeneration h client0 n]

theorem quicGeneration_length (h : HashSuite) (hl : h.Lawful) (s0 : Bytes) (hs : s0.length = h.outLen) (n : Nat) :
    (quicGeneration h s0 n).length = h.outLen := by
  induction n with
  | zero => exact hs
  | succ n ih =>
    simp only [quicGeneration, quicNextSecret, hkdfExpandLabel, ih]
    exact hl.expand_len _ _ _ (by omega)

/-- one `key_update` step on a decryptor whose two secrets have the hash's length -/
theorem keyUpdate_eq (h : HashSuite) (keyLen : Nat) (hk : keyLen < 65536) (ho : h.outLen < 65536) (d : QDec)
    (sS sC : Bytes) (h4 : d[4]? = some sS) (h5 : d[5]? = some sC) (hS : sS.length = h.outLen)
    (hC : sC.length = h.outLen) :
    keyUpdate h keyLen d =
      .ok [quicKey h (quicNextSecret h sS) keyLen, quicIv h (quicNextSecret h sS),
           quicKey h (quicNextSecret h sC) keyLen, quicIv h (quicNextSecret h sC),
           quicNextSecret h sS, quicNextSecret h sC] := by
  simp only [keyUpdate, makeInfo_ok bQuicKey keyLen hk (by decide), makeInfo_ok bQuicIv 12 (by decide) (by decide),
    makeInfo_ok bQuicKu h.outLen ho (by decide), bind, Except.bind, h4, h5, pure, Except.pure]
  simp only [quicKey, quicIv, quicNextSecret, hkdfExpandLabel, hS, hC, bQuicKey_eq, bQuicIv_eq, bQuicKu_eq]

/-- `n` successive `key_update`s -/
def iterKeyUpdate (h : HashSuite) (keyLen : Nat) : Nat → QDec → R QDec
  | 0, d => .ok d
  | n + 1, d => (iterKeyUpdate h keyLen n d).bind (keyUpdate h keyLen)

theorem keyUpdate_specGeneration (h : HashSuite) (hl : h.Lawful) (keyLen : Nat) (hk : keyLen < 65536)
    (ho : h.outLen < 65536) (s0 c0 : Bytes) (hs : s0.length = h.outLen) (hc : c0.length = h.outLen) (n : Nat) :
    keyUpdate h keyLen (specGeneration h keyLen s0 c0 n) = .ok (specGeneration h keyLen s0 c0 (n + 1)) := by
  rw [keyUpdate_eq h keyLen hk ho _ (quicGeneration h s0 n) (quicGeneration h c0 n) rfl rfl
    (quicGeneration_length h hl s0 hs n) (quicGeneration_length h hl c0 hc n)]
  rfl

theorem iterKeyUpdate_eq (h : HashSuite) (hl : h.Lawful) (keyLen : Nat) (hk : keyLen < 65536)
    (ho : h.outLen < 65536) (s0 c0 : Bytes) (hs : s0.length = h.outLen) (hc : c0.length = h.outLen) (n : Nat) :
    iterKeyUpdate h keyLen n (specGeneration h keyLen s0 c0 0) = .ok (specGeneration h keyLen s0 c0 n) := by
  induction n with
  | zero => rfl
  | succ n ih =>
    simp only [iterKeyUpdate, ih, Except.bind]
    exact keyUpdate_specGeneration h hl keyLen hk ho s0 c0 hs hc n

/-- `check_key_epoch` keeps `decryptors["Application"]` equal to the RFC's generations 0 … k-1, appending
    generation k when it appends at all -/
theorem checkKeyEpoch_generations (h : HashSuite) (hl : h.Lawful) (keyLen : Nat) (hk : keyLen < 65536)
    (ho : h.outLen < 65536) (s0 c0 : Bytes) (hs : s0.length = h.outLen) (hc : c0.length = h.outLen)
    (st : Epochs) (k : Nat) (hpos : 0 < k)
    (happ : st.application = (List.range k).map (specGeneration h keyLen s0 c0)) (phase : Nat) (isServer : Bool) :
    ∃ st' k', checkKeyEpoch h keyLen st phase isServer = .ok st' ∧ k ≤ k' ∧ k' ≤ k + 1 ∧
      st'.application = (List.range k').map (specGeneration h keyLen s0 c0) := by
  obtain ⟨k0, rfl⟩ : ∃ k0, k = k0 + 1 := ⟨k - 1, by omega⟩
  unfold checkKeyEpoch
  simp only [bind, Except.bind, pure, Except.pure]
  generalize hst1 : (if isServer = true then
      if st.lastPhaseServer ≠ phase then
        { st with epochServer := st.epochServer + 1, lastPhaseServer := phase } else st
    else
      if st.lastPhaseClient ≠ phase then
        { st with epochClient := st.epochClient + 1, lastPhaseClient := phase } else st) = st1
  have happ1 : st1.application = (List.range (k0 + 1)).map (specGeneration h keyLen s0 c0) := by
    rw [← hst1, ← happ]
    cases isServer <;> simp <;> split <;> rfl
  have hlast : st1.application.getLast? = some (specGeneration h keyLen s0 c0 k0) := by
    rw [happ1, List.range_succ, List.map_append]; simp
  split
  · rw [hlast]
    simp only [keyUpdate_specGeneration h hl keyLen hk ho s0 c0 hs hc k0]
    refine ⟨_, k0 + 2, rfl, by omega, by omega, ?_⟩
    simp only [happ1]
    rw [show k0 + 2 = (k0 + 1) + 1 from rfl, List.range_succ (n := k0 + 1), List.map_append]; rfl
  · exact ⟨_, k0 + 1, rfl, by omega, by omega, happ1⟩


/-! ### the IV length does not influence MAC keys and keys -/

theorem keyBlock_prefix (P : Prims) (hP : P.Lawful) (pv : ProtocolVersion) (prf : HashSuite) (hprf : prf.Lawful)
    (m k i : Nat) (ms cr sr : Bytes) :
    (keyBlock P pv ⟨prf, m, k, i⟩ ms cr sr).take (2 * m + 2 * k) = keyBlock P pv ⟨prf, m, k, 0⟩ ms cr sr := by
  cases pv <;> simp only [keyBlock, SecurityParameters.keyBlockLength]
  · exact ssl3KeyBlock_prefix P hP.md5 ms cr sr _ _ (by omega)
  · exact prf10_prefix P hP.md5 hP.sha1 _ _ _ _ _ (by omega)
  · exact prf10_prefix P hP.md5 hP.sha1 _ _ _ _ _ (by omega)
  · exact pHash_prefix prf hprf _ _ _ _ (by omega)

theorem partition_macs_keys (kb kb' : Bytes) (m k i i' : Nat)
    (h : kb.take (2 * m + 2 * k) = kb'.take (2 * m + 2 * k)) :
    (partition kb m k i).clientWriteMacKey = (partition kb' m k i').clientWriteMacKey ∧
    (partition kb m k i).serverWriteMacKey = (partition kb' m k i').serverWriteMacKey ∧
    (partition kb m k i).clientWriteKey = (partition kb' m k i').clientWriteKey ∧
    (partition kb m k i).serverWriteKey = (partition kb' m k i').serverWriteKey := by
  simp only [partition_fields]
  have e : ∀ a l, a + l ≤ 2 * m + 2 * k → (kb.drop a).take l = (kb'.drop a).take l := by
    intro a l hal
    rw [← take_drop_take kb _ a l hal, ← take_drop_take kb' _ a l hal, h]
  refine ⟨?_, e m m (by omega), e (2 * m) k (by omega), e (2 * m + k) k (by omega)⟩
  have := e 0 m (by omega)
  simpa using this

theorem connectionKeys_macs_keys (P : Prims) (hP : P.Lawful) (pv : ProtocolVersion) (prf : HashSuite)
    (hprf : prf.Lawful) (m k i i' : Nat) (ms cr sr : Bytes) :
    let a := connectionKeys P pv ⟨prf, m, k, i⟩ ms cr sr
    let b := connectionKeys P pv ⟨prf, m, k, i'⟩ ms cr sr
    a.clientWriteMacKey = b.clientWriteMacKey ∧ a.serverWriteMacKey = b.serverWriteMacKey ∧
    a.clientWriteKey = b.clientWriteKey ∧ a.serverWriteKey = b.serverWriteKey := by
  simp only [connectionKeys]
  apply partition_macs_keys
  rw [keyBlock_prefix P hP pv prf hprf, keyBlock_prefix P hP pv prf hprf]

end TLX.Lemmas.KeySchedule
