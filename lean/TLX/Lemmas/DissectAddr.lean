/-
What dpkt hands the tool for an IP packet, whatever the frame: 6-byte MAC addresses and 4- / 16-byte IP addresses matching
the IP version (`dissect_addr_lengths`). Needed by `Props/Export.lean` for `OutBytes.Frame.WF` of every exported frame.
Core Lean only.
-/
import TLX.Dissect
namespace TLX.Lemmas.DissectAddr
open TLX TLX.Dissect

def EInv (r : ERes) : Prop :=
  (r.data = .obj ∨ (r.dst.length = 6 ∧ r.src.length = 6)) ∧
  (∀ b, r.data = .ip4 b → 20 ≤ b.length) ∧ (∀ b, r.data = .ip6 b → 40 ≤ b.length)

theorem einv_default : EInv {} := by
  refine ⟨.inl rfl, ?_, ?_⟩ <;> intro b h <;> cases h

def Claim (l : Layer) (buf : Bytes) (r : ERes) : Prop :=
  EInv r ∧ (l = .ip4 → 20 ≤ buf.length) ∧ (l = .ip6 → 40 ≤ buf.length)

def RecOk (rec : Rec) : Prop := ∀ d l buf r, rec d l buf = .ok r → Claim l buf r

/-- a `do` block of the parser that ends in `pure {}` on every path: unfold, split every branch, read the result off -/
macro "res_tac" h:ident : tactic =>
  `(tactic| (simp only [bind, Except.bind, pure, Except.pure] at $h:ident
             repeat' split at $h:ident
             all_goals first | (cases $h:ident; rfl) | cases $h:ident))

theorem llc_res (rec : Rec) (d : Dep) (buf : Bytes) (r : ERes) (h : llcLayer rec d buf = .ok r) : r = {} := by
  unfold llcLayer at h; res_tac h
theorem gre_res (rec : Rec) (d : Dep) (buf : Bytes) (r : ERes) (h : greLayer rec d buf = .ok r) : r = {} := by
  unfold greLayer at h; res_tac h
theorem ah_res (rec : Rec) (d : Dep) (buf : Bytes) (r : ERes) (h : ahLayer rec d buf = .ok r) : r = {} := by
  unfold ahLayer at h; res_tac h
theorem icmp_res (rec : Rec) (d : Dep) (buf : Bytes) (r : ERes) (h : icmpLayer rec d buf = .ok r) : r = {} := by
  unfold icmpLayer at h; res_tac h
theorem icmp6_res (rec : Rec) (d : Dep) (buf : Bytes) (r : ERes) (h : icmp6Layer rec d buf = .ok r) : r = {} := by
  unfold icmp6Layer at h; res_tac h
theorem ppp_res (rec : Rec) (d : Dep) (buf : Bytes) (r : ERes) (h : pppLayer rec d buf = .ok r) : r = {} := by
  unfold pppLayer at h; res_tac h
theorem pppoe_res (rec : Rec) (d : Dep) (buf : Bytes) (r : ERes) (h : pppoeLayer rec d buf = .ok r) : r = {} := by
  unfold pppoeLayer at h; res_tac h
theorem cdp_res (d : Dep) (buf : Bytes) (r : ERes) (h : cdpLayer d buf = .ok r) : r = {} := by
  unfold cdpLayer at h; res_tac h
theorem ip4_res (rec : Rec) (d : Dep) (buf : Bytes) (r : ERes) (h : ip4Layer rec d buf = .ok r) :
    r = {} ∧ 20 ≤ buf.length := by
  unfold ip4Layer at h
  simp only [bind, Except.bind, pure, Except.pure] at h
  repeat' split at h
  all_goals first | (cases h; exact ⟨rfl, by omega⟩) | cases h
theorem ip6_res (rec : Rec) (d : Dep) (buf : Bytes) (r : ERes) (h : ip6Layer rec d buf = .ok r) :
    r = {} ∧ 40 ≤ buf.length := by
  unfold ip6Layer at h
  simp only [bind, Except.bind, pure, Except.pure] at h
  repeat' split at h
  all_goals first | (cases h; exact ⟨rfl, by omega⟩) | cases h

theorem guarded_true {r : Except DErr ERes} (h : guarded r = .ok true) : ∃ x, r = .ok x := by
  unfold guarded at h
  split at h
  · exact ⟨_, rfl⟩
  · split at h <;> cases h

theorem unpackData_inv (rec : Rec) (hrec : RecOk rec) (d : Dep) (nt : Option Nat) (ty : Nat) (buf : Bytes)
    (nt' : Option Nat) (dt : EData) (h : unpackData rec d nt ty buf = .ok (nt', dt)) :
    (∀ b, dt = .ip4 b → 20 ≤ b.length) ∧ (∀ b, dt = .ip6 b → 40 ≤ b.length) := by
  unfold unpackData at h
  simp only [bind, Except.bind, pure, Except.pure] at h
  split at h
  · cases h
  · rename_i x v hv
    obtain ⟨nt1, buf1⟩ := v
    simp only at h
    split at h
    · cases h
      exact ⟨(fun b hb => by cases hb), (fun b hb => by cases hb)⟩
    · rename_i l hl
      split at h
      · cases h
      · rename_i made hm
        split at h
        · rename_i htrue
          subst htrue
          obtain ⟨x, hx⟩ := guarded_true hm
          have hc := hrec _ _ _ _ hx
          cases h
          constructor
          · intro b hb
            split at hb
            · rename_i h4; cases hb; exact hc.2.1 h4
            · split at hb <;> cases hb
          · intro b hb
            split at hb
            · cases hb
            · split at hb
              · rename_i h6; cases hb; exact hc.2.2 h6
              · cases hb
        · cases h
          exact ⟨(fun b hb => by cases hb), (fun b hb => by cases hb)⟩

theorem mac_len (buf : Bytes) (h : ¬ buf.length < 14) : (buf.take 6).length = 6 ∧ (buf.slice 6 12).length = 6 := by
  simp only [Bytes.slice, List.length_take, List.length_drop]; omega

theorem ethUnpack_inv (rec : Rec) (hrec : RecOk rec) (u : Dep) (top : Bool) (buf : Bytes) (r : ERes)
    (h : ethUnpack rec u top buf = .ok r) : EInv r := by
  unfold ethUnpack at h
  simp only [bind, Except.bind, pure, Except.pure] at h
  split at h
  · cases h
  · split at h
    · cases h
    · rename_i hlen
      have hm := mac_len buf hlen
      split at h
      · -- Ethernet II
        split at h
        · cases h
        · rename_i v hv
          obtain ⟨nt, dt⟩ := v
          cases h
          have := unpackData_inv rec hrec _ _ _ _ _ _ hv
          exact ⟨.inr hm, this.1, this.2⟩
      · split at h
        · -- ISL
          split at h
          · cases h
          · split at h
            · cases h
            · exact (hrec _ _ _ _ h).1
        · split at h
          · split at h
            · cases h
            · cases h; exact ⟨.inl rfl, (fun b hb => by cases hb), (fun b hb => by cases hb)⟩
          · split at h
            · split at h
              · cases h
              · rename_i v hv
                obtain ⟨nt, dt⟩ := v
                cases h
                have := unpackData_inv rec hrec _ _ _ _ _ _ hv
                exact ⟨.inr hm, this.1, this.2⟩
            · split at h
              · cases h
              · cases h; exact ⟨.inl rfl, (fun b hb => by cases hb), (fun b hb => by cases hb)⟩

theorem secondPass_inv (rec : Rec) (hrec : RecOk rec) (d : Dep) (r r' : ERes) (hr : EInv r)
    (h : secondPass rec d r = .ok r') : EInv r' := by
  unfold secondPass at h
  split at h
  · rename_i b hb
    split at h
    · cases h; exact hr
    · simp only [bind, Except.bind, pure, Except.pure] at h
      split at h
      · cases h
      · rename_i v hv
        obtain ⟨nt, dt⟩ := v
        cases h
        have := unpackData_inv rec hrec _ _ _ _ _ _ hv
        refine ⟨?_, this.1, this.2⟩
        rcases hr.1 with ho | hm
        · rw [hb] at ho; cases ho
        · exact .inr hm
  · cases h; exact hr

theorem ethLayer_inv (rec : Rec) (hrec : RecOk rec) (d : Dep) (buf : Bytes) (r : ERes)
    (h : ethLayer rec d buf = .ok r) : EInv r := by
  unfold ethLayer at h
  simp only [bind, Except.bind] at h
  split at h
  · cases h
  · rename_i r0 h0
    exact secondPass_inv rec hrec _ _ _ (ethUnpack_inv rec hrec _ _ _ _ h0) h

theorem body_ok (rec : Rec) (hrec : RecOk rec) (d : Dep) (l : Layer) (buf : Bytes) (r : ERes)
    (h : body rec d l buf = .ok r) : Claim l buf r := by
  have triv : ∀ l' : Layer, l' ≠ .ip4 → l' ≠ .ip6 → r = {} → Claim l' buf r := by
    intro l' h4 h6 hr
    subst hr
    exact ⟨einv_default, fun e => absurd e h4, fun e => absurd e h6⟩
  cases l with
  | eth => exact ⟨ethLayer_inv rec hrec d buf r h, (fun e => by cases e), (fun e => by cases e)⟩
  | ethInner => exact ⟨ethUnpack_inv rec hrec _ _ _ _ h, (fun e => by cases e), (fun e => by cases e)⟩
  | ip4 =>
    obtain ⟨hr, hl⟩ := ip4_res rec d buf r h
    subst hr
    exact ⟨einv_default, fun _ => hl, (fun e => by cases e)⟩
  | ip6 =>
    obtain ⟨hr, hl⟩ := ip6_res rec d buf r h
    subst hr
    exact ⟨einv_default, (fun e => by cases e), fun _ => hl⟩
  | tcp =>
    refine triv _ (by simp) (by simp) ?_
    unfold body at h; res_tac h
  | udp =>
    refine triv _ (by simp) (by simp) ?_
    unfold body at h; res_tac h
  | llc => exact triv _ (by simp) (by simp) (llc_res rec d buf r h)
  | gre => exact triv _ (by simp) (by simp) (gre_res rec d buf r h)
  | ah => exact triv _ (by simp) (by simp) (ah_res rec d buf r h)
  | icmp => exact triv _ (by simp) (by simp) (icmp_res rec d buf r h)
  | icmp6 => exact triv _ (by simp) (by simp) (icmp6_res rec d buf r h)
  | ppp => exact triv _ (by simp) (by simp) (ppp_res rec d buf r h)
  | pppoe => exact triv _ (by simp) (by simp) (pppoe_res rec d buf r h)
  | cdp => exact triv _ (by simp) (by simp) (cdp_res d buf r h)
  | flat k hdr =>
    refine triv _ (by simp) (by simp) ?_
    unfold body at h; res_tac h

theorem parse_ok (fuel : Nat) : RecOk (parse fuel) := by
  induction fuel with
  | zero => intro d l buf r h; cases h
  | succ n ih =>
    intro d l buf r h
    unfold parse at h
    split at h
    · cases h
    · exact body_ok (parse n) ih _ l buf r h

/-- **What dpkt hands the tool for an IP packet**: whenever `Packet(buf, ts)` finds an `IP` / `IP6` instance in
    `ethernet.data`, the MAC addresses are 6 bytes each and the IP addresses are 4 bytes (IPv4) or 16 bytes (IPv6) each —
    for every frame, through every nesting dpkt follows (VLAN, MPLS, ISL, the second `_unpack_data` pass). -/
theorem dissect_addr_lengths (base : Dep) (buf : Bytes) (x : IpPkt) (h : dissectD base buf = .ok (.ip x)) :
    x.srcMac.length = 6 ∧ x.dstMac.length = 6 ∧
      x.src.length = (if x.v6 then 16 else 4) ∧ x.dst.length = (if x.v6 then 16 else 4) := by
  unfold dissectD at h
  split at h
  · cases h
  · rename_i r hr
    have hinv := (parse_ok _ _ _ _ _ hr).1
    split at h
    · rename_i b hb
      cases h
      have hl := hinv.2.1 b hb
      rcases hinv.1 with ho | hm
      · rw [hb] at ho; cases ho
      · simp only [ip4View, Bool.false_eq_true, if_false, Bytes.slice, List.length_take, List.length_drop]
        omega
    · rename_i b hb
      cases h
      have hl := hinv.2.2 b hb
      rcases hinv.1 with ho | hm
      · rw [hb] at ho; cases ho
      · unfold ip6View
        split <;>
          (simp only [if_true, Bytes.slice, List.length_take, List.length_drop]; omega)
    · cases h
end TLX.Lemmas.DissectAddr
