/-
Helper lemmas for `Props/C01Pipeline.lean`: the composed TLS model (`TLX/Pipeline.lean`) — the decryptor instance of
`Session.Ops` against the record-layer receiver `recvStep` of `Props/C01`, one session record of an RFC sender through
`handle_tls_record`, the TLS 1.3 handshake-message loop, `rstrip`, and the per-packet fold `feedPkt`.
-/
import TLX.Pipeline
import TLX.Props.C01
import TLX.Lemmas.Session
import TLX.Lemmas.TlsHello
import TLX.Lemmas.TcpOutData
import TLX.Lemmas.Metadata
import TLX.Props.C08Session
import TLX.Props.C13Session
import TLX.Props.C03
import TLX.Props.C07Session
set_option linter.unusedSimpArgs false
namespace TLX.Lemmas.Pipeline
open TLX TLX.Cipher TLX.RecordLayer TLX.Spec.TlsSender TLX.Props.C01 TLX.Lemmas.RecLayer

-- ------------------------------------------------------------------ `Pipeline.ops` and the record-layer receiver
/-- what `Session` sees of a receiver observation: the value, or "raised" -/
def outVal : Props.C01.Out → Option (Option Bytes)
  | .data v => some v
  | _ => none

def isSwitched : Props.C01.Out → Bool
  | .switched => true
  | _ => false

/-- `Pipeline.ops.decrypt` is `TlsRecord(raw)` + `Decryptor.decrypt`, i.e. the receiver step of `Props/C01` -/
theorem ops_decrypt (H : Crypto.Prims) (P : Prims) (kl : List Keylog.Key) (d : Dec) (r : Session.Rec) (srv : Bool) :
    (Pipeline.ops H P kl).decrypt d r srv =
      ((recvStep P d (.record srv r.raw)).1, outVal (recvStep P d (.record srv r.raw)).2) := by
  simp only [Pipeline.ops, recvStep]
  cases h : Rec.ofRaw r.raw with
  | error e => rfl
  | ok rr =>
    simp only
    cases h2 : Dec.decrypt P rr srv d <;> rfl

/-- `Pipeline.ops.updateKeys` is the receiver step for an epoch switch -/
theorem ops_updateKeys (H : Crypto.Prims) (P : Prims) (kl : List Keylog.Key) (d : Dec) (srv : Bool) :
    (Pipeline.ops H P kl).updateKeys d srv =
      ((recvStep P d (.switch srv)).1, isSwitched (recvStep P d (.switch srv)).2) := by
  simp only [Pipeline.ops, recvStep]
  cases h : Dec.updateKeys srv d <;> rfl

-- ------------------------------------------------------------------ the sender's state after a history
/-- sender state after a history (`run` returns the wire image only) -/
def after (P : Prims) (L : SealLaws P) (cls : CipherClass) (ver : Bytes) (x : Snd) (evs : List Ev) : Snd :=
  evs.foldl (fun x e => (step P L cls ver x e).1) x

theorem run_append (P : Prims) (L : SealLaws P) (cls : CipherClass) (ver : Bytes) (x : Snd) (a b : List Ev) :
    run P L cls ver x (a ++ b) = run P L cls ver x a ++ run P L cls ver (after P L cls ver x a) b := by
  induction a generalizing x with
  | nil => rfl
  | cons e es ih => simp only [List.cons_append, run, after, List.foldl_cons, ih]

theorem after_append (P : Prims) (L : SealLaws P) (cls : CipherClass) (ver : Bytes) (x : Snd) (a b : List Ev) :
    after P L cls ver x (a ++ b) = after P L cls ver (after P L cls ver x a) b := by
  simp [after, List.foldl_append]

-- ------------------------------------------------------------------ record type byte on the wire
theorem protect_head_legacy (P : Prims) (L : SealLaws P) (cls : CipherClass) (h13 : cls.is13 = false) (ver : Bytes)
    (sd : SDir) (typ : UInt8) (pt : Bytes) (f : Fresh) : (protect P L cls ver sd typ pt f).2.head? = some typ := by
  cases cls <;> simp [CipherClass.is13] at h13 <;> simp [protect, record]

theorem protect_head_13 (P : Prims) (L : SealLaws P) (cls : CipherClass) (h13 : cls.is13 = true) (ver : Bytes)
    (sd : SDir) (typ : UInt8) (pt : Bytes) (f : Fresh) : (protect P L cls ver sd typ pt f).2.head? = some 23 := by
  cases cls <;> simp [CipherClass.is13] at h13 <;> simp [protect, hdr13]

theorem delivered_legacy (cls : CipherClass) (h13 : cls.is13 = false) (typ : UInt8) (pt : Bytes) (f : Fresh) :
    delivered cls typ pt f = pt := by
  cases cls <;> simp [CipherClass.is13] at h13 <;> rfl

theorem delivered_13 (cls : CipherClass) (h13 : cls.is13 = true) (typ : UInt8) (pt : Bytes) (f : Fresh) :
    delivered cls typ pt f = pt ++ [typ] ++ List.replicate f.pad13 0 := by
  cases cls <;> simp [CipherClass.is13] at h13 <;> rfl

-- ------------------------------------------------------------------ `rstrip(b'\x00')`
theorem rstrip0_inner (pt : Bytes) (typ : UInt8) (n : Nat) (ht : typ ≠ 0) :
    Session.rstrip0 (pt ++ [typ] ++ List.replicate n 0) = pt ++ [typ] := by
  unfold Session.rstrip0
  simp only [List.reverse_append, List.reverse_replicate, List.reverse_cons, List.reverse_nil, List.nil_append,
    List.singleton_append]
  have : ∀ (n : Nat) (l : Bytes), List.dropWhile (fun x => decide (x = 0)) (List.replicate n (0 : UInt8) ++ l)
      = List.dropWhile (fun x => decide (x = 0)) l := by
    intro n l
    induction n with
    | zero => rfl
    | succ n ih => simp [List.replicate_succ, ih]
  rw [this]
  simp [List.dropWhile_cons, ht]

-- ------------------------------------------------------------------ one application-data record through the session
/-- gate open, version set and consistent with the cipher class, a decryptor installed that is related
    (`Props.C01.Rel`) to the sender state `x` -/
def Ready0 (cls : CipherClass) (macLen : Nat) (x : Snd) (s : Session.St Dec) : Prop :=
  s.canDecrypt = true ∧ (∃ v, s.ver = some v ∧ (v = Session.Ver.tls13 ↔ cls.is13 = true)) ∧
    ∃ d, s.dec = some d ∧ Rel cls macLen x d

/-- … and the TLS 1.3 handshake buffers of the two directions hold `bf false`, `bf true` -/
def ReadyB (cls : CipherClass) (macLen : Nat) (x : Snd) (s : Session.St Dec) (bf : Bool → Bytes) : Prop :=
  Ready0 cls macLen x s ∧ ∀ d, s.hsBuf d = bf d

/-- The session as this package needs it: gate open, version set and consistent with the cipher class, a decryptor
    installed that is related (`Props.C01.Rel`) to the sender state `x`, no unfinished TLS 1.3 handshake message
    buffered. -/
abbrev Ready (cls : CipherClass) (macLen : Nat) (x : Snd) (s : Session.St Dec) : Prop :=
  ReadyB cls macLen x s fun _ => []

theorem hsBuf_of_fields {s s' : Session.St Dec} (h1 : s'.hsBufC = s.hsBufC) (h2 : s'.hsBufS = s.hsBufS) (d : Bool) :
    s'.hsBuf d = s.hsBuf d := by
  cases d <;> simp [Session.St.hsBuf, h1, h2]

theorem handleRecord_app (H : Crypto.Prims) (P : Prims) (L : SealLaws P) (kl : List Keylog.Key) (cls : CipherClass)
    (macLen : Nat) (ver : Bytes) (hv : ver.length = 2) (x : Snd) (s : Session.St Dec) {bf : Bool → Bytes}
    (hs : ReadyB cls macLen x s bf)
    (srv : Bool) (pt : Bytes) (f : Fresh) (hok : SendOk cls macLen pt f)
    (hq : x.c.seq < seqLimit ∧ x.s.seq < seqLimit) (m : Bool) (car : List Nat) :
    let o := protect P L cls ver (x.get srv) 23 pt f
    (Session.handleRecord (Pipeline.ops H P kl) m s ⟨o.2, car⟩ srv).traffic
        = s.traffic ++ [⟨some pt, ⟨o.2, car⟩, srv, true⟩] ∧
      ReadyB cls macLen (x.set srv o.1) (Session.handleRecord (Pipeline.ops H P kl) m s ⟨o.2, car⟩ srv) bf ∧
      (x.set srv o.1).c.seq ≤ max x.c.seq x.s.seq + 1 ∧ (x.set srv o.1).s.seq ≤ max x.c.seq x.s.seq + 1 := by
  obtain ⟨⟨hcan, ⟨v, hver, hv13⟩, d, hdec, hR⟩, hbuf⟩ := hs
  obtain ⟨h1, h2, h3, h4⟩ := step_exact P L cls macLen ver hv x d hR (.send srv 23 pt f) hok hq
  simp only [step, expected] at h1 h2 h3 h4
  intro o
  have hd : (Pipeline.ops H P kl).decrypt d ⟨o.2, car⟩ srv
      = ((recvStep P d (.record srv o.2)).1, some (some (delivered cls 23 pt f))) := by
    rw [ops_decrypt, h1]; rfl
  have heq : Session.handleRecord (Pipeline.ops H P kl) m s ⟨o.2, car⟩ srv
      = ({ s with dec := some (recvStep P d (.record srv o.2)).1 } : Session.St Dec).push
          ⟨some pt, ⟨o.2, car⟩, srv, true⟩ := by
    unfold Session.handleRecord Session.handleRecordRaw
    cases h13 : cls.is13
    · have htyp : (⟨o.2, car⟩ : Session.Rec).typ = some 23 := protect_head_legacy P L cls h13 ver _ 23 pt f
      have hvne : v ≠ .tls13 := by
        intro h; rw [hv13.mp h] at h13; cases h13
      rw [htyp]
      simp only [hcan, hdec, hver]
      simp [Session.appLegacy, hdec, hd, delivered_legacy cls h13, Session.Out.st, hcan, hver]
    · have htyp : (⟨o.2, car⟩ : Session.Rec).typ = some 23 := protect_head_13 P L cls h13 ver _ 23 pt f
      have hve : v = .tls13 := hv13.mpr h13
      subst hve
      rw [htyp]
      simp only [hcan, hdec, hver]
      have hrs : Session.rstrip0 (delivered cls 23 pt f) = pt ++ [23] := by
        rw [delivered_13 cls h13]; exact rstrip0_inner pt 23 f.pad13 (by decide)
      simp [Session.app13, hdec, hd, hrs, Session.Out.st, hcan, hver, Session.tryExcept]
  refine ⟨?_, ?_, h3, h4⟩
  · rw [heq]; rfl
  · rw [heq]
    exact ⟨⟨hcan, ⟨v, hver, hv13⟩, _, rfl, h2⟩, fun d' => by rw [← hbuf d']; cases d' <;> rfl⟩

-- ------------------------------------------------------------------ TLS ≤ 1.2: ChangeCipherSpec and the encrypted Finished
/-- the `change_cipher_spec` flag of a direction -/
def ccOf (s : Session.St Dec) (srv : Bool) : Bool := if srv then s.srvCC else s.cliCC

/-- a ChangeCipherSpec record (type 20, never protected in the initial handshake): sets the direction's flag, exports
    nothing but (with `-a`) the record itself, leaves decryptor, version and gate alone -/
theorem handleRecord_ccs (O : Session.Ops Dec) (m : Bool) (s : Session.St Dec) (r : Session.Rec) (srv : Bool)
    (ht : r.typ = some 0x14) :
    let s' := Session.handleRecord O m s r srv
    s'.dec = s.dec ∧ s'.ver = s.ver ∧ s'.canDecrypt = s.canDecrypt ∧ ccOf s' srv = true ∧
    ccOf s' (!srv) = ccOf s (!srv) ∧ s'.traffic.filter (·.isApp) = s.traffic.filter (·.isApp) ∧
    (m = false → s'.traffic = s.traffic) ∧ s'.hsBufC = s.hsBufC ∧ s'.hsBufS = s.hsBufS := by
  simp only [Session.handleRecord, Session.handleRecordRaw, ht]
  have h1 : ((0x14 : UInt8) = 0x16) = False := by decide
  have h2 : ((0x14 : UInt8) = 0x17) = False := by decide
  have h3 : ((0x14 : UInt8) = 0x15) = False := by decide
  simp only [h1, h2, h3, if_false, if_true, Session.Out.st]
  cases srv <;> cases m <;>
    simp [Session.pushMeta, Session.St.push, ccOf, List.filter_append]

/-- a protected handshake record (the Finished) of a direction whose ChangeCipherSpec was seen, SSL 3.0 – TLS 1.2:
    decrypted as the sender protected it (cipher state advances in step), exported only with `-a` and never as
    application data -/
theorem handleRecord_hsEnc (H : Crypto.Prims) (P : Prims) (L : SealLaws P) (kl : List Keylog.Key) (cls : CipherClass)
    (h13 : cls.is13 = false) (macLen : Nat) (ver : Bytes) (hv : ver.length = 2) (x : Snd) (s : Session.St Dec)
    {bf : Bool → Bytes} (hs : ReadyB cls macLen x s bf) (srv : Bool) (hcc : ccOf s srv = true) (body : Bytes) (f : Fresh)
    (hok : SendOk cls macLen body f) (hq : x.c.seq < seqLimit ∧ x.s.seq < seqLimit) (m : Bool) (car : List Nat) :
    let o := protect P L cls ver (x.get srv) 22 body f
    let s' := Session.handleRecord (Pipeline.ops H P kl) m s ⟨o.2, car⟩ srv
    s'.traffic.filter (·.isApp) = s.traffic.filter (·.isApp) ∧ (m = false → s'.traffic = s.traffic) ∧
      ReadyB cls macLen (x.set srv o.1) s' bf ∧ s'.srvCC = s.srvCC ∧ s'.cliCC = s.cliCC ∧
      (x.set srv o.1).c.seq ≤ max x.c.seq x.s.seq + 1 ∧ (x.set srv o.1).s.seq ≤ max x.c.seq x.s.seq + 1 := by
  obtain ⟨⟨hcan, ⟨v, hver, hv13⟩, d, hdec, hR⟩, hbuf⟩ := hs
  obtain ⟨h1, h2, h3, h4⟩ := step_exact P L cls macLen ver hv x d hR (.send srv 22 body f) hok hq
  simp only [step, expected] at h1 h2 h3 h4
  intro o s'
  have hd : (Pipeline.ops H P kl).decrypt d ⟨o.2, car⟩ srv
      = ((recvStep P d (.record srv o.2)).1, some (some body)) := by
    rw [ops_decrypt, h1, delivered_legacy cls h13]; rfl
  have htyp : (⟨o.2, car⟩ : Session.Rec).typ = some 22 := protect_head_legacy P L cls h13 ver _ 22 body f
  have hor : (s.srvCC || s.cliCC) = true := by
    cases srv <;> simp only [ccOf, if_true, Bool.false_eq_true, if_false] at hcc <;> simp [hcc]
  have hgate : (s.srvCC && srv && s.canDecrypt || s.cliCC && !srv && s.canDecrypt) = true := by
    cases srv <;> simp only [ccOf, if_true, Bool.false_eq_true, if_false] at hcc <;> simp [hcc, hcan]
  have heq : s' = Session.pushMeta m
      (if (m && decide (some body ≠ some ([] : Bytes))) = true then
        ({ s with dec := some (recvStep P d (.record srv o.2)).1 } : Session.St Dec).push ⟨some body, ⟨o.2, car⟩, srv, false⟩
       else { s with dec := some (recvStep P d (.record srv o.2)).1 }) ⟨o.2, car⟩ srv := by
    show Session.handleRecord _ m s ⟨o.2, car⟩ srv = _
    unfold Session.handleRecord Session.handleRecordRaw
    rw [htyp]
    simp only [if_true]
    unfold Session.handshakeRecord
    rw [if_pos hor]
    unfold Session.handshakeFinished
    simp only [hdec]
    rw [if_pos hgate, hd]
    simp only
    by_cases hb : (m && decide (some body ≠ some ([] : Bytes))) = true
    · rw [if_pos hb, if_pos hb]; rfl
    · rw [if_neg hb, if_neg hb]; rfl
  have hpm : ∀ (t : Session.St Dec), (Session.pushMeta m t ⟨o.2, car⟩ srv).traffic.filter (·.isApp)
      = t.traffic.filter (·.isApp) := by
    intro t; cases m <;> simp [Session.pushMeta, Session.St.push, List.filter_append]
  have hpc : ∀ (t : Session.St Dec), (Session.pushMeta m t ⟨o.2, car⟩ srv).core = t.core := fun t =>
    Session.pushMeta_core m t _ srv
  rw [heq]
  by_cases hb : (m && decide (some body ≠ some ([] : Bytes))) = true
  · rw [if_pos hb]
    have hc := hpc (({ s with dec := some (recvStep P d (.record srv o.2)).1 } : Session.St Dec).push
      ⟨some body, ⟨o.2, car⟩, srv, false⟩)
    simp only [Session.St.core, Session.Core.mk.injEq] at hc
    obtain ⟨c1, _, c3, c4, c5, c6, _, c8, c9⟩ := hc
    refine ⟨?_, ?_, ⟨⟨c1.trans hcan, ⟨v, c3.trans hver, hv13⟩, _, c6, h2⟩,
      fun d' => (hsBuf_of_fields c8 c9 d').trans (hbuf d')⟩, c4, c5, h3, h4⟩
    · rw [hpm]; simp [Session.St.push, List.filter_append]
    · intro hm; rw [hm] at hb; simp at hb
  · rw [if_neg hb]
    have hc := hpc ({ s with dec := some (recvStep P d (.record srv o.2)).1 } : Session.St Dec)
    simp only [Session.St.core, Session.Core.mk.injEq] at hc
    obtain ⟨c1, _, c3, c4, c5, c6, _, c8, c9⟩ := hc
    refine ⟨?_, ?_, ⟨⟨c1.trans hcan, ⟨v, c3.trans hver, hv13⟩, _, c6, h2⟩,
      fun d' => (hsBuf_of_fields c8 c9 d').trans (hbuf d')⟩, c4, c5, h3, h4⟩
    · rw [hpm]
    · intro hm; subst hm; rfl

theorem ReadyB.of_eq {cls : CipherClass} {macLen : Nat} {x : Snd} {s s' : Session.St Dec} {bf : Bool → Bytes}
    (h : ReadyB cls macLen x s bf) (h1 : s'.dec = s.dec) (h2 : s'.ver = s.ver) (h3 : s'.canDecrypt = s.canDecrypt)
    (h4 : s'.hsBufC = s.hsBufC) (h5 : s'.hsBufS = s.hsBufS) : ReadyB cls macLen x s' bf := by
  obtain ⟨⟨a, ⟨v, b, c⟩, d, e, f⟩, hb⟩ := h
  exact ⟨⟨h3.trans a, ⟨v, h2.trans b, c⟩, d, h1.trans e, f⟩, fun d' => (hsBuf_of_fields h4 h5 d').trans (hb d')⟩

-- ------------------------------------------------------------------ TLS 1.3 handshake messages inside a record
/-- a handshake message: `(msg_type, body)`; framed by `Spec.TlsHello.handshake` (RFC 8446 §4) -/
abbrev HsMsg := UInt8 × Bytes

def encMsg (m : HsMsg) : Bytes := Spec.TlsHello.handshake m.1.toNat m.2
def encMsgs (ms : List HsMsg) : Bytes := ms.flatMap encMsg
/-- `uint24 length` -/
def MsgOk (m : HsMsg) : Prop := m.2.length < 16777216
instance (m : HsMsg) : Decidable (MsgOk m) := by unfold MsgOk; infer_instance
/-- number of Finished messages (type 20) -/
def finCount (ms : List HsMsg) : Nat := (ms.filter (fun m => m.1 = 20)).length

theorem encMsg_eq (m : HsMsg) : encMsg m = m.1 :: (Spec.TlsHello.u24 m.2.length ++ m.2) := by
  obtain ⟨t, b⟩ := m
  simp [encMsg, Spec.TlsHello.handshake, Spec.TlsHello.u8, Bytes.ofNatBE]

theorem slice_mid (a b c : Bytes) (t : UInt8) (hb : b.length = 3) :
    Bytes.slice (a ++ (t :: (b ++ c))) (a.length + 1) (a.length + 4) = b := by
  unfold Bytes.slice
  have : a.length + 4 - (a.length + 1) = 3 := by omega
  rw [this, List.drop_append, List.drop_eq_nil_of_le (by omega)]
  simp [← hb]

/-- what the loop of `handle_decrypted_tls_13_handshake_record` does over whole messages: one `update_keys` per
    Finished, in order, stopping at the first one that raises -/
def updFold {δ : Type} (O : Session.Ops δ) (srv : Bool) : δ → List HsMsg → δ × Bool
  | d, [] => (d, true)
  | d, m :: ms =>
    if m.1 = 20 then
      match O.updateKeys d srv with
      | (d', true) => updFold O srv d' ms
      | (d', false) => (d', false)
    else updFold O srv d ms

/-- the pure part of the (repaired) loop of `handle_decrypted_tls_13_handshake_record`: the types of the whole
    messages at the front of the buffer, and what is left in the buffer -/
def consume : Nat → Bytes → List UInt8 × Bytes
  | 0, buf => ([], buf)
  | fuel + 1, buf =>
    if buf.length < 4 then ([], buf)
    else
      match buf.head? with
      | none => ([], buf)
      | some t =>
        if buf.length < Bytes.beNat (Bytes.slice buf 1 4) + 4 then ([], buf)
        else (t :: (consume fuel (buf.drop (Bytes.beNat (Bytes.slice buf 1 4) + 4))).1,
              (consume fuel (buf.drop (Bytes.beNat (Bytes.slice buf 1 4) + 4))).2)

/-- no whole message at the front: fewer than 4 bytes, or fewer than the header announces -/
def Incomplete (t : Bytes) : Prop := t.length < 4 ∨ t.length < Bytes.beNat (Bytes.slice t 1 4) + 4

instance (t : Bytes) : Decidable (Incomplete t) := by unfold Incomplete; infer_instance

theorem hs13Loop_consume {δ : Type} (O : Session.Ops δ) (srv : Bool) :
    ∀ (fuel : Nat) (buf : Bytes) (d d' : δ),
      updFold O srv d ((consume fuel buf).1.map fun t => ((t, []) : HsMsg)) = (d', true) →
      Session.hs13Loop O srv fuel buf d = (d', (consume fuel buf).2, true) := by
  intro fuel
  induction fuel with
  | zero => intro buf d d' h; simp only [consume, List.map_nil, updFold, Prod.mk.injEq] at h; simp [Session.hs13Loop, consume, h.1]
  | succ n ih =>
    intro buf d d' h
    rw [Session.hs13Loop]
    rw [consume] at h ⊢
    by_cases h4 : buf.length < 4
    · simp only [h4, if_true, List.map_nil, updFold, Prod.mk.injEq] at h ⊢; simp [h.1]
    · simp only [h4, if_false] at h ⊢
      cases hh : buf.head? with
      | none => simp only [hh, List.map_nil, updFold, Prod.mk.injEq] at h ⊢; simp [h.1]
      | some t =>
        simp only [hh] at h ⊢
        by_cases hl : buf.length < Bytes.beNat (Bytes.slice buf 1 4) + 4
        · simp only [hl, if_true, List.map_nil, updFold, Prod.mk.injEq] at h ⊢; simp [h.1]
        · simp only [hl, if_false, List.map_cons, updFold] at h ⊢
          by_cases h20 : t = 20
          · simp only [h20, if_true] at h ⊢
            rcases hu : O.updateKeys d srv with ⟨d1, ok⟩
            rw [hu] at h
            cases ok
            · simp at h
            · simp only at h ⊢
              exact ih _ _ _ h
          · simp only [h20, if_false] at h ⊢
            exact ih _ _ _ h

theorem consume_msgs (ms : List HsMsg) (hok : ∀ m ∈ ms, MsgOk m) (t : Bytes) (ht : Incomplete t) (fuel : Nat)
    (hf : ms.length ≤ fuel) : consume fuel (encMsgs ms ++ t) = (ms.map (·.1), t) := by
  induction ms generalizing fuel with
  | nil =>
    simp only [encMsgs, List.flatMap_nil, List.nil_append, List.map_nil]
    cases fuel with
    | zero => rfl
    | succ n =>
      rw [consume]
      by_cases h4 : t.length < 4
      · simp [h4]
      · have hl : t.length < Bytes.beNat (Bytes.slice t 1 4) + 4 := by rcases ht with h | h; exact absurd h h4; exact h
        simp only [h4, if_false]
        cases hh : t.head? with
        | none => rfl
        | some t0 => simp [hl]
  | cons m ms ih =>
    cases fuel with
    | zero => simp at hf
    | succ n =>
      have hm : MsgOk m := hok m (by simp)
      have hbuf : encMsgs (m :: ms) ++ t = m.1 :: (Spec.TlsHello.u24 m.2.length ++ (m.2 ++ (encMsgs ms ++ t))) := by
        simp [encMsgs, encMsg_eq, List.append_assoc]
      have hlen : Bytes.beNat (Bytes.slice (encMsgs (m :: ms) ++ t) 1 4) = m.2.length := by
        rw [hbuf]
        have := slice_mid [] (Spec.TlsHello.u24 m.2.length) (m.2 ++ (encMsgs ms ++ t)) m.1 (Lemmas.TlsHello.u24_length _)
        simp only [List.nil_append, List.length_nil, Nat.zero_add] at this
        rw [this]
        exact Lemmas.TlsHello.beNat_u24 _ hm
      have hl4 : ¬ (encMsgs (m :: ms) ++ t).length < 4 := by
        rw [hbuf]; simp only [List.length_cons, List.length_append, Lemmas.TlsHello.u24_length]; omega
      have hfit : ¬ (encMsgs (m :: ms) ++ t).length < m.2.length + 4 := by
        rw [hbuf]; simp only [List.length_cons, List.length_append, Lemmas.TlsHello.u24_length]; omega
      have hdrop : (encMsgs (m :: ms) ++ t).drop (m.2.length + 4) = encMsgs ms ++ t := by
        rw [hbuf]
        have : m.1 :: (Spec.TlsHello.u24 m.2.length ++ (m.2 ++ (encMsgs ms ++ t)))
            = (m.1 :: (Spec.TlsHello.u24 m.2.length ++ m.2)) ++ (encMsgs ms ++ t) := by simp
        rw [this]
        exact List.drop_left' (by simp [Lemmas.TlsHello.u24_length]; omega)
      have hhead : (encMsgs (m :: ms) ++ t).head? = some m.1 := by rw [hbuf]; rfl
      rw [consume]
      simp only [hl4, if_false, hhead, hlen, hfit, hdrop]
      rw [ih (fun m' h' => hok m' (by simp [h'])) n (by simpa using hf)]
      rfl

theorem updFold_types {δ : Type} (O : Session.Ops δ) (srv : Bool) (ms : List HsMsg) (d : δ) :
    updFold O srv d ((ms.map (·.1)).map fun t => ((t, []) : HsMsg)) = updFold O srv d ms := by
  induction ms generalizing d with
  | nil => rfl
  | cons m ms ih =>
    simp only [List.map_cons, updFold]
    by_cases h : m.1 = 20
    · simp only [h, if_true]
      rcases hu : O.updateKeys d srv with ⟨d1, ok⟩
      cases ok
      · rfl
      · simp only; exact ih d1
    · simp only [h, if_false]; exact ih d

theorem finCount_cons (m : HsMsg) (ms : List HsMsg) :
    finCount (m :: ms) = (if m.1 = 20 then 1 else 0) + finCount ms := by
  unfold finCount
  by_cases h : m.1 = 20 <;> simp [List.filter_cons, h]; omega

/-- under the relation every `update_keys` of the loop succeeds and corresponds to the sender's epoch switch -/
theorem updFold_rel (H : Crypto.Prims) (P : Prims) (L : SealLaws P) (kl : List Keylog.Key) (cls : CipherClass)
    (h13 : cls.is13 = true) (macLen : Nat) (ver : Bytes) (hv : ver.length = 2) (srv : Bool) (ms : List HsMsg)
    (x : Snd) (d : Dec) (hR : Rel cls macLen x d) (hq : max x.c.seq x.s.seq + finCount ms ≤ seqLimit) :
    ∃ d', updFold (Pipeline.ops H P kl) srv d ms = (d', true) ∧
      Rel cls macLen (after P L cls ver x (List.replicate (finCount ms) (.switch srv))) d' ∧
      max (after P L cls ver x (List.replicate (finCount ms) (.switch srv))).c.seq
          (after P L cls ver x (List.replicate (finCount ms) (.switch srv))).s.seq
        ≤ max x.c.seq x.s.seq + finCount ms := by
  induction ms generalizing x d with
  | nil => exact ⟨d, rfl, hR, by simp [finCount, after]⟩
  | cons m ms ih =>
    rw [finCount_cons] at hq ⊢
    by_cases h : m.1 = 20
    · simp only [h, if_true] at hq ⊢
      obtain ⟨h1, h2, h3, h4⟩ := step_exact P L cls macLen ver hv x d hR (.switch srv) h13 (by omega)
      have hw : (step P L cls ver x (.switch srv)).2 = .switch srv := rfl
      rw [hw] at h1 h2
      obtain ⟨d', e1, e2, e3⟩ := ih (step P L cls ver x (.switch srv)).1 (recvStep P d (.switch srv)).1 h2 (by omega)
      refine ⟨d', ?_, ?_, ?_⟩
      · simp only [updFold, h, if_true, ops_updateKeys, h1, expected, isSwitched]
        exact e1
      · rw [Nat.add_comm, List.replicate_succ]; exact e2
      · rw [Nat.add_comm 1, List.replicate_succ]
        simp only [after, List.foldl_cons] at e3 ⊢
        omega
    · simp only [h, if_false, Nat.zero_add] at hq ⊢
      obtain ⟨d', e1, e2, e3⟩ := ih x d hR hq
      exact ⟨d', by simp only [updFold, h, if_false]; exact e1, e2, e3⟩

theorem encMsgs_length_ge (ms : List HsMsg) : ms.length ≤ (encMsgs ms).length := by
  induction ms with
  | nil => simp
  | cons m ms ih => simp only [encMsgs, List.flatMap_cons, List.length_append, encMsg_eq, List.length_cons] at ih ⊢; omega

theorem sendOk_13 (cls : CipherClass) (h13 : cls.is13 = true) (macLen : Nat) (pt : Bytes) (f : Fresh) :
    SendOk cls macLen pt f := by
  cases cls <;> simp [CipherClass.is13] at h13 <;> trivial

/-- the buffers after direction `srv` stored `t` -/
def updB (bf : Bool → Bytes) (srv : Bool) (t : Bytes) : Bool → Bytes := fun d => if d = srv then t else bf d

theorem updB_nil (srv : Bool) : updB (fun _ => []) srv [] = fun _ => [] := by
  funext d; unfold updB; split <;> rfl

/-- a protected TLS 1.3 handshake record carrying ANY next piece `b` of the sender's handshake stream: with the bytes
    buffered for the direction it completes the messages `newly` and leaves the unfinished tail `t'`; nothing is
    exported, `t'` is buffered, and every Finished among `newly` moves that direction of the decryptor to the application
    traffic keys, as the sender does after the record -/
theorem handleRecord_frag (H : Crypto.Prims) (P : Prims) (L : SealLaws P) (kl : List Keylog.Key) (cls : CipherClass)
    (h13 : cls.is13 = true) (macLen : Nat) (ver : Bytes) (hv : ver.length = 2) (x : Snd) (s : Session.St Dec)
    {bf : Bool → Bytes} (hs : ReadyB cls macLen x s bf) (srv : Bool) (b : Bytes) (f : Fresh) (newly : List HsMsg)
    (t' : Bytes) (hms : ∀ m ∈ newly, MsgOk m) (hsplit : bf srv ++ b = encMsgs newly ++ t') (hinc : Incomplete t')
    (hq : max x.c.seq x.s.seq + (1 + finCount newly) ≤ seqLimit) (m : Bool) (car : List Nat) :
    let o := protect P L cls ver (x.get srv) 22 b f
    let x' := after P L cls ver (x.set srv o.1) (List.replicate (finCount newly) (.switch srv))
    (Session.handleRecord (Pipeline.ops H P kl) m s ⟨o.2, car⟩ srv).traffic = s.traffic ∧
      ReadyB cls macLen x' (Session.handleRecord (Pipeline.ops H P kl) m s ⟨o.2, car⟩ srv) (updB bf srv t') ∧
      max x'.c.seq x'.s.seq ≤ max x.c.seq x.s.seq + (1 + finCount newly) := by
  obtain ⟨⟨hcan, ⟨v, hver, hv13⟩, d, hdec, hR⟩, hbuf⟩ := hs
  obtain ⟨h1, h2, h3, h4⟩ := step_exact P L cls macLen ver hv x d hR (.send srv 22 b f)
    (sendOk_13 cls h13 macLen _ f) (by omega)
  simp only [step, expected] at h1 h2 h3 h4
  intro o x'
  change (x.set srv o.1).c.seq ≤ _ at h3
  change (x.set srv o.1).s.seq ≤ _ at h4
  have hd : (Pipeline.ops H P kl).decrypt d ⟨o.2, car⟩ srv
      = ((recvStep P d (.record srv o.2)).1, some (some (delivered cls 22 b f))) := by
    rw [ops_decrypt, h1]; rfl
  obtain ⟨d', e1, e2, e3⟩ := updFold_rel H P L kl cls h13 macLen ver hv srv newly (x.set srv o.1)
    (recvStep P d (.record srv o.2)).1 h2 (by omega)
  have hcons := consume_msgs newly hms t' hinc (encMsgs newly ++ t').length
    (by have := encMsgs_length_ge newly; simp only [List.length_append]; omega)
  have hloop := hs13Loop_consume (Pipeline.ops H P kl) srv (encMsgs newly ++ t').length (encMsgs newly ++ t')
    (recvStep P d (.record srv o.2)).1 d' (by rw [hcons, updFold_types]; exact e1)
  rw [hcons] at hloop
  simp only [List.length_append] at hloop
  have heq : Session.handleRecord (Pipeline.ops H P kl) m s ⟨o.2, car⟩ srv
      = ({ s with dec := some d' } : Session.St Dec).setHsBuf srv t' := by
    unfold Session.handleRecord Session.handleRecordRaw
    have htyp : (⟨o.2, car⟩ : Session.Rec).typ = some 23 := protect_head_13 P L cls h13 ver _ 22 _ f
    have hve : v = .tls13 := hv13.mpr h13
    subst hve
    rw [htyp]
    simp only [hcan, hdec, hver]
    have hrs : Session.rstrip0 (delivered cls 22 b f) = b ++ [22] := by
      rw [delivered_13 cls h13]; exact rstrip0_inner _ 22 f.pad13 (by decide)
    have hb : s.hsBuf srv ++ b = encMsgs newly ++ t' := by rw [hbuf srv]; exact hsplit
    simp [Session.app13, hdec, hd, hrs, Session.Out.st, hcan, hver, Session.tryExcept, hb, hloop]
  change max x'.c.seq x'.s.seq ≤ _ at e3
  refine ⟨by rw [heq]; cases srv <;> rfl, ?_, by omega⟩
  rw [heq]
  refine ⟨⟨by cases srv <;> exact hcan, ⟨v, by cases srv <;> exact hver, hv13⟩, d', by cases srv <;> rfl, e2⟩, ?_⟩
  intro d0
  unfold updB
  cases d0 <;> cases srv <;> simp [Session.St.setHsBuf, Session.St.hsBuf] <;> first | exact hbuf false | exact hbuf true

/-- a protected TLS 1.3 handshake record consisting of whole messages: nothing is exported, and every Finished in it
    moves that direction of the decryptor to the application traffic keys, as the sender does -/
theorem handleRecord_hs13 (H : Crypto.Prims) (P : Prims) (L : SealLaws P) (kl : List Keylog.Key) (cls : CipherClass)
    (h13 : cls.is13 = true) (macLen : Nat) (ver : Bytes) (hv : ver.length = 2) (x : Snd) (s : Session.St Dec)
    (hs : Ready cls macLen x s) (srv : Bool) (ms : List HsMsg) (f : Fresh) (hms : ∀ m ∈ ms, MsgOk m)
    (hq : max x.c.seq x.s.seq + (1 + finCount ms) ≤ seqLimit) (m : Bool) (car : List Nat) :
    let o := protect P L cls ver (x.get srv) 22 (encMsgs ms) f
    let x' := after P L cls ver (x.set srv o.1) (List.replicate (finCount ms) (.switch srv))
    (Session.handleRecord (Pipeline.ops H P kl) m s ⟨o.2, car⟩ srv).traffic = s.traffic ∧
      Ready cls macLen x' (Session.handleRecord (Pipeline.ops H P kl) m s ⟨o.2, car⟩ srv) ∧
      max x'.c.seq x'.s.seq ≤ max x.c.seq x.s.seq + (1 + finCount ms) := by
  have := handleRecord_frag H P L kl cls h13 macLen ver hv x s hs srv (encMsgs ms) f ms [] hms
    (by simp) (Or.inl (by decide)) hq m car
  simp only [updB_nil] at this
  exact this

-- ------------------------------------------------------------------ session-level histories
/-- What an endpoint does as far as the session layer can tell: send an application-data record, or (TLS 1.3) a
    protected handshake record made of whole handshake messages — after each Finished in it the endpoint moves to its
    application traffic keys (RFC 8446 §4.4.4, §7.1: the sender's `.switch`). -/
inductive SEv
  | app (srv : Bool) (pt : Bytes) (f : Fresh)
  | hs13 (srv : Bool) (ms : List HsMsg) (f : Fresh)

def SEv.srv : SEv → Bool
  | .app srv _ _ => srv
  | .hs13 srv _ _ => srv

/-- the first event is the record; the rest are the epoch switches it entails -/
def SEv.evs : SEv → List Ev
  | .app srv pt f => [.send srv 23 pt f]
  | .hs13 srv ms f => .send srv 22 (encMsgs ms) f :: List.replicate (finCount ms) (.switch srv)

def SEv.Ok (cls : CipherClass) (macLen : Nat) : SEv → Prop
  | .app _ pt f => SendOk cls macLen pt f
  | .hs13 _ ms _ => cls.is13 = true ∧ ∀ m ∈ ms, MsgOk m

/-- what `application_traffic` has to gain for the event when `r` is the record that carried it -/
def SEv.entries : SEv → Session.Rec → List Session.Entry
  | .app srv pt _, r => [⟨some pt, r, srv, true⟩]
  | .hs13 _ _ _, _ => []

/-- the records of a wire image as `Session` gets them: the `k`-th record is carried by the packets `cars[k]` -/
def wireRecs : List Wire → List (List Nat) → List (Session.Rec × Bool)
  | [], _ => []
  | .switch _ :: ws, cs => wireRecs ws cs
  | .record srv raw :: ws, c :: cs => (⟨raw, c⟩, srv) :: wireRecs ws cs
  | .record _ _ :: _, [] => []

theorem run_switches (P : Prims) (L : SealLaws P) (cls : CipherClass) (ver : Bytes) (x : Snd) (srv : Bool) (n : Nat) :
    run P L cls ver x (List.replicate n (.switch srv)) = List.replicate n (.switch srv) := by
  induction n generalizing x with
  | zero => rfl
  | succ n ih => simp only [List.replicate_succ, run, step, ih]

theorem wireRecs_switches (srv : Bool) (n : Nat) (ws : List Wire) (cs : List (List Nat)) :
    wireRecs (List.replicate n (.switch srv) ++ ws) cs = wireRecs ws cs := by
  induction n with
  | zero => rfl
  | succ n ih => simp only [List.replicate_succ, List.cons_append, wireRecs, ih]

/-- the one record an event puts on the wire -/
def SEv.raw (P : Prims) (L : SealLaws P) (cls : CipherClass) (ver : Bytes) (x : Snd) : SEv → Bytes
  | .app srv pt f => (protect P L cls ver (x.get srv) 23 pt f).2
  | .hs13 srv ms f => (protect P L cls ver (x.get srv) 22 (encMsgs ms) f).2

theorem wireRecs_evs (P : Prims) (L : SealLaws P) (cls : CipherClass) (ver : Bytes) (x : Snd) (e : SEv)
    (ws : List Wire) (c : List Nat) (cs : List (List Nat)) :
    wireRecs (run P L cls ver x e.evs ++ ws) (c :: cs) = (⟨e.raw P L cls ver x, c⟩, e.srv) :: wireRecs ws cs := by
  cases e with
  | app srv pt f => rfl
  | hs13 srv ms f =>
    simp only [SEv.evs, run, step, run_switches, List.cons_append, wireRecs, wireRecs_switches]
    rfl

/-- one event through `handle_tls_record` -/
theorem handleRecord_sev (H : Crypto.Prims) (P : Prims) (L : SealLaws P) (kl : List Keylog.Key) (cls : CipherClass)
    (macLen : Nat) (ver : Bytes) (hv : ver.length = 2) (x : Snd) (s : Session.St Dec) (hs : Ready cls macLen x s)
    (e : SEv) (he : e.Ok cls macLen) (hq : max x.c.seq x.s.seq + e.evs.length ≤ seqLimit) (m : Bool) (car : List Nat) :
    let r : Session.Rec := ⟨e.raw P L cls ver x, car⟩
    let x' := after P L cls ver x e.evs
    (Session.handleRecord (Pipeline.ops H P kl) m s r e.srv).traffic = s.traffic ++ e.entries r ∧
      Ready cls macLen x' (Session.handleRecord (Pipeline.ops H P kl) m s r e.srv) ∧
      max x'.c.seq x'.s.seq ≤ max x.c.seq x.s.seq + e.evs.length := by
  cases e with
  | app srv pt f =>
    obtain ⟨h1, h2, h3, h4⟩ := handleRecord_app H P L kl cls macLen ver hv x s hs srv pt f he
      (by simp only [SEv.evs, List.length_singleton] at hq; omega) m car
    exact ⟨h1, h2, by simp only [SEv.evs, List.length_singleton]; exact Nat.max_le.mpr ⟨h3, h4⟩⟩
  | hs13 srv ms f =>
    simp only [SEv.evs, List.length_cons, List.length_replicate] at hq
    obtain ⟨h1, h2, h3⟩ := handleRecord_hs13 H P L kl cls he.1 macLen ver hv x s hs srv ms f he.2 (by omega) m car
    refine ⟨by simp only [SEv.entries, List.append_nil]; exact h1, h2, ?_⟩
    simp only [SEv.evs, List.length_cons, List.length_replicate]
    have : after P L cls ver x (Ev.send srv 22 (encMsgs ms) f :: List.replicate (finCount ms) (Ev.switch srv))
        = after P L cls ver (x.set srv (protect P L cls ver (x.get srv) 22 (encMsgs ms) f).1)
            (List.replicate (finCount ms) (.switch srv)) := rfl
    rw [this]
    omega

-- ------------------------------------------------------------------ histories of application-data `send` events
def evSrv : Ev → Bool
  | .send srv _ _ _ => srv
  | .switch srv => srv

def evPt : Ev → Bytes
  | .send _ _ pt _ => pt
  | .switch _ => []

/-- an application-data record (content type 23) -/
def IsAppSend : Ev → Prop
  | .send _ typ _ _ => typ = 23
  | .switch _ => False

def toSEv : Ev → SEv
  | .send srv _ pt f => .app srv pt f
  | .switch srv => .app srv [] ⟨[], [], [], 0⟩

def histOf (evs : List Ev) (cars : List (List Nat)) : List (SEv × List Nat) :=
  List.zipWith (fun e c => (toSEv e, c)) evs cars

theorem histOf_spec (cls : CipherClass) (macLen : Nat) (evs : List Ev) (cars : List (List Nat))
    (hc : cars.length = evs.length) (happ : ∀ e ∈ evs, IsAppSend e) (hev : ∀ e ∈ evs, EvOk cls macLen e) :
    (histOf evs cars).flatMap (·.1.evs) = evs ∧ (histOf evs cars).map (·.2) = cars ∧
    (histOf evs cars).length = evs.length ∧ (∀ h ∈ histOf evs cars, h.1.Ok cls macLen) ∧
    ∀ recs : List (Session.Rec × Bool),
      (List.zipWith (fun (e : SEv × List Nat) (r : Session.Rec × Bool) => e.1.entries r.1) (histOf evs cars) recs).flatten
        = List.zipWith (fun e (r : Session.Rec × Bool) => (⟨some (evPt e), r.1, evSrv e, true⟩ : Session.Entry)) evs recs := by
  induction evs generalizing cars with
  | nil =>
    cases cars with
    | nil => simp [histOf]
    | cons c cs => simp at hc
  | cons e es ih =>
    cases cars with
    | nil => simp at hc
    | cons c cs =>
      obtain ⟨i1, i2, i3, i4, i5⟩ := ih cs (by simpa using hc) (fun e' h' => happ e' (by simp [h']))
        (fun e' h' => hev e' (by simp [h']))
      have he := happ e (by simp)
      have hk := hev e (by simp)
      cases e with
      | switch srv => exact absurd he (by simp [IsAppSend])
      | send srv typ pt f =>
        simp only [IsAppSend] at he
        subst he
        simp only [histOf, List.zipWith_cons_cons] at i1 i2 i3 i4 i5 ⊢
        refine ⟨by rw [List.flatMap_cons, i1]; rfl, by simp [i2], by simp [i3], ?_, ?_⟩
        · intro h hh
          rcases List.mem_cons.mp hh with rfl | hh
          · exact hk
          · exact i4 h hh
        · intro recs
          cases recs with
          | nil => simp
          | cons r rs => simp only [List.zipWith_cons_cons, List.flatten_cons, i5]; rfl

theorem protect_app (P : Prims) (L : SealLaws P) (cls : CipherClass) (ver : Bytes) (sd : SDir) (typ : UInt8)
    (pt : Bytes) (f : Fresh) :
    (protect P L cls ver sd typ pt f).1.appKey = sd.appKey ∧ (protect P L cls ver sd typ pt f).1.appIv = sd.appIv := by
  cases cls <;> exact ⟨rfl, rfl⟩

/-- sender state after the server's and the client's Finished flights (one Finished each): both directions use the
    application traffic keys, sequence numbers restarted -/
theorem after_two_flights (P : Prims) (L : SealLaws P) (cls : CipherClass) (ver : Bytes) (x : Snd)
    (sfl cfl : List HsMsg) (fs fc : Fresh) (h1 : finCount sfl = 1) (h2 : finCount cfl = 1) :
    let x' := after P L cls ver x ((SEv.hs13 true sfl fs).evs ++ (SEv.hs13 false cfl fc).evs)
    x'.c = { x.c with key := x.c.appKey, iv := x.c.appIv, seq := 0,
                      last := (protect P L cls ver x.c 22 (encMsgs cfl) fc).1.last,
                      off := (protect P L cls ver x.c 22 (encMsgs cfl) fc).1.off } ∧
    x'.s = { x.s with key := x.s.appKey, iv := x.s.appIv, seq := 0,
                      last := (protect P L cls ver x.s 22 (encMsgs sfl) fs).1.last,
                      off := (protect P L cls ver x.s 22 (encMsgs sfl) fs).1.off } := by
  have pa := fun sd pt f => protect_app P L cls ver sd 22 pt f
  simp only [SEv.evs, h1, h2, List.replicate_one, List.cons_append, List.nil_append, after, List.foldl_cons,
    List.foldl_nil, step, Snd.set, Snd.get, switchToApp, if_true, Bool.false_eq_true, if_false, pa, (pa _ _ _).1,
    (pa _ _ _).2]
  exact ⟨trivial, trivial⟩

-- ------------------------------------------------------------------ traffic entries → builder records
/-- `Session.decrypt()`'s view of an `application_traffic` entry: data, capture times of the carriers, direction
    (the lambda inside `Pipeline.connOut`, `ts id = (info id).ts`) -/
def toRec (ts : Nat → Nat) (e : Session.Entry) : TcpOut.Rec := ⟨e.data, e.record.carriers.map ts, e.fromServer⟩

/-- the sender's application plaintext of one direction, concatenated in order -/
def plainOf (dir : Bool) (evs : List Ev) : Bytes := (evs.filter (fun e => evSrv e == dir)).flatMap evPt

theorem dirBytes_entries (dir : Bool) (ts : Nat → Nat) (evs : List Ev) (recs : List (Session.Rec × Bool))
    (hl : recs.length = evs.length) :
    Props.C06.dirBytes dir
      ((List.zipWith (fun e (r : Session.Rec × Bool) => (⟨some (evPt e), r.1, evSrv e, true⟩ : Session.Entry)) evs recs).map
        (toRec ts)) = plainOf dir evs := by
  induction evs generalizing recs with
  | nil => simp [Props.C06.dirBytes, plainOf]
  | cons e es ih =>
    cases recs with
    | nil => simp at hl
    | cons r rs =>
      have := ih rs (by simpa using hl)
      simp only [Props.C06.dirBytes, plainOf, List.zipWith_cons_cons, List.map_cons, List.filter_cons,
        List.map_zipWith, toRec] at this ⊢
      by_cases h : evSrv e = dir
      · simp only [toRec, h, beq_self_eq_true, if_true, List.flatMap_cons, this, TcpOut.Rec.bytes, Option.getD_some]
      · have h' : (evSrv e == dir) = false := by simpa using h
        simp only [toRec, h', Bool.false_eq_true, if_false, this]

theorem zipWith_entries_record (evs : List Ev) (recs : List (Session.Rec × Bool)) :
    ∀ en ∈ List.zipWith (fun e (r : Session.Rec × Bool) => (⟨some (evPt e), r.1, evSrv e, true⟩ : Session.Entry)) evs recs,
      ∃ r ∈ recs, en.record = r.1 := by
  induction evs generalizing recs with
  | nil => simp
  | cons e es ih =>
    cases recs with
    | nil => simp
    | cons r rs =>
      intro en hen
      simp only [List.zipWith_cons_cons, List.mem_cons] at hen
      rcases hen with rfl | hen
      · exact ⟨r, by simp, rfl⟩
      · obtain ⟨r', hr', h⟩ := ih rs en hen
        exact ⟨r', by simp [hr'], h⟩

theorem wireRecs_carriers (ws : List Wire) (cars : List (List Nat)) :
    ∀ r ∈ wireRecs ws cars, r.1.carriers ∈ cars := by
  induction ws generalizing cars with
  | nil => simp [wireRecs]
  | cons w ws ih =>
    cases w with
    | switch srv => simp only [wireRecs]; exact ih cars
    | record srv raw =>
      cases cars with
      | nil => simp [wireRecs]
      | cons c cs =>
        intro r hr
        simp only [wireRecs, List.mem_cons] at hr ⊢
        rcases hr with rfl | hr
        · exact Or.inl rfl
        · exact Or.inr (ih cs r hr)

-- ------------------------------------------------------------------ reassembly: every record handed on has a carrier
open TLX.Reassembly TLX.Lemmas.Metadata in
/-- `Lemmas.Metadata.flush_carriers` without the hypothesis that buffered packets are non-empty: the packet that holds
    the record's first byte always passes the source's test `index < end and index + record_len > start` -/
theorem flush_carriers_nonempty (buf : List Seg) (recs : List Reassembly.Rec) (h : flush buf = some recs) :
    ∀ r ∈ recs, r.2 ≠ [] := by
  intro r hr
  obtain ⟨j, hj, rfl⟩ := List.getElem_of_mem hr
  unfold flush at h
  by_cases hnd : needData (bufData buf) 0 = true
  · rw [if_pos hnd] at h; cases h
  · rw [if_neg hnd] at h
    simp only [Option.some.injEq] at h
    subst h
    have hnd' : needData (bufData buf) 0 = false := by simpa using hnd
    obtain ⟨hc, h5, hin⟩ := records_spec (bufData buf) (ranges buf 0) 0 (Nat.zero_le _) hnd' j hj
    simp only [Nat.zero_add] at hc h5 hin
    rw [hc, carriers_ranges]
    obtain ⟨i, hi, h1, h2⟩ := exists_seg_of_pos buf
      ((((records (bufData buf) (ranges buf 0) 0).take j).map (·.1.length)).sum) buf.length (Nat.le_refl _)
      (by rw [segStart_length]; omega)
    intro hnil
    rw [List.map_eq_nil_iff, List.filter_eq_nil_iff] at hnil
    apply hnil i (List.mem_range.mpr hi)
    simp only [Bool.and_eq_true, decide_eq_true_eq]
    omega

open TLX.Reassembly in
theorem deliver_out (W : Nat) (st : Reassembly.St) (base : Nat) (buf : List Seg) :
    (deliver W st base buf).out = st.out ∨
      ∃ b recs, flush b = some recs ∧ (deliver W st base buf).out = st.out ++ recs := by
  unfold deliver
  split
  · exact Or.inl rfl
  · split
    · exact Or.inl rfl
    · split
      · exact Or.inl rfl
      · split
        · exact Or.inl rfl
        · rename_i recs hf
          exact Or.inr ⟨_, recs, hf, rfl⟩

open TLX.Reassembly in
theorem stepW_out_carriers (W : Nat) (st : Reassembly.St) (p : Seg) (h : ∀ r ∈ st.out, r.2 ≠ []) :
    ∀ r ∈ (stepW W st p).out, r.2 ≠ [] := by
  unfold stepW
  split
  · exact h
  · unfold extract
    split
    · exact h
    · rcases deliver_out W { st with seen := st.seen ++ [p.seq], buf := st.buf ++ [p] }
        (baseOf W st.next _ _) (sortBy (syncKey W (baseOf W st.next _ _)) (_ :: _)) with ho | ⟨b, recs, hf, ho⟩
      · rw [ho]; exact h
      · rw [ho]
        intro r hr
        rcases List.mem_append.mp hr with hr | hr
        · exact h r hr
        · exact flush_carriers_nonempty b recs hf r hr

-- ------------------------------------------------------------------ the per-packet fold = reassembly, then one session run
/-- the reassembly half of `Pipeline.feedPkt`: new reassembly states (client, server) and the records released, as
    `Session` gets them (it does not depend on the session, the key log or `-a`) -/
def reasmPkt (info : Nat → Pipeline.Info) (server : MainLoop.Endpoint) (R : Reassembly.St × Reassembly.St)
    (p : MainLoop.Pkt) : (Reassembly.St × Reassembly.St) × List (Session.Rec × Bool) :=
  let srv := p.src == server
  let seg : Reassembly.Seg := ⟨p.tag, (info p.tag).seq, p.payload⟩
  let st0 := if srv then R.2 else R.1
  let st1 := Reassembly.step { st0 with out := [] } seg
  ((if srv then (R.1, st1) else (st1, R.2)), st1.out.map fun r => (⟨r.1, r.2⟩, srv))

/-- all records of a connection in the order `get_tls_records` hands them to `handle_tls_record` -/
def released (info : Nat → Pipeline.Info) (server : MainLoop.Endpoint) :
    Reassembly.St × Reassembly.St → List MainLoop.Pkt → List (Session.Rec × Bool)
  | _, [] => []
  | R, p :: ps => (reasmPkt info server R p).2 ++ released info server (reasmPkt info server R p).1 ps

def reasmFinal (info : Nat → Pipeline.Info) (server : MainLoop.Endpoint) :
    Reassembly.St × Reassembly.St → List MainLoop.Pkt → Reassembly.St × Reassembly.St
  | R, [] => R
  | R, p :: ps => reasmFinal info server (reasmPkt info server R p).1 ps

theorem feedPkt_eq (O : Session.Ops Dec) (m : Bool) (info : Nat → Pipeline.Info) (server : MainLoop.Endpoint)
    (L : Pipeline.Live) (p : MainLoop.Pkt) :
    (Pipeline.feedPkt O m info server L p).sess = Session.run O m L.sess (reasmPkt info server (L.rc, L.rs) p).2 ∧
    ((Pipeline.feedPkt O m info server L p).rc, (Pipeline.feedPkt O m info server L p).rs)
      = (reasmPkt info server (L.rc, L.rs) p).1 := by
  unfold Pipeline.feedPkt reasmPkt Session.run
  simp only [List.foldl_map]
  cases p.src == server <;> exact ⟨rfl, rfl⟩

/-- the session of a connection after all its packets = ONE `Session.run` over the released records -/
theorem feed_eq_run (O : Session.Ops Dec) (m : Bool) (info : Nat → Pipeline.Info) (server : MainLoop.Endpoint)
    (L : Pipeline.Live) (pkts : List MainLoop.Pkt) :
    (pkts.foldl (Pipeline.feedPkt O m info server) L).sess
      = Session.run O m L.sess (released info server (L.rc, L.rs) pkts) := by
  induction pkts generalizing L with
  | nil => rfl
  | cons p ps ih =>
    obtain ⟨h1, h2⟩ := feedPkt_eq O m info server L p
    simp only [List.foldl_cons, released]
    rw [ih, h1, Session.run_append, h2]

theorem released_append (info : Nat → Pipeline.Info) (server : MainLoop.Endpoint) (R : Reassembly.St × Reassembly.St)
    (a b : List MainLoop.Pkt) :
    released info server R (a ++ b) = released info server R a ++ released info server (reasmFinal info server R a) b := by
  induction a generalizing R with
  | nil => rfl
  | cons p ps ih => simp only [List.cons_append, released, reasmFinal, ih, List.append_assoc]

theorem released_carriers (info : Nat → Pipeline.Info) (server : MainLoop.Endpoint) (R : Reassembly.St × Reassembly.St)
    (pkts : List MainLoop.Pkt) : ∀ r ∈ released info server R pkts, r.1.carriers ≠ [] := by
  induction pkts generalizing R with
  | nil => simp [released]
  | cons p ps ih =>
    intro r hr
    simp only [released, List.mem_append] at hr
    rcases hr with hr | hr
    · simp only [reasmPkt, List.mem_map] at hr
      obtain ⟨q, hq, rfl⟩ := hr
      exact stepW_out_carriers _ _ _ (by simp) q hq
    · exact ih _ r hr

-- ------------------------------------------------------------------ addressed frames
/-- what a payload-carrying exported packet shows, sequence/acknowledgement numbers aside -/
def pktData? (p : Pipeline.OutPkt) :
    Option (Nat × Bytes × Bytes × MainLoop.Endpoint × MainLoop.Endpoint × Bool × Bytes) :=
  if p.flags = 0x18 then some (p.ts, p.srcMac, p.dstMac, p.src, p.dst, p.ipv6, p.payload) else none

def dataPkts (fs : List Pipeline.OutPkt) := fs.filterMap pktData?

theorem dataPkts_addressed (o : MainLoop.Opts) (c : Pipeline.Conn) (fs : List TcpOut.Frame) :
    dataPkts (fs.map (Pipeline.addressed o c))
      = (TcpOut.dataFrames fs).filterMap fun d => pktData? (Pipeline.addressed o c ⟨d.2.1, d.1, 0x18, 0, 0, d.2.2⟩) := by
  induction fs with
  | nil => rfl
  | cons f fs ih =>
    simp only [dataPkts, TcpOut.dataFrames, List.map_cons, List.filterMap_cons] at ih ⊢
    rw [ih]
    by_cases h : f.flags = 0x18
    · cases hs : f.fromServer <;> simp [TcpOut.Frame.data?, pktData?, Pipeline.addressed, h, hs]
    · cases hs : f.fromServer <;> simp [TcpOut.Frame.data?, pktData?, Pipeline.addressed, h, hs]

theorem released_take_prefix (info : Nat → Pipeline.Info) (server : MainLoop.Endpoint)
    (R : Reassembly.St × Reassembly.St) (pkts : List MainLoop.Pkt) (n : Nat) :
    released info server R (pkts.take n) <+: released info server R pkts := by
  conv => rhs; rw [← List.take_append_drop n pkts, released_append]
  exact List.prefix_append _ _

end TLX.Lemmas.Pipeline

-- ------------------------------------------------------------------ C. hello records
namespace TLX.Lemmas.Pipeline
open TLX TLX.Spec.TlsHello TLX.Lemmas.TlsHello

/-- an extension as the dict of `handle_tls_server_hello` keeps it: 2-byte type ↦ body -/
def extPair (e : Ext) : Bytes × Bytes := (u16 e.ty, e.body)

theorem extsPayload_length_ge (es : List Ext) : 4 * es.length ≤ (extsPayload es).length := by
  induction es with
  | nil => simp [extsPayload]
  | cons e es ih =>
    rw [extsPayload_cons]
    simp only [List.length_append, u16_length, List.length_cons]
    omega

/-- the `while extensions_index < extensions_length` loop over an RFC-encoded extension block -/
theorem extLoop_payload (ebin : Bytes) (es : List Ext) (hwf : ∀ e ∈ es, e.wf) (pre : Bytes) (fuel : Nat)
    (hf : es.length ≤ fuel) (acc : Session.Exts) (h : ebin = pre ++ extsPayload es) :
    Session.extLoop ebin ebin.length fuel pre.length acc = acc ++ es.map extPair := by
  induction es generalizing pre fuel acc with
  | nil =>
    have : ebin.length = pre.length := by rw [h]; simp [extsPayload]
    cases fuel with
    | zero => simp [Session.extLoop]
    | succ n => simp [Session.extLoop, this]
  | cons e es ih =>
    cases fuel with
    | zero => simp at hf
    | succ n =>
      have he : e.wf := hwf e (by simp)
      rw [extsPayload_cons] at h
      have hlt : pre.length < ebin.length := by
        rw [h]; simp only [List.length_append, u16_length]; omega
      have e1 : Bytes.slice ebin (pre.length + 2) (pre.length + 4) = u16 e.body.length :=
        slice_cursor ebin (pre ++ u16 e.ty) (u16 e.body.length) (e.body ++ extsPayload es) _ _
          (by rw [h]; simp only [List.append_assoc]) (by simp only [List.length_append, u16_length])
          (by rw [u16_length])
      have e2 : Bytes.slice ebin pre.length (pre.length + 2) = u16 e.ty :=
        slice_cursor ebin pre (u16 e.ty) _ _ _ h rfl (by rw [u16_length])
      have e3 : Bytes.slice ebin (pre.length + 4) (pre.length + 4 + e.body.length) = e.body :=
        slice_cursor ebin (pre ++ u16 e.ty ++ u16 e.body.length) e.body (extsPayload es) _ _
          (by rw [h]; simp only [List.append_assoc]) (by simp only [List.length_append, u16_length]) rfl
      have hidx : pre.length + e.body.length + 4 = (pre ++ encodeExt e).length := by
        simp only [encodeExt, vec16, List.length_append, u16_length]; omega
      rw [Session.extLoop, if_pos hlt]
      simp only [e1, beNat_u16 _ he.2, e2, e3, hidx]
      rw [ih (fun e' h' => hwf e' (by simp [h'])) (pre ++ encodeExt e) n (by simpa using hf) _
        (by rw [h]; simp only [encodeExt, vec16, List.append_assoc])]
      simp [extPair]

theorem parseExts_payload (es : List Ext) (hwf : ∀ e ∈ es, e.wf) :
    Session.parseExts (extsPayload es) (extsPayload es).length = es.map extPair := by
  have := extLoop_payload (extsPayload es) es hwf [] (extsPayload es).length
    (by have := extsPayload_length_ge es; omega) [] rfl
  simpa [Session.parseExts] using this

/-- the extension block at the end of a hello (absent, or `extensions<0..2^16-1>`) as lines 367-376 read it -/
theorem extblk_parse (r pre : Bytes) (o : Option (List Ext)) (hwf : optExtsWf o) (i : Nat)
    (h : r = pre ++ encodeOptExts o) (hi : pre.length = i) :
    Session.parseExts (Bytes.slice r (i + 2) (i + 2 + Bytes.beNat (Bytes.slice r i (i + 2))))
      (Bytes.beNat (Bytes.slice r i (i + 2))) = (o.getD []).map extPair := by
  cases o with
  | none =>
    have hr : r = pre := by simpa [encodeOptExts] using h
    have e1 : Bytes.slice r i (i + 2) = [] := by
      subst hr hi; simp [Bytes.slice]
    rw [e1]
    have e2 : Bytes.slice r (i + 2) (i + 2 + Bytes.beNat []) = [] := by
      simp [Bytes.slice, Bytes.beNat]
    rw [e2]
    rfl
  | some es =>
    obtain ⟨hes, hlen⟩ := hwf
    have e1 : Bytes.slice r i (i + 2) = u16 (extsPayload es).length :=
      slice_cursor r pre _ (extsPayload es) i (i + 2)
        (by rw [h]; simp only [encodeOptExts, encodeExts, vec16]) hi (by rw [u16_length])
    rw [e1, beNat_u16 _ hlen]
    have e2 : Bytes.slice r (i + 2) (i + 2 + (extsPayload es).length) = extsPayload es := by
      have := slice_cursor r (pre ++ u16 (extsPayload es).length) (extsPayload es) [] (i + 2)
        (i + 2 + (extsPayload es).length)
        (by rw [h]; simp only [encodeOptExts, encodeExts, vec16, List.append_assoc, List.append_nil])
        (by simp only [List.length_append, u16_length, hi]) rfl
      exact this
    rw [e2]
    exact parseExts_payload es hes

theorem extGet_mem (e : Session.Exts) (k v : Bytes) (h : Session.extGet e k = some v) : (k, v) ∈ e := by
  unfold Session.extGet at h
  obtain ⟨p, hp, rfl⟩ := Option.map_eq_some_iff.mp h
  have h1 := List.find?_some hp
  have h2 := List.mem_of_find?_eq_some hp
  simp only [decide_eq_true_eq] at h1
  rw [← h1]
  exact List.mem_reverse.mp h2

theorem extGet_of_unique (e : Session.Exts) (k v : Bytes) (hm : (k, v) ∈ e) (hu : ∀ p ∈ e, p.1 = k → p.2 = v) :
    Session.extGet e k = some v := by
  unfold Session.extGet
  cases hf : e.reverse.find? (fun p => decide (p.1 = k)) with
  | none =>
    have := List.find?_eq_none.mp hf (k, v) (List.mem_reverse.mpr hm)
    simp at this
  | some p =>
    have h1 := List.find?_some hf
    have h2 := List.mem_reverse.mp (List.mem_of_find?_eq_some hf)
    simp only [decide_eq_true_eq] at h1
    simp [hu p h2 h1]

theorem extGet_isSome_iff (e : Session.Exts) (k : Bytes) :
    (Session.extGet e k).isSome = true ↔ ∃ p ∈ e, p.1 = k := by
  unfold Session.extGet
  rw [Option.isSome_map, List.find?_isSome]
  simp

theorem u16_inj (a b : Nat) (ha : a < 65536) (hb : b < 65536) (h : u16 a = u16 b) : a = b := by
  rw [← beNat_u16 a ha, ← beNat_u16 b hb, h]

/-- a TLS-over-TCP record carrying one handshake message (RFC 5246 §6.2.1 TLSPlaintext, type 22) -/
def hsRecord (recVer msg : Bytes) : Bytes := Spec.TlsSender.record 22 recVer msg

theorem hsRecord_fields (recVer msg : Bytes) (car : List Nat) (hv : recVer.length = 2) :
    (⟨hsRecord recVer msg, car⟩ : Session.Rec).typ = some 22 ∧
    (⟨hsRecord recVer msg, car⟩ : Session.Rec).ver = recVer ∧
    (⟨hsRecord recVer msg, car⟩ : Session.Rec).body = msg := by
  match recVer, hv with
  | [a, b], _ =>
    have h2 := Lemmas.RecLayer.u16_length msg.length
    simp only [hsRecord, Spec.TlsSender.record, Session.Rec.typ, Session.Rec.ver, Session.Rec.body]
    generalize Spec.TlsSender.u16 msg.length = l at *
    match l, h2 with
    | [l1, l2], _ => exact ⟨rfl, rfl, rfl⟩

/-- `handle_tls_server_hello` on an RFC-encoded ServerHello: the fields it slices out are the fields sent -/
theorem serverHello_layout {δ : Type} (O : Session.Ops δ) (s : Session.St δ) (recVer : Bytes)
    (hrv : recVer.length = 2) (sh : ServerHello) (hwf : sh.WellFormed) (car : List Nat) :
    Session.serverHello O s ⟨hsRecord recVer (encodeServerHello sh), car⟩ =
      Session.serverHelloKeys O
        (Session.chooseVersion (Session.latch s) (Bytes.beNat recVer) (Bytes.beNat sh.legacyVersion)
          (decide (Session.extGet ((sh.extensions.getD []).map extPair) [0x00, 0x2b] = some [0x03, 0x04])))
        sh.cipherSuite sh.random ((sh.extensions.getD []).map extPair) sh.compressionMethod := by
  obtain ⟨hlv, hrnd, hsid, hsuite, hext, hlen⟩ := hwf
  obtain ⟨_, hver, hbody⟩ := hsRecord_fields recVer (encodeServerHello sh) car hrv
  have hsid' : sh.sessionIdEcho.length < 256 := by omega
  unfold Session.serverHello
  simp only [hver, hbody]
  have hr : encodeServerHello sh = (u8 2 ++ u24 sh.body.length) ++ (sh.legacyVersion ++ (sh.random ++
      (UInt8.ofNat sh.sessionIdEcho.length :: (sh.sessionIdEcho ++ (sh.cipherSuite ++
        (sh.compressionMethod :: encodeOptExts sh.extensions)))))) := by
    simp only [encodeServerHello, handshake, ServerHello.body, vec8, u8_eq, List.append_assoc, List.cons_append,
      List.nil_append]
  generalize encodeServerHello sh = r at hr
  have hh : (u8 2 ++ u24 sh.body.length).length = 4 := by simp only [List.length_append, u8_length, u24_length]
  have e1 : r[38]? = some (UInt8.ofNat sh.sessionIdEcho.length) :=
    get_cursor r ((u8 2 ++ u24 sh.body.length) ++ (sh.legacyVersion ++ sh.random)) _
      (sh.sessionIdEcho ++ (sh.cipherSuite ++ (sh.compressionMethod :: encodeOptExts sh.extensions))) 38
      (by rw [hr]; simp only [List.append_assoc]) (by simp only [List.length_append] at hh ⊢; omega)
  have e2 : Bytes.slice r 4 6 = sh.legacyVersion :=
    slice_cursor r _ _ _ 4 6 hr hh (by omega)
  have e3 : Bytes.slice r 6 38 = sh.random :=
    slice_cursor r ((u8 2 ++ u24 sh.body.length) ++ sh.legacyVersion) sh.random
      (UInt8.ofNat sh.sessionIdEcho.length :: (sh.sessionIdEcho ++ (sh.cipherSuite ++
        (sh.compressionMethod :: encodeOptExts sh.extensions)))) 6 38
      (by rw [hr]; simp only [List.append_assoc]) (by simp only [List.length_append] at hh ⊢; omega) (by omega)
  have e4 : Bytes.slice r (38 + sh.sessionIdEcho.length + 1) (38 + sh.sessionIdEcho.length + 1 + 2) = sh.cipherSuite :=
    slice_cursor r ((u8 2 ++ u24 sh.body.length) ++ (sh.legacyVersion ++ (sh.random ++
        (UInt8.ofNat sh.sessionIdEcho.length :: sh.sessionIdEcho)))) sh.cipherSuite
      (sh.compressionMethod :: encodeOptExts sh.extensions) _ _
      (by rw [hr]; simp only [List.append_assoc, List.cons_append])
      (by simp only [List.length_append, List.length_cons] at hh ⊢; omega) (by omega)
  have e5 : r[38 + sh.sessionIdEcho.length + 1 + 2]? = some sh.compressionMethod :=
    get_cursor r ((u8 2 ++ u24 sh.body.length) ++ (sh.legacyVersion ++ (sh.random ++
        (UInt8.ofNat sh.sessionIdEcho.length :: (sh.sessionIdEcho ++ sh.cipherSuite))))) sh.compressionMethod
      (encodeOptExts sh.extensions) _
      (by rw [hr]; simp only [List.append_assoc, List.cons_append])
      (by simp only [List.length_append, List.length_cons] at hh ⊢; omega)
  have e6 := extblk_parse r ((u8 2 ++ u24 sh.body.length) ++ (sh.legacyVersion ++ (sh.random ++
        (UInt8.ofNat sh.sessionIdEcho.length :: (sh.sessionIdEcho ++ (sh.cipherSuite ++ [sh.compressionMethod]))))))
      sh.extensions hext (38 + sh.sessionIdEcho.length + 1 + 3)
      (by rw [hr]; simp only [List.append_assoc, List.cons_append, List.nil_append])
      (by simp only [List.length_append, List.length_cons, List.length_nil] at hh ⊢; omega)
  simp only [e1, toNat_ofNat _ hsid']
  generalize 38 + sh.sessionIdEcho.length + 1 = n at e4 e5 e6 ⊢
  have h5 : n + 3 + 2 = n + 5 := by omega
  rw [h5] at e6
  simp only [e2, e3, e4, e5, e6]

theorem clientHello_layout (ch : ClientHello) (hwf : ch.WellFormed) :
    Bytes.slice (encodeClientHello ch) 6 38 = ch.random ∧
    ∃ rest, encodeClientHello ch = 1 :: rest := by
  obtain ⟨hlv, hrnd, _⟩ := hwf
  have hh : (u8 1 ++ u24 ch.body.length).length = 4 := by simp only [List.length_append, u8_length, u24_length]
  constructor
  · exact slice_cursor _ ((u8 1 ++ u24 ch.body.length) ++ ch.legacyVersion) ch.random
      (vec8 ch.sessionId ++ (vec16 ch.cipherSuites.flatten ++ (vec8 ch.compression ++ encodeOptExts ch.extensions))) 6 38
      (by simp only [encodeClientHello, handshake, ClientHello.body, List.append_assoc])
      (by simp only [List.length_append] at hh ⊢; omega) (by omega)
  · exact ⟨_, by simp only [encodeClientHello, handshake, u8_eq, List.cons_append, List.nil_append]; rfl⟩

/-- The protocol version a ServerHello record announces (SSL 3.0 – TLS 1.2: RFC 6101 §5.6.1.2 / RFC 5246 §7.4.1.3,
    Appendix E.1: `server_version`, and the record layer uses the negotiated version from the ServerHello on;
    TLS 1.3: RFC 8446 §4.1.3, §4.2.1, §5.1: `legacy_version = legacy_record_version = 0x0303`, the version is in the
    `supported_versions` extension (type 43), extension types are unique in a block, §4.2). -/
def Negotiated (recVer : Bytes) (sh : ServerHello) : Session.Ver → Prop
  | .ssl30 => recVer = [3, 0] ∧ sh.legacyVersion = [3, 0]
  | .tls10 => recVer = [3, 1] ∧ sh.legacyVersion = [3, 1]
  | .tls11 => recVer = [3, 2] ∧ sh.legacyVersion = [3, 2]
  | .tls12 => recVer = [3, 3] ∧ sh.legacyVersion = [3, 3] ∧
      ∀ e ∈ sh.extensions.getD [], e.ty = 43 → e.body ≠ [3, 4]
  | .tls13 => recVer = [3, 3] ∧ sh.legacyVersion = [3, 3] ∧ ((sh.extensions.getD []).map (·.ty)).Nodup ∧
      ∃ e ∈ sh.extensions.getD [], e.ty = 43 ∧ e.body = [3, 4]

theorem nodup_map_inj {α β : Type} (f : α → β) (l : List α) (h : (l.map f).Nodup) :
    ∀ a ∈ l, ∀ b ∈ l, f a = f b → a = b := by
  induction l with
  | nil => simp
  | cons x xs ih =>
    simp only [List.map_cons, List.nodup_cons, List.mem_map, not_exists, not_and] at h
    intro a ha b hb hab
    rcases List.mem_cons.mp ha with rfl | ha' <;> rcases List.mem_cons.mp hb with rfl | hb'
    · rfl
    · exact absurd hab.symm (h.1 b hb')
    · exact absurd hab (h.1 a ha')
    · exact ih h.2 a ha' b hb' hab

theorem is13_iff (es : List Ext) (hwf : ∀ e ∈ es, e.wf) :
    ((∀ e ∈ es, e.ty = 43 → e.body ≠ [3, 4]) → Session.extGet (es.map extPair) [0x00, 0x2b] ≠ some [0x03, 0x04]) ∧
    ((es.map (·.ty)).Nodup → (∃ e ∈ es, e.ty = 43 ∧ e.body = [3, 4]) →
      Session.extGet (es.map extPair) [0x00, 0x2b] = some [0x03, 0x04]) := by
  have h43 : ([0x00, 0x2b] : Bytes) = u16 43 := by decide
  constructor
  · intro hno hget
    have := extGet_mem _ _ _ hget
    obtain ⟨e, he, hp⟩ := List.mem_map.mp this
    simp only [extPair, Prod.mk.injEq] at hp
    rw [h43] at hp
    exact hno e he (u16_inj _ _ (hwf e he).1 (by omega) hp.1) hp.2
  · rintro hnd ⟨e, he, hty, hb⟩
    apply extGet_of_unique
    · exact List.mem_map.mpr ⟨e, he, by simp [extPair, hty, hb, h43]⟩
    · intro p hp hk
      obtain ⟨e', he', rfl⟩ := List.mem_map.mp hp
      simp only [extPair] at hk ⊢
      rw [h43] at hk
      have hty' : e'.ty = e.ty := by rw [hty]; exact u16_inj _ _ (hwf e' he').1 (by omega) hk
      have : e' = e := nodup_map_inj (·.ty) _ hnd e' he' e he hty'
      rw [this, hb]

theorem chooseVersion_negotiated {δ : Type} (s : Session.St δ) (recVer : Bytes) (sh : ServerHello)
    (hwf : sh.WellFormed) (v : Session.Ver) (h : Negotiated recVer sh v) :
    Session.chooseVersion s (Bytes.beNat recVer) (Bytes.beNat sh.legacyVersion)
      (decide (Session.extGet ((sh.extensions.getD []).map extPair) [0x00, 0x2b] = some [0x03, 0x04]))
      = { s with ver := some v } := by
  have hes : ∀ e ∈ sh.extensions.getD [], e.wf := by
    have := hwf.2.2.2.2.1
    cases hx : sh.extensions with
    | none => simp
    | some es => rw [hx] at this; exact this.1
  obtain ⟨h1, h2⟩ := is13_iff _ hes
  have b0 : Bytes.beNat [3, 0] = 768 := by decide
  have b1 : Bytes.beNat [3, 1] = 769 := by decide
  have b2 : Bytes.beNat [3, 2] = 770 := by decide
  have b3 : Bytes.beNat [3, 3] = 771 := by decide
  cases v with
  | ssl30 => obtain ⟨a, b⟩ := h; rw [a, b]; simp [Session.chooseVersion, b0]
  | tls10 => obtain ⟨a, b⟩ := h; rw [a, b]; simp [Session.chooseVersion, b1]
  | tls11 => obtain ⟨a, b⟩ := h; rw [a, b]; simp [Session.chooseVersion, b2]
  | tls12 =>
    obtain ⟨a, b, c⟩ := h
    rw [a, b, decide_eq_false (h1 c)]; simp [Session.chooseVersion, b3]
  | tls13 =>
    obtain ⟨a, b, c, d⟩ := h
    rw [a, b, decide_eq_true (h2 c d)]; simp [Session.chooseVersion, b3]

end TLX.Lemmas.Pipeline
